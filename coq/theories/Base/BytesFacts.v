(* Base/BytesFacts.v — lemmas about Base/Bytes.v *)
From RG Require Import Base.Bytes.

Lemma bytes_eqb_eq a b : bytes_eqb a b = true <-> a = b.
Proof.
  revert b; induction a as [|x xs IH]; intros [|y ys]; cbn [bytes_eqb]; split; intro H;
    try reflexivity; try discriminate.
  - apply andb_true_iff in H as [H1 H2]. apply N.eqb_eq in H1. apply IH in H2. congruence.
  - injection H as -> ->. apply andb_true_iff; split; [apply N.eqb_refl| now apply IH].
Qed.

Lemma take_drop_while {A} (f : A -> bool) l : take_while f l ++ drop_while f l = l.
Proof. induction l as [|x xs IH]; cbn; [reflexivity|]. destruct (f x); cbn; congruence. Qed.

Lemma take_while_all {A} (f : A -> bool) l : forallb f (take_while f l) = true.
Proof. induction l as [|x xs IH]; cbn; [reflexivity|]. destruct (f x) eqn:E; cbn; [rewrite E; exact IH|reflexivity]. Qed.

Lemma drop_while_head {A} (f : A -> bool) l x r : drop_while f l = x :: r -> f x = false.
Proof.
  induction l as [|y ys IH]; cbn; [discriminate|]. destruct (f y) eqn:E; [exact IH|].
  intro H; injection H as -> _. exact E.
Qed.

Lemma drop_while_skipn {A} (f : A -> bool) l : drop_while f l = skipn (length (take_while f l)) l.
Proof. induction l as [|x xs IH]; cbn; [reflexivity|]. destruct (f x); cbn; [exact IH|reflexivity]. Qed.

Lemma find_index_none {A} (f : A -> bool) l : find_index f l = None <-> forallb (fun x => negb (f x)) l = true.
Proof.
  induction l as [|x xs IH]; cbn; [tauto|]. destruct (f x); cbn; [split; discriminate|].
  destruct (find_index f xs); cbn; [split; [discriminate|]|tauto].
  intro H. apply IH in H. discriminate.
Qed.

Lemma find_index_some {A} (f : A -> bool) l i :
  find_index f l = Some i ->
  i < length l /\ forallb (fun x => negb (f x)) (firstn i l) = true /\
  exists x r, skipn i l = x :: r /\ f x = true.
Proof.
  revert i; induction l as [|x xs IH]; cbn; intros i H; [discriminate|].
  destruct (f x) eqn:E.
  - injection H as <-. cbn. split; [lia|]. split; [reflexivity|]. eauto.
  - destruct (find_index f xs) as [k|] eqn:F; cbn in H; [|discriminate]. injection H as <-.
    destruct (IH k eq_refl) as (H1 & H2 & y & r & H3 & H4). cbn. rewrite E. cbn.
    split; [lia|]. split; [exact H2|]. eauto.
Qed.
