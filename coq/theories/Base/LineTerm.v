(* Base/LineTerm.v — mirrors grep_matcher::LineTerminator (crates/matcher/src/lib.rs) *)
From RG Require Import Base.Bytes.

Inductive lineterm := LTByte (b : byte) | LTCrlf.
(* LineTerminator::as_bytes *)
Definition lt_bytes (lt : lineterm) : bytes :=
  match lt with LTByte b => [b] | LTCrlf => [13; 10]%N end.
(* LineTerminator::as_byte: the last byte *)
Definition lt_byte (lt : lineterm) : byte := match lt with LTByte b => b | LTCrlf => 10%N end.
(* LineTerminator::is_suffix — `slice.last() == Some(as_byte())` *)
Definition lt_is_suffix (lt : lineterm) (s : bytes) : bool :=
  match rev s with b :: _ => (b =? lt_byte lt)%N | [] => false end.
Definition lt_is_crlf (lt : lineterm) : bool := match lt with LTCrlf => true | _ => false end.
Definition lt_eqb (a b : lineterm) : bool :=
  match a, b with
  | LTByte x, LTByte y => (x =? y)%N
  | LTCrlf, LTCrlf => true
  | _, _ => false
  end.
