(* Base/Val.v — universal value type used to pass test cases to the extracted model and
   to print results.  The OCaml driver only parses/prints [val]; all decoding of a case
   into model arguments is Gallina (Run/*.v). *)
From RG Require Import Base.Bytes.

Inductive val := VN (n : N) | VL (l : list val).

Definition as_N (v : val) : N := match v with VN n => n | VL _ => 0%N end.
Definition as_nat (v : val) : nat := N.to_nat (as_N v).
Definition as_list (v : val) : list val := match v with VL l => l | VN _ => [] end.
Definition as_bytes (v : val) : bytes := map as_N (as_list v).
Definition as_bool (v : val) : bool := negb (as_N v =? 0)%N.
Definition fld (i : nat) (v : val) : val := nth i (as_list v) (VN 0%N).
(* options are encoded as () / (x) *)
Definition as_option {A} (f : val -> A) (v : val) : option A :=
  match as_list v with [] => None | x :: _ => Some (f x) end.

Definition of_N (n : N) : val := VN n.
Definition of_nat (n : nat) : val := VN (N.of_nat n).
Definition of_bool (b : bool) : val := VN (if b then 1 else 0)%N.
Definition of_bytes (b : bytes) : val := VL (map VN b).
Definition of_option {A} (f : A -> val) (o : option A) : val :=
  match o with None => VL [] | Some x => VL [f x] end.
Definition of_list {A} (f : A -> val) (l : list A) : val := VL (map f l).
