(* Base/Bytes.v — bytes are N, byte strings are lists of N.
   Shared small list helpers used by several models.  Definitions only. *)
From Coq Require Export List NArith Arith Bool Lia.
Export ListNotations.

Notation byte := N (only parsing).
Notation bytes := (list N) (only parsing).

Arguments N.add : simpl never.
Arguments N.sub : simpl never.
Arguments N.mul : simpl never.
Arguments N.eqb : simpl never.
Arguments N.ltb : simpl never.
Arguments N.leb : simpl never.

(* s[i..j) with Rust slice semantics for i <= j <= length s *)
Definition sub {A} (s : list A) (i j : nat) : list A := firstn (j - i) (skipn i s).

Fixpoint take_while {A} (f : A -> bool) (l : list A) : list A :=
  match l with
  | [] => []
  | x :: xs => if f x then x :: take_while f xs else []
  end.

Fixpoint drop_while {A} (f : A -> bool) (l : list A) : list A :=
  match l with
  | [] => []
  | x :: xs => if f x then drop_while f xs else l
  end.

(* index of the first element satisfying f *)
Fixpoint find_index {A} (f : A -> bool) (l : list A) : option nat :=
  match l with
  | [] => None
  | x :: xs => if f x then Some 0 else option_map S (find_index f xs)
  end.

Definition memchr (b : byte) (l : bytes) : option nat := find_index (N.eqb b) l.

Fixpoint bytes_eqb (a b : bytes) : bool :=
  match a, b with
  | [], [] => true
  | x :: xs, y :: ys => N.eqb x y && bytes_eqb xs ys
  | _, _ => false
  end.

Definition is_suffix_of (suf s : bytes) : bool :=
  Nat.leb (length suf) (length s) && bytes_eqb (skipn (length s - length suf) s) suf.

Fixpoint is_prefix_of (pre s : bytes) : bool :=
  match pre, s with
  | [], _ => true
  | x :: xs, y :: ys => N.eqb x y && is_prefix_of xs ys
  | _, [] => false
  end.

(* list lookup by an N index without building a unary number *)
Fixpoint nth_N {A} (l : list A) (i : N) (d : A) : A :=
  match l with
  | [] => d
  | x :: xs => if (i =? 0)%N then x else nth_N xs (N.pred i) d
  end.
