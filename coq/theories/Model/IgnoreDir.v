(* Model/IgnoreDir.v — mirrors (definitions only)
     crates/ignore/src/lib.rs      Match::{is_none,is_ignore,is_whitelist,invert,or}
     crates/ignore/src/pathutil.rs strip_prefix, file_name (unix), is_hidden (unix)
     crates/ignore/src/overrides.rs Override::matched
     crates/ignore/src/types.rs    Types::matched
     crates/ignore/src/dir.rs      IgnoreBuilder::build, Ignore::add_parents, Ignore::add_child_path,
                                   Ignore::has_any_ignore_rules, Ignore::matched_dir_entry, Ignore::matched,
                                   Ignore::matched_ignore (both scans, any_git / saw_git, the absolute-parent
                                   path surgery), Parents
     crates/ignore/src/walk.rs     should_skip_entry, Walk::skip_entry's depth-0 exemption, the descent
                                   (WalkBuilder::build/Walk::next seen as a recursion over a finite tree;
                                   the iterator bookkeeping itself is Model/Walk.v, property C06)
     crates/core/flags/hiargs.rs   HiArgs::walk_builder (flag -> builder mapping)
     crates/core/flags/defs.rs     NoIgnore::update, Unrestricted::update (which low flags they set)
     crates/core/haystack.rs       HaystackBuilder::build, Haystack::is_explicit
   Every (directory, rule source) matcher — a compiled `Gitignore` — is an abstract function
   path -> is_dir -> mtch; what a gitignore file means is property C04's business. *)
From RG Require Import Base.Bytes.

(* ---------------------------------------------------------------- lib.rs: Match<T> (payload dropped) *)
Inductive mtch := MNone | MIgnore | MWhitelist.

Definition m_is_none (m : mtch) : bool := match m with MNone => true | _ => false end.
Definition m_is_ignore (m : mtch) : bool := match m with MIgnore => true | _ => false end.
Definition m_is_whitelist (m : mtch) : bool := match m with MWhitelist => true | _ => false end.
Definition m_invert (m : mtch) : mtch :=
  match m with MNone => MNone | MIgnore => MWhitelist | MWhitelist => MIgnore end.
(* Match::or: "Return the match if it is not none. Otherwise, return other." *)
Definition m_or (a b : mtch) : mtch := if m_is_none a then b else a.

(* Gitignore::matched(path, is_dir) of one compiled rule file *)
Definition gmatcher := bytes -> bool -> mtch.
Definition g_empty : gmatcher := fun _ _ => MNone.

(* ---------------------------------------------------------------- pathutil.rs (unix) *)
Definition SLASH : N := 47.
Definition DOT : N := 46.

Definition strip_prefix (pre path : bytes) : option bytes :=
  if is_prefix_of pre path then Some (skipn (length pre) path) else None.

(* index one past the last '/', 0 when there is none:  memrchr(b'/', path).map(|i| i + 1).unwrap_or(0) *)
Fixpoint after_last_slash_from (i : nat) (best : nat) (p : bytes) : nat :=
  match p with
  | [] => best
  | c :: r => after_last_slash_from (S i) (if (c =? SLASH)%N then S i else best) r
  end.
Definition after_last_slash (p : bytes) : nat := after_last_slash_from 0 0 p.

(* file_name as in the tree (after the repair of D4) *)
Definition file_name (path : bytes) : option bytes :=
  match path with
  | [] => None
  | _ =>
    let name := skipn (after_last_slash path) path in
    if bytes_eqb name [DOT] || bytes_eqb name [DOT; DOT] then None else Some name
  end.

(* file_name as it was on the pinned tree (kept for the refutation of D4) *)
Definition file_name_pinned (path : bytes) : option bytes :=
  match path with
  | [] => None
  | _ =>
    if Nat.eqb (length path) 1 && (nth 0 path 0 =? DOT)%N then None
    else if (last path 0 =? DOT)%N then None
    else if Nat.leb 2 (length path) && bytes_eqb (skipn (length path - 2) path) [DOT; DOT] then None
    else Some (skipn (after_last_slash path) path)
  end.

Definition is_hidden_with (fname : bytes -> option bytes) (path : bytes) : bool :=
  match fname path with
  | Some name => match name with c :: _ => (c =? DOT)%N | [] => false end
  | None => false
  end.
Definition is_hidden := is_hidden_with file_name.

(* std::path::Path::join on unix byte paths (the argument is never absolute where the model uses it
   except when it replaces the base, as std does) *)
Definition path_join (base p : bytes) : bytes :=
  match p with
  | c :: _ => if (c =? SLASH)%N then p else
              match base with
              | [] => p
              | _ => if (last base 0 =? SLASH)%N then base ++ p else base ++ SLASH :: p
              end
  | [] => match base with [] => [] | _ => if (last base 0 =? SLASH)%N then base else base ++ [SLASH] end
  end.

(* ---------------------------------------------------------------- overrides.rs *)
Record overrides := {
  ov_is_empty : bool;            (* Gitignore::is_empty of the inner matcher: no -g glob at all *)
  ov_gi : gmatcher;              (* the inner gitignore matcher built from the -g globs *)
  ov_has_whitelist : bool        (* num_whitelists() > 0: some glob without a leading '!' *)
}.

Definition override_matched (ov : overrides) (path : bytes) (is_dir : bool) : mtch :=
  if ov_is_empty ov then MNone else
  let mat := m_invert (ov_gi ov path is_dir) in
  if m_is_none mat && ov_has_whitelist ov && negb is_dir then MIgnore else mat.

(* ---------------------------------------------------------------- types.rs *)
Record types := {
  ty_is_empty : bool;                   (* selections.is_empty() *)
  ty_set_is_empty : bool;               (* self.set.is_empty() *)
  ty_has_selected : bool;               (* some -t (non negated) selection *)
  ty_last : bytes -> option bool        (* file name -> the last matching glob's selection: Some negated *)
}.

Definition types_matched_with (fname : bytes -> option bytes) (ty : types) (path : bytes) (is_dir : bool) : mtch :=
  if is_dir || ty_set_is_empty ty then MNone else
  match fname path with
  | None => if ty_has_selected ty then MIgnore else MNone
  | Some name =>
    match ty_last ty name with
    | Some negated => if negated then MIgnore else MWhitelist
    | None => if ty_has_selected ty then MIgnore else MNone
    end
  end.
Definition types_matched := types_matched_with file_name.

(* ---------------------------------------------------------------- dir.rs *)
Record opts := {
  o_hidden : bool; o_ignore : bool; o_parents : bool; o_git_global : bool;
  o_git_ignore : bool; o_git_exclude : bool; o_require_git : bool
}.

(* what `dir/.git` is on disk (after following symbolic links, as fs::metadata does): nothing, a
   directory (an ordinary repository), or a regular file (a gitlink `gitdir: <path>`: the root of a
   linked worktree or of a submodule) *)
Inductive dotgit := GitAbsent | GitDir | GitFile.

(* Ignore::add_child_path: dir.join(".git").metadata().ok().map(|md| md.file_type()) ... 
   has_git = git_type.map(|_| true).unwrap_or(false) *)
Definition child_dotgit_test (k : dotgit) : bool :=
  match k with GitAbsent => false | GitDir => true | GitFile => true end.
(* Ignore::add_parents: parent.join(".git").exists() *)
Definition parent_dotgit_test (k : dotgit) : bool :=
  match k with GitAbsent => false | GitDir => true | GitFile => true end.

(* what one directory carries on disk, as compiled by create_gitignore for each source *)
Record dirinfo := {
  di_path : bytes;            (* the directory's path as the walker spells it *)
  di_custom : gmatcher;       (* custom ignore file names (.rgignore for rg) *)
  di_dotignore : gmatcher;    (* .ignore *)
  di_gitignore : gmatcher;    (* .gitignore *)
  di_exclude : gmatcher;      (* $GIT_COMMON_DIR/info/exclude of the repository rooted here (through the gitlink when .git is a file) *)
  di_dotgit : dotgit          (* what dir/.git is *)
}.

(* IgnoreInner, per directory part *)
Record node := {
  nd_dir : bytes;
  nd_custom : gmatcher; nd_ignore : gmatcher; nd_gi : gmatcher; nd_excl : gmatcher;
  nd_has_git : bool;
  nd_abs : bool               (* is_absolute_parent *)
}.

(* IgnoreInner, the part shared down the chain *)
Record shared := {
  sh_overrides : overrides;
  sh_types : types;
  sh_explicit : list gmatcher;       (* explicit_ignores, in the order added *)
  sh_custom_names_empty : bool;      (* custom_ignore_filenames.is_empty() *)
  sh_global : gmatcher;              (* git_global_matcher *)
  sh_opts : opts
}.

(* An Ignore value: the chain self :: parent :: ... :: builder root, and self's absolute_base *)
Record ignore := {
  ig_nodes : list node;
  ig_abs_base : option bytes;
  ig_sh : shared
}.

(* what the command line / the user's home supply *)
Record env := {
  e_overrides : overrides;
  e_types : types;
  e_explicit : list gmatcher;        (* --ignore-file, in order *)
  e_custom_names_empty : bool;
  e_global : gmatcher                (* the global gitignore file's rules *)
}.

(* IgnoreBuilder::build *)
Definition root_node : node :=
  {| nd_dir := []; nd_custom := g_empty; nd_ignore := g_empty; nd_gi := g_empty; nd_excl := g_empty;
     nd_has_git := false; nd_abs := true |}.

Definition build_root (o : opts) (e : env) : ignore :=
  {| ig_nodes := [root_node];
     ig_abs_base := None;
     ig_sh := {| sh_overrides := e_overrides e; sh_types := e_types e; sh_explicit := e_explicit e;
                 sh_custom_names_empty := e_custom_names_empty e;
                 sh_global := if o_git_global o then e_global e else g_empty;
                 sh_opts := o |} |}.

(* Ignore::add_child_path (the node it creates) *)
(* add_child_path's `git_type`: dir/.git is looked at whenever a git source is on (since the repair of
   GitlinkExcludeNoRequire independently of require_git); otherwise it is None, like for a directory
   without .git *)
Definition git_type_seen (o : opts) (d : dirinfo) : dotgit :=
  if o_git_ignore o || o_git_exclude o then di_dotgit d else GitAbsent.
(* as it was on the pinned tree (kept for the refutation): only when repositories are required *)
Definition git_type_seen_pinned (o : opts) (d : dirinfo) : dotgit :=
  if o_require_git o && (o_git_ignore o || o_git_exclude o) then di_dotgit d else GitAbsent.

(* resolve_git_commondir(dir, git_type) followed by create_gitignore(dir, git_dir, ["info/exclude"]):
   when git_type says "file" the gitlink is followed to $GIT_COMMON_DIR, whose info/exclude is
   [di_exclude]; otherwise dir/.git is taken for the git directory -- if that is in fact a gitfile
   (git_type was not computed) nothing can be opened below it and the matcher is empty *)
Definition exclude_as_read_with (seen : opts -> dirinfo -> dotgit) (o : opts) (d : dirinfo) : gmatcher :=
  match seen o d, di_dotgit d with
  | GitFile, _ => di_exclude d
  | _, GitFile => g_empty
  | _, _ => di_exclude d
  end.
Definition exclude_as_read := exclude_as_read_with git_type_seen.

Definition child_node (sh : shared) (d : dirinfo) : node :=
  let o := sh_opts sh in
  (* has_git = self.0.opts.require_git && git_type.is_some() *)
  let has_git := o_require_git o && child_dotgit_test (git_type_seen o d) in
  {| nd_dir := di_path d;
     nd_custom := if sh_custom_names_empty sh then g_empty else di_custom d;
     nd_ignore := if negb (o_ignore o) then g_empty else di_dotignore d;
     nd_gi := if negb (o_git_ignore o) then g_empty else di_gitignore d;
     nd_excl := if negb (o_git_exclude o) then g_empty else exclude_as_read o d;
     nd_has_git := has_git;
     nd_abs := false |}.

Definition add_child (ig : ignore) (d : dirinfo) : ignore :=
  {| ig_nodes := child_node (ig_sh ig) d :: ig_nodes ig; ig_abs_base := ig_abs_base ig; ig_sh := ig_sh ig |}.

(* Ignore::add_parents.  [canon] = path.canonicalize() (None when it fails); [parents] = the
   directories above it, from the file system root downward, as found on disk.  The `compiled`
   cache is not modelled (see notes/C05.md). *)
Definition parent_node (sh : shared) (d : dirinfo) : node :=
  let o := sh_opts sh in
  let n := child_node sh d in
  {| nd_dir := nd_dir n; nd_custom := nd_custom n; nd_ignore := nd_ignore n; nd_gi := nd_gi n;
     nd_excl := nd_excl n;
     nd_has_git := if o_require_git o && o_git_ignore o then parent_dotgit_test (di_dotgit d) else false;
     nd_abs := true |}.

Definition add_parents (ig : ignore) (canon : option bytes) (parents : list dirinfo) : ignore :=
  let o := sh_opts (ig_sh ig) in
  if negb (o_parents o) && negb (o_git_ignore o) && negb (o_git_exclude o) && negb (o_git_global o) then ig
  else match canon with
  | None => ig
  | Some base =>
    {| ig_nodes := fold_left (fun acc d => parent_node (ig_sh ig) d :: acc) parents (ig_nodes ig);
       ig_abs_base := Some base; ig_sh := ig_sh ig |}
  end.

(* Ignore::has_any_ignore_rules *)
Definition has_any_ignore_rules (ig : ignore) : bool :=
  let sh := ig_sh ig in let o := sh_opts sh in
  o_ignore o || o_git_global o || o_git_ignore o || o_git_exclude o
  || negb (sh_custom_names_empty sh) || negb (match sh_explicit sh with [] => true | _ => false end).

(* one iteration of either scan loop of matched_ignore *)
Definition scan_acc := (mtch * mtch * mtch * mtch * bool)%type.
Definition scan_step (any_git : bool) (path : bytes) (is_dir : bool) (acc : scan_acc) (nd : node) : scan_acc :=
  let '(mc, mi, mg, me, saw) := acc in
  let mc' := if m_is_none mc then nd_custom nd path is_dir else mc in
  let mi' := if m_is_none mi then nd_ignore nd path is_dir else mi in
  let mg' := if any_git && negb saw && m_is_none mg then nd_gi nd path is_dir else mg in
  let me' := if any_git && negb saw && m_is_none me then nd_excl nd path is_dir else me in
  (mc', mi', mg', me', saw || nd_has_git nd).

(* the path handed to the matchers of absolute parents *)
Definition rebase (abs_parent_path dirpath path : bytes) : bytes :=
  let path_prefix := match strip_prefix [DOT; SLASH] dirpath with None => dirpath | Some s => s end in
  match strip_prefix path_prefix path with
  | None => path_join abs_parent_path path
  | Some p =>
    let p := match strip_prefix [SLASH] p with None => p | Some q => q end in
    path_join abs_parent_path p
  end.

(* for gi in explicit_ignores.iter().rev() { if !m.is_none() { break } m = gi.matched(..) } *)
Fixpoint explicit_scan (gis : list gmatcher) (path : bytes) (is_dir : bool) (m : mtch) : mtch :=
  match gis with
  | [] => m
  | gi :: r => if negb (m_is_none m) then m else explicit_scan r path is_dir (gi path is_dir)
  end.

Definition self_dir (ig : ignore) : bytes := match ig_nodes ig with n :: _ => nd_dir n | [] => [] end.

Definition matched_ignore (ig : ignore) (path : bytes) (is_dir : bool) : mtch :=
  let sh := ig_sh ig in let o := sh_opts sh in
  let any_git := negb (o_require_git o) || existsb nd_has_git (ig_nodes ig) in
  let acc1 := fold_left (scan_step any_git path is_dir)
                        (take_while (fun n => negb (nd_abs n)) (ig_nodes ig))
                        (MNone, MNone, MNone, MNone, false) in
  let acc2 :=
    if o_parents o then
      match ig_abs_base ig with
      | Some abs_parent_path =>
        let path' := rebase abs_parent_path (self_dir ig) path in
        fold_left (scan_step any_git path' is_dir)
                  (drop_while (fun n => negb (nd_abs n)) (ig_nodes ig)) acc1
      | None => acc1
      end
    else acc1 in
  let '(mc, mi, mg, me, _) := acc2 in
  let m_explicit := explicit_scan (rev (sh_explicit sh)) path is_dir MNone in
  let m_global := if any_git then sh_global sh path is_dir else MNone in
  m_or (m_or (m_or (m_or (m_or mc mi) mg) me) m_global) m_explicit.

(* Ignore::matched *)
Definition matched_with (fname : bytes -> option bytes) (ig : ignore) (path0 : bytes) (is_dir : bool) : mtch :=
  let path := match strip_prefix [DOT; SLASH] path0 with Some p => p | None => path0 end in
  let sh := ig_sh ig in
  let ovm := if negb (ov_is_empty (sh_overrides sh)) then override_matched (sh_overrides sh) path is_dir else MNone in
  if negb (m_is_none ovm) then ovm else
  let igm := if has_any_ignore_rules ig then matched_ignore ig path is_dir else MNone in
  if m_is_ignore igm then igm else
  let whitelisted := if m_is_whitelist igm then igm else MNone in
  let tym := if negb (ty_is_empty (sh_types sh)) then types_matched_with fname (sh_types sh) path is_dir else MNone in
  if m_is_ignore tym then tym else
  if m_is_whitelist tym then tym else whitelisted.
Definition matched := matched_with file_name.

(* Ignore::matched_dir_entry *)
Definition matched_dir_entry_with (fname : bytes -> option bytes) (ig : ignore) (path : bytes) (is_dir : bool) : mtch :=
  let m := matched_with fname ig path is_dir in
  if m_is_none m && o_hidden (sh_opts (ig_sh ig)) && is_hidden_with fname path then MIgnore else m.
Definition matched_dir_entry := matched_dir_entry_with file_name.

(* walk.rs should_skip_entry *)
Definition should_skip_entry (ig : ignore) (path : bytes) (is_dir : bool) : bool :=
  m_is_ignore (matched_dir_entry ig path is_dir).

(* ---------------------------------------------------------------- flags: defs.rs / hiargs.rs *)
Record lowflags := {
  f_hidden : bool; f_no_ignore_dot : bool; f_no_ignore_exclude : bool; f_no_ignore_files : bool;
  f_no_ignore_global : bool; f_no_ignore_parent : bool; f_no_ignore_vcs : bool; f_no_require_git : bool
}.
Definition flags_default : lowflags :=
  {| f_hidden := false; f_no_ignore_dot := false; f_no_ignore_exclude := false; f_no_ignore_files := false;
     f_no_ignore_global := false; f_no_ignore_parent := false; f_no_ignore_vcs := false;
     f_no_require_git := false |}.

(* NoIgnore::update(true) *)
Definition flag_no_ignore (f : lowflags) : lowflags :=
  {| f_hidden := f_hidden f; f_no_ignore_dot := true; f_no_ignore_exclude := true;
     f_no_ignore_files := f_no_ignore_files f; f_no_ignore_global := true; f_no_ignore_parent := true;
     f_no_ignore_vcs := true; f_no_require_git := f_no_require_git f |}.
(* Hidden::update(true) *)
Definition flag_hidden (f : lowflags) : lowflags :=
  {| f_hidden := true; f_no_ignore_dot := f_no_ignore_dot f; f_no_ignore_exclude := f_no_ignore_exclude f;
     f_no_ignore_files := f_no_ignore_files f; f_no_ignore_global := f_no_ignore_global f;
     f_no_ignore_parent := f_no_ignore_parent f; f_no_ignore_vcs := f_no_ignore_vcs f;
     f_no_require_git := f_no_require_git f |}.
(* Unrestricted::update applied n times (the third sets the binary mode, which is not a filter) *)
Definition flag_unrestricted (n : nat) (f : lowflags) : lowflags :=
  match n with
  | 0 => f
  | 1 => flag_no_ignore f
  | _ => flag_hidden (flag_no_ignore f)
  end.

(* HiArgs::walk_builder: the IgnoreOptions it configures ... *)
Definition walk_builder_opts (f : lowflags) : opts :=
  {| o_hidden := negb (f_hidden f);
     o_ignore := negb (f_no_ignore_dot f);
     o_parents := negb (f_no_ignore_parent f);
     o_git_global := negb (f_no_ignore_vcs f) && negb (f_no_ignore_global f);
     o_git_ignore := negb (f_no_ignore_vcs f);
     o_git_exclude := negb (f_no_ignore_vcs f) && negb (f_no_ignore_exclude f);
     o_require_git := negb (f_no_require_git f) |}.

(* ... and the rule sources it hands over *)
Record cmdline := {
  c_globs : overrides;             (* -g / --iglob *)
  c_types : types;                 (* -t / -T / --type-add *)
  c_ignore_files : list gmatcher;  (* --ignore-file, in order *)
  c_global : gmatcher              (* what the global gitignore file says (home directory) *)
}.
Definition walk_builder_env (f : lowflags) (c : cmdline) : env :=
  {| e_overrides := c_globs c; e_types := c_types c;
     e_explicit := if negb (f_no_ignore_files f) then c_ignore_files c else [];
     e_custom_names_empty := f_no_ignore_dot f;       (* .rgignore is added unless --no-ignore-dot *)
     e_global := c_global c |}.

(* ---------------------------------------------------------------- the descent over a finite tree *)
Inductive tnode :=
| TFile (name : bytes)
| TDir (name : bytes) (rules : dirinfo) (kids : list tnode).   (* di_path of [rules] is ignored *)

Definition with_path (d : dirinfo) (p : bytes) : dirinfo :=
  {| di_path := p; di_custom := di_custom d; di_dotignore := di_dotignore d; di_gitignore := di_gitignore d;
     di_exclude := di_exclude d; di_dotgit := di_dotgit d |}.

Definition depth_ok (max_depth : option nat) (depth : nat) : bool :=
  match max_depth with None => true | Some m => Nat.leb depth m end.

(* entries of the directory [dirpath] (whose Ignore is [ig]) at depth [depth]: which files are yielded
   and pass HaystackBuilder::build *)
Fixpoint walk_entry (max_depth : option nat) (ig : ignore) (dirpath : bytes) (depth : nat) (t : tnode) : list bytes :=
  match t with
  | TFile name =>
    let p := path_join dirpath name in
    if negb (depth_ok max_depth depth) then [] else
    if should_skip_entry ig p false then [] else [p]
  | TDir name rules kids =>
    let p := path_join dirpath name in
    if negb (depth_ok max_depth depth) then [] else
    if should_skip_entry ig p true then [] else
    let ig' := add_child ig (with_path rules p) in
    (fix go (l : list tnode) : list bytes :=
       match l with [] => [] | k :: r => walk_entry max_depth ig' p (S depth) k ++ go r end) kids
  end.

(* one root given on the command line *)
Inductive root :=
| RFile (path : bytes)                                           (* not a directory: explicit haystack *)
| RDir (path : bytes) (canon : option bytes) (above : list dirinfo) (rules : dirinfo) (kids : list tnode).

Definition walk_root (max_depth : option nat) (ig_root : ignore) (r : root) : list bytes :=
  match r with
  | RFile p => [p]                 (* depth 0: skip_entry returns false; Haystack::is_explicit *)
  | RDir p canon above rules kids =>
    let ig := add_child (add_parents ig_root canon above) (with_path rules p) in
    flat_map (walk_entry max_depth ig p 1) kids
  end.

(* WalkBuilder configured directly (library level) *)
Definition lib_files (o : opts) (e : env) (max_depth : option nat) (roots : list root) : list bytes :=
  flat_map (walk_root max_depth (build_root o e)) roots.

(* rg --files: the builder as HiArgs::walk_builder configures it *)
Definition rg_files (f : lowflags) (c : cmdline) (max_depth : option nat) (roots : list root) : list bytes :=
  lib_files (walk_builder_opts f) (walk_builder_env f c) max_depth roots.
