(* Model/Glue.v — mirrors crates/searcher/src/searcher/glue.rs
     SliceByLine::{run, byte_count}
     MultiLine::{run, sink, sink_matched_inverted, sink_matched, sink_context, find, advance, byte_count}
   (ReadByLine is in Model/ReadByLine.v.)  Definitions only. *)
From RG Require Import Base.Bytes Model.Lines Model.SearcherCore.

(* DEFAULT_BUFFER_CAPACITY = 64 KiB, as an N to avoid a huge unary literal *)
Definition default_buffer_capacity : nat := N.to_nat 65536%N.

(* what a run returns: the log (oldest first) and whether an error was returned *)
Inductive run_result := RunOk (evs : list event) | RunErr (evs : list event) | RunFuel.

Section Glue.
  Variable cfg : config.
  Variable M : matcher.
  Variable reply_of : nat -> reply.

  (* core.finish(byte_count, binary_byte_offset): a sink call whose reply can only be Ok or Err *)
  Definition finish (c : core) (byte_count : nat) : run_result :=
    let e := EFinish byte_count (bin_off c) in
    match reply_of (length (log c)) with
    | Fail => RunErr (rev (e :: log c))
    | _ => RunOk (rev (e :: log c))
    end.

  Definition byte_count (c : core) : nat :=
    match bin_off c with
    | Some off => if Nat.ltb off (pos c) then off else pos c
    | None => pos c
    end.

  (* `while !slice[pos..].is_empty() && core.match_by_line(slice)? {}` *)
  Fixpoint slice_loop (fuel : nat) (c : core) (s : bytes) : outcome :=
    match fuel with
    | 0 => FUEL
    | S fuel' =>
      if Nat.leb (length s) (pos c) then OK true c else
      match match_by_line cfg M reply_of true c s with
      | OK true c' => slice_loop fuel' c' s
      | o => o
      end
    end.

  Definition slice_by_line_run (s : bytes) : run_result :=
    let c0 := core_new cfg in
    match emit reply_of c0 EBegin with
    | ERR c => RunErr (rev (log c))
    | FUEL => RunFuel
    | OK false c => finish c (byte_count c)
    | OK true c =>
      match detect_binary cfg reply_of c s 0 (Nat.min (length s) default_buffer_capacity) with
      | ERR c => RunErr (rev (log c))
      | FUEL => RunFuel
      | OK true c => finish c (byte_count c)
      | OK false c =>
        match slice_loop (S (S (length s))) c s with
        | ERR c => RunErr (rev (log c))
        | FUEL => RunFuel
        | OK _ c => finish c (byte_count c)
        end
      end
    end.

  (* ---------------- MultiLine ---------------- *)
  Record ml := { ml_core : core; ml_last : option (nat * nat) }.
  Inductive ml_outcome := MOK (b : bool) (m : ml) | MERR (c : core) | MFUEL.

  Definition ml_lift (o : outcome) (last : option (nat * nat)) (k : core -> ml_outcome) : ml_outcome :=
    match o with
    | OK true c => k c
    | OK false c => MOK false {| ml_core := c; ml_last := last |}
    | ERR c => MERR c
    | FUEL => MFUEL
    end.

  (* find(): matcher.find_at(slice, pos) *)
  Definition ml_find (c : core) (s : bytes) : option (nat * nat) := m_find_at M s (pos c).

  (* advance(range) *)
  Definition ml_advance (c : core) (s : bytes) (rs re : nat) : core :=
    let c := set_pos c re in
    if Nat.leb re rs && Nat.ltb (pos c) (length s) then set_pos c (pos c + 1) else c.

  (* MultiLine::sink_context(range) *)
  Definition ml_sink_context (c : core) (s : bytes) (rs : nat) : outcome :=
    if c_passthru cfg then other_context_by_line cfg reply_of true c s rs
    else andthen (after_context_by_line cfg reply_of true c s rs)
                 (fun c => before_context_by_line cfg reply_of true c s rs).

  (* MultiLine::sink_matched(range) *)
  Definition ml_sink_matched (c : core) (s : bytes) (rs re : nat) : outcome :=
    if Nat.leb re rs then OK false c else sink_matched cfg reply_of true c s rs re.

  (* the `while let Some(line) = stepper.next_match(..)` loop of sink_matched_inverted *)
  Fixpoint ml_inv_loop (last : option (nat * nat)) (fuel : nat) (c : core) (s : bytes) (p re : nat) : ml_outcome :=
    match fuel with
    | 0 => MFUEL
    | S fuel' =>
      match line_step (lt_byte (c_lt cfg)) s p re with
      | None => MOK true {| ml_core := c; ml_last := last |}
      | Some (a, b) => ml_lift (ml_sink_matched c s a b) last (fun c => ml_inv_loop last fuel' c s b re)
      end
    end.

  (* the inner `while self.core.pos() < line.end()` loop of sink_matched_inverted: a match that
     starts before the end of the lines excluded so far extends them (its lines match too, the
     non-inverted search reports them); returns the core and the end of the excluded lines *)
  Fixpoint ml_inv_extend (fuel : nat) (c : core) (s : bytes) (le : nat) : option (core * nat) :=
    match fuel with
    | 0 => None
    | S fuel' =>
      if Nat.ltb (pos c) le then
        match ml_find c s with
        | Some (a, b) =>
          if Nat.ltb a le then
            let (nls, nle) := locate (lt_byte (c_lt cfg)) s a b in
            ml_inv_extend fuel' (ml_advance c s a b) s (if Nat.ltb le nle then nle else le)
          else Some (c, le)
        | None => Some (c, le)
        end
      else Some (c, le)
    end.

  Definition ml_sink_matched_inverted (m : ml) (s : bytes) : ml_outcome :=
    let c := ml_core m in
    let found : option (nat * nat * core) :=
      match ml_find c s with
      | None => Some (pos c, length s, set_pos c (length s))
      | Some (a, b) =>
        let (ls, le) := locate (lt_byte (c_lt cfg)) s a b in
        match ml_inv_extend (S (length s)) (ml_advance c s a b) s le with
        | Some (c', le') => Some (pos c, ls, set_pos c' le')
        | None => None
        end
      end in
    match found with
    | None => MFUEL
    | Some (rs, re, c) =>
      if Nat.leb re rs then MOK true {| ml_core := c; ml_last := ml_last m |} else
      ml_lift (ml_sink_context c s rs) (ml_last m) (fun c => ml_inv_loop (ml_last m) (S (length s)) c s rs re)
    end.

  (* MultiLine::sink() *)
  Definition ml_sink (m : ml) (s : bytes) : ml_outcome :=
    if c_invert cfg then ml_sink_matched_inverted m s else
    let c := ml_core m in
    match ml_find c s with
    | None => MOK true {| ml_core := set_pos c (length s); ml_last := ml_last m |}
    | Some (a, b) =>
      let c := ml_advance c s a b in
      let (ls, le) := locate (lt_byte (c_lt cfg)) s a b in
      (* an empty line range (a match right after the final line terminator) belongs to no line:
         it is never reported, so it gets no context either and the pending range stays *)
      if Nat.leb le ls then MOK true {| ml_core := c; ml_last := ml_last m |} else
      match ml_last m with
      | None => MOK true {| ml_core := c; ml_last := Some (ls, le) |}
      | Some (pls, ple) =>
        if Nat.leb ls ple then MOK true {| ml_core := c; ml_last := Some (pls, le) |}
        else
          ml_lift (ml_sink_context c s pls) (Some (ls, le)) (fun c =>
          match ml_sink_matched c s pls ple with
          | OK b c => MOK b {| ml_core := c; ml_last := Some (ls, le) |}
          | ERR c => MERR c
          | FUEL => MFUEL
          end)
      end
    end.

  Fixpoint ml_loop (fuel : nat) (m : ml) (s : bytes) : ml_outcome :=
    match fuel with
    | 0 => MFUEL
    | S fuel' =>
      if Nat.leb (length s) (pos (ml_core m)) then MOK true m else
      match ml_sink m s with
      | MOK true m' => ml_loop fuel' m' s
      | o => o
      end
    end.

  Definition multi_line_run (s : bytes) : run_result :=
    let c0 := core_new cfg in
    match emit reply_of c0 EBegin with
    | ERR c => RunErr (rev (log c))
    | FUEL => RunFuel
    | OK false c => finish c (byte_count c)
    | OK true c =>
      match detect_binary cfg reply_of c s 0 (Nat.min (length s) default_buffer_capacity) with
      | ERR c => RunErr (rev (log c))
      | FUEL => RunFuel
      | OK true c => finish c (byte_count c)
      | OK false c =>
        match ml_loop (S (S (length s))) {| ml_core := c; ml_last := None |} s with
        | MERR c => RunErr (rev (log c))
        | MFUEL => RunFuel
        | MOK false m => finish (ml_core m) (byte_count (ml_core m))
        | MOK true m =>
          (* final flush of the delayed match: keepgoing = sink_context(..)? && sink_matched(..)? *)
          let flushed : outcome :=
            match ml_last m with
            | None => OK true (ml_core m)
            | Some (pls, ple) =>
              andthen (ml_sink_context (ml_core m) s pls) (fun c => ml_sink_matched c s pls ple)
            end in
          match flushed with
          | ERR c => RunErr (rev (log c))
          | FUEL => RunFuel
          | OK false c => finish c (byte_count c)
          | OK true c =>
            let tail :=
              if c_passthru cfg then other_context_by_line cfg reply_of true c s (length s)
              else after_context_by_line cfg reply_of true c s (length s) in
            match tail with
            | ERR c => RunErr (rev (log c))
            | FUEL => RunFuel
            | OK _ c => finish c (byte_count c)
            end
          end
        end
      end
    end.
End Glue.

(* crates/searcher/src/searcher/mod.rs: multi_line_with_matcher and the strategy choice of
   search_slice (transcoding off) *)
Definition multi_line_with_matcher (cfg : config) (M : matcher) : bool :=
  c_multi_line cfg
  && negb (match m_line_term M with Some lt => lt_eqb lt (c_lt cfg) | None => false end)
  && negb (m_nonmatching M (lt_byte (c_lt cfg))).

Definition search_slice (cfg : config) (M : matcher) (reply_of : nat -> reply) (s : bytes) : run_result :=
  if multi_line_with_matcher cfg M then multi_line_run cfg M reply_of s
  else slice_by_line_run cfg M reply_of s.
