(* Model/WalkPar.v — the parallel walker's work-distribution protocol as a nondeterministic
   transition system.  Definitions only.

   Rust items mirrored (crates/ignore/src/walk.rs):
     WalkParallel::visit      -> pre_loop / visit_start (the root loop with its error entries, run by the calling
                                 thread), nthreads (threads()), start (no workers for an empty root list), init
                                 (quit_now = false, active_workers = threads, one Worker per Stack)
     Stack::new_for_each_thread -> distribute (roots pushed round-robin, LIFO deques)
     Stack::push / pop / steal  -> the PPush/PSendQuit, PRecv, PSteal cases of own_step, and steal_step
                                 (victim order index+1 .. len-1, 0 .. index-1 = victims_of)
     Worker::run              -> the loop PRecv Top -> ... -> PVisit -> ... -> PRecv Top, PSetQuit, PExit
     Worker::run_one / generate_work -> PVisit (the visitor call and its answer), PPush (one send per child)
     Worker::get_work         -> PRecv, PSteal, PCheck, PDeact, PSleep, PAct, PSendQuit  (see below)
     quit_now / is_quit_now / send / send_quit / recv / deactivate_worker / activate_worker -> one case each

   One model step = one atomic action of one worker between two of the hooked synchronisation points.
   Atomics are single sequentially-consistent steps; every crossbeam-deque operation is one step
   (linearizability of crossbeam-deque 0.8.5 is assumed, see notes/C07.md).

   get_work, as it is written in the code (NOT as it "should" be):

     let mut value = self.recv();                 PRecv Top  (own pop)  / PSteal Top vs (one victim per step)
     loop {
       if self.is_quit_now() { value = Some(Quit) }      PCheck value   (a received Work is DROPPED here)
       match value {
         Some(Work(w)) => return Some(w),                 -> PVisit
         Some(Quit)    => { send_quit(); return None }    -> PSendQuit false -> PExit
         None => {
           if self.deactivate_worker() == 0 {             PDeact
             send_quit(); return None }                   -> PSendQuit true -> PExit
           loop {
             if let Some(v) = self.recv() {               PRecv Wait / PSteal Wait vs
               self.activate_worker(); value = Some(v); break }   PAct v  -> PCheck (Some v)
             sleep(1ms) } } } }                           PSleep -> PRecv Wait
*)
From Coq Require Import List Arith Bool Lia.
Import ListNotations.

(* the directory forest: a node is a directory entry (file = node without children) *)
Inductive tree := Node (id : nat) (kids : list tree).
Definition forest := list tree.
Definition tree_id (t : tree) : nat := match t with Node x _ => x end.
Definition tree_kids (t : tree) : list tree := match t with Node _ k => k end.

(* the visitor's answer (walk.rs WalkState) *)
Inductive walk_state := WContinue | WSkip | WQuit.

(* walk.rs Message *)
Inductive msg := Work (t : tree) | Quit.

(* which of the two receive sites of get_work the worker is in *)
Inductive ctx := Top | Wait.

(* control locations of one worker = the yield points between atomic actions *)
Inductive pc :=
| PRecv (c : ctx)                    (* about to run deque.pop() in Stack::pop *)
| PSteal (c : ctx) (vs : list nat)   (* in Stack::steal: victims still to be tried ([] only with one worker) *)
| PCheck (v : option msg)            (* about to read quit_now at the top of get_work's loop *)
| PDeact                             (* about to fetch_sub active_workers *)
| PSleep                             (* about to sleep 1ms in the wait loop *)
| PAct (m : msg)                     (* received m in the wait loop; about to fetch_add active_workers *)
| PVisit (t : tree)                  (* run_one: about to call the visitor on t *)
| PPush (ts : list tree)             (* run_one: children still to be sent, ts <> [] *)
| PSetQuit                           (* run: about to store quit_now = true *)
| PSendQuit (last : bool)            (* about to push Quit: false = the `Some(Quit)` site, true = the
                                        `deactivate_worker() == 0` site *)
| PExit.                             (* get_work returned None: the worker thread is finished *)

Record st := mkst {
  deq : list (list msg);     (* per-worker LIFO deque, head = top (most recently pushed) *)
  pcs : list pc;
  active : nat;              (* active_workers *)
  quit_now : bool;
  visited : list nat         (* ids handed to a visitor, most recent first *)
}.

(* list update *)
Fixpoint upd {A} (l : list A) (i : nat) (x : A) : list A :=
  match l, i with
  | [], _ => []
  | _ :: t, 0 => x :: t
  | h :: t, S j => h :: upd t j x
  end.

(* Stack::steal: "index + 1, index + 2, ... len - 1, then wrap around to 0, 1, ... index - 1" *)
Definition victims_of (w n : nat) : list nat := seq (S w) (n - S w) ++ seq 0 w.

(* WalkParallel::threads *)
Definition nthreads (n : nat) : nat := if n =? 0 then 2 else n.

(* where a received message goes: straight to the quit check, or through activate_worker first *)
Definition after_recv (c : ctx) (m : msg) : pc :=
  match c with Top => PCheck (Some m) | Wait => PAct m end.
(* recv() returned None *)
Definition recv_none (c : ctx) : pc :=
  match c with Top => PCheck None | Wait => PSleep end.
Definition steal_next (c : ctx) (vs : list nat) : pc :=
  match vs with [] => recv_none c | _ => PSteal c vs end.
Definition after_push (ts : list tree) : pc :=
  match ts with [] => PRecv Top | _ => PPush ts end.

(* the effect of one atomic action of a worker on (its pc, its own deque, the counter, the flag)
   and the id it handed to the visitor, if any *)
Record eff := mkeff {
  e_pc : pc; e_deq : list msg; e_active : nat; e_quit : bool; e_visit : list nat
}.

(* scheduler choices *)
Inductive choice :=
| Own (w : nat)                                   (* w's next atomic action; at PSteal: the attempt fails *)
| Steal (w : nat) (mask : list bool) (k : nat).   (* w's steal attempt on its next victim succeeds: the
                                                     victim's messages selected by mask move, the k-th of
                                                     them is returned, the others land on w's deque *)

Fixpoint split_mask {A} (mask : list bool) (l : list A) {struct l} : list A * list A :=
  match l with
  | [] => ([], [])
  | x :: r =>
      match mask with
      | [] => ([], l)
      | b :: mr => let (t, k) := split_mask mr r in if b then (x :: t, k) else (t, x :: k)
      end
  end.

Fixpoint remove_nth {A} (k : nat) (l : list A) : list A :=
  match l, k with
  | [], _ => []
  | _ :: r, 0 => r
  | x :: r, S j => x :: remove_nth j r
  end.

Section WithVisitor.
  Variable resp : nat -> walk_state.       (* the visitor: answer per entry *)

  (* n = number of workers, w = this worker's index, a = active_workers, q = quit_now,
     p = this worker's pc, d = this worker's own deque *)
  Definition own_step (n w a : nat) (q : bool) (p : pc) (d : list msg) : option eff :=
    match p with
    | PRecv c =>
        match d with
        | m :: d' => Some (mkeff (after_recv c m) d' a q [])               (* deque.pop() = Some *)
        | [] => Some (mkeff (PSteal c (victims_of w n)) d a q [])           (* .or_else(|| self.steal()) *)
        end
    | PSteal c [] => Some (mkeff (recv_none c) d a q [])                    (* a single worker: nobody to steal from *)
    | PSteal c (_ :: vs) => Some (mkeff (steal_next c vs) d a q [])         (* Steal::Empty / Steal::Retry *)
    | PCheck v =>
        let v' := if q then Some Quit else v in
        Some (mkeff (match v' with
                     | Some (Work t) => PVisit t
                     | Some Quit => PSendQuit false
                     | None => PDeact
                     end) d a q [])
    | PDeact =>
        let a' := a - 1 in
        Some (mkeff (if a' =? 0 then PSendQuit true else PRecv Wait) d a' q [])
    | PSleep => Some (mkeff (PRecv Wait) d a q [])
    | PAct m => Some (mkeff (PCheck (Some m)) d (S a) q [])
    | PVisit (Node x kids) =>
        Some (mkeff (match resp x with
                     | WContinue => after_push kids
                     | WSkip => PRecv Top
                     | WQuit => PSetQuit
                     end) d a q [x])
    | PPush [] => Some (mkeff (PRecv Top) d a q [])
    | PPush (t :: ts) => Some (mkeff (after_push ts) (Work t :: d) a q [])
    | PSetQuit => Some (mkeff (PRecv Top) d a true [])
    | PSendQuit _ => Some (mkeff PExit (Quit :: d) a q [])
    | PExit => None
    end.

  Definition steal_step (s : st) (w : nat) (mask : list bool) (k : nat) : option st :=
    match nth_error (pcs s) w with
    | Some (PSteal c (v :: _)) =>
        let (taken, kept) := split_mask mask (nth v (deq s) []) in
        match nth_error taken k with
        | Some m =>
            let d1 := upd (deq s) v kept in
            Some (mkst (upd d1 w (remove_nth k taken ++ nth w d1 []))
                       (upd (pcs s) w (after_recv c m))
                       (active s) (quit_now s) (visited s))
        | None => None
        end
    | _ => None
    end.

  Definition step (s : st) (c : choice) : option st :=
    match c with
    | Own w =>
        match nth_error (pcs s) w with
        | Some p =>
            match own_step (length (pcs s)) w (active s) (quit_now s) p (nth w (deq s) []) with
            | Some e => Some (mkst (upd (deq s) w (e_deq e)) (upd (pcs s) w (e_pc e))
                                   (e_active e) (e_quit e) (e_visit e ++ visited s))
            | None => None
            end
        | None => None
        end
    | Steal w mask k => steal_step s w mask k
    end.

  Fixpoint run (s : st) (cs : list choice) : option st :=
    match cs with
    | [] => Some s
    | c :: r => match step s c with Some s' => run s' r | None => None end
    end.

  Definition reach (s0 s : st) : Prop := exists cs, run s0 cs = Some s.
End WithVisitor.

(* Stack::new_for_each_thread: init.into_iter().zip(stacks.iter().cycle()).for_each(|(m, s)| s.push(m)) *)
Fixpoint distribute (n i : nat) (roots : list tree) (d : list (list msg)) : list (list msg) :=
  match roots with
  | [] => d
  | t :: r => distribute n (S i) r (upd d (i mod n) (Work t :: nth (i mod n) d []))
  end.

(* the state in which the worker threads are spawned *)
Definition init (n : nat) (f : forest) : st :=
  let k := nthreads n in
  mkst (distribute k 0 f (repeat [] k)) (repeat (PRecv Top) k) k false [].

(* WalkParallel::visit returns before creating workers when there is no root *)
Definition start (n : nat) (f : forest) : option st :=
  match f with [] => None | _ => Some (init n f) end.

(* WalkParallel::visit, the loop over the root paths that runs in the calling thread before any
   worker exists: a path that cannot be turned into an entry (device_num fails under
   same_file_system, or DirEntryRaw::from_path fails) is handed to the caller's visitor as an error;
   ONLY a Quit answer returns from visit ("if visitor.visit(Err(err)).is_quit() { return; } continue;"),
   Continue and Skip go on with the next path; good paths are collected, in order, as the initial
   Work messages. *)
Inductive root := RootOk (t : tree) | RootErr (k : nat).     (* k identifies the error entry *)

Fixpoint pre_loop (eresp : nat -> walk_state) (roots : list root) (stack : list tree) : option (list tree) :=
  match roots with
  | [] => Some stack
  | RootOk t :: r => pre_loop eresp r (stack ++ [t])
  | RootErr k :: r =>
      match eresp k with
      | WQuit => None
      | _ => pre_loop eresp r stack
      end
  end.

(* the state in which the workers are spawned, if they are *)
Definition visit_start (eresp : nat -> walk_state) (n : nat) (roots : list root) : option st :=
  match pre_loop eresp roots [] with
  | Some f => start n f
  | None => None
  end.

Definition good_roots (roots : list root) : forest :=
  flat_map (fun r => match r with RootOk t => [t] | RootErr _ => [] end) roots.

Definition all_exited (s : st) : Prop := Forall (fun p => p = PExit) (pcs s).
