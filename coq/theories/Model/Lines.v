(* Model/Lines.v — mirrors crates/searcher/src/lines.rs
     LineStep::next_impl, count, without_terminator, locate, preceding, preceding_by_pos
   Positions are offsets into one buffer.  Definitions only. *)
From RG Require Import Base.Bytes.
From RG Require Export Base.LineTerm.

Definition find_byte (b : byte) (l : bytes) : option nat := memchr b l.

(* index of the last occurrence *)
Fixpoint rfind_byte (b : byte) (l : bytes) : option nat :=
  match l with
  | [] => None
  | x :: xs =>
    match rfind_byte b xs with
    | Some i => Some (S i)
    | None => if (x =? b)%N then Some 0 else None
    end
  end.

(* LineStep { pos, end }.next_impl(bytes): the next line [s, e) and (implicitly) the new pos = e *)
Definition line_step (ltb : byte) (buf : bytes) (pos en : nat) : option (nat * nat) :=
  let bytes := firstn en buf in
  match find_byte ltb (skipn pos bytes) with
  | None => if Nat.ltb pos (length bytes) then Some (pos, length bytes) else None
  | Some i => Some (pos, pos + i + 1)
  end.

(* lines::count *)
Definition count_lt (ltb : byte) (l : bytes) : nat := length (filter (N.eqb ltb) l).

(* lines::without_terminator *)
Definition without_terminator (lt : lineterm) (l : bytes) : bytes :=
  if is_suffix_of (lt_bytes lt) l then firstn (length l - length (lt_bytes lt)) l else l.

(* lines::locate(bytes, line_term, range) *)
Definition locate (ltb : byte) (buf : bytes) (rs re : nat) : nat * nat :=
  let line_start := match rfind_byte ltb (firstn rs buf) with Some i => i + 1 | None => 0 end in
  let line_end :=
    if Nat.ltb line_start re && (match nth_error buf (re - 1) with Some b => (b =? ltb)%N | None => false end)
    then re
    else match find_byte ltb (skipn re buf) with Some i => re + i + 1 | None => length buf end in
  (line_start, line_end).

(* the loop of preceding_by_pos; structurally recursive on count *)
Fixpoint preceding_loop (ltb : byte) (buf : bytes) (pos count : nat) : nat :=
  match rfind_byte ltb (firstn pos buf) with
  | None => 0
  | Some i =>
    match count with
    | 0 => i + 1
    | S c => if Nat.eqb i 0 then 0 else preceding_loop ltb buf i c
    end
  end.

(* lines::preceding_by_pos *)
Definition preceding_by_pos (ltb : byte) (buf : bytes) (pos count : nat) : nat :=
  if Nat.eqb pos 0 then 0
  else
    let pos := if (match nth_error buf (pos - 1) with Some b => (b =? ltb)%N | None => false end)
               then pos - 1 else pos in
    preceding_loop ltb buf pos count.

(* lines::preceding *)
Definition preceding (ltb : byte) (buf : bytes) (count : nat) : nat :=
  preceding_by_pos ltb buf (length buf) count.
