(* Model/LibExpected.v — hand-written copies of the pure decision functions of the LIBRARY crates that
   tools/gen/decisions_lib.py regenerates from the source text into Gen/DecisionsLib.v (DESIGN §4.2):
     crates/searcher/src/searcher/core.rs   Core::is_line_by_line_fast
     crates/searcher/src/searcher/mod.rs    Config::max_context, Searcher::multi_line_with_matcher,
                                            Searcher::slice_needs_transcoding
     crates/searcher/src/searcher/core.rs   Core::detect_binary (its return value)
     crates/searcher/src/searcher/glue.rs   ReadByLine::should_binary_quit
     crates/printer/src/summary.rs          SummaryKind::{requires_path, requires_stats, quit_early},
                                            SummarySink::should_quit
     crates/printer/src/standard.rs         StandardSink::{should_quit, match_more_than_limit}
     crates/printer/src/json.rs             JSONSink::{should_quit, match_more_than_limit}
     crates/ignore/src/walk.rs              should_skip_entry, skip_filesize, Walk::skip_entry,
                                            Worker::generate_work (the two skip decisions and the send condition)
   Every function takes the struct fields / method results the Rust function reads, one argument each
   (the argument names are those of Gen/DecisionsLib.v).  These copies are used by the generated file only
   when the current source text cannot be translated (the owning check then reports the broken tie);
   Proofs/GenLibProofs.v proves generated = the model definitions of Model/SearcherCore.v, Glue.v,
   SearcherGlue.v, Decode.v, Summary.v, Standard.v, Json.v, IgnoreDir.v, Walk.v.  Definitions only. *)
From RG Require Import Base.Bytes Base.LineTerm Model.Summary Model.LineBufferBin.
Local Open Scope bool_scope.

(* `non_matching` is matcher.non_matching_bytes(): None, or the membership test of the ByteSet *)
Definition is_line_by_line_fast_expected (passthru stop_on_nonmatch has_matched : bool)
    (matcher_line_term : option lineterm) (line_term : lineterm) (non_matching : option (byte -> bool)) : bool :=
  if passthru then false else
  if stop_on_nonmatch && has_matched then false else
  let by_set := match non_matching with Some nm => nm (lt_byte line_term) | None => false end in
  match matcher_line_term with
  | Some lt => if (lt_byte lt =? 0)%N then false else if lt_eqb lt line_term then true else by_set
  | None => by_set
  end.

Definition max_context_expected (before_context after_context : nat) : nat := Nat.max before_context after_context.

Definition multi_line_with_matcher_expected (multi_line : bool) (matcher_line_term : option lineterm)
    (line_term : lineterm) (non_matching : option (byte -> bool)) : bool :=
  if negb multi_line then false else
  if match matcher_line_term with Some lt => lt_eqb lt line_term | None => false end then false else
  negb (match non_matching with Some nm => nm (lt_byte line_term) | None => false end).

Definition slice_needs_transcoding_expected (encoding_is_some bom_sniffing slice_has_bom : bool) : bool :=
  encoding_is_some || (bom_sniffing && slice_has_bom).

Definition should_binary_quit_expected (binary_offset_is_some quit_byte_is_some : bool) : bool :=
  binary_offset_is_some && quit_byte_is_some.

Definition requires_path_expected (k : skind) : bool :=
  match k with KPathWithMatch => true | KPathWithoutMatch => true | _ => false end.
Definition requires_stats_expected (k : skind) : bool :=
  match k with KCountMatches => true | _ => false end.
Definition quit_early_expected (k : skind) : bool :=
  match k with KPathWithMatch => true | KQuiet => true | _ => false end.

Definition summary_should_quit_expected (max_matches : option nat) (match_count : nat) : bool :=
  match max_matches with None => false | Some limit => Nat.leb limit match_count end.

Definition standard_should_quit_expected (max_matches : option nat) (match_count after_context_remaining : nat) : bool :=
  match max_matches with
  | None => false
  | Some limit => if Nat.ltb match_count limit then false else Nat.eqb after_context_remaining 0
  end.

Definition match_more_than_limit_expected (max_matches : option nat) (match_count : nat) : bool :=
  match max_matches with None => false | Some limit => Nat.ltb limit match_count end.

(* walk.rs should_skip_entry: the three-way answer of Ignore::matched_dir_entry *)
Definition should_skip_entry_expected (is_ignore is_whitelist : bool) : bool :=
  if is_ignore then true else if is_whitelist then false else false.

(* walk.rs skip_filesize: `ent` is the metadata (its len()), None when it could not be read *)
Definition skip_filesize_expected (max_filesize : N) (md_len : option N) : bool :=
  match md_len with Some fs => (max_filesize <? fs)%N | None => false end.

(* JSONSink::{should_quit, match_more_than_limit}: the same text as the standard printer's *)
Definition json_should_quit_expected := standard_should_quit_expected.
Definition json_match_more_than_limit_expected := match_more_than_limit_expected.

(* walk.rs `struct Filter(Arc<dyn Fn(&DirEntry) -> bool>)`: represented by its verdict on the entry at hand *)
Inductive filter_box := FilterBox (keep : bool).

(* Walk::skip_entry (serial walker).  Arguments: ent.depth(); should_skip_entry(&self.ig, ent); self.skip (the
   stdout handle, `Some tt` when present); the Ok value of path_equals(ent, stdout)?; self.max_filesize.is_some();
   ent.is_dir(); the verdict of the skip_filesize(..) call; self.filter applied to ent.  (An Err of path_equals
   leaves the function through `?` and is not part of this decision.) *)
Definition skip_entry_expected (depth : nat) (should_skip : bool) (skip : option unit) (path_equals : bool)
    (max_filesize_is_some is_dir skip_filesize_verdict : bool) (filter : option filter_box) : bool :=
  if Nat.eqb depth 0 then false else
  if should_skip then true else
  if match skip with Some _ => path_equals | None => false end then true else
  if max_filesize_is_some && negb is_dir && skip_filesize_verdict then true else
  match filter with Some (FilterBox keep) => negb keep | None => false end.

(* Worker::generate_work: `let should_skip_filesize = ..`, `let should_skip_filtered = ..` and the condition of
   `self.send(Work {..})` *)
Definition par_should_skip_filesize_expected (max_filesize_is_some is_dir skip_filesize_verdict : bool) : bool :=
  if max_filesize_is_some && negb is_dir then skip_filesize_verdict else false.
Definition par_should_skip_filtered_expected (filter : option filter_box) : bool :=
  match filter with Some (FilterBox keep) => negb keep | None => false end.
Definition par_send_expected (should_skip_filesize should_skip_filtered : bool) : bool :=
  negb should_skip_filesize && negb should_skip_filtered.

(* Core::detect_binary: the value it returns (true = stop searching this buffer), as a function of
   binary_byte_offset.is_some(), config.binary.quit_byte().is_some(), config.binary.0, range.start(),
   `buf[*range].find_byte(b)` as a function of b, and the Ok value of self.binary_data(offset) as a function of the
   offset.  (The assignment to binary_byte_offset and the Err exit are not part of this decision.) *)
Definition detect_binary_result_expected (offset_is_some quit_byte_is_some : bool) (mode : bin_mode) (range_start : nat)
    (find_byte : byte -> option nat) (binary_data : nat -> bool) : bool :=
  if offset_is_some then quit_byte_is_some else
  match mode with
  | BNone => false
  | BQuit b | BConvert b =>
    match find_byte b with
    | Some i => if negb (binary_data (range_start + i)) then true else quit_byte_is_some
    | None => false
    end
  end.
