(* Model/Walk.v — mirrors (definitions only)
     crates/ignore/src/walk.rs
        WalkBuilder::build (per-root WalkDir options), Walk::skip_entry, Walk::is_descended, Walk::next,
        WalkEventIter::next, walkdir_is_dir, skip_filesize,
        WalkParallel::visit (root messages), Work::{is_dir,is_symlink,read_dir}, Worker::run_one,
        Worker::generate_work, check_symlink_loop, is_same_file_system, DirEntryRaw::{from_entry,from_path,metadata}
     walkdir-2.5.0/src/lib.rs  (third-party, modelled: IntoIter::next, handle_entry, follow, check_loop, push, pop,
        skip_current_dir, is_same_file_system, max_depth;  DirEntry::from_path / from_entry / metadata)
   The file system is a finite value; should_skip_entry's verdict (the Ignore matcher, property C05) and the
   filter_entry predicate are parameters.  The parallel walker is modelled as a sequential LIFO worklist:
   that every schedule yields the same multiset is property C07.  Not modelled: read_dir / stat failures
   other than dangling links, the stdout skip handle, sorting, Ignore::add_parents (it only feeds the verdict). *)
From RG Require Import Base.Bytes.

(* ---------------------------------------------------------------- file system *)
Inductive fkind :=
| FFile (size : N)
| FDir (ents : list (bytes * nat))          (* name, inode number *)
| FLink (target : option nat) (len : N).    (* fully resolved target (never a link), None = dangling; lstat size *)
Record inode := { i_kind : fkind; i_dev : N }.
Definition fsys := list inode.

Definition dflt_inode : inode := {| i_kind := FFile 0; i_dev := 0 |}.
Definition iget (fs : fsys) (i : nat) : inode := nth i fs dflt_inode.

(* stat(2): follow a final symlink *)
Definition resolve (fs : fsys) (i : nat) : option nat :=
  match i_kind (iget fs i) with FLink t _ => t | _ => Some i end.

Inductive ftype := TyFile | TyDir | TySymlink.
Definition ftype_eqb (a b : ftype) : bool :=
  match a, b with TyFile, TyFile | TyDir, TyDir | TySymlink, TySymlink => true | _, _ => false end.
Definition lstat_type (fs : fsys) (i : nat) : ftype :=
  match i_kind (iget fs i) with FFile _ => TyFile | FDir _ => TyDir | FLink _ _ => TySymlink end.
Definition lstat_len (fs : fsys) (i : nat) : N :=
  match i_kind (iget fs i) with FFile n => n | FDir _ => 0%N | FLink _ n => n end.
Definition dir_ents (fs : fsys) (i : nat) : list (bytes * nat) :=
  match i_kind (iget fs i) with FDir l => l | _ => [] end.

(* a directory entry as both walkers carry it (walkdir::DirEntry / DirEntryRaw) *)
Record dent := {
  de_path : bytes;
  de_depth : nat;
  de_ty : ftype;          (* the stored file type *)
  de_follow : bool;       (* follow_link *)
  de_ino : nat            (* inode the path leads to: the link itself unless followed / stat'ed *)
}.
Definition de_is_dir (e : dent) : bool := ftype_eqb (de_ty e) TyDir.
Definition de_is_symlink (e : dent) : bool := ftype_eqb (de_ty e) TySymlink.

(* DirEntry::metadata().len(): stat when follow_link, lstat otherwise; None when it fails *)
Definition de_len (fs : fsys) (e : dent) : option N :=
  if de_follow e then option_map (lstat_len fs) (resolve fs (de_ino e)) else Some (lstat_len fs (de_ino e)).

Definition SLASH : N := 47.
Definition path_join (base name : bytes) : bytes :=
  match base with
  | [] => name
  | _ => if (last base 0 =? SLASH)%N then base ++ name else base ++ SLASH :: name
  end.

(* from_entry: what readdir gives *)
Definition from_entry (fs : fsys) (dir : bytes) (depth : nat) (ent : bytes * nat) : dent :=
  {| de_path := path_join dir (fst ent); de_depth := depth; de_ty := lstat_type fs (snd ent);
     de_follow := false; de_ino := snd ent |}.
(* from_path(depth, path, follow): stat (follow) or lstat; None = the stat failed (dangling link) *)
Definition from_path (fs : fsys) (path : bytes) (depth : nat) (ino : nat) (follow : bool) : option dent :=
  if follow then
    match resolve fs ino with
    | Some t => Some {| de_path := path; de_depth := depth; de_ty := lstat_type fs t; de_follow := true; de_ino := t |}
    | None => None
    end
  else Some {| de_path := path; de_depth := depth; de_ty := lstat_type fs ino; de_follow := false; de_ino := ino |}.

(* Handle::from_path(p) == Handle::from_path(q): same device and inode after following links *)
Definition same_handle (fs : fsys) (a b : nat) : bool :=
  match resolve fs a, resolve fs b with Some x, Some y => Nat.eqb x y | _, _ => false end.
Definition dev_of (fs : fsys) (i : nat) : option N := option_map (fun t => i_dev (iget fs t)) (resolve fs i).

(* the matcher stack: directory path and the inode Handle::from_path(path) leads to, nearest first *)
Definition igstack := list (bytes * nat).
Definition hino (fs : fsys) (e : dent) : nat :=
  match resolve fs (de_ino e) with Some t => t | None => de_ino e end.

Inductive out :=
| OEntry (e : dent)
| OLoop (child : bytes)
| OIoErr (path : bytes).

Section Walkers.
  Variable fs : fsys.
  Variable max_depth : option nat.
  Variable max_filesize : option N.
  Variable follow_links : bool.
  Variable same_file_system : bool.
  Variable has_filter : bool.
  Variable filter : dent -> bool.                        (* filter_entry predicate: true = keep *)
  Variable should_skip : igstack -> dent -> bool.        (* should_skip_entry(ig, dent) *)

  (* skip_filesize *)
  Definition skip_filesize (maxsz : N) (e : dent) : bool :=
    match de_len fs e with Some n => (maxsz <? n)%N | None => false end.

  (* ------------------------------------------------------------ parallel: Worker::generate_work *)
  Inductive gen_result := GOut (o : out) | GNothing | GWork (e : dent).

  (* the checks after the entry has been built (shared text in both walkers, separate code) *)
  Definition par_skip (ig : igstack) (e : dent) : bool :=
    if should_skip ig e then true else
    let should_skip_filesize :=
      match max_filesize with Some m => if negb (de_is_dir e) then skip_filesize m e else false | None => false end in
    let should_skip_filtered := if has_filter then negb (filter e) else false in
    negb (negb should_skip_filesize && negb should_skip_filtered).

  Definition check_symlink_loop (ig : igstack) (child_ino : nat) : bool :=   (* true = loop *)
    existsb (fun a => same_handle fs child_ino (snd a)) ig.

  (* the first half of generate_work: build the entry, follow a symlink, detect a loop *)
  Definition gw_follow (ig : igstack) (dir : bytes) (depth : nat) (ent : bytes * nat) : out + dent :=
    let e0 := from_entry fs dir depth ent in
    if follow_links && de_is_symlink e0 then
      match from_path fs (de_path e0) depth (de_ino e0) true with
      | None => inl (OIoErr (de_path e0))
      | Some e1 =>
        if de_is_dir e1 && check_symlink_loop ig (de_ino e1) then inl (OLoop (de_path e1)) else inr e1
      end
    else inr e0.

  Definition generate_work (ig : igstack) (dir : bytes) (depth : nat) (ent : bytes * nat) : gen_result :=
    match gw_follow ig dir depth ent with
    | inl o => GOut o
    | inr e => if par_skip ig e then GNothing else GWork e
    end.

  Record work := { w_dent : dent; w_ig : igstack; w_root_dev : option N }.

  (* Worker::run_one with a visitor that always continues: outputs, then the work it pushed
     (in push order) *)
  Definition run_one (w : work) : list out * list work :=
    let e := w_dent w in
    if de_is_symlink e || negb (de_is_dir e) then ([OEntry e], []) else
    let descend :=
      match w_root_dev w with
      | Some rd => match dev_of fs (de_ino e) with Some d => (d =? rd)%N | None => false end
      | None => true
      end in
    let ig' := (de_path e, de_ino e) :: w_ig w in        (* Work::read_dir: add_child *)
    if negb descend then ([OEntry e], []) else
    if match max_depth with Some m => Nat.leb m (de_depth e) | None => false end then ([OEntry e], []) else
    let rs := map (generate_work ig' (de_path e) (S (de_depth e))) (dir_ents fs (de_ino e)) in
    (OEntry e :: flat_map (fun r => match r with GOut o => [o] | _ => [] end) rs,
     flat_map (fun r => match r with GWork c => [{| w_dent := c; w_ig := ig'; w_root_dev := w_root_dev w |}] | _ => [] end) rs).

  (* WalkParallel::visit: the initial messages; a root is (spelled path, inode of the path itself) *)
  Definition par_root (r : bytes * nat) : list out * list work :=
    let root_device := if same_file_system then Some (dev_of fs (snd r)) else None in
    match root_device with
    | Some None => ([OIoErr (fst r)], [])
    | _ =>
      match from_path fs (fst r) 0 (snd r) true with
      | None => ([OIoErr (fst r)], [])
      | Some e =>
        (* DirEntryRaw::from_path(0, path, false): stat'ed type, follow_link = false *)
        let e' := {| de_path := de_path e; de_depth := 0; de_ty := de_ty e; de_follow := false; de_ino := de_ino e |} in
        ([], [{| w_dent := e'; w_ig := [];
                 w_root_dev := match root_device with Some d => d | None => None end |}])
      end
    end.

  (* the workers as one LIFO worklist *)
  Fixpoint par_loop (fuel : nat) (stack : list work) (acc : list out) : option (list out) :=
    match stack with
    | [] => Some acc
    | w :: rest =>
      match fuel with
      | 0 => None
      | S fuel' => let (os, ws) := run_one w in par_loop fuel' (rev ws ++ rest) (acc ++ os)
      end
    end.

  Definition par_walk (fuel : nat) (roots : list (bytes * nat)) : option (list out) :=
    let rs := map par_root roots in
    par_loop fuel (rev (flat_map snd rs)) (flat_map fst rs).

  (* ------------------------------------------------------------ walkdir (third party, modelled) *)
  Record frame := { fr_path : bytes; fr_rest : list (bytes * nat) }.
  Record wd := {
    wd_start : option (bytes * nat);
    wd_follow : bool;                 (* opts.follow_links, per root *)
    wd_stack : list frame;            (* stack_list, top first *)
    wd_anc : list nat;                (* stack_path (only maintained when wd_follow), top first *)
    wd_root_dev : option N
  }.
  Inductive wres := WOk (e : dent) | WLoop (child : bytes) (depth : nat) | WIo (path : bytes) (depth : nat).

  (* push: open the directory (its listing), remember the ancestor when following links *)
  Definition wd_push (s : wd) (e : dent) : wd :=
    {| wd_start := wd_start s; wd_follow := wd_follow s;
       wd_stack := {| fr_path := de_path e;
                      fr_rest := match resolve fs (de_ino e) with Some t => dir_ents fs t | None => [] end |} :: wd_stack s;
       wd_anc := if wd_follow s then de_ino e :: wd_anc s else wd_anc s;
       wd_root_dev := wd_root_dev s |}.
  Definition wd_pop (s : wd) : wd :=
    {| wd_start := wd_start s; wd_follow := wd_follow s; wd_stack := tl (wd_stack s);
       wd_anc := if wd_follow s then tl (wd_anc s) else wd_anc s; wd_root_dev := wd_root_dev s |}.
  Definition wd_skip_current_dir (s : wd) : wd :=
    match wd_stack s with [] => s | _ => wd_pop s end.

  (* handle_entry, second half: descend into a directory (push) or not *)
  Definition wd_enter (s : wd) (e : dent) : wres * wd :=
    let is_normal_dir := negb (de_is_symlink e) && de_is_dir e in
    if is_normal_dir then
      if same_file_system && Nat.ltb 0 (de_depth e) then
        match dev_of fs (de_ino e), wd_root_dev s with
        | Some d, Some rd => if (d =? rd)%N then (WOk e, wd_push s e) else (WOk e, s)
        | _, _ => (WOk e, wd_push s e)
        end
      else (WOk e, wd_push s e)
    else if Nat.eqb (de_depth e) 0 && de_is_symlink e then
      (* a root symlink is followed even without follow_links; the entry stays a symlink *)
      match resolve fs (de_ino e) with
      | None => (WIo (de_path e) 0, s)
      | Some t => if ftype_eqb (lstat_type fs t) TyDir then (WOk e, wd_push s e) else (WOk e, s)
      end
    else (WOk e, s).

  (* handle_entry; depth = self.depth = stack length when the entry was read *)
  Definition wd_handle_entry (s : wd) (e0 : dent) : wres * wd :=
    let followed :=
      if wd_follow s && de_is_symlink e0 then
        match from_path fs (de_path e0) (de_depth e0) (de_ino e0) true with
        | None => inl (WIo (de_path e0) (de_depth e0))
        | Some e1 =>
          if de_is_dir e1 && existsb (fun a => same_handle fs (de_ino e1) a) (wd_anc s)
          then inl (WLoop (de_path e1) (de_depth e0)) else inr e1
        end
      else inr e0 in
    match followed with
    | inl err => (err, s)
    | inr e => wd_enter s e
    end.

  Definition clear_start (s : wd) (rd : option N) : wd :=
    {| wd_start := None; wd_follow := wd_follow s; wd_stack := wd_stack s; wd_anc := wd_anc s; wd_root_dev := rd |}.

  (* the `while !self.stack_list.is_empty()` loop of IntoIter::next up to the point where an entry is
     read: frames that are exhausted, or deeper than max_depth, are popped (with their ancestor) *)
  Inductive adv :=
  | AdvDone (anc : list nat)
  | AdvEnt (ent : bytes * nat) (dir : bytes) (depth : nat) (stack' : list frame) (anc : list nat).

  Definition exceeds_max (depth : nat) : bool :=
    match max_depth with Some m => Nat.ltb m depth | None => false end.

  Fixpoint wd_advance (follow : bool) (stack : list frame) (anc : list nat) : adv :=
    match stack with
    | [] => AdvDone anc
    | fr :: below =>
      let depth := length stack in
      let anc' := if follow then tl anc else anc in
      if exceeds_max depth then wd_advance follow below anc' else
      match fr_rest fr with
      | [] => wd_advance follow below anc'
      | ent :: rest => AdvEnt ent (fr_path fr) depth ({| fr_path := fr_path fr; fr_rest := rest |} :: below) anc
      end
    end.

  Definition wd_next (s : wd) : option wres * wd :=
    match wd_start s with
    | Some r =>
      let rd := if same_file_system then Some (dev_of fs (snd r)) else None in
      match rd with
      | Some None => (Some (WIo (fst r) 0), clear_start s None)
      | _ =>
        let s1 := clear_start s (match rd with Some d => d | None => None end) in
        match from_path fs (fst r) 0 (snd r) false with
        | None => (Some (WIo (fst r) 0), s1)
        | Some e => let (res, s2) := wd_handle_entry s1 e in (Some res, s2)
        end
      end
    | None =>
      match wd_advance (wd_follow s) (wd_stack s) (wd_anc s) with
      | AdvDone anc =>
        (None, {| wd_start := None; wd_follow := wd_follow s; wd_stack := []; wd_anc := anc; wd_root_dev := wd_root_dev s |})
      | AdvEnt ent dir depth stack' anc =>
        let s1 := {| wd_start := None; wd_follow := wd_follow s; wd_stack := stack'; wd_anc := anc;
                     wd_root_dev := wd_root_dev s |} in
        let (res, s2) := wd_handle_entry s1 (from_entry fs dir depth ent) in
        (Some res, s2)
      end
    end.

  (* ------------------------------------------------------------ WalkEventIter *)
  Record wei := { we_depth : nat; we_it : wd; we_next : option wres }.
  Inductive wevent := EvDir (e : dent) | EvFile (e : dent) | EvExit | EvErr (r : wres).

  Definition wres_depth (r : wres) : nat :=
    match r with WOk e => de_depth e | WLoop _ d => d | WIo _ d => d end.

  (* walkdir_is_dir *)
  Definition walkdir_is_dir (e : dent) : bool :=
    if de_is_dir e then true
    else if negb (de_is_symlink e) || Nat.ltb 0 (de_depth e) then false
    else match resolve fs (de_ino e) with Some t => ftype_eqb (lstat_type fs t) TyDir | None => false end.

  Definition wei_next (s : wei) : option wevent * wei :=
    let (dentr, it') :=
      match we_next s with
      | Some r => (Some r, we_it s)
      | None => wd_next (we_it s)
      end in
    let depth := match dentr with None => 0 | Some r => wres_depth r end in
    if Nat.ltb depth (we_depth s) then
      (Some EvExit, {| we_depth := we_depth s - 1; we_it := it'; we_next := dentr |})
    else
      match dentr with
      | None => (None, {| we_depth := depth; we_it := it'; we_next := None |})
      | Some (WOk e) =>
        if walkdir_is_dir e
        then (Some (EvDir e), {| we_depth := S depth; we_it := it'; we_next := None |})
        else (Some (EvFile e), {| we_depth := depth; we_it := it'; we_next := None |})
      | Some r => (Some (EvErr r), {| we_depth := depth; we_it := it'; we_next := None |})
      end.

  (* ------------------------------------------------------------ Walk *)
  Record walk := {
    wk_its : list (bytes * nat);      (* roots not yet started *)
    wk_it : option wei;
    wk_ig : igstack;
    wk_root_dev : option N
  }.

  (* Walk::skip_entry; [d5] = the size check falls through (the tree after the repair of D5) *)
  Definition skip_entry_with (d5 : bool) (ig : igstack) (e : dent) : bool :=
    if Nat.eqb (de_depth e) 0 then false else
    if should_skip ig e then true else
    match max_filesize with
    | Some m =>
      if negb (de_is_dir e) then
        if d5 then
          (if skip_filesize m e then true else if has_filter then negb (filter e) else false)
        else skip_filesize m e
      else if has_filter then negb (filter e) else false
    | None => if has_filter then negb (filter e) else false
    end.

  (* Walk::is_descended (added with the repair of D15) *)
  Definition is_descended (w : walk) (e : dent) : bool :=
    match wk_root_dev w with
    | Some rd =>
      if Nat.ltb 0 (de_depth e) then
        match dev_of fs (de_ino e) with Some d => (d =? rd)%N | None => true end
      else true
    | None => true
    end.

  Definition new_wei (r : bytes * nat) : wei :=
    let is_file := match resolve fs (snd r) with Some t => ftype_eqb (lstat_type fs t) TyFile | None => false end in
    {| we_depth := 0;
       we_it := {| wd_start := Some r; wd_follow := follow_links || is_file; wd_stack := []; wd_anc := [];
                   wd_root_dev := None |};
       we_next := None |}.

  Definition out_of_wres (r : wres) : out :=
    match r with WOk e => OEntry e | WLoop c _ => OLoop c | WIo p _ => OIoErr p end.

  (* one iteration of the `loop` in Walk::next.  [d5], [d15]: true = the tree as repaired; false = the
     pinned text *)
  Inductive wstep := WEnd | WOut (o : out) (w : walk) | WSilent (w : walk).

  Definition walk_step (d5 d15 : bool) (w : walk) : wstep :=
    let ev := match wk_it w with Some it => wei_next it | None => (None, new_wei ([], 0)) end in
    match ev with
    | (None, _) =>
      match wk_its w with
      | [] => WEnd
      | r :: rest =>
        WSilent {| wk_its := rest; wk_it := Some (new_wei r); wk_ig := [];
                   wk_root_dev := if same_file_system then dev_of fs (snd r) else None |}
      end
    | (Some ev, it') =>
      let w1 := {| wk_its := wk_its w; wk_it := Some it'; wk_ig := wk_ig w; wk_root_dev := wk_root_dev w |} in
      match ev with
      | EvErr r => WOut (out_of_wres r) w1
      | EvExit =>
        WSilent {| wk_its := wk_its w; wk_it := Some it'; wk_ig := tl (wk_ig w); wk_root_dev := wk_root_dev w |}
      | EvDir e =>
        let pushed := (de_path e, hino fs e) :: wk_ig w in
        if skip_entry_with d5 (wk_ig w) e then
          let it'' := if negb d15 || is_descended w e
                      then {| we_depth := we_depth it'; we_it := wd_skip_current_dir (we_it it'); we_next := we_next it' |}
                      else it' in
          WSilent {| wk_its := wk_its w; wk_it := Some it''; wk_ig := pushed; wk_root_dev := wk_root_dev w |}
        else
          WOut (OEntry e) {| wk_its := wk_its w; wk_it := Some it'; wk_ig := pushed; wk_root_dev := wk_root_dev w |}
      | EvFile e =>
        if skip_entry_with d5 (wk_ig w) e then WSilent w1 else WOut (OEntry e) w1
      end
    end.

  (* Walk::next: None = out of fuel; Some (None, _) = the iterator is finished *)
  Fixpoint walk_next (d5 d15 : bool) (fuel : nat) (w : walk) : option (option out * walk) :=
    match fuel with
    | 0 => None
    | S fuel' =>
      match walk_step d5 d15 w with
      | WEnd => Some (None, w)
      | WOut o w' => Some (Some o, w')
      | WSilent w' => walk_next d5 d15 fuel' w'
      end
    end.

  (* `for entry in walk { .. }`: every loop iteration costs one unit of fuel *)
  Fixpoint walk_all (d5 d15 : bool) (fuel : nat) (w : walk) (acc : list out) : option (list out) :=
    match fuel with
    | 0 => None
    | S fuel' =>
      match walk_step d5 d15 w with
      | WEnd => Some acc
      | WOut o w' => walk_all d5 d15 fuel' w' (acc ++ [o])
      | WSilent w' => walk_all d5 d15 fuel' w' acc
      end
    end.

  Definition serial_walk_with (d5 d15 : bool) (fuel : nat) (roots : list (bytes * nat)) : option (list out) :=
    walk_all d5 d15 fuel {| wk_its := roots; wk_it := None; wk_ig := []; wk_root_dev := None |} [].
  Definition serial_walk := serial_walk_with true true.

End Walkers.
