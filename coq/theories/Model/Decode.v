(* Model/Decode.v — transcoding decisions of the searcher and a reference streaming decoder.  Mirrors
     crates/searcher/src/searcher/mod.rs   slice_has_bom, Searcher::slice_needs_transcoding, the
                                           DecodeReaderBytesBuilder settings made by SearcherBuilder::build
                                           (utf8_passthru(true), strip_bom(bom_sniffing), bom_override(true),
                                           bom_sniffing(bom_sniffing)), the routing in search_slice /
                                           search_file_maybe_path / search_reader
     crates/core/flags/hiargs.rs           HiArgs::searcher: EncodingMode::{Auto, Some(enc), Disabled}
   and, standing for the third-party crates (not verified; compared with them on every run):
     encoding_rs::Encoding::for_bom
     encoding_rs_io  DecodeReaderBytesBuilder::build_with_buffer (has_detected, decoder from the label),
                     DecodeReaderBytes::detect, BomPeeker::{peek_bom, read}, PossibleBom::{as_slice, encoding}
     encoding_rs     UTF-16LE/BE and UTF-8 decoders (new_decoder_with_bom_removal) as byte-at-a-time state
                     machines; malformed input -> U+FFFD
   Definitions only. *)
From RG Require Import Base.Bytes.

Inductive enc := Utf8 | Utf16le | Utf16be | OtherEnc (id : N).      (* OtherEnc: latin-1, shift_jis, ...: tables not modelled *)

Definition enc_eqb (a b : enc) : bool :=
  match a, b with
  | Utf8, Utf8 | Utf16le, Utf16le | Utf16be, Utf16be => true
  | OtherEnc x, OtherEnc y => N.eqb x y
  | _, _ => false
  end.

(* encoding_rs::Encoding::for_bom: (encoding, mark length) *)
Definition starts2 (a b : N) (s : bytes) : bool :=
  match s with x :: y :: _ => N.eqb x a && N.eqb y b | _ => false end.
Definition starts3 (a b c : N) (s : bytes) : bool :=
  match s with x :: y :: z :: _ => N.eqb x a && N.eqb y b && N.eqb z c | _ => false end.

Definition for_bom (s : bytes) : option (enc * nat) :=
  if starts3 239 187 191 s then Some (Utf8, 3)
  else if starts2 255 254 s then Some (Utf16le, 2)
  else if starts2 254 255 s then Some (Utf16be, 2)
  else None.

(* searcher/mod.rs slice_has_bom *)
Definition slice_has_bom (s : bytes) : bool :=
  match for_bom s with
  | None => false
  | Some (e, _) => enc_eqb e Utf16le || enc_eqb e Utf16be || enc_eqb e Utf8
  end.

(* hiargs.rs EncodingMode and the two searcher settings it drives *)
Inductive encoding_mode := EncAuto | EncSome (e : enc) | EncDisabled.
Record enc_config := mk_enc { ec_encoding : option enc; ec_bom_sniffing : bool }.
Definition enc_config_of (m : encoding_mode) : enc_config :=
  match m with
  | EncAuto => mk_enc None true
  | EncSome e => mk_enc (Some e) true
  | EncDisabled => mk_enc None false
  end.

(* Searcher::slice_needs_transcoding *)
Definition slice_needs_transcoding (c : enc_config) (s : bytes) : bool :=
  (match ec_encoding c with Some _ => true | None => false end) || (ec_bom_sniffing c && slice_has_bom s).

(* the builder settings SearcherBuilder::build makes *)
Record decode_settings := mk_ds {
  ds_encoding : option enc; ds_utf8_passthru : bool; ds_strip_bom : bool; ds_bom_override : bool; ds_bom_sniffing : bool }.
Definition decode_settings_of (c : enc_config) : decode_settings :=
  mk_ds (ec_encoding c) true (ec_bom_sniffing c) true (ec_bom_sniffing c).

(* PossibleBom: the first <= 3 bytes of the stream *)
Definition possible_bom (s : bytes) : bytes := firstn 3 s.

(* PossibleBom::encoding: needs all three bytes *)
Definition bom_encoding (bom : bytes) : option enc :=
  if Nat.ltb (length bom) 3 then None else option_map fst (for_bom bom).

(* PossibleBom::as_slice(bom = keep) *)
Definition bom_as_slice (bom : bytes) (keep : bool) : bytes :=
  if keep || Nat.leb (length bom) 1 then bom
  else if starts2 255 254 bom || starts2 254 255 bom then skipn 2 bom
  else if starts3 239 187 191 bom && Nat.eqb (length bom) 3 then []
  else bom.

(* build_with_buffer + detect: which decoder the reader ends up with *)
Definition effective_decoder (d : decode_settings) (stream : bytes) : option enc :=
  let has_detected := negb (ds_bom_sniffing d)
                      || (negb (ds_bom_override d) && match ds_encoding d with Some _ => true | None => false end) in
  if has_detected then ds_encoding d else
  match bom_encoding (possible_bom stream) with
  | Some e => if enc_eqb e Utf8 && ds_utf8_passthru d then ds_encoding d   (* detect() returns early *)
              else Some e
  | None => ds_encoding d
  end.

(* BomPeeker::read over the whole stream: the bytes the decoder (or the caller) gets *)
Definition peeked_stream (d : decode_settings) (stream : bytes) : bytes :=
  bom_as_slice (possible_bom stream) (negb (ds_strip_bom d)) ++ skipn 3 stream.

(* ---- UTF-8 encoding of a scalar value ---- *)
Definition utf8_encode (cp : N) : bytes :=
  (if cp <? 128 then [cp]
   else if cp <? 2048 then [192 + cp / 64; 128 + cp mod 64]
   else if cp <? 65536 then [224 + cp / 4096; 128 + (cp / 64) mod 64; 128 + cp mod 64]
   else [240 + cp / 262144; 128 + (cp / 4096) mod 64; 128 + (cp / 64) mod 64; 128 + cp mod 64])%N.

Definition replacement : bytes := [239; 191; 189]%N.      (* U+FFFD *)

(* ---- UTF-16 decoder (encoding_rs), one byte at a time ---- *)
Record u16_state := mk_u16 {
  u_start : bool;              (* new_decoder_with_bom_removal: nothing consumed yet *)
  u_byte : option byte;        (* first byte of an incomplete code unit *)
  u_high : option N }.         (* pending high surrogate *)
Definition u16_init : u16_state := mk_u16 true None None.

Definition is_high (u : N) : bool := ((55296 <=? u) && (u <? 56320))%N.
Definition is_low (u : N) : bool := ((56320 <=? u) && (u <? 57344))%N.

(* one complete code unit *)
Definition u16_unit (st : u16_state) (u : N) : bytes * u16_state :=
  if u_start st && (u =? 65279)%N then ([], mk_u16 false None None) else
  match u_high st with
  | Some h =>
    if is_low u then (utf8_encode (65536 + (h - 55296) * 1024 + (u - 56320))%N, mk_u16 false None None)
    else if is_high u then (replacement, mk_u16 false None (Some u))
    else (replacement ++ utf8_encode u, mk_u16 false None None)
  | None =>
    if is_high u then ([], mk_u16 false None (Some u))
    else if is_low u then (replacement, mk_u16 false None None)
    else (utf8_encode u, mk_u16 false None None)
  end.

Definition u16_step (be : bool) (st : u16_state) (x : byte) : bytes * u16_state :=
  match u_byte st with
  | None => ([], mk_u16 (u_start st) (Some x) (u_high st))
  | Some b0 =>
    let u := (if be then b0 * 256 + x else x * 256 + b0)%N in
    u16_unit (mk_u16 (u_start st) None (u_high st)) u
  end.

(* feed a chunk *)
Fixpoint u16_feed (be : bool) (st : u16_state) (l : bytes) : bytes * u16_state :=
  match l with
  | [] => ([], st)
  | x :: xs => let (o1, st1) := u16_step be st x in
               let (o2, st2) := u16_feed be st1 xs in (o1 ++ o2, st2)
  end.

(* end of stream (decode_to_utf8(.., last = true)): a pending surrogate and/or a dangling byte is one error *)
Definition u16_finish (st : u16_state) : bytes :=
  match u_high st, u_byte st with
  | None, None => []
  | _, _ => replacement
  end.

Definition utf16_to_utf8 (be : bool) (s : bytes) : bytes :=
  let (o, st) := u16_feed be u16_init s in o ++ u16_finish st.

(* the reader fed an arbitrary fragmentation: a list of chunks whose concatenation is the stream *)
Fixpoint u16_stream (be : bool) (st : u16_state) (chunks : list bytes) : bytes :=
  match chunks with
  | [] => u16_finish st
  | c :: cs => let (o, st') := u16_feed be st c in o ++ u16_stream be st' cs
  end.

(* ---- UTF-8 decoder (encoding_rs, -E utf-8): validation with replacement of every maximal ill-formed
        subpart by U+FFFD, one byte at a time (WHATWG UTF-8 decoder: bytes needed, lower / upper boundary) ---- *)
Record u8_core := mk_u8 { v_pend : bytes; v_need : nat; v_lo : N; v_hi : N }.
Definition u8_idle : u8_core := mk_u8 [] 0 128 191.

Definition u8_lead (x : byte) : bytes * u8_core :=
  (if x <? 128 then ([x], u8_idle)
   else if (194 <=? x) && (x <=? 223) then ([], mk_u8 [x] 1 128 191)
   else if x =? 224 then ([], mk_u8 [x] 2 160 191)
   else if x =? 237 then ([], mk_u8 [x] 2 128 159)
   else if (225 <=? x) && (x <=? 239) then ([], mk_u8 [x] 2 128 191)
   else if x =? 240 then ([], mk_u8 [x] 3 144 191)
   else if x =? 244 then ([], mk_u8 [x] 3 128 143)
   else if (241 <=? x) && (x <=? 243) then ([], mk_u8 [x] 3 128 191)
   else (replacement, u8_idle))%N.

Definition u8_core_step (st : u8_core) (x : byte) : bytes * u8_core :=
  match v_need st with
  | 0 => u8_lead x
  | S n =>
    if ((v_lo st <=? x) && (x <=? v_hi st))%N then
      match n with
      | 0 => (v_pend st ++ [x], u8_idle)
      | _ => ([], mk_u8 (v_pend st ++ [x]) n 128 191)
      end
    else let (o, st') := u8_lead x in (replacement ++ o, st')      (* the byte is looked at again *)
  end.

Definition u8_core_finish (st : u8_core) : bytes :=
  match v_need st with 0 => [] | _ => replacement end.

Fixpoint u8_core_feed (st : u8_core) (l : bytes) : bytes * u8_core :=
  match l with
  | [] => ([], st)
  | x :: xs => let (o1, st1) := u8_core_step st x in
               let (o2, st2) := u8_core_feed st1 xs in (o1 ++ o2, st2)
  end.

(* new_decoder_with_bom_removal: bytes are held back while they could still be the mark EF BB BF *)
Record u8_state := mk_u8s { w_held : option bytes; w_core : u8_core }.     (* Some h: still at the start, h held *)
Definition u8_init : u8_state := mk_u8s (Some []) u8_idle.

Definition u8_step (st : u8_state) (x : byte) : bytes * u8_state :=
  match w_held st with
  | None => let (o, c) := u8_core_step (w_core st) x in (o, mk_u8s None c)
  | Some h =>
    let h' := h ++ [x] in
    if bytes_eqb h' [239; 187; 191]%N then ([], mk_u8s None (w_core st))
    else if is_prefix_of h' [239; 187; 191]%N then ([], mk_u8s (Some h') (w_core st))
    else let (o, c) := u8_core_feed (w_core st) h' in (o, mk_u8s None c)
  end.

Fixpoint u8_feed (st : u8_state) (l : bytes) : bytes * u8_state :=
  match l with
  | [] => ([], st)
  | x :: xs => let (o1, st1) := u8_step st x in
               let (o2, st2) := u8_feed st1 xs in (o1 ++ o2, st2)
  end.

Definition u8_finish (st : u8_state) : bytes :=
  match w_held st with
  | None => u8_core_finish (w_core st)
  | Some h => let (o, c) := u8_core_feed (w_core st) h in o ++ u8_core_finish c
  end.

Definition utf8_to_utf8 (s : bytes) : bytes := let (o, st) := u8_feed u8_init s in o ++ u8_finish st.

Fixpoint u8_stream (st : u8_state) (chunks : list bytes) : bytes :=
  match chunks with
  | [] => u8_finish st
  | c :: cs => let (o, st') := u8_feed st c in o ++ u8_stream st' cs
  end.

(* what ends up being searched, for the encodings modelled (None = identity = no transcoding reader effect) *)
Definition decode_with (e : option enc) (s : bytes) : option bytes :=
  match e with
  | None => Some s
  | Some Utf16le => Some (utf16_to_utf8 false s)
  | Some Utf16be => Some (utf16_to_utf8 true s)
  | Some Utf8 => Some (utf8_to_utf8 s)
  | Some (OtherEnc _) => None                        (* legacy tables: not modelled *)
  end.

Definition searched_bytes (m : encoding_mode) (stream : bytes) : option bytes :=
  let d := decode_settings_of (enc_config_of m) in
  decode_with (effective_decoder d stream) (peeked_stream d stream).
