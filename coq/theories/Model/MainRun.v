(* Model/MainRun.v — executable model of the top level of ripgrep (definitions only).
   Mirrors, function by function (pinned tree + the two `fix:` commits of this property):
     crates/core/main.rs::main                  -> main_model        (broken-pipe scan of the error chain)
     crates/core/main.rs::run                   -> run_model         (driver selection, exit-status expression: GENERATED)
     crates/core/main.rs::search                -> search_serial     (for-loop with `break`/`continue`/bubbled pipe error)
     crates/core/main.rs::search_parallel       -> search_parallel   (worker closure per completed file, WalkState::Quit)
     crates/core/main.rs::files                 -> files_serial
     crates/core/main.rs::files_parallel        -> files_parallel    (workers feed a channel; one printing thread)
     crates/core/main.rs::eprint_nothing_searched, print_stats (only where its output goes)
     crates/core/messages.rs::{err_message!, message!, set_errored, errored, messages}  -> err_message
     crates/core/haystack.rs::HaystackBuilder::build_from_result                      -> build_from_result
     crates/core/flags/hiargs.rs::{buffer_writer, printer_standard (separator owner)}  + termcolor BufferWriter::print
                                                                                       -> bw_print / serial_emit
   The decisions `exit_code`, `choose_driver`, `threads`, `quit_after_match`, `stats_is_some`, `matches_possible`,
   `printer_owns_separator`, `sort_is_identity` are the definitions of Gen/DecisionsCli.v, regenerated from the
   source text on every run.

   What is abstract (universally quantified in the theorems):
     * the walker's yield sequence: a list of [item]s — for the parallel drivers in the order in which the
       worker closures run to completion (any order: C07 supplies "each entry exactly once");
     * what searching one file does: [h_res] (match / no match / error / broken pipe while printing),
       [h_out] the bytes its printer produced (all of them for an Ok search, the part written before the
       failure otherwise), [h_print] what `bufwtr.print` / `path_printer.write` answers for it. *)
From RG Require Import Base.Bytes Model.CliTypes Gen.DecisionsCli.
Local Open Scope bool_scope.

(* ---------------------------------------------------------------- observable diagnostics (stderr) *)
Inductive diag :=
| DgWalk (id : N)          (* haystack.rs build_from_result: err_message!("{err}") *)
| DgFile (id : N)          (* main.rs: err_message!("{}: {}", haystack.path().display(), err) after search() failed *)
| DgPrint (id : N)         (* search_parallel: bufwtr.print failed with something other than a broken pipe *)
| DgNothingSearched        (* eprint_nothing_searched *)
| DgFatal.                 (* main(): eprintln_locked!("{:#}", err) *)

(* ---------------------------------------------------------------- per-file behaviour *)
Inductive sres := SMatch | SNoMatch | SErr | SPipe.   (* searcher.search(&haystack): Ok(has_match) / Err(other) / Err(BrokenPipe) *)
Inductive pres := POk | PPipe | PErr.                 (* a write of a whole buffer / a path to stdout *)

Record hay := { h_id : N; h_res : sres; h_out : bytes; h_print : pres }.

(* what the directory walker hands to the closure / iterator:
   Err(e) | Ok(dent) that is not searchable (directory, non-file) | Ok(dent) searchable *)
Inductive item := IErr (id : N) | ISkip | IHay (h : hay).

Definition is_match (r : sres) : bool := match r with SMatch => true | _ => false end.

(* ---------------------------------------------------------------- state: the flags the Rust code keeps *)
Record st := {
  matched : bool;        (* `matched` local / AtomicBool *)
  searched : bool;       (* `searched` local / AtomicBool *)
  errored : bool;        (* messages::ERRORED *)
  printed : bool;        (* something has been written to stdout: BufferWriter.printed / CounterWriter count > 0 *)
  diags : list diag;     (* stderr, in order *)
  out : bytes;           (* stdout, in order *)
  done : list N          (* ids of the files whose search ran (ghost: used by specifications only) *)
}.

Definition st0 : st :=
  {| matched := false; searched := false; errored := false; printed := false; diags := []; out := []; done := [] |}.

Definition set_matched (b : bool) (s : st) : st :=
  {| matched := b; searched := searched s; errored := errored s; printed := printed s; diags := diags s;
     out := out s; done := done s |}.
Definition set_searched (id : N) (s : st) : st :=
  {| matched := matched s; searched := true; errored := errored s; printed := printed s; diags := diags s;
     out := out s; done := done s ++ [id] |}.

(* err_message!: set_errored(); message!(..) prints only if messages() *)
Definition err_message (messages : bool) (d : diag) (s : st) : st :=
  {| matched := matched s; searched := searched s; errored := true; printed := printed s;
     diags := if messages then diags s ++ [d] else diags s; out := out s; done := done s |}.

(* raw write to stdout *)
Definition write_out (b : bytes) (s : st) : st :=
  {| matched := matched s; searched := searched s; errored := errored s;
     printed := printed s || negb (match b with [] => true | _ => false end);
     diags := diags s; out := out s ++ b; done := done s |}.

(* ---------------------------------------------------------------- configuration (HiArgs, the part used here) *)
Record cfg := {
  c_quiet : bool;              (* args.quiet() *)
  c_quit_after_match : bool;   (* args.quit_after_match() *)
  c_implicit_path : bool;      (* args.has_implicit_path() *)
  c_messages : bool;           (* messages::messages()  (false under --no-messages) *)
  c_stats : option bytes;      (* args.stats(): the text print_stats writes, if statistics are on *)
  c_collects : bool;           (* HiArgs::sort collects the whole iterator first (a sort that is not the identity) *)
  c_sep : option bytes;        (* file_separator *)
  c_lineterm : bytes;          (* the searcher's line terminator (the printer ends its separator line with it) *)
  c_setup_ok : bool            (* walk_builder()?, matcher()?, searcher()?, search_worker()? all succeed *)
}.

(* haystack.rs::build_from_result *)
Definition build_from_result (c : cfg) (it : item) (s : st) : option hay * st :=
  match it with
  | IErr id => (None, err_message (c_messages c) (DgWalk id) s)
  | ISkip => (None, s)
  | IHay h => (Some h, s)
  end.

(* the separator line in front of a file's output: written by whoever owns it, only if the file writes
   anything and something was written before *)
Definition sep_line (c : cfg) (term : bytes) (s : st) (block : bytes) : bytes :=
  match block with
  | [] => []
  | _ => match c_sep c with
         | Some sep => if printed s then sep ++ term else []
         | None => []
         end
  end.

(* single-threaded: the printer owns the separator (printer_standard: separator_search) and writes straight to
   stdout while the file is searched *)
Definition serial_emit (c : cfg) (h : hay) (s : st) : st :=
  write_out (sep_line c (c_lineterm c) s (h_out h) ++ h_out h) s.

(* termcolor BufferWriter::print: nothing for an empty buffer; separator ++ "\n" if printed before; the buffer *)
Definition bw_print (c : cfg) (h : hay) (s : st) : pres * st :=
  match h_out h with
  | [] => (POk, s)
  | _ => match h_print h with
         | POk => (POk, write_out (sep_line c [10%N] s (h_out h) ++ h_out h) s)
         | r => (r, s)
         end
  end.

(* ---------------------------------------------------------------- results of the drivers *)
Inductive dres := ROk (m : bool) | RPipe | RFatal.     (* anyhow::Result<bool>: Ok(matched) / Err(BrokenPipe) / Err(other) *)

(* ---- main.rs::search ---- *)
(* how a loop over the walker's items ended: ran off the end of the iterator / `break` resp. WalkState::Quit
   because of quit_after_match / stopped by a broken pipe / stopped by another write error *)
Inductive lend := LEnd | LBreak | LPipe | LFatal.

(* the `for haystack in haystacks` loop *)
Fixpoint search_loop (c : cfg) (items : list item) (s : st) : st * lend :=
  match items with
  | [] => (s, LEnd)
  | it :: rest =>
    let '(oh, s) := build_from_result c it s in
    match oh with
    | None => search_loop c rest s
    | Some h =>
      let s := set_searched (h_id h) s in
      let s := serial_emit c h s in
      match h_res h with
      | SPipe => (s, LPipe)                                            (* return Err(err.into()) *)
      | SErr => search_loop c rest (err_message (c_messages c) (DgFile (h_id h)) s)     (* continue *)
      | r =>
        let s := set_matched (matched s || is_match r) s in
        if matched s && c_quit_after_match c then (s, LBreak)          (* break *)
        else search_loop c rest s
      end
    end
  end.

(* HiArgs::sort with a re-ordering sort: the whole filter_map iterator is consumed first, so every walker
   error is reported before the first search; [items] is given in the order after sorting *)
Fixpoint hoist (c : cfg) (items : list item) (s : st) : list item * st :=
  match items with
  | [] => ([], s)
  | it :: rest =>
    let '(oh, s) := build_from_result c it s in
    let '(hs, s) := hoist c rest s in
    (match oh with Some h => IHay h :: hs | None => hs end, s)
  end.

Definition finish_search (c : cfg) (s : st) : st :=
  let s := if c_implicit_path c && negb (searched s) then err_message (c_messages c) DgNothingSearched s else s in
  match c_stats c with Some t => write_out t s | None => s end.       (* let _ = print_stats(..) *)

Definition search_serial (c : cfg) (items : list item) (s : st) : dres * st :=
  if negb (c_setup_ok c) then (RFatal, s) else
  let '(items, s) := if c_collects c then hoist c items s else (items, s) in
  let '(s, e) := search_loop c items s in
  match e with
  | LPipe => (RPipe, s)
  | _ => let s := finish_search c s in (ROk (matched s), s)
  end.

(* ---- main.rs::search_parallel ---- *)
(* one call of the worker closure per item, in completion order; stops at WalkState::Quit *)
Fixpoint par_loop (c : cfg) (items : list item) (s : st) : st * lend :=
  match items with
  | [] => (s, LEnd)
  | it :: rest =>
    let '(oh, s) := build_from_result c it s in
    match oh with
    | None => par_loop c rest s                                        (* WalkState::Continue *)
    | Some h =>
      let s := set_searched (h_id h) s in
      match h_res h with
      | SErr | SPipe => par_loop c rest (err_message (c_messages c) (DgFile (h_id h)) s)   (* buffer dropped *)
      | r =>
        let s := if is_match r then set_matched true s else s in
        let '(p, s) := bw_print c h s in
        match p with
        | PPipe => (s, LPipe)                                          (* WalkState::Quit *)
        | _ =>
          let s := match p with PErr => err_message (c_messages c) (DgPrint (h_id h)) s | _ => s end in
          if matched s && c_quit_after_match c then (s, LBreak) else par_loop c rest s
        end
      end
    end
  end.

(* after the walk: nothing-searched message; statistics go through the buffer writer (separator rule applies);
   `let _ = bufwtr.print(..)`: after a broken pipe that write fails too and the failure is ignored *)
Definition finish_parallel (c : cfg) (e : lend) (s : st) : st :=
  let s := if c_implicit_path c && negb (searched s) then err_message (c_messages c) DgNothingSearched s else s in
  match c_stats c, e with
  | Some t, LPipe => s
  | Some t, _ => snd (bw_print c {| h_id := 0%N; h_res := SNoMatch; h_out := t; h_print := POk |} s)
  | None, _ => s
  end.

Definition search_parallel (c : cfg) (items : list item) (s : st) : dres * st :=
  if negb (c_setup_ok c) then (RFatal, s) else
  let '(s, e) := par_loop c items s in
  let s := finish_parallel c e s in
  (ROk (matched s), s).

(* ---- main.rs::files ---- *)
Fixpoint files_loop (c : cfg) (items : list item) (s : st) : st * lend :=
  match items with
  | [] => (s, LEnd)
  | it :: rest =>
    let '(oh, s) := build_from_result c it s in
    match oh with
    | None => files_loop c rest s
    | Some h =>
      let s := set_matched true s in
      if c_quit_after_match c then (s, LBreak) else
      match h_print h with
      | POk => files_loop c rest (write_out (h_out h) s)
      | PPipe => (s, LPipe)                                            (* break *)
      | PErr => (s, LFatal)                                            (* return Err(err.into()) *)
      end
    end
  end.

Definition files_serial (c : cfg) (items : list item) (s : st) : dres * st :=
  if negb (c_setup_ok c) then (RFatal, s) else
  let '(items, s) := if c_collects c then hoist c items s else (items, s) in
  let '(s, e) := files_loop c items s in
  match e with LFatal => (RFatal, s) | _ => (ROk (matched s), s) end.

(* ---- main.rs::files_parallel ---- *)
(* the worker closures: matched := true; Quit under quit_after_match, else send to the channel.
   (`tx.send` failing because the printing thread is gone also quits; it changes nothing observable: nothing
   sent after the printing thread stopped is ever printed.)  Result: the queue in send order. *)
Fixpoint files_par_workers (c : cfg) (items : list item) (s : st) (q : list hay) : st * list hay :=
  match items with
  | [] => (s, q)
  | it :: rest =>
    let '(oh, s) := build_from_result c it s in
    match oh with
    | None => files_par_workers c rest s q
    | Some h =>
      let s := set_matched true s in
      if c_quit_after_match c then (s, q) else files_par_workers c rest s (q ++ [h])
    end
  end.

(* the printing thread: `for haystack in rx.iter() { path_printer.write(haystack.path())?; }` *)
Fixpoint print_thread (q : list hay) (s : st) : st * pres :=
  match q with
  | [] => (s, POk)
  | h :: rest =>
    match h_print h with
    | POk => print_thread rest (write_out (h_out h) s)
    | r => (s, r)
    end
  end.

Definition files_parallel (c : cfg) (items : list item) (s : st) : dres * st :=
  if negb (c_setup_ok c) then (RFatal, s) else
  let '(s, q) := files_par_workers c items s [] in
  let '(s, r) := print_thread q s in
  match r with
  | PErr => (RFatal, s)                                                (* not a broken pipe: bubble up *)
  | _ => (ROk (matched s), s)
  end.

(* ---------------------------------------------------------------- main.rs::run and main *)
Inductive parse_result := ParseErr | ParseSpecial | ParseOk.

Record low := {
  l_mode : mode;
  l_patterns_empty : bool;
  l_max_count_zero : bool;
  l_quiet : bool;
  l_stats : bool;
  l_sort : option sort_mode;
  l_threads : option N;
  l_one_file : bool;
  l_avail : N                 (* std::thread::available_parallelism() *)
}.

Definition low_threads (l : low) : N :=
  threads (match l_sort l with Some _ => true | None => false end) (l_one_file l) (l_threads l) (l_avail l).

(* the HiArgs fields derived in from_low_args that the drivers consult; the rest of cfg is free *)
Definition cfg_of_low (l : low) (base : cfg) : cfg :=
  {| c_quiet := l_quiet l;
     c_quit_after_match := quit_after_match (negb (stats_is_some (l_mode l) (l_stats l))) (l_quiet l);
     c_implicit_path := c_implicit_path base;
     c_messages := c_messages base;
     c_stats := if stats_is_some (l_mode l) (l_stats l) then c_stats base else None;
     c_collects := negb (sort_is_identity (l_sort l));
     c_sep := c_sep base;
     c_lineterm := c_lineterm base;
     c_setup_ok := c_setup_ok base |}.

Record outcome := { o_status : N; o_out : bytes; o_diags : list diag; o_done : list N }.

Definition outcome_of (status : N) (s : st) : outcome :=
  {| o_status := status; o_out := out s; o_diags := diags s; o_done := done s |}.

(* run: Ok(code) | Err(err);  main: code | 0 if the chain has a BrokenPipe | eprintln + 2 *)
Definition run_model (p : parse_result) (l : low) (base : cfg) (items : list item) : outcome :=
  match p with
  | ParseErr => outcome_of 2%N (err_message true DgFatal st0)        (* eprintln_locked!, not message!: always printed *)
  | ParseSpecial => outcome_of 0%N st0                               (* --help/--version: outside this model *)
  | ParseOk =>
    let c := cfg_of_low l base in
    let d := choose_driver (l_mode l) (matches_possible (l_patterns_empty l) (l_max_count_zero l)) (low_threads l) in
    let '(r, s) :=
      match d with
      | DNone => (ROk false, st0)
      | DSearch => search_serial c items st0
      | DSearchParallel => search_parallel c items st0
      | DFiles => files_serial c items st0
      | DFilesParallel => files_parallel c items st0
      | DTypes | DGenerate => (RPipe, st0)                             (* `return types(..)` / `return generate(..)`: outside
                                                                          this model (status 0 unless no type is defined) *)
      end in
    match r with
    | ROk m => outcome_of (exit_code m (c_quiet c) (errored s)) s
    | RPipe => outcome_of 0%N s
    | RFatal => outcome_of 2%N
                  {| matched := matched s; searched := searched s; errored := errored s; printed := printed s;
                     diags := diags s ++ [DgFatal]; out := out s; done := done s |}
    end
  end.
