(* Model/LitePlanCore.v — the bridge between the two searcher models:
     Model/SearcherCore.v + Model/Glue.v  (C02/C03: the whole Core, sink = reply function, events with line numbers)
     Model/BinaryDetect.v                 (C14: the binary-detection skeleton over a *plan* of sink calls)
   [ev14] translates an event of the Core model into an event of the C14 model (the line number, which the C14
   model does not carry, is dropped; everything else is kept).  [plan_calls] is `lite_calls` with the verdict on
   a line abstracted to a function (lite_calls is the instance "one of the needles occurs in the line");
   [ranges_of] gives the ranges of a list of lines laid out from an offset.  Definitions only. *)
From RG Require Import Base.Bytes Model.Lines Model.SearcherCore Model.Glue Model.LineBufferBin Model.BinaryDetect.

Definition kind14 (k : SearcherCore.ctx_kind) : BinaryDetect.ctx_kind :=
  match k with
  | SearcherCore.CBefore => BinaryDetect.KBefore
  | SearcherCore.CAfter => BinaryDetect.KAfter
  | SearcherCore.COther => BinaryDetect.KOther
  end.

Definition ev14 (e : SearcherCore.event) : BinaryDetect.event :=
  match e with
  | SearcherCore.EBegin => BinaryDetect.EBegin
  | SearcherCore.EMatched off _ b => BinaryDetect.EMatched off b
  | SearcherCore.EContext k off _ b => BinaryDetect.EContext (kind14 k) off b
  | SearcherCore.EBreak => BinaryDetect.EBreak
  | SearcherCore.EBinary off => BinaryDetect.EBinary off
  | SearcherCore.EFinish n bin => BinaryDetect.EFinish n bin
  end.

(* what ev14 forgets: exactly the line number *)
Definition strip_lnum (e : SearcherCore.event) : SearcherCore.event :=
  match e with
  | SearcherCore.EMatched off _ b => SearcherCore.EMatched off None b
  | SearcherCore.EContext k off _ b => SearcherCore.EContext k off None b
  | e => e
  end.

(* what a run of the Core model returns, seen from the C14 model *)
Definition result14 (r : Glue.run_result) : option (list BinaryDetect.event) :=
  match r with
  | Glue.RunOk evs => Some (map ev14 evs)
  | _ => None
  end.

(* lite_calls with the verdict "this line is a result" abstracted; [fast_inv]: the inverted fast path is the one
   that runs (match_by_line_fast_invert has moved pos past the next line the matcher finds) *)
Fixpoint plan_calls (success : bytes -> bool) (fast_inv passthru : bool) (buf_len : nat)
         (rs : list (nat * nat * bytes)) : list call * nat :=
  match rs with
  | [] => ([], buf_len)
  | (s, e, line) :: rs' =>
    let (rest, nxt) := plan_calls success fast_inv passthru buf_len rs' in
    if success line then
      (mk_call true KOther s e false (if fast_inv && negb passthru then nxt else e) :: rest, nxt)
    else
      ((if passthru then [mk_call false KOther s e false e] else []) ++ rest, e)
  end.

(* the plan of the context-free line search for an arbitrary matcher (is_match is asked about the line
   without its terminator, as Core does) *)
Definition core_plan (cfg : SearcherCore.config) (is_match : bytes -> bool) (buf : bytes) : list call :=
  fst (plan_calls
         (fun line => negb (Bool.eqb (is_match (without_terminator (c_lt cfg) line)) (c_invert cfg)))
         (c_invert cfg) (c_passthru cfg) (length buf)
         (line_ranges (lt_byte (c_lt cfg)) buf 0 0 [])).

Fixpoint ranges_of (off : nat) (ls : list bytes) : list (nat * nat * bytes) :=
  match ls with
  | [] => []
  | l :: r => (off, off + length l, l) :: ranges_of (off + length l) r
  end.

(* the always-continuing sink of the C14 model (no state) *)
Definition sink_K (s : unit) (_ : BinaryDetect.event) : unit * bool := (s, true).

(* reply function: Continue before call k, Stop at and after it *)
Definition stop_at (k : nat) (i : nat) : SearcherCore.reply :=
  if Nat.ltb i k then SearcherCore.Continue else SearcherCore.Stop.

(* the detection mode of the Core model's Config in the vocabulary of the C14 model *)
Definition mode14 (m : SearcherCore.bin_mode) : LineBufferBin.bin_mode :=
  match m with
  | SearcherCore.BNone => LineBufferBin.BNone
  | SearcherCore.BQuit b => LineBufferBin.BQuit b
  | SearcherCore.BConvert b => LineBufferBin.BConvert b
  end.

(* a reply function of the Core model (indexed by the number of earlier sink calls) as a sink of the C14 model:
   the state is the number of calls seen; "keep going" = the reply is Continue *)
Definition sink_of (r : nat -> SearcherCore.reply) (n : nat) (_ : BinaryDetect.event) : nat * bool :=
  (S n, match r n with SearcherCore.Continue => true | _ => false end).

(* the plan when the matcher's lines are / are not searched by the fast path (under inversion the positions
   differ: c_pos) *)
Definition core_plan_on (fast : bool) (cfg : SearcherCore.config) (is_match : bytes -> bool) (buf : bytes) : list call :=
  fst (plan_calls
         (fun line => negb (Bool.eqb (is_match (without_terminator (c_lt cfg) line)) (c_invert cfg)))
         (fast && c_invert cfg) (c_passthru cfg) (length buf)
         (line_ranges (lt_byte (c_lt cfg)) buf 0 0 [])).
