(* Model/Replace.v — mirrors crates/printer/src/util.rs
     trim_line_terminator, Replacer::replace_all (line-oriented branch),
     replace_with_captures_in_context
   and crates/matcher/src/lib.rs Captures::interpolate (haystack slices as group texts).
   Definitions only. *)
From RG Require Import Base.Bytes Model.Interpolate Model.MatchIter.
From RG Require Export Base.LineTerm.

(* a Captures value: group i -> span; group 0 always present for a successful match *)
Definition caps := list (option (nat * nat)).
Definition cap_span (c : caps) : nat * nat :=
  match c with Some m :: _ => m | _ => (0, 0) end.

(* trim_line_terminator(searcher, buf, &mut line): returns the new end of `line` = [st, en) *)
Definition trim_line_terminator (lt : lineterm) (buf : bytes) (st en : nat) : nat :=
  if lt_is_suffix lt (sub buf st en) then
    let e := en - 1 in
    match lt with
    | LTCrlf =>
        if Nat.ltb 0 e && (match nth_error buf (e - 1) with Some 13%N => true | _ => false end)
        then e - 1 else e
    | LTByte _ => e
    end
  else en.

Section Replace.
  Variable captures_at : bytes -> nat -> option caps.    (* matcher.captures_at(haystack, at) *)
  Variable name_to_index : bytes -> option N.            (* matcher.capture_index *)

  Definition cap_text (hay : bytes) (c : caps) (i : N) : option bytes :=
    match nth_N c i None with
    | Some (s, e) => Some (sub hay s e)
    | None => None
    end.

  (* state of replace_with_captures_in_context: dst, last_match, and the match spans in dst *)
  Record rstate := { r_dst : bytes; r_last : nat; r_matches : list (nat * nat); r_fail : bool }.

  Definition replace_cb (hay : bytes) (range_end : nat) (template : bytes) (c : caps) (st : rstate)
    : rstate * bool :=
    let (s, e) := cap_span c in
    if Nat.leb range_end s then (st, false) else
    let dst := r_dst st ++ sub hay (r_last st) s in
    let start := length dst in
    match interpolate (cap_text hay c) name_to_index template dst with
    | Some dst' =>
        ({| r_dst := dst'; r_last := e; r_matches := r_matches st ++ [(start, length dst')];
            r_fail := r_fail st |}, true)
    | None => ({| r_dst := dst; r_last := e; r_matches := r_matches st; r_fail := true |}, false)
    end.

  (* Replacer::replace_all for a searcher that is not in multi-line mode:
     haystack is cut at the end of the line's content, then replace_with_captures_in_context. *)
  Definition replace_all (lt : lineterm) (buf : bytes) (rs re : nat) (template : bytes)
    : option (bytes * list (nat * nat)) :=
    let hend := trim_line_terminator lt buf 0 re in
    let hay := firstn hend buf in
    match iter_at (captures_at hay) cap_span (length hay) (replace_cb hay re template) rs
                  {| r_dst := []; r_last := rs; r_matches := []; r_fail := false |} with
    | None => None
    | Some st =>
      if r_fail st then None else
      let en := Nat.min (length hay) re in
      Some (r_dst st ++ sub hay (r_last st) en, r_matches st)
    end.
End Replace.
