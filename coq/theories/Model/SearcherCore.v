(* Model/SearcherCore.v — mirrors crates/searcher/src/searcher/core.rs  (struct Core and its methods)
     Core::new, roll, detect_binary, before_context_by_line, after_context_by_line,
     other_context_by_line, match_by_line, match_by_line_slow, match_by_line_fast,
     match_by_line_fast_invert, find_by_line_fast, sink_matched, sink_before_context,
     sink_after_context, sink_other_context, sink_break_context, count_lines, is_line_by_line_fast
   The bookkeeping fields are kept exactly as in the Rust struct.  The sink is a reply function
   (index = number of earlier sink calls); every sink call is logged.  The matcher is a record of
   functions.  Loops run on fuel; "fuel suffices" lemmas are in Proofs.  Definitions only. *)
From RG Require Import Base.Bytes Model.Lines.

Inductive ctx_kind := CBefore | CAfter | COther.
Inductive event :=
| EBegin
| EMatched (off : nat) (lnum : option nat) (b : bytes)
| EContext (k : ctx_kind) (off : nat) (lnum : option nat) (b : bytes)
| EBreak
| EBinary (off : nat)
| EFinish (count : nat) (bin : option nat).

Inductive reply := Continue | Stop | Fail.

Inductive bin_mode := BNone | BQuit (b : byte) | BConvert (b : byte).
Definition quit_byte (m : bin_mode) : option byte := match m with BQuit b => Some b | _ => None end.

(* searcher Config, the fields the line searcher reads *)
Record config := {
  c_lt : lineterm;
  c_invert : bool;
  c_after : nat;
  c_before : nat;
  c_passthru : bool;
  c_line_number : bool;
  c_stop_on_nonmatch : bool;
  c_binary : bin_mode;
  c_multi_line : bool;
}.
Definition max_context (cfg : config) : nat := Nat.max (c_before cfg) (c_after cfg).

(* what the searcher asks of a Matcher *)
Record matcher := {
  m_is_match : bytes -> bool;                          (* is_match / shortest_match(..).is_some() *)
  m_find_candidate : bytes -> option (bool * nat);     (* find_candidate_line: (confirmed?, offset) *)
  m_line_term : option lineterm;                       (* line_terminator() *)
  m_nonmatching : byte -> bool;                        (* non_matching_bytes().contains(b) (false if None) *)
  m_find_at : bytes -> nat -> option (nat * nat);      (* find_at(haystack, at) — used by the multi-line searcher *)
}.

Record core := {
  pos : nat;
  abs_off : nat;                      (* absolute_byte_offset *)
  bin_off : option nat;               (* binary_byte_offset *)
  line_number : option nat;
  last_line_counted : nat;
  last_line_visited : nat;
  after_context_left : nat;
  has_sunk : bool;
  has_matched : bool;
  log : list event;                   (* every sink call so far, newest first *)
}.

Definition core_new (cfg : config) : core :=
  {| pos := 0; abs_off := 0; bin_off := None;
     line_number := if c_line_number cfg then Some 1 else None;
     last_line_counted := 0; last_line_visited := 0; after_context_left := 0;
     has_sunk := false; has_matched := false; log := [] |}.

Definition set_pos (c : core) (p : nat) : core :=
  {| pos := p; abs_off := abs_off c; bin_off := bin_off c; line_number := line_number c;
     last_line_counted := last_line_counted c; last_line_visited := last_line_visited c;
     after_context_left := after_context_left c; has_sunk := has_sunk c; has_matched := has_matched c;
     log := log c |}.
Definition set_has_matched (c : core) : core :=
  {| pos := pos c; abs_off := abs_off c; bin_off := bin_off c; line_number := line_number c;
     last_line_counted := last_line_counted c; last_line_visited := last_line_visited c;
     after_context_left := after_context_left c; has_sunk := has_sunk c; has_matched := true;
     log := log c |}.
Definition set_bin_off (c : core) (o : nat) : core :=
  {| pos := pos c; abs_off := abs_off c; bin_off := Some o; line_number := line_number c;
     last_line_counted := last_line_counted c; last_line_visited := last_line_visited c;
     after_context_left := after_context_left c; has_sunk := has_sunk c; has_matched := has_matched c;
     log := log c |}.
Definition set_log (c : core) (l : list event) : core :=
  {| pos := pos c; abs_off := abs_off c; bin_off := bin_off c; line_number := line_number c;
     last_line_counted := last_line_counted c; last_line_visited := last_line_visited c;
     after_context_left := after_context_left c; has_sunk := has_sunk c; has_matched := has_matched c;
     log := l |}.
(* after a successful sink of a line ending at [e]: last_line_visited, after_context_left, has_sunk *)
Definition set_visited (c : core) (e : nat) (acl : nat) : core :=
  {| pos := pos c; abs_off := abs_off c; bin_off := bin_off c; line_number := line_number c;
     last_line_counted := last_line_counted c; last_line_visited := e;
     after_context_left := acl; has_sunk := true; has_matched := has_matched c;
     log := log c |}.

(* Result<bool, S::Error> together with the Core after the call; FUEL never happens with enough fuel *)
Inductive outcome := OK (b : bool) (c : core) | ERR (c : core) | FUEL.

(* `if !f()? { return Ok(false) }; rest` *)
Definition andthen (o : outcome) (k : core -> outcome) : outcome :=
  match o with
  | OK true c => k c
  | OK false c => OK false c
  | ERR c => ERR c
  | FUEL => FUEL
  end.

Section WithSink.
  Variable cfg : config.
  Variable M : matcher.
  Variable reply_of : nat -> reply.

  Definition ltb_ : byte := lt_byte (c_lt cfg).

  (* one call of a Sink method: the event is logged, the reply decides *)
  Definition emit (c : core) (e : event) : outcome :=
    let c' := set_log c (e :: log c) in
    match reply_of (length (log c)) with
    | Continue => OK true c'
    | Stop => OK false c'
    | Fail => ERR c'
    end.

  (* count_lines(buf, upto) *)
  Definition count_lines (c : core) (buf : bytes) (upto : nat) : core :=
    match line_number c with
    | None => c
    | Some n =>
      if Nat.leb upto (last_line_counted c) then c
      else
        let cnt := count_lt ltb_ (sub buf (last_line_counted c) upto) in
        {| pos := pos c; abs_off := abs_off c; bin_off := bin_off c; line_number := Some (n + cnt);
           last_line_counted := upto; last_line_visited := last_line_visited c;
           after_context_left := after_context_left c; has_sunk := has_sunk c;
           has_matched := has_matched c; log := log c |}
    end.

  (* detect_binary(buf, range): Ok(true) = stop *)
  Definition detect_binary (c : core) (buf : bytes) (rs re : nat) : outcome :=
    match bin_off c with
    | Some _ => OK (match quit_byte (c_binary cfg) with Some _ => true | None => false end) c
    | None =>
      match c_binary cfg with
      | BNone => OK false c
      | BQuit b | BConvert b =>
        match find_byte b (sub buf rs re) with
        | Some i =>
          let off := rs + i in
          let c := set_bin_off c off in
          match emit c (EBinary off) with
          | OK true c' => OK (match quit_byte (c_binary cfg) with Some _ => true | None => false end) c'
          | OK false c' => OK true c'
          | o => o
          end
        | None => OK false c
        end
      end
    end.

  (* `if self.binary && self.detect_binary(buf, range)? { return Ok(false) }` *)
  Definition binary_guard (binary : bool) (c : core) (buf : bytes) (rs re : nat) (k : core -> outcome) : outcome :=
    if binary then
      match detect_binary c buf rs re with
      | OK true c' => OK false c'
      | OK false c' => k c'
      | o => o
      end
    else k c.

  (* sink_break_context(start_of_line) *)
  Definition sink_break_context (c : core) (start_of_line : nat) : outcome :=
    let is_gap := Nat.ltb (last_line_visited c) start_of_line in
    let any_context := Nat.ltb 0 (c_before cfg) || Nat.ltb 0 (c_after cfg) in
    if negb any_context || negb (has_sunk c) || negb is_gap then OK true c
    else emit c EBreak.

  Variable binary : bool.      (* Core.binary: true for the slice strategies *)

  Definition sink_matched (c : core) (buf : bytes) (rs re : nat) : outcome :=
    binary_guard binary c buf rs re (fun c =>
    andthen (sink_break_context c rs) (fun c =>
    let c := count_lines c buf rs in
    andthen (emit c (EMatched (abs_off c + rs) (line_number c) (sub buf rs re))) (fun c =>
    OK true (set_visited c re (c_after cfg))))).

  Definition sink_before_context (c : core) (buf : bytes) (rs re : nat) : outcome :=
    binary_guard binary c buf rs re (fun c =>
    let c := count_lines c buf rs in
    andthen (emit c (EContext CBefore (abs_off c + rs) (line_number c) (sub buf rs re))) (fun c =>
    OK true (set_visited c re (after_context_left c)))).

  Definition sink_after_context (c : core) (buf : bytes) (rs re : nat) : outcome :=
    binary_guard binary c buf rs re (fun c =>
    let c := count_lines c buf rs in
    andthen (emit c (EContext CAfter (abs_off c + rs) (line_number c) (sub buf rs re))) (fun c =>
    OK true (set_visited c re (after_context_left c - 1)))).

  Definition sink_other_context (c : core) (buf : bytes) (rs re : nat) : outcome :=
    binary_guard binary c buf rs re (fun c =>
    let c := count_lines c buf rs in
    andthen (emit c (EContext COther (abs_off c + rs) (line_number c) (sub buf rs re))) (fun c =>
    OK true (set_visited c re (after_context_left c)))).

  (* `while let Some(line) = stepper.next_match(buf) { body }` with stepper = LineStep(p, en) *)
  Fixpoint before_loop (fuel : nat) (c : core) (buf : bytes) (p en : nat) : outcome :=
    match fuel with
    | 0 => FUEL
    | S fuel' =>
      match line_step ltb_ buf p en with
      | None => OK true c
      | Some (s, e) =>
        andthen (sink_break_context c s) (fun c =>
        andthen (sink_before_context c buf s e) (fun c =>
        before_loop fuel' c buf e en))
      end
    end.

  Definition before_context_by_line (c : core) (buf : bytes) (upto : nat) : outcome :=
    if Nat.eqb (c_before cfg) 0 then OK true c else
    let rs := last_line_visited c in
    if Nat.leb upto rs then OK true c else          (* range.is_empty() *)
    let start := rs + preceding ltb_ (sub buf rs upto) (c_before cfg - 1) in
    before_loop (S (length buf)) c buf start upto.

  Fixpoint after_loop (fuel : nat) (c : core) (buf : bytes) (p en : nat) : outcome :=
    match fuel with
    | 0 => FUEL
    | S fuel' =>
      match line_step ltb_ buf p en with
      | None => OK true c
      | Some (s, e) =>
        andthen (sink_after_context c buf s e) (fun c =>
        if Nat.eqb (after_context_left c) 0 then OK true c
        else after_loop fuel' c buf e en)
      end
    end.

  Definition after_context_by_line (c : core) (buf : bytes) (upto : nat) : outcome :=
    if Nat.eqb (after_context_left c) 0 then OK true c
    else after_loop (S (length buf)) c buf (last_line_visited c) upto.

  Fixpoint other_loop (fuel : nat) (c : core) (buf : bytes) (p en : nat) : outcome :=
    match fuel with
    | 0 => FUEL
    | S fuel' =>
      match line_step ltb_ buf p en with
      | None => OK true c
      | Some (s, e) =>
        andthen (sink_other_context c buf s e) (fun c => other_loop fuel' c buf e en)
      end
    end.

  Definition other_context_by_line (c : core) (buf : bytes) (upto : nat) : outcome :=
    other_loop (S (length buf)) c buf (last_line_visited c) upto.

  (* match_by_line_slow: the stepper runs over [pos, len) *)
  Fixpoint slow_loop (fuel : nat) (c : core) (buf : bytes) (p : nat) : outcome :=
    match fuel with
    | 0 => FUEL
    | S fuel' =>
      match line_step ltb_ buf p (length buf) with
      | None => OK true c
      | Some (s, e) =>
        let matched := m_is_match M (without_terminator (c_lt cfg) (sub buf s e)) in
        let c := set_pos c e in
        let success := negb (Bool.eqb matched (c_invert cfg)) in
        let after_line (c : core) : outcome :=
          if c_stop_on_nonmatch cfg && negb success && has_matched c then OK false c
          else slow_loop fuel' c buf e in
        if success then
          let c := set_has_matched c in
          andthen (before_context_by_line c buf s) (fun c =>
          andthen (sink_matched c buf s e) after_line)
        else if Nat.leb 1 (after_context_left c) then
          andthen (sink_after_context c buf s e) after_line
        else if c_passthru cfg then
          andthen (sink_other_context c buf s e) after_line
        else after_line c
      end
    end.

  Definition match_by_line_slow (c : core) (buf : bytes) : outcome :=
    slow_loop (S (length buf)) c buf (pos c).

  (* find_by_line_fast: Ok(Some(line)) / Ok(None) *)
  Fixpoint find_fast_loop (fuel : nat) (buf : bytes) (p : nat) : option (option (nat * nat)) :=
    match fuel with
    | 0 => None
    | S fuel' =>
      if Nat.leb (length buf) p then Some None else
      match m_find_candidate M (skipn p buf) with
      | None => Some None
      | Some (true, i) =>                                    (* Confirmed *)
        let (ls, le) := locate ltb_ buf (p + i) (p + i) in
        if Nat.eqb ls (length buf) then find_fast_loop fuel' buf (length buf)
        else Some (Some (ls, le))
      | Some (false, i) =>                                   (* Candidate *)
        let (ls, le) := locate ltb_ buf (p + i) (p + i) in
        if m_is_match M (without_terminator (c_lt cfg) (sub buf ls le)) then Some (Some (ls, le))
        else find_fast_loop fuel' buf le
      end
    end.

  Definition find_by_line_fast (c : core) (buf : bytes) : option (option (nat * nat)) :=
    find_fast_loop (S (S (length buf))) buf (pos c).

  (* the `while let Some(line)` of match_by_line_fast_invert *)
  Fixpoint matched_loop (fuel : nat) (c : core) (buf : bytes) (p en : nat) : outcome :=
    match fuel with
    | 0 => FUEL
    | S fuel' =>
      match line_step ltb_ buf p en with
      | None => OK true c
      | Some (s, e) => andthen (sink_matched c buf s e) (fun c => matched_loop fuel' c buf e en)
      end
    end.

  Definition match_by_line_fast_invert (c : core) (buf : bytes) : outcome :=
    match find_by_line_fast c buf with
    | None => FUEL
    | Some r =>
      let '(rs, re, c) :=
        match r with
        | None => (pos c, length buf, set_pos c (length buf))
        | Some (ls, le) =>
          (* with stop_on_nonmatch the found (non-matching) line is left to the slow path *)
          (pos c, ls, if c_stop_on_nonmatch cfg && negb (Nat.leb ls (pos c)) then set_pos c ls else set_pos c le)
        end in
      if Nat.leb re rs then OK true c else
      let c := set_has_matched c in
      andthen (after_context_by_line c buf rs) (fun c =>
      andthen (before_context_by_line c buf rs) (fun c =>
      matched_loop (S (length buf)) c buf rs re))
    end.

  Inductive fast_result := FContinue | FStop | FSwitchToSlow.
  Inductive fast_outcome := FOK (r : fast_result) (c : core) | FERR (c : core) | FFUEL.

  Definition lift_stop (o : outcome) (k : core -> fast_outcome) : fast_outcome :=
    match o with
    | OK true c => k c
    | OK false c => FOK FStop c
    | ERR c => FERR c
    | FUEL => FFUEL
    end.

  Fixpoint fast_loop (fuel : nat) (c : core) (buf : bytes) : fast_outcome :=
    let finish (c : core) : fast_outcome :=
      lift_stop (after_context_by_line c buf (length buf)) (fun c =>
      FOK FContinue (set_pos c (length buf))) in
    match fuel with
    | 0 => FFUEL
    | S fuel' =>
      if Nat.leb (length buf) (pos c) then finish c else
      if c_stop_on_nonmatch cfg && has_matched c then FOK FSwitchToSlow c else
      if c_invert cfg then
        lift_stop (match_by_line_fast_invert c buf) (fun c => fast_loop fuel' c buf)
      else
        match find_by_line_fast c buf with
        | None => FFUEL
        | Some None => finish c
        | Some (Some (ls, le)) =>
          let c := set_has_matched c in
          let k (c : core) : fast_outcome :=
            let c := set_pos c le in
            lift_stop (sink_matched c buf ls le) (fun c => fast_loop fuel' c buf) in
          if Nat.ltb 0 (max_context cfg) then
            lift_stop (after_context_by_line c buf ls) (fun c =>
            lift_stop (before_context_by_line c buf ls) k)
          else k c
        end
    end.

  Definition match_by_line_fast (c : core) (buf : bytes) : fast_outcome :=
    fast_loop (S (S (length buf))) c buf.

  (* is_line_by_line_fast *)
  Definition is_line_by_line_fast (c : core) : bool :=
    if c_passthru cfg then false else
    if c_stop_on_nonmatch cfg && has_matched c then false else
    match m_line_term M with
    | Some lt =>
      if (lt_byte lt =? 0)%N then false
      else if lt_eqb lt (c_lt cfg) then true
      else m_nonmatching M ltb_
    | None => m_nonmatching M ltb_
    end.

  (* match_by_line *)
  Definition match_by_line (c : core) (buf : bytes) : outcome :=
    if is_line_by_line_fast c then
      match match_by_line_fast c buf with
      | FOK FSwitchToSlow c => match_by_line_slow c buf
      | FOK FContinue c => OK true c
      | FOK FStop c => OK false c
      | FERR c => ERR c
      | FFUEL => FUEL
      end
    else match_by_line_slow c buf.

  (* roll(buf) -> consumed, and the new Core *)
  Definition roll (c : core) (buf : bytes) : nat * core :=
    let consumed :=
      if Nat.eqb (max_context cfg) 0 then length buf
      else Nat.max (preceding ltb_ buf (max_context cfg)) (last_line_visited c) in
    let c := count_lines c buf consumed in
    (consumed,
     {| pos := length buf - consumed; abs_off := abs_off c + consumed; bin_off := bin_off c;
        line_number := line_number c; last_line_counted := 0; last_line_visited := 0;
        after_context_left := after_context_left c; has_sunk := has_sunk c;
        has_matched := has_matched c; log := log c |}).
End WithSink.
