(* Model/Gitignore.v — executable model of crates/ignore/src/gitignore.rs and of the part of dir.rs / walk.rs
   that decides which entries of a tree are visited when only .gitignore files are active.  Definitions only.

   Rust items mirrored:
     crates/ignore/src/gitignore.rs::GitignoreBuilder::add_line (comment, trailing spaces, \! \#, !, leading /, empty pattern,
        trailing /, escaped trailing slash, implicit **/ prefix, /** => /**/*, GlobBuilder options)
     crates/ignore/src/gitignore.rs::trim_trailing_spaces, Glob::has_doublestar_prefix
     crates/ignore/src/gitignore.rs::Gitignore::{matched, matched_stripped, matched_path_or_any_parents, strip}
     crates/ignore/src/dir.rs::Ignore::matched_ignore   (git_ignore_matcher chain: nearest directory first,
        first non-None verdict wins; other matcher kinds are switched off in this property)
     crates/ignore/src/walk.rs::should_skip_entry + descent (an ignored directory is not entered)
   Paths are lists of components (non-empty, '/'-free byte strings) relative to the walk root; the glob
   machinery of C12 (Model/Glob.v, Model/GlobSet.v) sees them joined with '/'.  Lines are ASCII. *)
From RG Require Import Base.Bytes Model.Glob Model.GlobSet.

Section WithRegex.
Variable re : glob -> bytes -> bool.          (* meaning of a glob's regex; instantiated with re_spec *)

Record iglob := mk_iglob {
  ig_whitelist : bool;
  ig_only_dir : bool;
  ig_actual : list N;
  ig_glob : glob }.

Inductive line_result := LSkip | LError (e : gerror) | LGlob (g : iglob).

(* trim_trailing_spaces: the index of the first space of the trailing run of unescaped spaces *)
Fixpoint tts_loop (s : bytes) (i : nat) (last_space : option nat) : option nat :=
  match s with
  | [] => last_space
  | b :: r =>
    if (b =? 32)%N then tts_loop r (S i) (match last_space with None => Some i | x => x end)
    else if (b =? 92)%N then
      match r with
      | [] => None
      | _ :: r' => tts_loop r' (S (S i)) None
      end
    else tts_loop r (S i) None
  end.
Definition trim_trailing_spaces (line : bytes) : bytes :=
  match tts_loop line 0 None with Some i => firstn i line | None => line end.

Definition last_is (b : N) (s : bytes) : bool :=
  match rev s with x :: _ => (x =? b)%N | [] => false end.
Definition has_byte (b : N) (s : bytes) : bool := existsb (N.eqb b) s.
Definition trailing_backslashes (s : bytes) : nat := length (take_while (N.eqb 92) (rev s)).

Definition has_doublestar_prefix (actual : bytes) : bool :=
  is_prefix_of [42; 42; 47]%N actual || bytes_eqb actual [42; 42]%N.

Definition add_line (ci : bool) (line0 : bytes) : line_result :=
  if is_prefix_of [35%N] line0 then LSkip else
  let line := trim_trailing_spaces line0 in
  match line with
  | [] => LSkip
  | _ =>
    let '(is_whitelist, is_absolute, line) :=
      if is_prefix_of [92; 33]%N line || is_prefix_of [92; 35]%N line then
        let l := skipn 1 line in (false, is_prefix_of [47%N] l, l)
      else
        let '(w, l) := if is_prefix_of [33%N] line then (true, skipn 1 line) else (false, line) in
        if is_prefix_of [47%N] l then (w, true, skipn 1 l) else (w, false, l) in
    match line with
    | [] => LSkip                       (* empty pattern (a lone `!`, `/`): matches nothing *)
    | _ =>
    let '(only_dir, line) :=
      if last_is 47 line then
        let l := removelast line in
        (true, if Nat.odd (trailing_backslashes l) then removelast l else l)
      else (false, line) in
    let actual :=
      if negb is_absolute && negb (has_byte 47 line) then
        if has_doublestar_prefix line then line else [42; 42; 47]%N ++ line
      else line in
    let actual := if is_suffix_of [47; 42; 42]%N actual then actual ++ [47; 42]%N else actual in
    let o := mk_gopts ci true true false in
    match build o actual with
    | Some (Ok ts) => LGlob (mk_iglob is_whitelist only_dir actual (mk_glob o ts))
    | Some (Err e) => LError e
    | None => LError Panic
    end
    end
  end.

(* GitignoreBuilder::add / add_str: lines that fail to parse are reported and skipped *)
Fixpoint add_lines (ci : bool) (lines : list bytes) : list iglob :=
  match lines with
  | [] => []
  | l :: r => match add_line ci l with LGlob g => g :: add_lines ci r | _ => add_lines ci r end
  end.

Inductive verdict := VNone | VIgnore | VWhitelist.

Definition join (comps : list bytes) : bytes :=
  match comps with
  | [] => []
  | c :: r => c ++ flat_map (fun x => 47%N :: x) r
  end.

(* Gitignore::matched_stripped: the matching globs of the set, scanned from the last one *)
Definition matched_stripped (globs : list iglob) (path : bytes) (is_dir : bool) : verdict :=
  match globs with
  | [] => VNone
  | _ =>
    let ms := set_matches re (map ig_glob globs) path in
    match find (fun i => match nth_error globs i with
                         | Some g => negb (ig_only_dir g) || is_dir
                         | None => false end) (rev ms) with
    | Some i => match nth_error globs i with
                | Some g => if ig_whitelist g then VWhitelist else VIgnore
                | None => VNone
                end
    | None => VNone
    end
  end.

(* Gitignore::matched_path_or_any_parents on a stripped path: the path, then Path::parent() repeatedly
   (down to the empty path), each parent as a directory *)
Fixpoint parents_up (globs : list iglob) (rparents : list (list bytes)) : verdict :=
  match rparents with
  | [] => VNone
  | p :: r => match matched_stripped globs (join p) true with
              | VNone => parents_up globs r
              | v => v
              end
  end.
(* proper prefixes of comps, longest first, ending with the empty path *)
Fixpoint proper_prefixes (comps : list bytes) : list (list bytes) :=
  match comps with
  | [] => []
  | c :: r => map (cons c) (proper_prefixes r) ++ [[]]
  end.
Definition matched_path_or_any_parents (globs : list iglob) (comps : list bytes) (is_dir : bool) : verdict :=
  match globs with
  | [] => VNone
  | _ =>
    match matched_stripped globs (join comps) is_dir with
    | VNone => match comps with [] => VNone | _ => parents_up globs (proper_prefixes comps) end
    | v => v
    end
  end.

(* ---- the chain of ignore files (dir.rs matched_ignore, git_ignore_matcher only) ---- *)
(* an ignore file: the directory that contains it (components) and its parsed globs *)
Definition ignore_file := (list bytes * list iglob)%type.

Fixpoint comps_prefix (d p : list bytes) : option (list bytes) :=    (* Gitignore::strip *)
  match d, p with
  | [], _ => Some p
  | x :: d', y :: p' => if bytes_eqb x y then comps_prefix d' p' else None
  | _ :: _, [] => None
  end.

(* ignore files of the proper ancestors of [path], nearest first: [igs] sorted by decreasing depth *)
Fixpoint chain_verdict (igs : list ignore_file) (path : list bytes) (is_dir : bool) : verdict :=
  match igs with
  | [] => VNone
  | (d, globs) :: r =>
    match comps_prefix d path with
    | Some ((_ :: _) as rel) =>
      match matched_stripped globs (join rel) is_dir with
      | VNone => chain_verdict r path is_dir
      | v => v
      end
    | _ => chain_verdict r path is_dir
    end
  end.

Definition skipped (igs : list ignore_file) (path : list bytes) (is_dir : bool) : bool :=
  match chain_verdict igs path is_dir with VIgnore => true | _ => false end.

(* walk.rs: an entry is visited iff it is not skipped and none of its ancestor directories is skipped *)
Fixpoint ancestors_ok (igs : list ignore_file) (pre : list bytes) (rest : list bytes) : bool :=
  match rest with
  | [] => true
  | [_] => true
  | c :: r => negb (skipped igs (pre ++ [c]) true) && ancestors_ok igs (pre ++ [c]) r
  end.
Definition visited (igs : list ignore_file) (path : list bytes) (is_dir : bool) : bool :=
  ancestors_ok igs [] path && negb (skipped igs path is_dir).

End WithRegex.
