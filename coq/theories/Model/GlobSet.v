(* Model/GlobSet.v — executable model of crates/globset/src/lib.rs (the set and its seven strategies).
   Definitions only.

   Rust items mirrored:
     crates/globset/src/lib.rs::GlobSet::{new, is_match_candidate, matches_candidate, matches_candidate_into}
     crates/globset/src/lib.rs::{LiteralStrategy, BasenameLiteralStrategy, ExtensionStrategy}::{add, is_match, matches_into}
     crates/globset/src/lib.rs::{PrefixStrategy, SuffixStrategy}::{is_match, matches_into}, Candidate::{path_prefix, path_suffix}
     crates/globset/src/lib.rs::MultiStrategyBuilder::{add, prefix, suffix, regex_set}
     crates/globset/src/lib.rs::{RequiredExtensionStrategyBuilder::{add, build}, RequiredExtensionStrategy, RegexSetStrategy}
     crates/globset/src/glob.rs::GlobStrategic::is_match_candidate   (test-only single-glob strategic matcher)
   Modelled third-party behaviour (trusted, see notes/C12.md): the FNV HashMap is an association list;
   AhoCorasick::find_overlapping_iter reports every occurrence of every pattern; a compiled regex answers
   as the meaning of its text ([re] below; instantiated with Spec.GlobSem.tmatch); PatternSet iterates in
   ascending pattern order; Vec::sort + dedup = [sort_dedup]. *)
From RG Require Import Base.Bytes Model.Glob.

Record glob := mk_glob { g_opts : gopts; g_tokens : list token }.

Section WithRegex.
(* the meaning of the regex text of a glob (Glob::regex()), supplied by the specification *)
Variable re : glob -> bytes -> bool.

(* ---------------- hash maps as association lists ---------------- *)
Definition hmap (V : Type) := list (bytes * list V).

Fixpoint hm_get {V} (m : hmap V) (k : bytes) : option (list V) :=
  match m with
  | [] => None
  | (k', v) :: r => if bytes_eqb k' k then Some v else hm_get r k
  end.

(* self.0.entry(key).or_insert(vec![]).push(x) *)
Fixpoint hm_push {V} (m : hmap V) (k : bytes) (x : V) : hmap V :=
  match m with
  | [] => [(k, [x])]
  | (k', v) :: r => if bytes_eqb k' k then (k', v ++ [x]) :: r else (k', v) :: hm_push r k x
  end.

(* ---------------- MultiStrategyBuilder ---------------- *)
Record multi (L : Type) := mk_multi { m_literals : list L; m_map : list nat; m_longest : nat }.
Arguments mk_multi {L}.
Arguments m_literals {L}.
Arguments m_map {L}.
Arguments m_longest {L}.

Definition multi_add (m : multi bytes) (gi : nat) (lit : bytes) : multi bytes :=
  mk_multi (m_literals m ++ [lit]) (m_map m ++ [gi])
           (if Nat.ltb (m_longest m) (length lit) then length lit else m_longest m).
(* the regex builder stores regex texts; their length plays no role afterwards *)
Definition multi_add_re (m : multi glob) (gi : nat) (g : glob) : multi glob :=
  mk_multi (m_literals m ++ [g]) (m_map m ++ [gi]) (m_longest m).

Record globset := mk_globset {
  gs_len : nat;
  gs_exts : hmap nat;
  gs_base_lits : hmap nat;
  gs_lits : hmap nat;
  gs_suffixes : multi bytes;
  gs_prefixes : multi bytes;
  gs_required_exts : hmap (nat * glob);
  gs_regexes : multi glob }.

Definition empty_set : globset :=
  mk_globset 0 [] [] [] (mk_multi [] [] 0) (mk_multi [] [] 0) [] (mk_multi [] [] 0).

(* one iteration of the `for (i, p) in pats.iter().enumerate()` loop of GlobSet::new *)
Definition add_glob (s : globset) (i : nat) (g : glob) : globset :=
  match strategy_new (g_opts g) (g_tokens g) with
  | SLiteral lit =>
    mk_globset (gs_len s) (gs_exts s) (gs_base_lits s) (hm_push (gs_lits s) lit i) (gs_suffixes s)
               (gs_prefixes s) (gs_required_exts s) (gs_regexes s)
  | SBasenameLiteral lit =>
    mk_globset (gs_len s) (gs_exts s) (hm_push (gs_base_lits s) lit i) (gs_lits s) (gs_suffixes s)
               (gs_prefixes s) (gs_required_exts s) (gs_regexes s)
  | SExtension e =>
    mk_globset (gs_len s) (hm_push (gs_exts s) e i) (gs_base_lits s) (gs_lits s) (gs_suffixes s)
               (gs_prefixes s) (gs_required_exts s) (gs_regexes s)
  | SPrefix pre =>
    mk_globset (gs_len s) (gs_exts s) (gs_base_lits s) (gs_lits s) (gs_suffixes s)
               (multi_add (gs_prefixes s) i pre) (gs_required_exts s) (gs_regexes s)
  | SSuffix suf component =>
    mk_globset (gs_len s) (gs_exts s) (gs_base_lits s)
               (if component then hm_push (gs_lits s) (skipn 1 suf) i else gs_lits s)
               (multi_add (gs_suffixes s) i suf) (gs_prefixes s) (gs_required_exts s) (gs_regexes s)
  | SRequiredExtension e =>
    mk_globset (gs_len s) (gs_exts s) (gs_base_lits s) (gs_lits s) (gs_suffixes s)
               (gs_prefixes s) (hm_push (gs_required_exts s) e (i, g)) (gs_regexes s)
  | SRegex =>
    mk_globset (gs_len s) (gs_exts s) (gs_base_lits s) (gs_lits s) (gs_suffixes s)
               (gs_prefixes s) (gs_required_exts s) (multi_add_re (gs_regexes s) i g)
  end.

Fixpoint add_globs (s : globset) (i : nat) (gs : list glob) : globset :=
  match gs with
  | [] => s
  | g :: r => add_globs (add_glob s i g) (S i) r
  end.

(* GlobSet::new *)
Definition build_set (gs : list glob) : globset :=
  match gs with
  | [] => empty_set
  | _ =>
    let s := add_globs empty_set 0 gs in
    mk_globset (length gs) (gs_exts s) (gs_base_lits s) (gs_lits s) (gs_suffixes s)
               (gs_prefixes s) (gs_required_exts s) (gs_regexes s)
  end.

(* ---------------- Candidate::path_prefix / path_suffix ---------------- *)
Definition path_prefix (c : candidate) (max : nat) : bytes :=
  if Nat.leb (length (c_path c)) max then c_path c else firstn max (c_path c).
Definition path_suffix (c : candidate) (max : nat) : bytes :=
  if Nat.leb (length (c_path c)) max then c_path c else skipn (length (c_path c) - max) (c_path c).

(* ---------------- AhoCorasick::find_overlapping_iter (trusted contract: every occurrence) ------------
   reported as (pattern, start, end); enumerated by start position, then by pattern *)
Fixpoint enum_from {A} (i : nat) (l : list A) : list (nat * A) :=
  match l with [] => [] | x :: r => (i, x) :: enum_from (S i) r end.

Definition ac_at (lits : list bytes) (start : nat) (hay_from_start : bytes) : list (nat * nat * nat) :=
  flat_map (fun jl : nat * bytes =>
              if is_prefix_of (snd jl) hay_from_start then [(fst jl, start, start + length (snd jl))] else [])
           (enum_from 0 lits).

Fixpoint ac_from (lits : list bytes) (start : nat) (hay : bytes) : list (nat * nat * nat) :=
  ac_at lits start hay ++
  match hay with
  | [] => []
  | _ :: r => ac_from lits (S start) r
  end.
Definition ac_overlapping (lits : list bytes) (hay : bytes) : list (nat * nat * nat) := ac_from lits 0 hay.

(* ---------------- the seven strategies: matches_into ---------------- *)
Definition lits_matches (s : globset) (c : candidate) : list nat :=
  match hm_get (gs_lits s) (c_path c) with Some hits => hits | None => [] end.

Definition base_lits_matches (s : globset) (c : candidate) : list nat :=
  match c_basename c with
  | [] => []
  | _ => match hm_get (gs_base_lits s) (c_basename c) with Some hits => hits | None => [] end
  end.

Definition exts_matches (s : globset) (c : candidate) : list nat :=
  match c_ext c with
  | [] => []
  | _ => match hm_get (gs_exts s) (c_ext c) with Some hits => hits | None => [] end
  end.

Definition prefix_matches (s : globset) (c : candidate) : list nat :=
  let m := gs_prefixes s in
  let path := path_prefix c (m_longest m) in
  flat_map (fun x : nat * nat * nat =>
              let '(pat, st, _) := x in if Nat.eqb st 0 then [nth pat (m_map m) 0] else [])
           (ac_overlapping (m_literals m) path).

Definition suffix_matches (s : globset) (c : candidate) : list nat :=
  let m := gs_suffixes s in
  let path := path_suffix c (m_longest m) in
  flat_map (fun x : nat * nat * nat =>
              let '(pat, _, en) := x in if Nat.eqb en (length path) then [nth pat (m_map m) 0] else [])
           (ac_overlapping (m_literals m) path).

Definition required_exts_matches (s : globset) (c : candidate) : list nat :=
  match c_ext c with
  | [] => []
  | _ =>
    match hm_get (gs_required_exts s) (c_ext c) with
    | Some regexes =>
      flat_map (fun ig : nat * glob => if re (snd ig) (c_path c) then [fst ig] else []) regexes
    | None => []
    end
  end.

(* which_overlapping_matches + PatternSet::iter: the matching pattern ids in ascending order *)
Definition regexes_matches (s : globset) (c : candidate) : list nat :=
  let m := gs_regexes s in
  flat_map (fun jg : nat * glob => if re (snd jg) (c_path c) then [nth (fst jg) (m_map m) 0] else [])
           (enum_from 0 (m_literals m)).

(* Vec::sort(); Vec::dedup() *)
Fixpoint insert_sorted (x : nat) (l : list nat) : list nat :=
  match l with
  | [] => [x]
  | y :: r => if Nat.leb x y then x :: l else y :: insert_sorted x r
  end.
Fixpoint sort (l : list nat) : list nat :=
  match l with [] => [] | x :: r => insert_sorted x (sort r) end.
Fixpoint dedup (l : list nat) : list nat :=
  match l with
  | [] => []
  | x :: r => match r with
              | y :: _ => if Nat.eqb x y then dedup r else x :: dedup r
              | [] => [x]
              end
  end.
Definition sort_dedup (l : list nat) : list nat := dedup (sort l).

(* GlobSet::matches_candidate (strategy order of the `strats` vec) *)
Definition set_matches_candidate (s : globset) (c : candidate) : list nat :=
  if Nat.eqb (gs_len s) 0 then [] else
  sort_dedup (exts_matches s c ++ base_lits_matches s c ++ lits_matches s c ++ suffix_matches s c ++
              prefix_matches s c ++ required_exts_matches s c ++ regexes_matches s c).

(* ---------------- is_match of each strategy, GlobSet::is_match_candidate ---------------- *)
Definition hm_has {V} (m : hmap V) (k : bytes) : bool :=
  match hm_get m k with Some _ => true | None => false end.

Definition lits_is_match (s : globset) (c : candidate) : bool := hm_has (gs_lits s) (c_path c).
Definition base_lits_is_match (s : globset) (c : candidate) : bool :=
  match c_basename c with [] => false | _ => hm_has (gs_base_lits s) (c_basename c) end.
Definition exts_is_match (s : globset) (c : candidate) : bool :=
  match c_ext c with [] => false | _ => hm_has (gs_exts s) (c_ext c) end.
Definition prefix_is_match (s : globset) (c : candidate) : bool :=
  let m := gs_prefixes s in
  existsb (fun x : nat * nat * nat => let '(_, st, _) := x in Nat.eqb st 0)
          (ac_overlapping (m_literals m) (path_prefix c (m_longest m))).
Definition suffix_is_match (s : globset) (c : candidate) : bool :=
  let m := gs_suffixes s in
  let path := path_suffix c (m_longest m) in
  existsb (fun x : nat * nat * nat => let '(_, _, en) := x in Nat.eqb en (length path))
          (ac_overlapping (m_literals m) path).
Definition required_exts_is_match (s : globset) (c : candidate) : bool :=
  match c_ext c with
  | [] => false
  | _ => match hm_get (gs_required_exts s) (c_ext c) with
         | None => false
         | Some regexes => existsb (fun ig : nat * glob => re (snd ig) (c_path c)) regexes
         end
  end.
Definition regexes_is_match (s : globset) (c : candidate) : bool :=
  existsb (fun g => re g (c_path c)) (m_literals (gs_regexes s)).

Definition set_is_match_candidate (s : globset) (c : candidate) : bool :=
  if Nat.eqb (gs_len s) 0 then false else
  exts_is_match s c || base_lits_is_match s c || lits_is_match s c || suffix_is_match s c ||
  prefix_is_match s c || required_exts_is_match s c || regexes_is_match s c.

(* GlobSet::matches / is_match on a path *)
Definition set_matches (gs : list glob) (path : bytes) : list nat :=
  set_matches_candidate (build_set gs) (candidate_new path).
Definition set_is_match (gs : list glob) (path : bytes) : bool :=
  set_is_match_candidate (build_set gs) (candidate_new path).

(* ---------------- GlobStrategic::is_match_candidate: one glob's strategy on a candidate ------------- *)
Definition strategy_match (st : strategy) (c : candidate) (re1 : bytes -> bool) : bool :=
  match st with
  | SLiteral lit => bytes_eqb lit (c_path c)
  | SBasenameLiteral lit => bytes_eqb lit (c_basename c)
  | SExtension e => bytes_eqb e (c_ext c)
  | SPrefix pre => is_prefix_of pre (c_path c)
  | SSuffix suf component =>
    if component && bytes_eqb (c_path c) (skipn 1 suf) then true
    else is_suffix_of suf (c_path c)
  | SRequiredExtension e => bytes_eqb (c_ext c) e && re1 (c_path c)
  | SRegex => re1 (c_path c)
  end.

End WithRegex.

Arguments mk_multi {L}.
Arguments m_literals {L}.
Arguments m_map {L}.
Arguments m_longest {L}.
