(* Model/SmartCase.v — the smart-case decision of grep-regex:
     crates/regex/src/ast.rs     AstAnalysis::{from_ast, from_ast_impl, from_ast_class_set,
                                 from_ast_class_set_item, from_ast_literal, done}
     crates/regex/src/config.rs  Config::is_case_insensitive
   over a small copy of the regex-syntax AST that keeps exactly what the analysis looks at:
   literals (as code points, whatever their spelling: `A`, `\x41`, `A`), bracketed classes with
   literal items, ranges, nested classes, unions and binary set operations; every other node
   (`.`, `\w`, `\pL`, `[:upper:]`, assertions, flags, empty) is an opaque leaf.
   `ClassSet::Item(i)` is identified with `i` (one type [cls] for ClassSet and ClassSetItem).
   The state is threaded exactly as in the Rust (`&mut self` with the `done()` early returns).
   `char::is_uppercase` is a parameter [upper]: the theorems hold for every such predicate; the
   correspondence run instantiates it with the std answers for the code points of the case.
   Definitions only. *)
From RG Require Import Base.Bytes.

(* ast::ClassSet + ast::ClassSetItem *)
Inductive cls :=
| COther (tag : N)                     (* Empty, Ascii `[:alpha:]`, Unicode `\pL`, Perl `\w` *)
| CLit (c : N)
| CRange (s e : N)
| CBracketed (negated : bool) (k : cls)
| CUnion (items : list cls)
| CBinOp (l r : cls).                  (* && -- ~~ *)

(* ast::Ast *)
Inductive sast :=
| SOther (tag : N)                     (* Empty, Flags, Dot, Assertion, ClassUnicode, ClassPerl *)
| SLit (c : N)
| SClass (negated : bool) (k : cls)    (* ClassBracketed *)
| SRep (a : sast)
| SGroup (a : sast)
| SAlt (l : list sast)
| SConcat (l : list sast).

Record analysis := mkAn { any_uppercase : bool; any_literal : bool }.

Definition an_new : analysis := mkAn false false.
Definition an_done (a : analysis) : bool := any_uppercase a && any_literal a.

Section WithUpper.
  Variable upper : N -> bool.          (* char::is_uppercase *)

  Definition from_ast_literal (a : analysis) (c : N) : analysis :=
    mkAn (any_uppercase a || upper c) true.

  (* from_ast_class_set / from_ast_class_set_item *)
  Fixpoint from_class (a : analysis) (k : cls) : analysis :=
    if an_done a then a else
    match k with
    | COther _ => a
    | CLit c => from_ast_literal a c
    | CRange s e => from_ast_literal (from_ast_literal a s) e
    | CBracketed _ k' => from_class a k'
    | CUnion items => fold_left from_class items a
    | CBinOp l r => from_class (from_class a l) r
    end.

  Fixpoint from_ast_impl (a : analysis) (t : sast) : analysis :=
    if an_done a then a else
    match t with
    | SOther _ => a
    | SLit c => from_ast_literal a c
    | SClass _ k => from_class a k
    | SRep t' => from_ast_impl a t'
    | SGroup t' => from_ast_impl a t'
    | SAlt l => fold_left from_ast_impl l a
    | SConcat l => fold_left from_ast_impl l a
    end.

  Definition from_ast (t : sast) : analysis := from_ast_impl an_new t.

  (* Config::is_case_insensitive *)
  Definition is_case_insensitive (case_insensitive case_smart : bool) (a : analysis) : bool :=
    if case_insensitive then true
    else if negb case_smart then false
    else any_literal a && negb (any_uppercase a).

  Definition smart_decision (case_insensitive case_smart : bool) (t : sast) : bool :=
    is_case_insensitive case_insensitive case_smart (from_ast t).
End WithUpper.
