(* Model/SearcherGlue.v — mirrors the glue of crates/searcher/src/searcher/mod.rs that decides, for one
   REUSED Searcher, how each source is searched, and what the Searcher keeps between searches:
     Searcher { line_buffer, multi_line_buffer }            (the state that survives a search)
     Searcher::{search_slice, search_reader, search_file_maybe_path, check_config,
                slice_needs_transcoding, multi_line_with_matcher,
                fill_multi_line_buffer_from_file, fill_multi_line_buffer_from_reader}, slice_has_bom
   and of crates/searcher/src/line_buffer.rs
     LineBufferReader::new (calls LineBuffer::clear), LineBuffer::clear.
   Binary detection None; heap limit None (so BufferAllocation::Eager, and read_to_end fills the
   multi-line buffer).  The transcoding reader (DecodeReaderBytes built by decode_builder) is the
   Section variable [decode]: what it delivers for the bytes of a source.  Definitions only. *)
From RG Require Import Base.Bytes Model.Lines Model.SearcherCore Model.Glue Model.ReadByLine.

(* what a Searcher keeps between two searches: the roll buffer and the multi-line buffer
   (decode_buffer is scratch space of the transcoder: part of [decode]) *)
Record searcher_state := { ss_lb : linebuf; ss_ml : bytes }.

(* SearcherBuilder::build: line_buffer = LineBufferBuilder.capacity(cap).build(), multi_line_buffer = vec![] *)
Definition ss_new (cap : nat) : searcher_state := {| ss_lb := lb_new cap; ss_ml := [] |}.

(* LineBuffer::clear: pos, last_lineterm, end, absolute_byte_offset (and binary_byte_offset) are
   reset; the allocation buf — i.e. the capacity grown by earlier searches — and the config stay *)
Definition lb_clear (lb : linebuf) : linebuf :=
  {| lb_data := []; lb_cap := lb_cap lb; lb_cap0 := lb_cap0 lb; lb_pos := 0; lb_llt := 0; lb_abs := 0 |}.

(* the sources a Searcher is asked to search: a slice; any io::Read; a file (which a memory map may
   or may not be opened for).  [hist] is the history of the read() calls seen by the roll buffer
   when the line-oriented reader strategy is used (the multi-line strategies read_to_end). *)
Inductive source :=
| SrcSlice (s : bytes)
| SrcReader (s : bytes) (hist : list read_step)
| SrcFile (mmap_ok : bool) (s : bytes) (hist : list read_step).

(* slice_has_bom: encoding_rs::Encoding::for_bom finds a UTF-8, UTF-16LE or UTF-16BE mark *)
Definition slice_has_bom (s : bytes) : bool :=
  is_prefix_of [239; 187; 191]%N s || is_prefix_of [255; 254]%N s || is_prefix_of [254; 255]%N s.

Section SearcherGlue.
  Variable cfg : config.
  Variable M : matcher.
  Variable enc_set : bool.               (* config.encoding.is_some() *)
  Variable bom_sniffing : bool.          (* config.bom_sniffing *)
  Variable decode : bytes -> bytes.      (* the bytes the transcoding reader delivers for a source *)

  (* check_config (heap limit None): the matcher's line terminator, if it has one, is the searcher's *)
  Definition check_config : bool :=
    match m_line_term M with
    | None => true
    | Some lt => lt_eqb lt (c_lt cfg)
    end.

  (* slice_needs_transcoding *)
  Definition needs_transcoding (s : bytes) : bool := enc_set || (bom_sniffing && slice_has_bom s).

  (* ReadByLine::run on a LineBufferReader over the given line buffer (LineBufferReader::new has
     cleared it); returns the line buffer as the search leaves it.  Same as read_by_line_run
     (Model/ReadByLine.v) except for the initial buffer.  After an Err from fill the buffer is
     returned as it was before that fill (the capacity grown during the failing fill is not
     tracked: it is observable only through finding D8 in later searches). *)
  Definition read_by_line_run_from (reply_of : nat -> reply) (pol : alloc_policy) (lb0 : linebuf)
                                   (stream : bytes) (hist : list read_step) : run_result * linebuf :=
    let c0 := core_new cfg in
    match emit reply_of c0 EBegin with
    | ERR c => (RunErr (rev (log c)), lb0)
    | FUEL => (RunFuel, lb0)
    | OK b c =>
      let '(o, lb) :=
        if b then rbl_loop cfg M reply_of pol (2 * length stream + 4) c lb0 {| r_rest := stream; r_hist := hist |}
        else (OK false c, lb0) in
      match o with
      | ERR c => (RunErr (rev (log c)), lb)
      | FUEL => (RunFuel, lb)
      | OK _ c => (finish reply_of c (lb_abs lb), lb)
      end
    end.

  (* fill_multi_line_buffer_from_{reader,file} (heap limit None): buf.clear(); read_to_end(buf) *)
  Definition fill_multi_line (st : searcher_state) (decoded : bytes) : searcher_state :=
    {| ss_lb := ss_lb st; ss_ml := [] ++ decoded |}.

  (* Searcher::search_reader: the source is wrapped in the transcoding reader *)
  Definition search_reader_m (reply_of : nat -> reply) (st : searcher_state) (s : bytes) (hist : list read_step)
    : run_result * searcher_state :=
    if negb check_config then (RunErr [], st) else           (* Err(error_config): no sink call *)
    let d := decode s in
    if multi_line_with_matcher cfg M then
      let st := fill_multi_line st d in
      (multi_line_run cfg M reply_of (ss_ml st), st)
    else
      (* LineBufferReader::new(decoder, &mut line_buffer) clears the buffer *)
      let '(r, lb) := read_by_line_run_from reply_of AEager (lb_clear (ss_lb st)) d hist in
      (r, {| ss_lb := lb; ss_ml := ss_ml st |}).

  (* Searcher::search_slice.  A slice that needs transcoding is handed to search_reader; the read
     sizes its transcoder shows to the roll buffer are not modelled (every read fills the free
     space: history []) *)
  Definition search_slice_m (reply_of : nat -> reply) (st : searcher_state) (s : bytes)
    : run_result * searcher_state :=
    if negb check_config then (RunErr [], st) else
    if needs_transcoding s then search_reader_m reply_of st s [] else
    if multi_line_with_matcher cfg M then (multi_line_run cfg M reply_of s, st)
    else (slice_by_line_run cfg M reply_of s, st).

  (* Searcher::search_file_maybe_path: memory map, else the whole file on the heap for a multi-line
     search, else the generic reader.  The multi-line branch checks the configuration first, like
     the other entry points (repair e67305d of finding D22; the pre-repair behaviour is pinned in
     Proofs/SearcherGluePinned.v) *)
  Definition search_file_m (reply_of : nat -> reply) (st : searcher_state) (mmap_ok : bool) (s : bytes)
                           (hist : list read_step) : run_result * searcher_state :=
    if mmap_ok then search_slice_m reply_of st s else
    if multi_line_with_matcher cfg M then
      if negb check_config then (RunErr [], st) else
      let st := fill_multi_line st (decode s) in
      (multi_line_run cfg M reply_of (ss_ml st), st)
    else search_reader_m reply_of st s hist.

  Definition search (reply_of : nat -> reply) (st : searcher_state) (src : source) : run_result * searcher_state :=
    match src with
    | SrcSlice s => search_slice_m reply_of st s
    | SrcReader s hist => search_reader_m reply_of st s hist
    | SrcFile mmap_ok s hist => search_file_m reply_of st mmap_ok s hist
    end.

  (* one Searcher searches a list of sources one after the other (each with its own sink) *)
  Fixpoint search_seq (st : searcher_state) (srcs : list (source * (nat -> reply))) : list run_result * searcher_state :=
    match srcs with
    | [] => ([], st)
    | (src, reply_of) :: rest =>
      let (r, st1) := search reply_of st src in
      let (rs, st2) := search_seq st1 rest in
      (r :: rs, st2)
    end.

  (* the states one Searcher built with capacity [cap] can be in *)
  Inductive reachable (cap : nat) : searcher_state -> Prop :=
  | reach_new : reachable cap (ss_new cap)
  | reach_search st src reply_of : reachable cap st -> reachable cap (snd (search reply_of st src)).
End SearcherGlue.
