(* Model/ReadByLine.v — mirrors
     crates/searcher/src/line_buffer.rs  LineBuffer::{buffer, consume, fill, roll, ensure_capacity}
       (binary detection None — the Quit/Convert branches are Model/LineBufferBin.v, property C14)
     crates/searcher/src/searcher/glue.rs ReadByLine::{run, fill}
   The reader is a stream of bytes plus a history of read() results.  Definitions only. *)
From RG Require Import Base.Bytes Model.Lines Model.SearcherCore Model.Glue.

(* what one call of read() does: deliver at most n bytes (n >= 1), fail, or be interrupted *)
Inductive read_step := RChunk (n : nat) | RFail | RInterrupted.

Inductive alloc_policy := AEager | AError (limit : nat).

Record linebuf := {
  lb_data : bytes;           (* buf[0..end] *)
  lb_cap : nat;              (* buf.len() *)
  lb_cap0 : nat;             (* config.capacity *)
  lb_pos : nat;
  lb_llt : nat;              (* last_lineterm *)
  lb_abs : nat;              (* absolute_byte_offset *)
}.

Record reader := { r_rest : bytes; r_hist : list read_step }.

Definition lb_new (cap : nat) : linebuf :=
  {| lb_data := []; lb_cap := cap; lb_cap0 := cap; lb_pos := 0; lb_llt := 0; lb_abs := 0 |}.

Definition lb_buffer (lb : linebuf) : bytes := sub (lb_data lb) (lb_pos lb) (lb_llt lb).

Definition lb_consume (lb : linebuf) (amt : nat) : linebuf :=
  {| lb_data := lb_data lb; lb_cap := lb_cap lb; lb_cap0 := lb_cap0 lb; lb_pos := lb_pos lb + amt;
     lb_llt := lb_llt lb; lb_abs := lb_abs lb + amt |}.

Definition lb_roll (lb : linebuf) : linebuf :=
  let en := length (lb_data lb) in
  if Nat.eqb (lb_pos lb) en then
    {| lb_data := []; lb_cap := lb_cap lb; lb_cap0 := lb_cap0 lb; lb_pos := 0; lb_llt := 0; lb_abs := lb_abs lb |}
  else
    let d := skipn (lb_pos lb) (lb_data lb) in
    {| lb_data := d; lb_cap := lb_cap lb; lb_cap0 := lb_cap0 lb; lb_pos := 0; lb_llt := length d; lb_abs := lb_abs lb |}.

(* ensure_capacity: None = allocation error *)
Definition lb_ensure_capacity (pol : alloc_policy) (lb : linebuf) : option linebuf :=
  if Nat.ltb (length (lb_data lb)) (lb_cap lb) then Some lb else
  let len := Nat.max 1 (lb_cap lb) in
  let additional :=
    match pol with
    | AEager => Some (len * 2)
    | AError limit =>
      let used := lb_cap lb - lb_cap0 lb in
      let n := Nat.min (len * 2) (limit - used) in
      if Nat.eqb n 0 then None else Some n
    end in
  match additional with
  | None => None
  | Some a => Some {| lb_data := lb_data lb; lb_cap := lb_cap lb + a; lb_cap0 := lb_cap0 lb;
                      lb_pos := lb_pos lb; lb_llt := lb_llt lb; lb_abs := lb_abs lb |}
  end.

Inductive fill_result := FillOk (didread : bool) (lb : linebuf) (r : reader) | FillIoErr | FillAllocErr | FillFuel.

(* the `loop { ensure_capacity; read; ... }` of LineBuffer::fill *)
Fixpoint lb_fill_loop (fuel : nat) (ltb : byte) (pol : alloc_policy) (lb : linebuf) (r : reader) : fill_result :=
  match fuel with
  | 0 => FillFuel
  | S fuel' =>
    match lb_ensure_capacity pol lb with
    | None => FillAllocErr
    | Some lb =>
      let free := lb_cap lb - length (lb_data lb) in
      let (step, hist') := match r_hist r with [] => (RChunk free, []) | x :: h => (x, h) end in
      match step with
      | RFail | RInterrupted => FillIoErr
      | RChunk n =>
        let readlen := Nat.min (Nat.min (Nat.max 1 n) free) (length (r_rest r)) in
        let r' := {| r_rest := skipn readlen (r_rest r); r_hist := hist' |} in
        if Nat.eqb readlen 0 then
          let lb' := {| lb_data := lb_data lb; lb_cap := lb_cap lb; lb_cap0 := lb_cap0 lb; lb_pos := lb_pos lb;
                        lb_llt := length (lb_data lb); lb_abs := lb_abs lb |} in
          FillOk (Nat.ltb (lb_pos lb') (lb_llt lb')) lb' r'
        else
          let newbytes := firstn readlen (r_rest r) in
          let oldend := length (lb_data lb) in
          let lb1 := {| lb_data := lb_data lb ++ newbytes; lb_cap := lb_cap lb; lb_cap0 := lb_cap0 lb;
                        lb_pos := lb_pos lb; lb_llt := lb_llt lb; lb_abs := lb_abs lb |} in
          match rfind_byte ltb newbytes with
          | Some i =>
            FillOk true {| lb_data := lb_data lb1; lb_cap := lb_cap lb1; lb_cap0 := lb_cap0 lb1; lb_pos := lb_pos lb1;
                           lb_llt := oldend + i + 1; lb_abs := lb_abs lb1 |} r'
          | None => lb_fill_loop fuel' ltb pol lb1 r'
          end
      end
    end
  end.

Definition lb_fill (ltb : byte) (pol : alloc_policy) (lb : linebuf) (r : reader) : fill_result :=
  (* each iteration either reads >= 1 byte, grows the buffer (then reads), or ends *)
  lb_fill_loop (S (S (length (r_rest r)))) ltb pol (lb_roll lb) r.

Section RBL.
  Variable cfg : config.
  Variable M : matcher.
  Variable reply_of : nat -> reply.
  Variable pol : alloc_policy.

  Inductive rbl_fill_result :=
  | RF (go : bool) (c : core) (lb : linebuf) (r : reader)
  | RFErr (c : core)          (* an io / allocation error is returned; finish is not called *)
  | RFFuel.

  (* ReadByLine::fill *)
  Definition rbl_fill (c : core) (lb : linebuf) (r : reader) : rbl_fill_result :=
    let old_buf_len := length (lb_buffer lb) in
    let (consumed, c) := roll cfg c (lb_buffer lb) in
    let lb := lb_consume lb consumed in
    match lb_fill (lt_byte (c_lt cfg)) pol lb r with
    | FillIoErr | FillAllocErr => RFErr c
    | FillFuel => RFFuel
    | FillOk didread lb r =>
      if negb didread then RF false c lb r else
      if Nat.eqb consumed 0 && Nat.eqb old_buf_len (length (lb_buffer lb)) then
        RF false c (lb_consume lb old_buf_len) r
      else RF true c lb r
    end.

  Fixpoint rbl_loop (fuel : nat) (c : core) (lb : linebuf) (r : reader) : (outcome * linebuf) :=
    match fuel with
    | 0 => (FUEL, lb)
    | S fuel' =>
      match rbl_fill c lb r with
      | RFErr c => (ERR c, lb)
      | RFFuel => (FUEL, lb)
      | RF false c lb r => (OK false c, lb)
      | RF true c lb r =>
        match match_by_line cfg M reply_of false c (lb_buffer lb) with
        | OK true c => rbl_loop fuel' c lb r
        | o => (o, lb)
        end
      end
    end.

  (* ReadByLine::run; the fuel bounds the number of fill/search rounds: every round either
     consumes input or is the last *)
  Definition read_by_line_run (cap : nat) (stream : bytes) (hist : list read_step) : run_result :=
    let c0 := core_new cfg in
    match emit reply_of c0 EBegin with
    | ERR c => RunErr (rev (log c))
    | FUEL => RunFuel
    | OK b c =>
      let '(o, lb) :=
        if b then rbl_loop (2 * length stream + 4) c (lb_new cap) {| r_rest := stream; r_hist := hist |}
        else (OK false c, lb_new cap) in
      match o with
      | ERR c => RunErr (rev (log c))
      | FUEL => RunFuel
      | OK _ c => finish reply_of c (lb_abs lb)
      end
    end.
End RBL.
