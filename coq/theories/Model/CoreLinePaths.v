(* Model/CoreLinePaths.v — the regex side of the line paths of crates/searcher/src/searcher/core.rs:
     lines.rs without_terminator  — before the D9 repair ([without_terminator_old]) and after it
                                    ([without_terminator_fixed], commit "fix: searcher: strip a bare
                                    LF terminator from a line in CRLF mode")
     the RegexMatcher as an instance of Model/SearcherCore.v's [matcher] record: is_match is "the final
     HIR has a match in the slice" (Spec/RegexSem.v), non_matching_bytes and the advertised terminator
     come from Model/RegexBuild.v; find_candidate_line and find_at stay parameters (their contract is
     what Proofs/RegexLiteralProofs.v and the locality lemmas establish).
   The full Core (match_by_line_slow, find_by_line_fast, is_line_by_line_fast, …) is
   Model/SearcherCore.v.  Definitions only. *)
From RG Require Import Base.Bytes Base.LineTerm Model.Lines Model.SearcherCore Spec.RegexSem Model.RegexBuild.

(* lines::without_terminator as it was: compares the suffix with as_bytes() *)
Definition without_terminator_old (lt : lineterm) (l : bytes) : bytes :=
  if is_suffix_of (lt_bytes lt) l then firstn (length l - length (lt_bytes lt)) l else l.

(* lines::without_terminator after the repair *)
Definition without_terminator_fixed (lt : lineterm) (l : bytes) : bytes :=
  match lt with
  | LTCrlf =>
    match rev l with
    | 10%N :: r => match r with 13%N :: r' => rev r' | _ => rev r end
    | _ => l
    end
  | LTByte _ => without_terminator_old lt l
  end.

Definition lineterm_of (t : rterm) : lineterm := match t with RTByte b => LTByte b | RTCrlf => LTCrlf end.

(* grep-regex's RegexMatcher seen through the searcher's Matcher interface *)
Definition regex_matcher (final : hir) (adv : option rterm)
           (cand : bytes -> option (bool * nat)) (find_at : bytes -> nat -> option (nat * nat)) : matcher :=
  {| m_is_match := is_match_sem final;
     m_find_candidate := cand;
     m_line_term := option_map lineterm_of adv;
     m_nonmatching := non_matching_bytes final;
     m_find_at := find_at |}.

(* looks whose verdict at a position depends only on the two neighbouring bytes and treats the
   haystack ends like a "\n" neighbour: line anchors (LF) and the ASCII word assertions *)
Definition local_look (l : look) : bool :=
  match l with
  | LStartLF | LEndLF | LWordAscii | LWordAsciiNegate | LWordStartAscii | LWordEndAscii
  | LWordStartHalfAscii | LWordEndHalfAscii => true
  | _ => false
  end.
Definition local_looks (h : hir) : bool := negb (has_look (fun l => negb (local_look l)) h).
