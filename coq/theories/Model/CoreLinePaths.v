(* Model/CoreLinePaths.v — the regex side of the line paths of crates/searcher/src/searcher/core.rs:
     lines.rs without_terminator  — before the D9 repair ([without_terminator_old]) and after it
                                    ([without_terminator_fixed], commit "fix: searcher: strip a bare
                                    LF terminator from a line in CRLF mode")
     the RegexMatcher as an instance of Model/SearcherCore.v's [matcher] record: is_match is "the final
     HIR has a match in the slice" (Spec/RegexSem.v), non_matching_bytes and the advertised terminator
     come from Model/RegexBuild.v; find_candidate_line and find_at stay parameters (their contract is
     what Proofs/RegexLiteralProofs.v and the locality lemmas establish).
   The full Core (match_by_line_slow, find_by_line_fast, is_line_by_line_fast, …) is
   Model/SearcherCore.v.  Definitions only. *)
From RG Require Import Base.Bytes Base.LineTerm Model.Lines Model.SearcherCore Spec.RegexSem Model.RegexBuild.

(* lines::without_terminator as it was: compares the suffix with as_bytes() *)
Definition without_terminator_old (lt : lineterm) (l : bytes) : bytes :=
  if is_suffix_of (lt_bytes lt) l then firstn (length l - length (lt_bytes lt)) l else l.

(* lines::without_terminator after the repair *)
Definition without_terminator_fixed (lt : lineterm) (l : bytes) : bytes :=
  match lt with
  | LTCrlf =>
    match rev l with
    | 10%N :: r => match r with 13%N :: r' => rev r' | _ => rev r end
    | _ => l
    end
  | LTByte _ => without_terminator_old lt l
  end.

Definition lineterm_of (t : rterm) : lineterm := match t with RTByte b => LTByte b | RTCrlf => LTCrlf end.

(* grep-regex's RegexMatcher seen through the searcher's Matcher interface *)
Definition regex_matcher (final : hir) (adv : option rterm)
           (cand : bytes -> option (bool * nat)) (find_at : bytes -> nat -> option (nat * nat)) : matcher :=
  {| m_is_match := is_match_sem final;
     m_find_candidate := cand;
     m_line_term := option_map lineterm_of adv;
     m_nonmatching := non_matching_bytes final;
     m_find_at := find_at |}.

(* looks whose verdict at a position depends only on the two neighbouring bytes and treats the
   haystack ends like a "\n" neighbour: line anchors (LF) and the ASCII word assertions *)
Definition local_look (l : look) : bool :=
  match l with
  | LStartLF | LEndLF | LWordAscii | LWordAsciiNegate | LWordStartAscii | LWordEndAscii
  | LWordStartHalfAscii | LWordEndHalfAscii => true
  | _ => false
  end.
Definition local_looks (h : hir) : bool := negb (has_look (fun l => negb (local_look l)) h).

(* the same for CRLF lines: the CRLF line anchors (what `^`/`$` translate to under --crlf) and the
   ASCII word assertions *)
Definition local_look_crlf (l : look) : bool :=
  match l with
  | LStartCRLF | LEndCRLF | LWordAscii | LWordAsciiNegate | LWordStartAscii | LWordEndAscii
  | LWordStartHalfAscii | LWordEndHalfAscii => true
  | _ => false
  end.
Definition local_looks_crlf (h : hir) : bool := negb (has_look (fun l => negb (local_look_crlf l)) h).

(* ---- RegexMatcher::find_candidate_line (crates/regex/src/matcher.rs) ----
   With a fast line regex (the alternation of the inner literals) it answers Candidate(end of the
   leftmost occurrence of a literal; among literals starting there, the first in list order);
   without one it answers Confirmed(end of the match the regex engine finds).  The literal search
   is modelled executably; the regex engine's choice of a match is the parameter [span]
   (regex-automata's leftmost-first search is not modelled: what is assumed of it is stated where
   it is used, Proofs/RegexCandProofs.v [span_ok]). *)
Fixpoint first_prefix (lits : list bytes) (t : bytes) : option nat :=
  match lits with
  | [] => None
  | l :: r => if is_prefix_of l t then Some (length l) else first_prefix r t
  end.

Fixpoint find_lit (lits : list bytes) (t : bytes) : option nat :=
  match first_prefix lits t with
  | Some n => Some n
  | None => match t with [] => None | _ :: r => option_map S (find_lit lits r) end
  end.

Definition regex_find_candidate (lits : option (list bytes)) (span : bytes -> option (nat * nat))
           (hay : bytes) : option (bool * nat) :=
  match lits with
  | Some ls => option_map (fun e => (false, e)) (find_lit ls hay)
  | None => option_map (fun sp => (true, snd sp)) (span hay)
  end.

(* the RegexMatcher built by build_many, with its fast line literals *)
Definition regex_line_matcher (final : hir) (adv : option rterm) (lits : option (list bytes))
           (span : bytes -> option (nat * nat)) (find_at : bytes -> nat -> option (nat * nat)) : matcher :=
  regex_matcher final adv (regex_find_candidate lits span) find_at.

(* a span function that meets [span_ok]: the leftmost start that has a match, with one of its ends
   (used for non-vacuity; the real engine's choice among the ends is irrelevant to the line) *)
Definition sem_span (h : hir) (hay : bytes) : option (nat * nat) :=
  match find (fun i => match ends h hay i with [] => false | _ => true end) (seq 0 (S (length hay))) with
  | Some i => match ends h hay i with j :: _ => Some (i, j) | [] => None end
  | None => None
  end.
