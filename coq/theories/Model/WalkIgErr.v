(* Model/WalkIgErr.v — mirrors (definitions only)
     crates/ignore/src/dir.rs    Ignore::add_child -> (Ignore, Option<Error>)   ("a matcher is always returned ... and
                                 an error is returned if it exists": the matcher holds every valid rule)
     crates/ignore/src/walk.rs   Walk::next, arm WalkEvent::Dir (both add_child call sites), Work::read_dir
   Model/Walk.v keeps only (directory path, inode) on the matcher stack and takes the verdict as a function of that
   stack.  Here the compiled matcher and the partial error are explicit: building a directory's matcher yields
   (matcher, option error), and what each walker installs / attaches to the entry is spelled out.  [erase]/[rebuild]
   connect the explicit stack with Walk.v's. *)
From RG Require Import Base.Bytes Model.Walk.

Section IgErr.
  Variable matcher : Type.      (* what the ignore files of one directory compile to *)
  Variable igerr : Type.        (* ignore::Error *)
  (* reading + compiling the ignore files of directory (path, handle inode): always a matcher, maybe an error *)
  Variable compile : bytes -> nat -> matcher * option igerr.
  Variable fs : fsys.

  Record ignode := { in_dir : bytes; in_ino : nat; in_m : matcher }.
  Definition mstack := list ignode.          (* nearest directory first, like igstack *)

  (* Ignore::add_child *)
  Definition add_child (ig : mstack) (p : bytes) (ino : nat) : mstack * option igerr :=
    ({| in_dir := p; in_ino := ino; in_m := fst (compile p ino) |} :: ig, snd (compile p ino)).

  (* Walk::next, Dir event: (self.ig afterwards, ent.err).  A skipped directory is pushed too and its error dropped:
     `let (igtmp, _) = self.ig.add_child(ent.path()); self.ig = igtmp;` — otherwise
     `let (igtmp, err) = ...; self.ig = igtmp; ent.err = err;` *)
  Definition serial_dir_push (skipped : bool) (ig : mstack) (e : dent) : mstack * option igerr :=
    let r := add_child ig (de_path e) (hino fs e) in
    if skipped then (fst r, None) else (fst r, snd r).

  (* Work::read_dir after a successful fs::read_dir: (self.ignore, self.dent.err):
     `let (ig, err) = self.ignore.add_child(self.dent.path()); self.ignore = ig; self.dent.err = err;` *)
  Definition par_read_dir (ig : mstack) (e : dent) : mstack * option igerr :=
    let r := add_child ig (de_path e) (de_ino e) in (fst r, snd r).

  (* NOT the code: the variant that installs the matcher only when no error came with it (seeded change C08-21);
     kept to show that the theorem below separates the two *)
  Definition par_read_dir_only_if_ok (ig : mstack) (e : dent) : mstack * option igerr :=
    match add_child ig (de_path e) (de_ino e) with
    | (ig', None) => (ig', None)
    | (_, Some err) => (ig, Some err)
    end.

  (* connection with Model/Walk.v *)
  Definition erase (ig : mstack) : igstack := map (fun n => (in_dir n, in_ino n)) ig.
  Definition rebuild (ig : igstack) : mstack :=
    map (fun a => {| in_dir := fst a; in_ino := snd a; in_m := fst (compile (fst a) (snd a)) |}) ig.
  (* every matcher on the stack is the one compile returns for its directory *)
  Definition wf_mstack (ig : mstack) : Prop := rebuild (erase ig) = ig.

  (* should_skip_entry over the explicit stack, and the verdict function it induces on Walk.v's stack *)
  Variable verdict : mstack -> dent -> bool.
  Definition should_skip_of (ig : igstack) (e : dent) : bool := verdict (rebuild ig) e.
End IgErr.
