(* Model/MatchIter.v — mirrors crates/matcher/src/lib.rs
     Matcher::try_find_iter_at / try_captures_iter_at   (the same loop over Match / Captures)
   for a fixed haystack.  The matcher is a Section variable.  Definitions only. *)
From RG Require Import Base.Bytes.

Section Iter.
  Context {C : Type}.                     (* a Match, or a Captures table *)
  Variable at_ : nat -> option C.         (* find_at / captures_at (haystack, pos) *)
  Variable span : C -> nat * nat.         (* the overall match (group 0) *)
  Variable hlen : nat.                    (* haystack.len() *)
  Context {St : Type}.
  Variable f : C -> St -> St * bool.        (* `matched` callback: new state, keep going? *)

  Definition opt_nat_eqb (a : option nat) (b : nat) : bool :=
    match a with Some x => Nat.eqb x b | None => false end.

  Fixpoint iter_loop (fuel : nat) (last_end : nat) (last_match : option nat) (st : St) : option St :=
    match fuel with
    | 0 => None
    | S fuel' =>
      if Nat.ltb hlen last_end then Some st else
      match at_ last_end with
      | None => Some st
      | Some c =>
        let (s, e) := span c in
        if Nat.eqb s e then
          (* empty match: next search starts one byte later; not accepted right after a match *)
          if opt_nat_eqb last_match e then iter_loop fuel' (e + 1) last_match st
          else
            let (st', go) := f c st in
            if go then iter_loop fuel' (e + 1) (Some e) st' else Some st'
        else
          let (st', go) := f c st in
          if go then iter_loop fuel' e (Some e) st' else Some st'
      end
    end.

  (* enough fuel for any matcher obeying  at <= start <= end  *)
  Definition iter_at (at0 : nat) (st : St) : option St :=
    iter_loop (hlen + 2 - at0 + 1) at0 None st.
End Iter.
