(* Model/ReplaceGlue.v — mirrors the call site of the Replacer in the standard printer:
     crates/printer/src/standard.rs  StandardSink::matched / StandardSink::replace
       self.replace(searcher, mat.buffer(), mat.bytes_range_in_buffer())
         -> self.replacer.replace_all(searcher, &self.matcher, bytes, range, replacement)
     crates/printer/src/util.rs  Replacer::replace_all, BOTH branches of the haystack choice
       (the same dance as find_iter_at_in_context):
         multi-line search : haystack = buffer cut at range.end + MAX_LOOK_AHEAD when at least
                             MAX_LOOK_AHEAD bytes follow the range, else the whole buffer
         line search       : haystack = buffer cut at the end of the line's content
     crates/printer/src/lib.rs  MAX_LOOK_AHEAD = 128
     StandardSink::record_matches (the same window through find_iter_at_in_context),
     and what StandardImpl then writes for the event when no prefix (path, line number, column),
     no colour and no column limit is configured (sink_fast_multi_line, sink_slow_multi_line,
     sink_slow_multi_line_only_matching; sink_fast / sink_slow for a line search):
     Replacer::replacement() = None -> the original bytes and matches of the range; otherwise the
     replaced text and the spans of the expansions in it.
   Definitions only. *)
From RG Require Import Base.Bytes Model.Interpolate Model.MatchIter Model.Replace.

Definition MAX_LOOK_AHEAD : nat := 128.

(* `is_multi_line` = searcher.multi_line_with_matcher(&matcher) *)
Definition replace_haystack (is_multi_line : bool) (lt : lineterm) (buf : bytes) (re : nat) : bytes :=
  if is_multi_line then
    if Nat.leb MAX_LOOK_AHEAD (length buf - re) then firstn (re + MAX_LOOK_AHEAD) buf else buf
  else firstn (trim_line_terminator lt buf 0 re) buf.

Section Glue.
  Variable captures_at : bytes -> nat -> option caps.    (* matcher.captures_at(haystack, at) *)
  Variable name_to_index : bytes -> option N.            (* matcher.capture_index *)

  (* replace_with_captures_in_context + the interpolating callback, on a given haystack;
     None = interpolation failure (never), out of fuel (never) or a slice-index panic *)
  Definition replace_on (hay : bytes) (rs re : nat) (template : bytes)
    : option (bytes * list (nat * nat)) :=
    match iter_at (captures_at hay) cap_span (length hay) (replace_cb name_to_index hay re template) rs
                  {| r_dst := []; r_last := rs; r_matches := []; r_fail := false |} with
    | None => None
    | Some st =>
      if r_fail st then None else
      let en := Nat.min (length hay) re in
      (* `dst.extend(&bytes[last_match..end])` panics when last_match > end: a match that starts
         inside the range and ends after it *)
      if Nat.ltb en (r_last st) then None
      else Some (r_dst st ++ sub hay (r_last st) en, r_matches st)
    end.

  (* Replacer::replace_all with both branches *)
  Definition replace_all_ctx (is_multi_line : bool) (lt : lineterm) (buf : bytes) (rs re : nat)
                             (template : bytes) : option (bytes * list (nat * nat)) :=
    replace_on (replace_haystack is_multi_line lt buf re) rs re template.

  (* StandardSink::matched: the searcher's buffer and the range of the matched lines in it *)
  Definition standard_matched_replace (is_multi_line : bool) (lt : lineterm)
                                      (mat_buffer : bytes) (mat_range : nat * nat) (template : bytes)
    : option (bytes * list (nat * nat)) :=
    replace_all_ctx is_multi_line lt mat_buffer (fst mat_range) (snd mat_range) template.

  (* StandardSink::record_matches -> find_iter_at_in_context: the spans of the matches of the same
     window that start inside the range, relative to the start of the range *)
  Definition record_cb (re : nat) (c : caps) (acc : list (nat * nat)) : list (nat * nat) * bool :=
    let (s, e) := cap_span c in
    if Nat.leb re s then (acc, false) else (acc ++ [(s, e)], true).
  Definition record_matches (is_multi_line : bool) (lt : lineterm) (buf : bytes) (rs re : nat)
    : option (list (nat * nat)) :=
    let hay := replace_haystack is_multi_line lt buf re in
    option_map (map (fun m => (fst m - rs, snd m - rs)))
               (iter_at (captures_at hay) cap_span (length hay) (record_cb re) rs []).

  (* ---- what StandardImpl writes (no prefixes, no colour, no column limit) ---- *)

  (* write_line: the bytes, then the terminator unless already there *)
  Definition write_piece (lt : lineterm) (b : bytes) : bytes :=
    if lt_is_suffix lt b then b else b ++ lt_bytes lt.

  (* LineStep / LineIter: the lines of a text as ranges, terminator included, last one maybe without *)
  Fixpoint line_ranges_from (lt : lineterm) (b : bytes) (pos start : nat) : list (nat * nat) :=
    match b with
    | [] => if Nat.ltb start pos then [(start, pos)] else []
    | x :: b' =>
      if (x =? lt_byte lt)%N then (start, pos + 1) :: line_ranges_from lt b' (pos + 1) (pos + 1)
      else line_ranges_from lt b' (pos + 1) start
    end.
  Definition line_ranges (lt : lineterm) (b : bytes) : list (nat * nat) := line_ranges_from lt b 0 0.

  (* sink_fast_multi_line: every line through write_line *)
  Definition print_fast_multi (lt : lineterm) (text : bytes) : bytes :=
    concat (map (fun r => write_piece lt (sub text (fst r) (snd r))) (line_ranges lt text)).
  (* sink_slow_multi_line: every line without its terminator, then the searcher's terminator *)
  Definition print_slow_multi (lt : lineterm) (text : bytes) : bytes :=
    concat (map (fun r => sub text (fst r) (trim_line_terminator lt text (fst r) (snd r)) ++ lt_bytes lt)
                (line_ranges lt text)).
  (* sink_slow_multi_line_only_matching: per line, the non-empty parts of the matches on it *)
  Definition print_only_multi (lt : lineterm) (text : bytes) (ms : list (nat * nat)) : bytes :=
    concat (map (fun r =>
                   let ls := fst r in
                   let le := trim_line_terminator lt text (fst r) (snd r) in
                   concat (map (fun m =>
                                  let a := Nat.max ls (fst m) in
                                  let b := Nat.min le (snd m) in
                                  if Nat.ltb a b then sub text a b ++ lt_bytes lt else []) ms))
                (line_ranges lt text)).

  Definition standard_matched_output (is_multi_line : bool) (lt : lineterm) (only_matching : bool)
                                     (mat_buffer : bytes) (mat_range : nat * nat) (template : bytes)
    : option bytes :=
    let orig := sub mat_buffer (fst mat_range) (snd mat_range) in
    match standard_matched_replace is_multi_line lt mat_buffer mat_range template,
          record_matches is_multi_line lt mat_buffer (fst mat_range) (snd mat_range) with
    | Some (dst, spans), Some recorded =>
      (* Sunk: the replacement and its spans if there is one, else the original bytes and matches *)
      let text := match spans with [] => orig | _ => dst end in
      let ms := match spans with [] => recorded | _ => spans end in
      if is_multi_line then
        match ms with
        | [] => Some (print_fast_multi lt text)
        | _ => if only_matching then Some (print_only_multi lt text ms)
               else Some (print_slow_multi lt text)
        end
      else
        (* sink_fast / sink_slow for a single line *)
        match ms with
        | [] => Some (write_piece lt text)
        | _ => if only_matching
               then Some (concat (map (fun sp => write_piece lt (sub text (fst sp) (snd sp))) ms))
               else Some (write_piece lt text)
        end
    | _, _ => None
    end.
End Glue.
