(* Model/Summary.v — mirrors crates/printer/src/summary.rs
     SummaryKind::{requires_path, requires_stats, quit_early}
     Summary::sink / sink_with_path (which path and stats a sink starts with)
     SummarySink::{has_match, should_quit, write_path_line, write_path_field}
     impl Sink for SummarySink: matched, binary_data, begin, finish
   for configurations without colours and hyperlinks.  Definitions only. *)
From RG Require Import Base.Bytes Model.MatchIter Model.Replace Model.Sink.

Inductive skind := KCount | KCountMatches | KPathWithMatch | KPathWithoutMatch | KQuiet.

Definition requires_path (k : skind) : bool :=
  match k with KPathWithMatch | KPathWithoutMatch => true | _ => false end.
Definition requires_stats (k : skind) : bool :=
  match k with KCountMatches => true | _ => false end.
Definition quit_early (k : skind) : bool :=
  match k with KPathWithMatch | KQuiet => true | _ => false end.

Record sconfig := mkSCfg { sc_kind : skind; sc_stats : bool; sc_path : bool; sc_max : option nat;
                           sc_exclude_zero : bool; sc_sep_field : bytes; sc_path_term : option byte }.

Record ssink := mkSS { ss_path : option bytes; ss_match_count : nat; ss_bin : option nat;
                       ss_stats : option stats; ss_wtr : wtr }.

(* Summary::sink_with_path / Summary::sink: a fresh sink on the printer's writer *)
Definition summary_sink (cfg : sconfig) (path : option bytes) (w : wtr) : ssink :=
  let st := if sc_stats cfg || requires_stats (sc_kind cfg) then Some stats_new else None in
  let p := match path with
           | Some p => if negb (sc_path cfg) && negb (requires_path (sc_kind cfg)) then None else Some p
           | None => None
           end in
  mkSS p 0 None st w.

Definition ss_has_match (cfg : sconfig) (s : ssink) : bool :=
  match sc_kind cfg with
  | KPathWithoutMatch => Nat.eqb (ss_match_count s) 0
  | _ => Nat.ltb 0 (ss_match_count s)
  end.

Definition ss_should_quit (cfg : sconfig) (match_count : nat) : bool :=
  match sc_max cfg with
  | None => false
  | Some limit => Nat.leb limit match_count
  end.

Section Summary.
  Variable find_at : bytes -> nat -> option (nat * nat).
  Variable cfg : sconfig.
  Variable env : senv.

  Definition ss_write (b : bytes) (s : ssink) : ssink :=
    mkSS (ss_path s) (ss_match_count s) (ss_bin s) (ss_stats s) (write b (ss_wtr s)).

  Definition write_path_line (s : ssink) : ssink :=
    match ss_path s with
    | Some p =>
      let s := ss_write p s in
      match sc_path_term cfg with
      | Some t => ss_write [t] s
      | None => ss_write (lt_bytes (e_lt env)) s
      end
    | None => s
    end.

  Definition write_path_field (s : ssink) : ssink :=
    match ss_path s with
    | Some p =>
      let s := ss_write p s in
      match sc_path_term cfg with
      | Some t => ss_write [t] s
      | None => ss_write (sc_sep_field cfg) s
      end
    | None => s
    end.

  Definition summary_matched (m : sink_match) (s : ssink) : option (ssink * reply) :=
    let is_multi_line := e_multi env in
    let sink_match_count :=
      match ss_stats s with
      | None => if negb is_multi_line then Some 1
                else find_iter_at_in_context find_at env (m_buf m) (m_rs m) (m_re m) count_cb 0
      | Some _ => find_iter_at_in_context find_at env (m_buf m) (m_rs m) (m_re m) count_cb 0
      end in
    match sink_match_count with
    | None => None
    | Some smc =>
      let mc := if is_multi_line && negb (e_invert env) then ss_match_count s + smc
                else ss_match_count s + 1 in
      match ss_stats s with
      | Some st =>
        let st' := add_matched_lines (line_count (e_lt env) (m_bytes m)) (add_matches smc st) in
        Some (mkSS (ss_path s) mc (ss_bin s) (Some st') (ss_wtr s), reply_of (negb (ss_should_quit cfg mc)))
      | None =>
        let s' := mkSS (ss_path s) mc (ss_bin s) None (ss_wtr s) in
        if quit_early (sc_kind cfg) then Some (s', Halt)
        else Some (s', reply_of (negb (ss_should_quit cfg mc)))
      end
    end.

  Definition summary_step (e : sevent) (s : ssink) : option (ssink * reply) :=
    match e with
    | SMatched m => summary_matched m s
    | SContext _ => Some (s, Go)          (* Sink::context default: Ok(true) *)
    | SBreak => Some (s, Go)              (* Sink::context_break default *)
    | SBinary _ => Some (s, Go)           (* binary_data: only logs *)
    end.

  Definition summary_begin (s : ssink) : ssink * reply :=
    match ss_path s with
    | None => if requires_path (sc_kind cfg) then (s, Fail) else
      let s' := mkSS (ss_path s) 0 None (ss_stats s) (reset_count (ss_wtr s)) in
      (s', match sc_max cfg with Some 0 => Halt | _ => Go end)
    | Some _ =>
      let s' := mkSS (ss_path s) 0 None (ss_stats s) (reset_count (ss_wtr s)) in
      (s', match sc_max cfg with Some 0 => Halt | _ => Go end)
    end.

  Definition summary_finish (fin : sfinish) (s : ssink) : ssink :=
    let st := match ss_stats s with
              | Some st =>
                let st := add_searches 1 st in
                let st := if Nat.ltb 0 (ss_match_count s) then add_searches_with_match 1 st else st in
                let st := add_bytes_searched (f_bytes fin) st in
                Some (add_bytes_printed (w_count (ss_wtr s)) st)
              | None => None
              end in
    let s := mkSS (ss_path s) (ss_match_count s) (f_bin fin) st (ss_wtr s) in
    if (match ss_bin s with Some _ => true | None => false end) && e_quit env then
      (* squash the match count *)
      mkSS (ss_path s) 0 (ss_bin s) (ss_stats s) (ss_wtr s)
    else
      let show_count := negb (sc_exclude_zero cfg) || Nat.ltb 0 (ss_match_count s) in
      match sc_kind cfg with
      | KCount =>
        if show_count then
          let s := write_path_field s in
          let s := ss_write (dec (ss_match_count s)) s in
          ss_write (lt_bytes (e_lt env)) s
        else s
      | KCountMatches =>
        if show_count then
          let s := write_path_field s in
          let n := match ss_stats s with Some st => s_matches st | None => 0 end in
          let s := ss_write (dec n) s in
          ss_write (lt_bytes (e_lt env)) s
        else s
      | KPathWithMatch => if Nat.ltb 0 (ss_match_count s) then write_path_line s else s
      | KPathWithoutMatch => if Nat.eqb (ss_match_count s) 0 then write_path_line s else s
      | KQuiet => s
      end.

  Definition summary_run (path : option bytes) (w : wtr) (evs : list sevent) (fins : nat -> sfinish)
    : option (ssink * bool) :=
    run_sink summary_begin summary_step summary_finish evs fins (summary_sink cfg path w).
End Summary.
