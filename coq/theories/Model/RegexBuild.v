(* Model/RegexBuild.v — mirrors of grep-regex's HIR passes (crates/regex/src):
     strip.rs        strip_from_match, strip_from_match_ascii
     ban.rs          check
     non_matching.rs non_matching_bytes, remove_matching_bytes
     config.rs       ConfiguredHIR::new (the part after translation: ban check, strip),
                     ConfiguredHIR::into_word, into_whole_line, line_anchor_start/end,
                     ConfiguredHIR::line_terminator (withheld when the HIR has a haystack anchor)
     matcher.rs      RegexMatcherBuilder::build_many (the order: configure, wrap, non-matching
                     bytes, advertised terminator)
   The functions rebuild the tree with the *plain* constructors; the real code rebuilds it through
   regex-syntax's simplifying constructors Hir::{literal,class,concat,alternation,repetition}
   (third-party, semantics-preserving by their documentation).  The correspondence check rebuilds
   the model's result through those same constructors before comparing it with the code's HIR.
   Definitions only. *)
From RG Require Import Base.Bytes Spec.RegexSem.

Inductive rterm := RTByte (b : byte) | RTCrlf.

Inductive rerr :=
| ENotAllowed (b : byte)            (* ErrorKind::NotAllowed(ch.to_string()) *)
| EInvalidLineTerminator (b : byte) (* ErrorKind::InvalidLineTerminator *)
| EBanned (b : byte).               (* ErrorKind::Banned *)

(* ---- regex-syntax interval sets: IntervalSet::difference with a one-point set, on a canonical
        (sorted, non-adjacent) range list; b is ASCII so no surrogate gap is crossed ---- *)
Definition remove_point (rs : list (N * N)) (b : N) : list (N * N) :=
  flat_map (fun r =>
    if (b <? fst r)%N || (snd r <? b)%N then [r]
    else (if (fst r <? b)%N then [(fst r, b - 1)%N] else []) ++
         (if (b <? snd r)%N then [(b + 1, snd r)%N] else [])) rs.

(* Result-collecting map: xs.into_iter().map(f).collect::<Result<Vec<_>,_>>() *)
Fixpoint map_res {A B E} (f : A -> B + E) (l : list A) : list B + E :=
  match l with
  | [] => inl []
  | x :: xs =>
    match f x with
    | inr e => inr e
    | inl y => match map_res f xs with inr e => inr e | inl ys => inl (y :: ys) end
    end
  end.

(* strip.rs strip_from_match_ascii (the is_ascii test is done by the caller below) *)
Fixpoint strip_ascii (byte : N) (h : hir) : hir + rerr :=
  match h with
  | HEmpty => inl HEmpty
  | HLit lit => if existsb (N.eqb byte) lit then inr (ENotAllowed byte) else inl (HLit lit)
  | HClassU rs =>
    match rs with
    | [] => inl (HClassU [])
    | _ => match remove_point rs byte with
           | [] => inr (ENotAllowed byte)
           | rs' => inl (HClassU rs')
           end
    end
  | HClassB rs =>
    match rs with
    | [] => inl (HClassB [])
    | _ => match remove_point rs byte with
           | [] => inr (ENotAllowed byte)
           | rs' => inl (HClassB rs')
           end
    end
  | HLook l => inl (HLook l)
  | HRep mn mx g sub =>
    match strip_ascii byte sub with inr e => inr e | inl s' => inl (HRep mn mx g s') end
  | HCap sub =>
    match strip_ascii byte sub with inr e => inr e | inl s' => inl (HCap s') end
  | HConcat xs =>
    match (fix go (l : list hir) : list hir + rerr :=
             match l with
             | [] => inl []
             | x :: t => match strip_ascii byte x with
                         | inr e => inr e
                         | inl y => match go t with inr e => inr e | inl ys => inl (y :: ys) end
                         end
             end) xs with
    | inr e => inr e
    | inl ys => inl (HConcat ys)
    end
  | HAlt xs =>
    match (fix go (l : list hir) : list hir + rerr :=
             match l with
             | [] => inl []
             | x :: t => match strip_ascii byte x with
                         | inr e => inr e
                         | inl y => match go t with inr e => inr e | inl ys => inl (y :: ys) end
                         end
             end) xs with
    | inr e => inr e
    | inl ys => inl (HAlt ys)
    end
  end.

Definition strip_from_match_ascii (h : hir) (byte : N) : hir + rerr :=
  if (127 <? byte)%N then inr (EInvalidLineTerminator byte) else strip_ascii byte h.

(* strip.rs strip_from_match.  Each pass rebuilds the tree through regex-syntax's simplifying
   constructors, so in CRLF mode the second pass sees the *rebuilt* result of the first one
   (e.g. `Z|[\r\n]` becomes `Z|\n`, which regex-syntax turns into the class `[\nZ]`, from which the
   second pass removes `\n`; without the rebuild the one-point class `[\n]` would be rejected).
   [norm] stands for that rebuild (third-party; the theorems assume only that it preserves the
   meaning of the HIR). *)
Definition strip_from_match (norm : hir -> hir) (h : hir) (lt : rterm) : hir + rerr :=
  match lt with
  | RTCrlf =>
    match strip_from_match_ascii h 13%N with
    | inr e => inr e
    | inl h1 => strip_from_match_ascii (norm h1) 10%N
    end
  | RTByte b => strip_from_match_ascii h b
  end.

(* the bytes a terminator consists of *)
Definition is_term_byte (lt : rterm) (b : N) : bool :=
  match lt with RTByte t => (b =? t)%N | RTCrlf => (b =? 13)%N || (b =? 10)%N end.

(* ---- ban.rs check ---- *)
Definition range_len (r : N * N) : N := (snd r - fst r + 1)%N.
Definition ranges_total (rs : list (N * N)) : N := fold_right (fun r a => (range_len r + a)%N) 0%N rs.

Fixpoint ban_check (byte : N) (h : hir) : option rerr :=
  match h with
  | HEmpty => None
  | HLit lit => if existsb (N.eqb byte) lit then Some (EBanned byte) else None
  | HClassU rs | HClassB rs =>
    if (ranges_total rs =? 1)%N && in_ranges rs byte then Some (EBanned byte) else None
  | HLook _ => None
  | HRep _ _ _ sub => ban_check byte sub
  | HCap sub => ban_check byte sub
  | HConcat xs | HAlt xs =>
    (fix go (l : list hir) : option rerr :=
       match l with
       | [] => None
       | x :: t => match ban_check byte x with Some e => Some e | None => go t end
       end) xs
  end.

(* ---- non_matching.rs ---- *)
(* grep_matcher::ByteSet as a membership function *)
Definition byteset := N -> bool.
Definition bs_full : byteset := fun _ => true.
Definition bs_remove (b : N) (s : byteset) : byteset := fun x => if (x =? b)%N then false else s x.
Definition bs_remove_all (lo hi : N) (s : byteset) : byteset :=
  fun x => if (lo <=? x)%N && (x <=? hi)%N then false else s x.

(* regex_syntax::utf8::Utf8Sequences(start,end): the byte ranges of all sequences, flattened.
   Modelled by its meaning: byte x lies in one of the ranges iff x occurs in the UTF-8 encoding of
   some scalar value of [lo,hi] (each Utf8Sequence is a product of byte ranges, so every byte of
   every range is used).  Computed per encoded length class and per byte position. *)
Definition mod64_hits (a b v : N) : bool :=       (* v = x mod 64 for some a <= x <= b *)
  if (b <? a)%N then false
  else if (63 <=? b - a)%N then true
  else if (a / 64 =? b / 64)%N then (a mod 64 <=? v)%N && (v <=? b mod 64)%N
  else (a mod 64 <=? v)%N || (v <=? b mod 64)%N.

(* one sub-range [lo,hi] within a single length class: n bytes, leading tag [tag] *)
Definition seq_hits (n : nat) (tag : N) (lo hi : N) (x : N) : bool :=
  if (hi <? lo)%N then false else
  match n with
  | 1 => (lo <=? x)%N && (x <=? hi)%N
  | 2 => ((tag + lo / 64 <=? x)%N && (x <=? tag + hi / 64)%N)
         || (is_cont x && mod64_hits lo hi (x - 128))
  | 3 => ((tag + lo / 4096 <=? x)%N && (x <=? tag + hi / 4096)%N)
         || (is_cont x && (mod64_hits (lo / 64) (hi / 64) (x - 128) || mod64_hits lo hi (x - 128)))
  | _ => ((tag + lo / 262144 <=? x)%N && (x <=? tag + hi / 262144)%N)
         || (is_cont x && (mod64_hits (lo / 4096) (hi / 4096) (x - 128)
                           || mod64_hits (lo / 64) (hi / 64) (x - 128) || mod64_hits lo hi (x - 128)))
  end.

Definition utf8_range_hits (lo hi : N) (x : N) : bool :=
  seq_hits 1 0 lo (N.min hi 127) x
  || seq_hits 2 192 (N.max lo 128) (N.min hi 2047) x
  || seq_hits 3 224 (N.max lo 2048) (N.min hi 55295) x
  || seq_hits 3 224 (N.max lo 57344) (N.min hi 65535) x
  || seq_hits 4 240 (N.max lo 65536) (N.min hi 1114111) x.

Definition bs_remove_utf8 (lo hi : N) (s : byteset) : byteset :=
  fun x => if utf8_range_hits lo hi x then false else s x.

Definition look_removes (l : look) (s : byteset) : byteset :=
  match l with
  | LStart | LEnd | LStartLF | LEndLF => bs_remove 10%N s
  | LStartCRLF | LEndCRLF => bs_remove 10%N (bs_remove 13%N s)
  | _ => s
  end.

Fixpoint remove_matching_bytes (h : hir) (s : byteset) : byteset :=
  match h with
  | HEmpty => s
  | HLook l => look_removes l s
  | HLit lit => fold_left (fun s b => bs_remove b s) lit s
  | HClassU rs => fold_left (fun s r => bs_remove_utf8 (fst r) (snd r) s) rs s
  | HClassB rs => fold_left (fun s r => bs_remove_all (fst r) (snd r) s) rs s
  | HRep _ _ _ sub => remove_matching_bytes sub s
  | HCap sub => remove_matching_bytes sub s
  | HConcat xs | HAlt xs =>
    (fix go (l : list hir) (s : byteset) : byteset :=
       match l with
       | [] => s
       | x :: t => go t (remove_matching_bytes x s)
       end) xs s
  end.

Definition non_matching_bytes (h : hir) : byteset := remove_matching_bytes h bs_full.

(* ---- Properties::look_set() and the LookSet queries used by grep-regex ---- *)
Fixpoint has_look (p : look -> bool) (h : hir) : bool :=
  match h with
  | HLook l => p l
  | HRep _ _ _ sub | HCap sub => has_look p sub
  | HConcat xs | HAlt xs =>
    (fix go (l : list hir) : bool :=
       match l with [] => false | x :: t => has_look p x || go t end) xs
  | _ => false
  end.

Definition is_anchor_haystack (l : look) : bool := match l with LStart | LEnd => true | _ => false end.
Definition is_word_unicode_look (l : look) : bool :=
  match l with
  | LWordUnicode | LWordUnicodeNegate | LWordStartUnicode | LWordEndUnicode
  | LWordStartHalfUnicode | LWordEndHalfUnicode => true
  | _ => false
  end.
Definition contains_anchor_haystack (h : hir) : bool := has_look is_anchor_haystack h.
Definition contains_word_unicode (h : hir) : bool := has_look is_word_unicode_look h.

(* ---- config.rs: the fixed-strings shortcut ----
   Config::is_fixed_strings / has_line_terminator: when no case folding is requested and every
   pattern is a plain literal (or -F is given) without a terminator byte, ConfiguredHIR::new builds
   the alternation of the literals directly and skips translation, the ban check and stripping. *)
Definition is_meta_byte (b : N) : bool :=      (* regex_syntax::is_meta_character (all ASCII) *)
  existsb (N.eqb b) [92; 46; 43; 42; 63; 40; 41; 124; 91; 93; 123; 125; 94; 36; 35; 38; 45; 126]%N.

Definition has_line_terminator (lt : rterm) (lit : bytes) : bool := existsb (is_term_byte lt) lit.

Definition is_fixed_strings (icase smart fixed : bool) (lt : option rterm) (pats : list bytes) : bool :=
  if icase || smart then false
  else if fixed then
    match lt with Some t => negb (existsb (has_line_terminator t) pats) | None => true end
  else
    forallb (fun p => negb (existsb is_meta_byte p)
                      && match lt with Some t => negb (has_line_terminator t p) | None => true end) pats.

(* the HIR of the shortcut: Hir::alternation of Hir::literal(p) *)
Definition fixed_hir (pats : list bytes) : hir := HAlt (map HLit pats).

(* ---- config.rs ---- *)
Record rconfig := {
  c_line_terminator : option rterm;   (* Config::line_terminator *)
  c_ban : option N;                   (* Config::ban *)
  c_crlf : bool;
  c_unicode : bool;
  c_word : bool;
  c_whole_line : bool;
}.

(* ConfiguredHIR::new after translation (the non-fixed-strings branch) *)
Definition configure (norm : hir -> hir) (c : rconfig) (translated : hir) : hir + rerr :=
  match (match c_ban c with Some b => ban_check b translated | None => None end) with
  | Some e => inr e
  | None =>
    match c_line_terminator c with
    | None => inl translated
    | Some lt => strip_from_match norm translated lt
    end
  end.

Definition line_anchor_start (c : rconfig) : look := if c_crlf c then LStartCRLF else LStartLF.
Definition line_anchor_end (c : rconfig) : look := if c_crlf c then LEndCRLF else LEndLF.

Definition into_whole_line (c : rconfig) (h : hir) : hir :=
  HConcat [HLook (line_anchor_start c); h; HLook (line_anchor_end c)].
Definition into_word (c : rconfig) (h : hir) : hir :=
  HConcat [HLook (if c_unicode c then LWordStartHalfUnicode else LWordStartHalfAscii); h;
           HLook (if c_unicode c then LWordEndHalfUnicode else LWordEndHalfAscii)].

(* RegexMatcherBuilder::build_many: whole_line takes precedence over word *)
Definition wrap (c : rconfig) (h : hir) : hir :=
  if c_whole_line c then into_whole_line c h else if c_word c then into_word c h else h.

(* ConfiguredHIR::line_terminator *)
Definition advertised_terminator (c : rconfig) (final : hir) : option rterm :=
  if contains_anchor_haystack final then None else c_line_terminator c.

(* everything build_many derives from the translated HIR except the compiled automata *)
Definition build (norm : hir -> hir) (c : rconfig) (translated : hir) : (hir * option rterm) + rerr :=
  match configure norm c translated with
  | inr e => inr e
  | inl h => let f := wrap c h in inl (f, advertised_terminator c f)
  end.
