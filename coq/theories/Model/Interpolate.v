(* Model/Interpolate.v — mirrors crates/matcher/src/interpolate.rs
     interpolate, find_cap_ref, is_valid_cap_letter
   and crates/matcher/src/lib.rs Captures::interpolate (the `append` closure).
   Definitions only. *)
From RG Require Import Base.Bytes.

Definition is_valid_cap_letter (b : byte) : bool :=
  ((48 <=? b) && (b <=? 57) || (97 <=? b) && (b <=? 122) || (65 <=? b) && (b <=? 90) || (b =? 95))%N.

Definition is_digit (b : byte) : bool := ((48 <=? b) && (b <=? 57))%N.

(* decimal value of a digit string, as N (no overflow) *)
Definition dec_value (ds : bytes) : N := fold_left (fun acc d => (acc * 10 + (d - 48))%N) ds 0%N.

Inductive cref := RNum (n : N) | RName (s : bytes).

(* `cap.parse::<u32>()`: succeeds on a non-empty all-digit string whose value fits u32.
   (Rust's u32 parse also accepts a leading '+', which cannot occur: '+' is not a cap letter.) *)
Definition parse_u32 (name : bytes) : option N :=
  if forallb is_digit name
  then (let v := dec_value name in if (v <? 4294967296)%N then Some v else None)
  else None.

Definition mk_ref (name : bytes) : cref :=
  match parse_u32 name with Some n => RNum n | None => RName name end.

(* find_cap_ref(replacement) -> Option<CaptureRef{cap,end}> *)
Definition find_cap_ref (rep : bytes) : option (cref * nat) :=
  match rep with
  | d :: b :: rest =>
      if negb (d =? 36)%N then None else
      let brace := (b =? 123)%N in
      let i := if brace then 2 else 1 in
      let body := if brace then rest else b :: rest in
      let name := take_while is_valid_cap_letter body in
      let cap_end := i + length name in
      if Nat.eqb cap_end i then None else
      if brace then
        match skipn (length name) body with
        | c :: _ => if (c =? 125)%N then Some (mk_ref name, cap_end + 1) else None
        | [] => None
        end
      else Some (mk_ref name, cap_end)
  | _ => None
  end.

Section Interp.
  (* append(i, dst): text of capture group i, or nothing *)
  Variable cap_text : N -> option bytes.
  (* name_to_index *)
  Variable name_to_index : bytes -> option N.

  Definition append (i : N) (dst : bytes) : bytes :=
    match cap_text i with Some t => dst ++ t | None => dst end.

  (* one iteration of the `while !replacement.is_empty()` loop, for non-empty `rep`;
     `rec` is the rest of the loop *)
  Definition interp_step (rec : bytes -> bytes -> option bytes) (rep dst : bytes) : option bytes :=
    match memchr 36%N rep with
    | None => Some (dst ++ rep)                 (* break; dst.extend(replacement) *)
    | Some i =>
      let dst := dst ++ firstn i rep in
      let rep := skipn i rep in
      (* replacement.get(1).map_or(false, |&b| b == b'$') *)
      if (match rep with _ :: b :: _ => (b =? 36)%N | _ => false end)
      then rec (skipn 2 rep) (dst ++ [36%N])
      else
        match find_cap_ref rep with
        | None => rec (skipn 1 rep) (dst ++ [36%N])
        | Some (r, e) =>
          let rep' := skipn e rep in
          match r with
          | RNum n => rec rep' (append n dst)
          | RName s =>
            match name_to_index s with
            | Some n => rec rep' (append n dst)
            | None => rec rep' dst
            end
          end
        end
    end.

  (* the loop; fuel bounds the iterations *)
  Fixpoint interp_loop (fuel : nat) (rep dst : bytes) : option bytes :=
    match fuel with
    | 0 => None
    | S fuel' =>
      match rep with
      | [] => Some dst                              (* loop exits; dst.extend([]) *)
      | _ :: _ => interp_step (interp_loop fuel') rep dst
      end
    end.

  Definition interpolate (rep dst : bytes) : option bytes :=
    interp_loop (S (length rep)) rep dst.
End Interp.
