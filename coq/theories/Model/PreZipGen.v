(* Model/PreZipGen.v — the flag state machine assembled from the update rules REGENERATED from the source text of
   crates/core/flags/defs.rs (<Pre as Flag>::update, <SearchZip as Flag>::update; Gen/DecisionsCli.v:
   pre_update_value, pre_update_switch, zip_update), applied in command-line order as parse.rs does. *)
From Coq Require Import List.
From RG Require Import Base.Bytes Model.CliTypes Model.PreZipFlags Model.CliExpected Gen.DecisionsCli.
Import ListNotations.

Definition gen_upd (s : pz_state) (e : pz_event) : pz_state :=
  match e with
  | EPre p => pre_update_value p s
  | ENoPre => pre_update_switch s
  | EZip => zip_update true s
  | ENoZip => zip_update false s
  end.

Definition gen_final_state (l : list pz_event) : pz_state := fold_left gen_upd l pz_init.
