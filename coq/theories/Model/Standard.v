(* Model/Standard.v — mirrors crates/printer/src/standard.rs
     Standard::sink / sink_with_path, needs_match_granularity
     StandardSink::{record_matches, should_quit, match_more_than_limit}
     impl Sink for StandardSink: matched, context, context_break, binary_data, begin, finish
     StandardImpl::{sink, sink_fast, sink_fast_multi_line, sink_slow, sink_slow_multi_line,
                    sink_slow_multi_line_only_matching, sink_slow_multi_per_match, write_prelude,
                    write_line, write_colored_line, write_colored_matches, write_path_line,
                    write_search_prelude, write_binary_message, write_context_separator}
     PreludeWriter::{write_path, write_line_number, write_column_number, write_byte_offset,
                     write_separator, end}
   for configurations without replacement, trimming, column limits, colours and hyperlinks
   (so write_colored_line = write_line, and write_spec = write).  Definitions only. *)
From RG Require Import Base.Bytes Model.MatchIter Model.Replace Model.Sink.

Record stdconfig := mkStd {
  st_heading : bool; st_path : bool; st_only_matching : bool; st_per_match : bool;
  st_per_match_one_line : bool; st_max : option nat; st_column : bool; st_byte_offset : bool;
  st_stats : bool; st_sep_search : option bytes; st_sep_context : option bytes;
  st_sep_field_match : bytes; st_sep_field_context : bytes; st_path_term : option byte }.

Record stdsink := mkSD {
  sd_path : option bytes; sd_match_count : nat; sd_after_rem : nat; sd_bin : option nat;
  sd_stats : option stats; sd_matches : list (nat * nat); sd_wtr : wtr }.

(* no colours, no replacement *)
Definition needs_match_granularity (cfg : stdconfig) : bool :=
  st_column cfg || st_per_match cfg || st_only_matching cfg || st_stats cfg.

Definition standard_sink (cfg : stdconfig) (path : option bytes) (w : wtr) : stdsink :=
  mkSD (if st_path cfg then path else None) 0 0 None
       (if st_stats cfg then Some stats_new else None) [] w.

(* Sunk *)
Record sunk := mkSunk { k_bytes : bytes; k_off : nat; k_lnum : option nat; k_ctx : option ctx_kind;
                        k_matches : list (nat * nat) }.

Inductive psep := PNone | PField | PPathTerm.

Definition is_empty_list {A} (l : list A) : bool := match l with [] => true | _ => false end.
Definition is_some {A} (o : option A) : bool := match o with Some _ => true | None => false end.
Definition nth_span (l : list (nat * nat)) (i : nat) : nat * nat := nth i l (0, 0).

Section Standard.
  Variable find_at : bytes -> nat -> option (nat * nat).
  Variable cfg : stdconfig.
  Variable env : senv.

  Definition lt := e_lt env.
  Definition write_line_term (w : wtr) : wtr := write (lt_bytes lt) w.

  (* ---------- StandardImpl: everything here only writes ---------- *)
  Section Impl.
    Variable path : option bytes.          (* self.path() *)
    Variable match_count : nat.            (* self.sink.match_count *)
    Variable sk : sunk.

    Definition is_context : bool := is_some (k_ctx sk).
    Definition separator_field : bytes :=
      if is_context then st_sep_field_context cfg else st_sep_field_match cfg.

    (* PreludeWriter::write_separator *)
    Definition pw_sep (ns : psep) (w : wtr) : wtr :=
      match ns with
      | PNone => w
      | PField => write separator_field w
      | PPathTerm => match st_path_term cfg with Some t => write [t] w | None => w end
      end.

    Definition write_prelude (off : nat) (lnum : option nat) (col : option nat) (w : wtr) : wtr :=
      (* write_path *)
      let '(ns, w) :=
        if st_heading cfg then (PNone, w) else
        match path with
        | None => (PNone, w)
        | Some p =>
          let w := pw_sep PNone w in
          let w := write p w in
          (if is_some (st_path_term cfg) then PPathTerm else PField, w)
        end in
      (* write_line_number *)
      let '(ns, w) :=
        match lnum with
        | None => (ns, w)
        | Some n => let w := pw_sep ns w in (PField, write (dec n) w)
        end in
      (* write_column_number *)
      let '(ns, w) :=
        if negb (st_column cfg) then (ns, w) else
        match col with
        | None => (ns, w)
        | Some c => let w := pw_sep ns w in (PField, write (dec c) w)
        end in
      (* write_byte_offset *)
      let '(ns, w) :=
        if negb (st_byte_offset cfg) then (ns, w) else
        let w := pw_sep ns w in (PField, write (dec off) w) in
      (* end *)
      pw_sep ns w.

    Definition write_line (line : bytes) (w : wtr) : wtr :=
      let w := write line w in
      if negb (lt_is_suffix lt line) then write_line_term w else w.

    Definition write_path_line (w : wtr) : wtr :=
      match path with
      | Some p =>
        let w := write p w in
        match st_path_term cfg with
        | Some t => write [t] w
        | None => write_line_term w
        end
      | None => w
      end.

    Definition write_search_prelude (w : wtr) : wtr :=
      if Nat.ltb 0 (w_count w) then w else
      let w := match st_sep_search cfg with
               | Some sep => if Nat.ltb 0 (total_count w) then write_line_term (write sep w) else w
               | None => w
               end in
      if st_heading cfg then write_path_line w else w.

    Definition write_context_separator (w : wtr) : wtr :=
      match st_sep_context cfg with
      | Some sep => write_line_term (write sep w)
      | None => w
      end.

    (* the binary byte is always NUL in ripgrep; [0].as_bstr() debug-prints as "\0" *)
    Definition nul_dbg : bytes := [34; 92; 48; 34]%N.
    Definition msg_quit_a : bytes :=   (* "WARNING: stopped searching binary file after match (found " *)
      [87;65;82;78;73;78;71;58;32;115;116;111;112;112;101;100;32;115;101;97;114;99;104;105;110;103;32;
       98;105;110;97;114;121;32;102;105;108;101;32;97;102;116;101;114;32;109;97;116;99;104;32;40;102;
       111;117;110;100;32]%N.
    Definition msg_conv_a : bytes :=   (* "binary file matches (found " *)
      [98;105;110;97;114;121;32;102;105;108;101;32;109;97;116;99;104;101;115;32;40;102;111;117;110;100;32]%N.
    Definition msg_b : bytes :=        (* " byte around offset " *)
      [32;98;121;116;101;32;97;114;111;117;110;100;32;111;102;102;115;101;116;32]%N.
    Definition msg_c : bytes := [41; 10]%N.   (* ")\n" *)

    Definition write_binary_message (offset : nat) (w : wtr) : wtr :=
      if Nat.eqb match_count 0 then w else
      let with_path w := match path with Some p => write [58; 32]%N (write p w) | None => w end in
      if e_quit env then
        write (msg_quit_a ++ nul_dbg ++ msg_b ++ dec offset ++ msg_c) (with_path w)
      else if e_convert env then
        write (msg_conv_a ++ nul_dbg ++ msg_b ++ dec offset ++ msg_c) (with_path w)
      else w.

    Definition sink_fast (w : wtr) : wtr :=
      let w := write_prelude (k_off sk) (k_lnum sk) None w in
      write_line (k_bytes sk) w.

    Fixpoint sink_fast_ml_loop (spans : list (nat * nat)) (i : nat) (off : nat) (w : wtr) : wtr :=
      match spans with
      | [] => w
      | (s, e) :: r =>
        let w := write_prelude off (option_map (fun n => n + i) (k_lnum sk)) None w in
        let w := write_line (sub (k_bytes sk) s e) w in
        sink_fast_ml_loop r (S i) (off + (e - s)) w
      end.
    Definition sink_fast_multi_line (w : wtr) : wtr :=
      sink_fast_ml_loop (line_spans (lt_byte lt) (k_bytes sk)) 0 (k_off sk) w.

    Definition sink_slow (w : wtr) : wtr :=
      if st_only_matching cfg then
        fold_left (fun w m =>
                     let w := write_prelude (k_off sk + fst m) (k_lnum sk) (Some (fst m + 1)) w in
                     write_line (sub (k_bytes sk) (fst m) (snd m)) w)
                  (k_matches sk) w
      else if st_per_match cfg then
        fold_left (fun w m =>
                     let w := write_prelude (k_off sk + fst m) (k_lnum sk) (Some (fst m + 1)) w in
                     write_line (k_bytes sk) w)
                  (k_matches sk) w
      else
        let w := write_prelude (k_off sk) (k_lnum sk) (Some (fst (nth_span (k_matches sk) 0) + 1)) w in
        write_line (k_bytes sk) w.

    (* write_colored_matches without colours: `line` = [ls, le) of `bytes`, already trimmed *)
    Fixpoint wcm_loop (fuel : nat) (bytes : bytes) (ls le : nat) (matches : list (nat * nat))
             (midx : nat) (w : wtr) : nat * wtr :=
      match fuel with
      | 0 => (midx, w)
      | S f =>
        if Nat.eqb ls le then (midx, w) else
        let (ms, me) := nth_span matches midx in
        if Nat.leb me ls then
          if Nat.ltb (midx + 1) (length matches) then wcm_loop f bytes ls le matches (midx + 1) w
          else (midx, write (sub bytes ls le) w)
        else if Nat.ltb ls ms then
          let upto := Nat.min le ms in
          wcm_loop f bytes upto le matches midx (write (sub bytes ls upto) w)
        else
          let upto := Nat.min le me in
          wcm_loop f bytes upto le matches midx (write (sub bytes ls upto) w)
      end.
    Definition write_colored_matches (bytes : bytes) (ls le : nat) (matches : list (nat * nat))
               (midx : nat) (w : wtr) : nat * wtr :=
      let le := trim_line_terminator lt bytes ls le in
      if is_empty_list matches then (midx, write (sub bytes ls le) w)
      else wcm_loop (le - ls + length matches + 1) bytes ls le matches midx w.

    Fixpoint sink_slow_ml_loop (spans : list (nat * nat)) (count : nat) (midx : nat) (w : wtr) : wtr :=
      match spans with
      | [] => w
      | (s, e) :: r =>
        let w := write_prelude (k_off sk + s) (option_map (fun n => n + count) (k_lnum sk))
                               (Some (fst (nth_span (k_matches sk) 0) + 1)) w in
        let (midx, w) := write_colored_matches (k_bytes sk) s e (k_matches sk) midx w in
        sink_slow_ml_loop r (S count) midx (write_line_term w)
      end.

    (* inner `while !line.is_empty()` of sink_slow_multi_line_only_matching *)
    Fixpoint om_loop (fuel : nat) (ls le : nat) (count : nat) (midx : nat) (w : wtr) : nat * wtr :=
      match fuel with
      | 0 => (midx, w)
      | S f =>
        if Nat.eqb ls le then (midx, w) else
        let (ms, me) := nth_span (k_matches sk) midx in
        if Nat.leb me ls then
          if Nat.ltb (midx + 1) (length (k_matches sk)) then om_loop f ls le count (midx + 1) w
          else (midx, w)
        else if Nat.ltb ls ms then
          om_loop f (Nat.min le ms) le count midx w
        else
          let upto := Nat.min le me in
          let w := write_prelude (k_off sk + ms) (option_map (fun n => n + count) (k_lnum sk))
                                 (Some (ms + 1)) w in
          let w := write_line_term (write (sub (k_bytes sk) ls upto) w) in
          om_loop f upto le count midx w
      end.
    Fixpoint sink_slow_ml_om_loop (spans : list (nat * nat)) (count : nat) (midx : nat) (w : wtr) : wtr :=
      match spans with
      | [] => w
      | (s, e) :: r =>
        let e' := trim_line_terminator lt (k_bytes sk) s e in
        let (midx, w) := om_loop (e' - s + length (k_matches sk) + 1) s e' count midx w in
        sink_slow_ml_om_loop r (S count) midx w
      end.

    (* inner `while !line.is_empty()` of sink_slow_multi_per_match for the match (ms, me) *)
    Fixpoint pm_inner (fuel : nat) (ms me : nat) (ls le : nat) (w : wtr) : wtr :=
      match fuel with
      | 0 => w
      | S f =>
        if Nat.eqb ls le then w else
        if Nat.leb me ls then write (sub (k_bytes sk) ls le) w
        else if Nat.ltb ls ms then
          let upto := Nat.min le ms in
          pm_inner f ms me upto le (write (sub (k_bytes sk) ls upto) w)
        else
          let upto := Nat.min le me in
          pm_inner f ms me upto le (write (sub (k_bytes sk) ls upto) w)
      end.
    Fixpoint pm_lines (ms me : nat) (spans : list (nat * nat)) (count : nat) (w : wtr) : wtr :=
      match spans with
      | [] => w
      | (s, e) :: r =>
        if Nat.leb me s then w                                  (* line.start() >= m.end(): break *)
        else if Nat.leb e ms then pm_lines ms me r (S count) w  (* line.end() <= m.start(): continue *)
        else
          let w := write_prelude (k_off sk + s) (option_map (fun n => n + count) (k_lnum sk))
                                 (Some (ms - s + 1)) w in
          let e' := trim_line_terminator lt (k_bytes sk) s e in
          let w := pm_inner (e' - s + 3) ms me s e' w in
          let w := write_line_term w in
          if st_per_match_one_line cfg then w else pm_lines ms me r (S count) w
      end.
    Definition sink_slow_multi_per_match (w : wtr) : wtr :=
      fold_left (fun w m => pm_lines (fst m) (snd m) (line_spans (lt_byte lt) (k_bytes sk)) 0 w)
                (k_matches sk) w.

    Definition sink_slow_multi_line (w : wtr) : wtr :=
      if st_only_matching cfg then
        sink_slow_ml_om_loop (line_spans (lt_byte lt) (k_bytes sk)) 0 0 w
      else if st_per_match cfg then sink_slow_multi_per_match w
      else sink_slow_ml_loop (line_spans (lt_byte lt) (k_bytes sk)) 0 0 w.

    (* StandardImpl::sink *)
    Definition impl_sink (w : wtr) : wtr :=
      let w := write_search_prelude w in
      if is_empty_list (k_matches sk) then
        if e_multi env && negb is_context then sink_fast_multi_line w else sink_fast w
      else
        if e_multi env && negb is_context then sink_slow_multi_line w else sink_slow w.
  End Impl.

  (* ---------- StandardSink ---------- *)
  Definition record_matches (buf : bytes) (rs re : nat) : option (list (nat * nat)) :=
    if negb (needs_match_granularity cfg) then Some [] else
    match find_iter_at_in_context find_at env buf rs re (push_rel rs) [] with
    | None => None
    | Some ms =>
      (* "Don't report empty matches appearing at the end of the bytes." *)
      match rev ms with
      | (s, e) :: rest => if Nat.eqb s e && Nat.leb re s then Some (rev rest) else Some ms
      | [] => Some ms
      end
    end.

  Definition sd_should_quit (match_count after_rem : nat) : bool :=
    match st_max cfg with
    | None => false
    | Some limit => if Nat.ltb match_count limit then false else Nat.eqb after_rem 0
    end.
  Definition sd_more_than_limit (match_count : nat) : bool :=
    match st_max cfg with
    | None => false
    | Some limit => Nat.ltb limit match_count
    end.

  Definition standard_matched (m : sink_match) (s : stdsink) : option (stdsink * reply) :=
    let mc := sd_match_count s + 1 in
    let ar := if sd_more_than_limit mc then sd_after_rem s - 1 else e_after env in
    match record_matches (m_buf m) (m_rs m) (m_re m) with
    | None => None
    | Some ms =>
      let st := match sd_stats s with
                | Some st => Some (add_matched_lines (line_count lt (m_bytes m)) (add_matches (length ms) st))
                | None => None
                end in
      if e_convert env && is_some (sd_bin s) then
        Some (mkSD (sd_path s) mc ar (sd_bin s) st ms (sd_wtr s), Halt)
      else
        let sk := mkSunk (m_bytes m) (m_off m) (m_lnum m) None ms in
        let w := impl_sink (sd_path s) sk (sd_wtr s) in
        Some (mkSD (sd_path s) mc ar (sd_bin s) st ms w, reply_of (negb (sd_should_quit mc ar)))
    end.

  Definition standard_context (c : sink_ctx) (s : stdsink) : option (stdsink * reply) :=
    let ar := match c_kind c with CAfter => sd_after_rem s - 1 | _ => sd_after_rem s end in
    match (if e_invert env then record_matches (c_bytes c) 0 (length (c_bytes c)) else Some []) with
    | None => None
    | Some ms =>
      if e_convert env && is_some (sd_bin s) then
        Some (mkSD (sd_path s) (sd_match_count s) ar (sd_bin s) (sd_stats s) ms (sd_wtr s), Halt)
      else
        let sk := mkSunk (c_bytes c) (c_off c) (c_lnum c) (Some (c_kind c)) ms in
        let w := impl_sink (sd_path s) sk (sd_wtr s) in
        Some (mkSD (sd_path s) (sd_match_count s) ar (sd_bin s) (sd_stats s) ms w,
              reply_of (negb (sd_should_quit (sd_match_count s) ar)))
    end.

  Definition standard_step (e : sevent) (s : stdsink) : option (stdsink * reply) :=
    match e with
    | SMatched m => standard_matched m s
    | SContext c => standard_context c s
    | SBreak =>
      Some (mkSD (sd_path s) (sd_match_count s) (sd_after_rem s) (sd_bin s) (sd_stats s) (sd_matches s)
                 (write_context_separator (sd_wtr s)), Go)
    | SBinary off =>
      Some (mkSD (sd_path s) (sd_match_count s) (sd_after_rem s) (Some off) (sd_stats s) (sd_matches s)
                 (sd_wtr s), Go)
    end.

  Definition standard_begin (s : stdsink) : stdsink * reply :=
    (mkSD (sd_path s) 0 0 None (sd_stats s) (sd_matches s) (reset_count (sd_wtr s)),
     match st_max cfg with Some 0 => Halt | _ => Go end).

  Definition standard_finish (fin : sfinish) (s : stdsink) : stdsink :=
    let w := match sd_bin s with
             | Some off => write_binary_message (sd_path s) (sd_match_count s) off (sd_wtr s)
             | None => sd_wtr s
             end in
    let st := match sd_stats s with
              | Some st =>
                let st := add_searches 1 st in
                let st := if Nat.ltb 0 (sd_match_count s) then add_searches_with_match 1 st else st in
                let st := add_bytes_searched (f_bytes fin) st in
                Some (add_bytes_printed (w_count w) st)
              | None => None
              end in
    mkSD (sd_path s) (sd_match_count s) (sd_after_rem s) (sd_bin s) st (sd_matches s) w.

  Definition standard_run (path : option bytes) (w : wtr) (evs : list sevent) (fins : nat -> sfinish)
    : option (stdsink * bool) :=
    run_sink standard_begin standard_step standard_finish evs fins (standard_sink cfg path w).
End Standard.
