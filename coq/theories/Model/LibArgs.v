(* Model/LibArgs.v — how the arguments of the generated walk.rs decisions (Gen/DecisionsLib.v: skip_entry,
   par_should_skip_filesize, par_should_skip_filtered) are read off the state of the model walker (Model/Walk.v).
   Used in the statements of Props/C06.v (`*_generated_eq_model`).  Definitions only. *)
From RG Require Import Base.Bytes Model.Walk Model.LibExpected.

(* the arguments of the generated Walk::skip_entry / generate_work decisions, read off the model's walker state *)
Definition filter_of (has_filter : bool) (filter : dent -> bool) (e : dent) : option filter_box :=
  if has_filter then Some (FilterBox (filter e)) else None.
Definition filesize_verdict (fs : fsys) (max_filesize : option N) (e : dent) : bool :=
  match max_filesize with Some m => Walk.skip_filesize fs m e | None => false end.
Definition is_some_N (o : option N) : bool := match o with Some _ => true | None => false end.

