(* Model/CliTypes.v — the small enumerations of crates/core that the decision expressions of
   main.rs / hiargs.rs / search.rs and crates/cli/src/process.rs speak about.
   Mirrors: crates/core/flags/lowargs.rs::{Mode, SearchMode, SortMode, SortModeKind, BinaryMode, ContextMode},
            grep_searcher::BinaryDetection (none / convert(b) / quit(b)).
   tools/gen/decisions_cli.py checks on every run that the Rust enums still have exactly these variants
   (a changed enum is reported as drift). *)
From Coq Require Import NArith Bool List.
Import ListNotations.

Inductive search_mode :=
  SMStandard | SMFilesWithMatches | SMFilesWithoutMatch | SMCount | SMCountMatches | SMJSON.

(* Mode::Generate's payload (which page to generate) plays no role in any decision and is dropped *)
Inductive mode := MSearch (sm : search_mode) | MFiles | MTypes | MGenerate.

Inductive sort_kind := SKPath | SKLastModified | SKLastAccessed | SKCreated.
Record sort_mode := { sm_reverse : bool; sm_kind : sort_kind }.

Inductive binary_mode := BMAuto | BMSearchAndSuppress | BMAsText.
Inductive bin_det := BDNone | BDConvert (b : N) | BDQuit (b : N).

(* ContextMode::Limited(ContextModeLimited).get() = (before, after) *)
Inductive context_mode := CMPassthru | CMLimited (ba : N * N).

(* which top-level routine main.rs::run calls *)
Inductive driver := DNone | DSearch | DSearchParallel | DFiles | DFilesParallel | DTypes | DGenerate.

(* which of SearchWorker's four search routines SearchWorker::search calls *)
Inductive strategy := StStdin | StPreprocess | StDecompress | StPath.

(* HiArgs::file_separator: None / Some(b"") (heading) / the context separator option *)
Inductive sep_choice := SepNone | SepEmpty | SepContext.
