(* Model/StandardCols.v — mirrors, on top of Model/Standard.v (which models the configuration without them),
   crates/printer/src/standard.rs
     Config::{max_columns, max_columns_preview, trim_ascii}
     StandardImpl::{write_line, write_exceeded_line, exceeds_max_columns, trim_ascii_prefix,
                    trim_line_terminator, has_line_terminator (via Standard.write_line),
                    write_colored_matches (non-colour skeleton, Standard.write_colored_matches),
                    sink_fast, sink_fast_multi_line, sink_slow, sink_slow_multi_line,
                    sink_slow_multi_line_only_matching, sink_slow_multi_per_match, sink}
     impl Sink for StandardSink: matched, context (the same as in Standard.v, calling the impl above)
   crates/printer/src/util.rs
     trim_ascii_prefix
   Colours off (write_colored_line = write_line), no replacement (original_matches = matches).
   sink_slow_multi_line_only_matching and sink_slow_multi_per_match (-U -o, -U --vimgrep) are mirrored and
   corresponded; there is no theorem about them (as in Standard.v).
   bstr's grapheme segmentation is third-party: `gends s` = the end offsets of the graphemes of `s`
   (`s.grapheme_indices().map(|(_, end, _)| end)`), a Section variable.  Definitions only. *)
From RG Require Import Base.Bytes Model.MatchIter Model.Replace Model.Sink Model.Standard.

Record colcfg := mkCol { cc_max : option nat; cc_preview : bool; cc_trim : bool }.
Definition cols_off : colcfg := mkCol None false false.

(* util.rs trim_ascii_prefix: is_space *)
Definition is_space (b : byte) : bool :=
  ((b =? 9) || (b =? 10) || (b =? 11) || (b =? 12) || (b =? 13) || (b =? 32))%N.
Definition trim_pred (lt : lineterm) (b : byte) : bool :=
  is_space b && negb (existsb (N.eqb b) (lt_bytes lt)).
(* util.rs trim_ascii_prefix(line_term, slice, range): the new start of the range *)
Definition trim_ascii_prefix (lt : lineterm) (slice : bytes) (st en : nat) : nat :=
  st + length (take_while (trim_pred lt) (sub slice st en)).

(* "[Omitted long matching line]" *)
Definition msg_omit_match : bytes :=
  [91;79;109;105;116;116;101;100;32;108;111;110;103;32;109;97;116;99;104;105;110;103;32;108;105;110;101;93]%N.
(* "[Omitted long context line]" *)
Definition msg_omit_context : bytes :=
  [91;79;109;105;116;116;101;100;32;108;111;110;103;32;99;111;110;116;101;120;116;32;108;105;110;101;93]%N.
(* "[Omitted long line with " *)
Definition msg_omit_with : bytes :=
  [91;79;109;105;116;116;101;100;32;108;111;110;103;32;108;105;110;101;32;119;105;116;104;32]%N.
(* " matches]" *)
Definition msg_matches_close : bytes := [32;109;97;116;99;104;101;115;93]%N.
(* " match]" *)
Definition msg_match_close : bytes := [32;109;97;116;99;104;93]%N.
(* " [... omitted end of long line]" *)
Definition msg_omit_end : bytes :=
  [32;91;46;46;46;32;111;109;105;116;116;101;100;32;101;110;100;32;111;102;32;108;111;110;103;32;108;105;110;101;93]%N.
(* " [... " *)
Definition msg_more_open : bytes := [32;91;46;46;46;32]%N.
(* " more" *)
Definition msg_more : bytes := [32;109;111;114;101]%N.

Section Cols.
  Variable gends : bytes -> list nat.     (* bstr grapheme_indices: the `end` of every grapheme, in order *)
  Variable find_at : bytes -> nat -> option (nat * nat).
  Variable cfg : stdconfig.
  Variable cc : colcfg.
  Variable env : senv.

  (* StandardImpl::exceeds_max_columns: `line.len() as u64 > m` — bytes, terminator included *)
  Definition exceeds_max_columns (line : bytes) : bool :=
    match cc_max cc with None => false | Some m => Nat.ltb m (length line) end.

  (* StandardImpl::trim_ascii_prefix(slice, &mut range): the new start *)
  Definition impl_trim_ascii_prefix (slice : bytes) (st en : nat) : nat :=
    if negb (cc_trim cc) then st else trim_ascii_prefix (e_lt env) slice st en.

  Section Impl.
    Variable path : option bytes.
    Variable sk : sunk.

    (* the notice written when --max-columns-preview is off *)
    Definition omitted_notice : bytes :=
      let plain := if is_context sk then msg_omit_context else msg_omit_match in
      if is_empty_list (k_matches sk) then plain
      else if st_only_matching cfg then plain
      else msg_omit_with ++ dec (length (k_matches sk)) ++ msg_matches_close.

    (* end of the preview: end of the max_columns-th grapheme (of the last one if there are fewer; 0 if none) *)
    Definition preview_end (bytes : bytes) (ls le : nat) : nat :=
      last (firstn (match cc_max cc with Some m => m | None => 0 end) (gends (sub bytes ls le))) 0 + ls.

    Definition remaining_matches (matches : list (nat * nat)) (cut orig_end : nat) : nat :=
      length (filter (fun m => Nat.leb cut (fst m) && Nat.ltb (fst m) orig_end) matches).

    Definition preview_notice (matches : list (nat * nat)) (cut orig_end : nat) : bytes :=
      if is_empty_list matches then msg_omit_end
      else
        let remaining := remaining_matches matches cut orig_end in
        msg_more_open ++ dec remaining ++ msg_more
        ++ (if Nat.eqb remaining 1 then msg_match_close else msg_matches_close).

    (* StandardImpl::write_exceeded_line(bytes, line = [ls, le), matches, &mut midx) *)
    Definition write_exceeded_line (bytes : bytes) (ls le : nat) (matches : list (nat * nat))
               (midx : nat) (w : wtr) : nat * wtr :=
      if cc_preview cc then
        let en := preview_end bytes ls le in
        let (midx, w) := write_colored_matches env bytes ls en matches midx w in
        let w := write (preview_notice matches en le) w in
        (midx, write_line_term env w)
      else
        (midx, write_line_term env (write omitted_notice w)).

    (* StandardImpl::write_line (= write_colored_line when colours are off) *)
    Definition write_line_c (line : bytes) (w : wtr) : wtr :=
      let line := if negb (cc_trim cc) then line
                  else sub line (trim_ascii_prefix (e_lt env) line 0 (length line)) (length line) in
      if exceeds_max_columns line then
        snd (write_exceeded_line line 0 (length line) (k_matches sk) 0 w)
      else write_line env line w.

    Definition sink_fast_c (w : wtr) : wtr :=
      let w := write_prelude cfg path sk (k_off sk) (k_lnum sk) None w in
      write_line_c (k_bytes sk) w.

    Fixpoint sink_fast_ml_loop_c (spans : list (nat * nat)) (i : nat) (off : nat) (w : wtr) : wtr :=
      match spans with
      | [] => w
      | (s, e) :: r =>
        let w := write_prelude cfg path sk off (option_map (fun n => n + i) (k_lnum sk)) None w in
        let w := write_line_c (sub (k_bytes sk) s e) w in
        sink_fast_ml_loop_c r (S i) (off + (e - s)) w
      end.
    Definition sink_fast_multi_line_c (w : wtr) : wtr :=
      sink_fast_ml_loop_c (line_spans (lt_byte (e_lt env)) (k_bytes sk)) 0 (k_off sk) w.

    Definition sink_slow_c (w : wtr) : wtr :=
      if st_only_matching cfg then
        fold_left (fun w m =>
                     let w := write_prelude cfg path sk (k_off sk + fst m) (k_lnum sk) (Some (fst m + 1)) w in
                     write_line_c (sub (k_bytes sk) (fst m) (snd m)) w)
                  (k_matches sk) w
      else if st_per_match cfg then
        fold_left (fun w m =>
                     let w := write_prelude cfg path sk (k_off sk + fst m) (k_lnum sk) (Some (fst m + 1)) w in
                     write_line_c (k_bytes sk) w)
                  (k_matches sk) w
      else
        let w := write_prelude cfg path sk (k_off sk) (k_lnum sk)
                               (Some (fst (nth_span (k_matches sk) 0) + 1)) w in
        write_line_c (k_bytes sk) w.

    (* sink_slow_multi_line, the form without -o / --vimgrep *)
    Fixpoint sink_slow_ml_loop_c (spans : list (nat * nat)) (count : nat) (midx : nat) (w : wtr) : wtr :=
      match spans with
      | [] => w
      | (s, e) :: r =>
        let w := write_prelude cfg path sk (k_off sk + s) (option_map (fun n => n + count) (k_lnum sk))
                               (Some (fst (nth_span (k_matches sk) 0) + 1)) w in
        let s' := impl_trim_ascii_prefix (k_bytes sk) s e in
        if exceeds_max_columns (sub (k_bytes sk) s' e) then
          let (midx, w) := write_exceeded_line (k_bytes sk) s' e (k_matches sk) midx w in
          sink_slow_ml_loop_c r (S count) midx w
        else
          let (midx, w) := write_colored_matches env (k_bytes sk) s' e (k_matches sk) midx w in
          sink_slow_ml_loop_c r (S count) midx (write_line_term env w)
      end.

    (* inner `while !line.is_empty()` of sink_slow_multi_line_only_matching; write_exceeded_line may move midx *)
    Fixpoint om_loop_c (fuel : nat) (ls le : nat) (count : nat) (midx : nat) (w : wtr) : nat * wtr :=
      match fuel with
      | 0 => (midx, w)
      | S f =>
        if Nat.eqb ls le then (midx, w) else
        let (ms, me) := nth_span (k_matches sk) midx in
        if Nat.leb me ls then
          if Nat.ltb (midx + 1) (length (k_matches sk)) then om_loop_c f ls le count (midx + 1) w
          else (midx, w)
        else if Nat.ltb ls ms then
          om_loop_c f (Nat.min le ms) le count midx w
        else
          let upto := Nat.min le me in
          let w := write_prelude cfg path sk (k_off sk + ms) (option_map (fun n => n + count) (k_lnum sk))
                                 (Some (ms + 1)) w in
          if exceeds_max_columns (sub (k_bytes sk) ls upto) then
            let (midx, w) := write_exceeded_line (k_bytes sk) ls upto (k_matches sk) midx w in
            om_loop_c f upto le count midx w
          else
            let w := write_line_term env (write (sub (k_bytes sk) ls upto) w) in
            om_loop_c f upto le count midx w
      end.
    Fixpoint sink_slow_ml_om_loop_c (spans : list (nat * nat)) (count : nat) (midx : nat) (w : wtr) : wtr :=
      match spans with
      | [] => w
      | (s, e) :: r =>
        let e' := trim_line_terminator (e_lt env) (k_bytes sk) s e in
        let s' := impl_trim_ascii_prefix (k_bytes sk) s e' in
        let (midx, w) := om_loop_c (e' - s' + length (k_matches sk) + 1) s' e' count midx w in
        sink_slow_ml_om_loop_c r (S count) midx w
      end.

    (* sink_slow_multi_per_match for the match (ms, me); an exceeded line `continue`s, which also skips the
       per_match_one_line `break` *)
    Fixpoint pm_lines_c (ms me : nat) (spans : list (nat * nat)) (count : nat) (w : wtr) : wtr :=
      match spans with
      | [] => w
      | (s, e) :: r =>
        if Nat.leb me s then w
        else if Nat.leb e ms then pm_lines_c ms me r (S count) w
        else
          let w := write_prelude cfg path sk (k_off sk + s) (option_map (fun n => n + count) (k_lnum sk))
                                 (Some (ms - s + 1)) w in
          let e' := trim_line_terminator (e_lt env) (k_bytes sk) s e in
          let s' := impl_trim_ascii_prefix (k_bytes sk) s e' in
          if exceeds_max_columns (sub (k_bytes sk) s' e') then
            let w := snd (write_exceeded_line (k_bytes sk) s' e' [(ms, me)] 0 w) in
            pm_lines_c ms me r (S count) w
          else
            let w := pm_inner sk (e' - s' + 3) ms me s' e' w in
            let w := write_line_term env w in
            if st_per_match_one_line cfg then w else pm_lines_c ms me r (S count) w
      end.
    Definition sink_slow_multi_per_match_c (w : wtr) : wtr :=
      fold_left (fun w m => pm_lines_c (fst m) (snd m) (line_spans (lt_byte (e_lt env)) (k_bytes sk)) 0 w)
                (k_matches sk) w.

    Definition sink_slow_multi_line_c (w : wtr) : wtr :=
      if st_only_matching cfg then
        sink_slow_ml_om_loop_c (line_spans (lt_byte (e_lt env)) (k_bytes sk)) 0 0 w
      else if st_per_match cfg then sink_slow_multi_per_match_c w
      else sink_slow_ml_loop_c (line_spans (lt_byte (e_lt env)) (k_bytes sk)) 0 0 w.

    (* StandardImpl::sink *)
    Definition impl_sink_c (w : wtr) : wtr :=
      let w := write_search_prelude cfg env path w in
      if is_empty_list (k_matches sk) then
        if e_multi env && negb (is_context sk) then sink_fast_multi_line_c w else sink_fast_c w
      else
        if e_multi env && negb (is_context sk) then sink_slow_multi_line_c w else sink_slow_c w.
  End Impl.

  (* ---------- StandardSink: as in Standard.v, with impl_sink_c ---------- *)
  Definition standard_matched_c (m : sink_match) (s : stdsink) : option (stdsink * reply) :=
    let mc := sd_match_count s + 1 in
    let ar := if sd_more_than_limit cfg mc then sd_after_rem s - 1 else e_after env in
    match record_matches find_at cfg env (m_buf m) (m_rs m) (m_re m) with
    | None => None
    | Some ms =>
      let st := match sd_stats s with
                | Some st => Some (add_matched_lines (line_count (e_lt env) (m_bytes m)) (add_matches (length ms) st))
                | None => None
                end in
      if e_convert env && is_some (sd_bin s) then
        Some (mkSD (sd_path s) mc ar (sd_bin s) st ms (sd_wtr s), Halt)
      else
        let sk := mkSunk (m_bytes m) (m_off m) (m_lnum m) None ms in
        let w := impl_sink_c (sd_path s) sk (sd_wtr s) in
        Some (mkSD (sd_path s) mc ar (sd_bin s) st ms w, reply_of (negb (sd_should_quit cfg mc ar)))
    end.

  Definition standard_context_c (c : sink_ctx) (s : stdsink) : option (stdsink * reply) :=
    let ar := match c_kind c with CAfter => sd_after_rem s - 1 | _ => sd_after_rem s end in
    match (if e_invert env then record_matches find_at cfg env (c_bytes c) 0 (length (c_bytes c)) else Some []) with
    | None => None
    | Some ms =>
      if e_convert env && is_some (sd_bin s) then
        Some (mkSD (sd_path s) (sd_match_count s) ar (sd_bin s) (sd_stats s) ms (sd_wtr s),
              reply_of (negb (sd_should_quit cfg (sd_match_count s) ar)))
      else
        let sk := mkSunk (c_bytes c) (c_off c) (c_lnum c) (Some (c_kind c)) ms in
        let w := impl_sink_c (sd_path s) sk (sd_wtr s) in
        Some (mkSD (sd_path s) (sd_match_count s) ar (sd_bin s) (sd_stats s) ms w,
              reply_of (negb (sd_should_quit cfg (sd_match_count s) ar)))
    end.

  Definition standard_step_c (e : sevent) (s : stdsink) : option (stdsink * reply) :=
    match e with
    | SMatched m => standard_matched_c m s
    | SContext c => standard_context_c c s
    | _ => standard_step find_at cfg env e s
    end.

  Definition standard_run_c (path : option bytes) (w : wtr) (evs : list sevent) (fins : nat -> sfinish)
    : option (stdsink * bool) :=
    run_sink (standard_begin cfg) standard_step_c (standard_finish env) evs fins (standard_sink cfg path w).
End Cols.
