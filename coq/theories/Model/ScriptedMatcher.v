(* Model/ScriptedMatcher.v — the scripted matcher used by the correspondence harness
   (the identical Rust `impl Matcher` is harness/src/scripted.rs): a match is the leftmost
   occurrence of one of a list of needles; "anchored" needles only occur at the haystack start or
   right after the terminator byte; find_candidate_line looks for the leftmost occurrence of any
   needle, real or decoy.  Definitions only. *)
From RG Require Import Base.Bytes Model.Lines Model.SearcherCore.

Record needle := { n_anch : bool; n_bytes : bytes; n_real : bool }.

Definition occurs_here (ltb : byte) (prev : option byte) (rest : bytes) (n : needle) : bool :=
  is_prefix_of (n_bytes n) rest &&
  (negb (n_anch n) || match prev with None => true | Some b => (b =? ltb)%N end).

(* leftmost position (scanning positions 0..len) at which some needle accepted by [ok] occurs;
   ties: first needle in list order *)
Fixpoint scan (ltb : byte) (ok : needle -> bool) (ns : list needle)
              (prev : option byte) (rest : bytes) (i : nat) : option (nat * needle) :=
  match find (fun n => ok n && occurs_here ltb prev rest n) ns with
  | Some n => Some (i, n)
  | None =>
    match rest with
    | [] => None
    | b :: r => scan ltb ok ns (Some b) r (S i)
    end
  end.

(* find_at(hay, at): the byte before [at] is visible as left context *)
Definition sm_find_at (ltb : byte) (ns : list needle) (hay : bytes) (at_ : nat) : option (nat * nat) :=
  let prev := if Nat.eqb at_ 0 then None else nth_error hay (at_ - 1) in
  match scan ltb n_real ns prev (skipn at_ hay) at_ with
  | Some (i, n) => Some (i, i + length (n_bytes n))
  | None => None
  end.

Definition sm_candidate (ltb : byte) (ns : list needle) (confirm : bool) (hay : bytes) : option (bool * nat) :=
  match scan ltb (fun _ => true) ns None hay 0 with
  | Some (i, n) => Some (confirm && n_real n, i)
  | None => None
  end.

(* lt_mode: 0 = no terminator advertised (slow path); 1 = line_terminator() = Some(cfg's);
            2 = non_matching_bytes contains the terminator byte *)
Definition scripted (cfg : config) (ns : list needle) (confirm : bool) (lt_mode : N) : matcher :=
  let ltb := lt_byte (c_lt cfg) in
  {| m_is_match := fun l => match sm_find_at ltb ns l 0 with Some _ => true | None => false end;
     m_find_candidate := sm_candidate ltb ns confirm;
     m_line_term := if (lt_mode =? 1)%N then Some (c_lt cfg) else None;
     m_nonmatching := fun b => (lt_mode =? 2)%N && (b =? ltb)%N;
     m_find_at := sm_find_at ltb ns |}.
