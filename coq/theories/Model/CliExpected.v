(* Model/CliExpected.v — HAND-WRITTEN copies of the pure decision expressions that
   tools/gen/decisions_cli.py regenerates from the source text on every run (Gen/DecisionsCli.v).
   Purpose: (1) the fallback when the translator cannot parse an edited expression,
            (2) Proofs/DecisionsProofs.v proves generated = expected, so that an edit which changes the
                meaning of one of these expressions breaks a proof even where no property theorem
                mentions the changed case.
   Mirrors (pinned tree):
     crates/core/main.rs::run                     exit-status expression, driver selection
     crates/core/flags/hiargs.rs::HiArgs::from_low_args   threads, quit_after_match, file_separator
     crates/core/flags/hiargs.rs::stats, ::HiArgs::matches_possible, ::HiArgs::walk_builder (sort),
                                  ::HiArgs::sort (identity cases), ::HiArgs::printer_standard (separator owner),
                                  ::BinaryDetection::from_low_args
     crates/core/search.rs::SearchWorker::{search, should_preprocess, should_decompress}
     crates/cli/src/process.rs::CommandReader::close *)
From Coq Require Import NArith Bool List.
From RG Require Import Base.Bytes Model.CliTypes Model.PreZipFlags.
Import ListNotations.
Local Open Scope bool_scope.

Definition exit_code_expected (matched quiet errored : bool) : N :=
  if matched && (quiet || negb errored) then 0%N else if errored then 2%N else 1%N.

Definition choose_driver_expected (m : mode) (matches_possible : bool) (threads : N) : driver :=
  match m with
  | MSearch _ => if negb matches_possible then DNone
                 else if (threads =? 1)%N then DSearch else DSearchParallel
  | MFiles => if (threads =? 1)%N then DFiles else DFilesParallel
  | MTypes => DTypes
  | MGenerate => DGenerate
  end.

Definition threads_expected (sort_is_some is_one_file : bool) (low_threads : option N) (avail : N) : N :=
  if sort_is_some || is_one_file then 1%N
  else match low_threads with Some t => t | None => N.min avail 12%N end.

Definition quit_after_match_expected (stats_is_none low_quiet : bool) : bool := stats_is_none && low_quiet.

Definition stats_is_some_expected (m : mode) (low_stats : bool) : bool :=
  match m with
  | MSearch sm => low_stats || match sm with SMJSON => true | _ => false end
  | _ => false
  end.

Definition matches_possible_expected (patterns_empty max_count_is_zero : bool) : bool :=
  negb patterns_empty && negb max_count_is_zero.

Definition walk_sorted_by_name_expected (sort : option sort_mode) : bool :=
  match sort with
  | Some s => negb (sm_reverse s) && match sm_kind s with SKPath => true | _ => false end
  | None => false
  end.

Definition sort_is_identity_expected (sort : option sort_mode) : bool :=
  match sort with
  | None => true
  | Some s => match sm_kind s with SKPath => negb (sm_reverse s) | _ => false end
  end.

Definition binary_detection_expected (b : binary_mode) (null_data : bool) : bin_det * bin_det :=
  let none := match b with BMAsText => true | _ => false end || null_data in
  if none then (BDNone, BDNone)
  else (BDConvert 0%N, match b with BMSearchAndSuppress => BDConvert 0%N | _ => BDQuit 0%N end).

Definition select_binary_expected (is_explicit : bool) (explicit implicit : bin_det) : bin_det :=
  if is_explicit then explicit else implicit.

Definition should_preprocess_expected (pre_is_some globs_empty glob_is_ignore : bool) : bool :=
  pre_is_some && (globs_empty || negb glob_is_ignore).

Definition should_decompress_expected (search_zip has_command : bool) : bool := search_zip && has_command.

Definition select_strategy_expected (is_stdin should_pre should_dec : bool) : strategy :=
  if is_stdin then StStdin else if should_pre then StPreprocess else if should_dec then StDecompress else StPath.

(* CommandReader::close: true = Err(..) returned.  stdout_open = child.stdout is still Some (first call) *)
Definition close_is_error_expected (stdout_open wait_success eof stderr_is_empty : bool) : bool :=
  stdout_open && negb wait_success && (eof || negb stderr_is_empty).

Definition file_separator_expected (m : mode) (heading : bool) (context : context_mode) : sep_choice :=
  match m with
  | MSearch SMStandard =>
      if heading then SepEmpty
      else match context with
           | CMLimited (b, a) => if (0 <? b)%N || (0 <? a)%N then SepContext else SepNone
           | CMPassthru => SepNone
           end
  | _ => SepNone
  end.

Definition printer_owns_separator_expected (threads : N) : bool := (threads =? 1)%N.

(* defs.rs: <Pre as Flag>::update on a value / on the negated switch, <SearchZip as Flag>::update — the hand-written
   state machine of Model/PreZipFlags.v *)
Definition pre_update_value_expected (p : bytes) (s : pz_state) : pz_state := upd s (EPre p).
Definition pre_update_switch_expected (s : pz_state) : pz_state := upd s ENoPre.
Definition zip_update_expected (yes : bool) (s : pz_state) : pz_state := upd s (if yes then EZip else ENoZip).
