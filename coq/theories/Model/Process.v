(* Model/Process.v — executable model of searching through a child process (definitions only).
   Mirrors (pinned tree + fix "keep the error kind when a search through a preprocessor fails"):
     crates/cli/src/process.rs::CommandReaderBuilder::build   -> cr_new        (spawn, eof := false)
     crates/cli/src/process.rs::CommandReader::close          -> cr_close      (error condition: GENERATED close_is_error)
     crates/cli/src/process.rs::<CommandReader as Read>::read -> cr_read       (eof flag, close at EOF, Ok(0) once closed)
     crates/cli/src/decompress.rs::DecompressionReaderBuilder::build, DecompressionReader::{read, close}
                                                              -> dr_new / dr_read / dr_close (passthru on spawn failure)
     crates/core/search.rs::SearchWorker::search              -> worker_search  (selection: GENERATED select_strategy,
                                                                 should_preprocess, should_decompress)
     crates/core/search.rs::SearchWorker::search_preprocessor -> search_preprocessor
     crates/core/search.rs::SearchWorker::search_decompress   -> search_decompress
   Abstract (universally quantified in the theorems):
     * the child: whether it can be spawned, the bytes it writes to stdout and stderr, whether wait() reports
       success when its whole output was consumed, and when the read end was closed early (SIGPIPE, or it had
       already finished, or it handles the error itself: any value);
     * the consumer (grep-searcher's search_reader): a state machine fed chunk by chunk that says how many bytes
       it asks for next (>= 1) and whether it goes on reading; at EOF or when it stops it yields its result. *)
From RG Require Import Base.Bytes Model.CliTypes Gen.DecisionsCli.
Local Open Scope bool_scope.

Record child := {
  ch_spawn_ok : bool;
  ch_out : bytes;
  ch_err : bytes;
  ch_ok_full : bool;       (* child.wait()?.success() after its stdout was read to the end *)
  ch_ok_early : bool       (* ... after the read end was dropped before EOF *)
}.

Definition is_nil {A} (l : list A) : bool := match l with [] => true | _ => false end.

(* ---- CommandReader ---- *)
Record creader := {
  cr_open : bool;          (* child.stdout is Some *)
  cr_rest : bytes;         (* what the child has still to deliver *)
  cr_eof : bool            (* the eof field *)
}.

Definition cr_new (c : child) : creader := {| cr_open := true; cr_rest := ch_out c; cr_eof := false |}.

(* close(): Ok(()) = false, Err(stderr) = true.  The child is reaped by the first call only. *)
Definition cr_close (c : child) (r : creader) : bool * creader :=
  let ok := if cr_eof r then ch_ok_full c else ch_ok_early c in
  (close_is_error (cr_open r) ok (cr_eof r) (is_nil (ch_err c)),
   {| cr_open := false; cr_rest := cr_rest r; cr_eof := cr_eof r |}).

Inductive rres := RBytes (b : bytes) | REof | RErr.     (* Ok(n > 0) with the bytes | Ok(0) | Err(..) *)

(* read(buf) with buf.len() = want >= 1: the pipe delivers between 1 and want bytes; the model delivers
   min(want, what is left) — the chunking is arbitrary anyway (want is a parameter of the consumer) *)
Definition cr_read (c : child) (want : nat) (r : creader) : rres * creader :=
  if negb (cr_open r) then (REof, r)
  else match firstn want (cr_rest r) with
       | [] => let r1 := {| cr_open := cr_open r; cr_rest := cr_rest r; cr_eof := true |} in
               let '(e, r2) := cr_close c r1 in
               (if e then RErr else REof, r2)
       | b => (RBytes b, {| cr_open := cr_open r; cr_rest := skipn want (cr_rest r); cr_eof := cr_eof r |})
       end.

(* ---- a plain in-memory reader (what `rg` on the command's output reads) ---- *)
Definition sl_read (want : nat) (rest : bytes) : rres * bytes :=
  match firstn want rest with
  | [] => (REof, rest)
  | b => (RBytes b, skipn want rest)
  end.

(* ---- the consumer: searcher.search_reader ---- *)
Section Consumer.
  Variable S R : Type.
  Variable wants : S -> nat.                 (* size of the next read request *)
  Variable step : S -> bytes -> S * bool.    (* a chunk arrives; true = read on, false = stop (-m, -q, -l, binary) *)
  Variable finish : S -> R.                  (* the SearchResult *)

  (* how the consumer ended: out of fuel (never, see Proofs) | a read failed | done, at EOF or by stopping early *)
  Inductive cres := COutOfFuel | CErr | CDone (r : R) (at_eof : bool).

  (* generic over the reader: RS = reader state; fed = the bytes handed to the searcher so far *)
  Fixpoint consume {RS} (read : nat -> RS -> rres * RS) (fuel : nat) (rd : RS) (s : S) (fed : bytes)
    : cres * RS * bytes :=
    match fuel with
    | O => (COutOfFuel, rd, fed)
    | Datatypes.S fuel' =>
      let '(x, rd') := read (wants s) rd in
      match x with
      | RErr => (CErr, rd', fed)
      | REof => (CDone (finish s) true, rd', fed)
      | RBytes b =>
        let '(s', go) := step s b in
        if go then consume read fuel' rd' s' (fed ++ b)
        else (CDone (finish s') false, rd', fed ++ b)
      end
    end.

  Inductive serr := EOpen | ESpawn | ECommand | EClose.
  (* File::open failed | "preprocessor command could not start" | error while reading ("preprocessor command
     failed: ..." for --pre, the child's stderr for -z) | close() reported the child's failure *)

  Variable s0 : S.

  (* search.rs::search_preprocessor *)
  Definition search_preprocessor (open_ok : bool) (c : child) : option (serr + R) * bytes :=
    if negb open_ok then (Some (inl EOpen), [])                 (* File::open(path)? *)
    else if negb (ch_spawn_ok c) then (Some (inl ESpawn), [])   (* command_builder.build(..).map_err(..)? *)
    else
      let '(res, rd, fed) := consume (cr_read c) (Datatypes.S (length (ch_out c))) (cr_new c) s0 [] in
      let '(close_err, _) := cr_close c rd in                   (* let close_result = rdr.close(); *)
      match res with
      | COutOfFuel => (None, fed)
      | CErr => (Some (inl ECommand), fed)                      (* let search_result = result?; *)
      | CDone r _ => if close_err then (Some (inl EClose), fed)         (* close_result?; *)
                     else (Some (inr r), fed)
      end.

  (* search.rs::search_decompress over decompress.rs: a command that cannot be spawned is replaced by a
     passthru reader on the file itself (its bytes: raw) *)
  Definition search_decompress (open_ok : bool) (raw : bytes) (c : child) : option (serr + R) * bytes :=
    if negb (ch_spawn_ok c) then
      if negb open_ok then (Some (inl EOpen), [])               (* new_passthru: File::open(path)? *)
      else
        let '(res, _, fed) := consume sl_read (Datatypes.S (length raw)) raw s0 [] in
        match res with
        | COutOfFuel => (None, fed)
        | CErr => (Some (inl ECommand), fed)
        | CDone r _ => (Some (inr r), fed)
        end
    else
      let '(res, rd, fed) := consume (cr_read c) (Datatypes.S (length (ch_out c))) (cr_new c) s0 [] in
      let '(close_err, _) := cr_close c rd in
      match res with
      | COutOfFuel => (None, fed)
      | CErr => (Some (inl ECommand), fed)
      | CDone r _ => if close_err then (Some (inl EClose), fed) else (Some (inr r), fed)
      end.

  (* reference: the same consumer on the plain bytes (`rg` run on the command's output) *)
  Definition search_bytes (b : bytes) : cres * bytes :=
    let '(res, _, fed) := consume sl_read (Datatypes.S (length b)) b s0 [] in (res, fed).

  (* search.rs::SearchWorker::search: which routine; `raw` = the file's own bytes *)
  Record wcfg := {
    w_is_stdin : bool; w_pre_is_some : bool; w_globs_empty : bool; w_glob_is_ignore : bool;
    w_search_zip : bool; w_has_command : bool
  }.
  Definition worker_strategy (w : wcfg) : strategy :=
    select_strategy (w_is_stdin w)
      (should_preprocess (w_pre_is_some w) (w_globs_empty w) (w_glob_is_ignore w))
      (should_decompress (w_search_zip w) (w_has_command w)).

  Definition worker_search (w : wcfg) (open_ok : bool) (raw stdin : bytes) (pre dec : child)
    : option (serr + R) * bytes :=
    match worker_strategy w with
    | StStdin => let '(res, fed) := search_bytes stdin in
                 (match res with COutOfFuel => None | CErr => Some (inl ECommand) | CDone r _ => Some (inr r) end, fed)
    | StPreprocess => search_preprocessor open_ok pre
    | StDecompress => search_decompress open_ok raw dec
    | StPath => if negb open_ok then (Some (inl EOpen), [])
                else let '(res, fed) := search_bytes raw in
                     (match res with COutOfFuel => None | CErr => Some (inl ECommand) | CDone r _ => Some (inr r) end, fed)
    end.
End Consumer.
