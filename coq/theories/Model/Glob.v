(* Model/Glob.v — executable model of crates/globset/src/glob.rs and pathutil.rs.  Definitions only.

   Rust items mirrored (function by function, bookkeeping included):
     crates/globset/src/glob.rs::Token, GlobOptions, Parser{stack,chars,prev,cur}
     crates/globset/src/glob.rs::Parser::{parse, push_alternate, pop_alternate, push_token, pop_token,
        have_tokens, parse_comma, parse_backslash, parse_star, parse_class, bump, peek}
     crates/globset/src/glob.rs::GlobBuilder::build            (stack-depth verdict)
     crates/globset/src/glob.rs::Glob::{literal, ext, required_ext, prefix, suffix, basename_tokens,
        basename_literal}, MatchStrategy::new
     crates/globset/src/pathutil.rs::{file_name, file_name_ext}  (unix: normalize_path = identity)
   Conventions: a glob character is an N (code point); the model is exact for ASCII glob text, where the
   code point is the byte the regex matches (non-ASCII glob text is outside the grammar, see notes/C12.md).
   A Rust Vec used as a stack (Parser.stack) is a list whose HEAD is the top; Vec<Token> grows at the end.
   A Rust panic (unwrap on None) is the pseudo-error [Panic]; theorem parse_never_panics excludes it. *)
From RG Require Import Base.Bytes.

Inductive token :=
| TLit (c : N)
| TAny
| TStar                      (* Token::ZeroOrMore *)
| TRecPrefix
| TRecSuffix
| TRecZeroOrMore
| TClass (neg : bool) (rs : list (N * N))
| TAlt (alts : list (list token)).

Record gopts := mk_gopts {
  case_insensitive : bool;
  literal_separator : bool;
  backslash_escape : bool;
  empty_alternates : bool }.

Inductive gerror :=
| UnclosedClass | InvalidRange (a b : N) | UnopenedAlternates | UnclosedAlternates
| NestedAlternates | DanglingEscape | Panic.

Inductive result (A : Type) := Ok (a : A) | Err (e : gerror).
Arguments Ok {A} a.
Arguments Err {A} e.

Definition is_sep (c : N) : bool := (c =? 47)%N.          (* std::path::is_separator on unix *)

Record parser := mk_parser {
  stack : list (list token);      (* head = top of the Rust Vec<Tokens> *)
  chars : list N;                 (* what Peekable<Chars> has not yielded yet *)
  prev : option N;
  cur : option N }.

Definition bump (p : parser) : parser :=
  match chars p with
  | [] => mk_parser (stack p) [] (cur p) None
  | c :: cs => mk_parser (stack p) cs (cur p) (Some c)
  end.
Definition peek (p : parser) : option N := hd_error (chars p).

Definition set_stack (p : parser) (s : list (list token)) : parser :=
  mk_parser s (chars p) (prev p) (cur p).

Definition push_token (p : parser) (t : token) : result parser :=
  match stack p with
  | top :: rest => Ok (set_stack p ((top ++ [t]) :: rest))
  | [] => Err UnopenedAlternates
  end.

(* pat.pop().unwrap() *)
Definition pop_token (p : parser) : result (token * parser) :=
  match stack p with
  | top :: rest =>
    match rev top with
    | t :: r => Ok (t, set_stack p (rev r :: rest))
    | [] => Err Panic
    end
  | [] => Err UnopenedAlternates
  end.

Definition have_tokens (p : parser) : result bool :=
  match stack p with
  | top :: _ => Ok (negb (match top with [] => true | _ => false end))
  | [] => Err UnopenedAlternates
  end.

Definition push_alternate (p : parser) : result parser :=
  if Nat.ltb 1 (length (stack p)) then Err NestedAlternates
  else Ok (set_stack p ([] :: stack p)).

(* while stack.len() >= 2 { alts.push(stack.pop()) }  — the branches come out last-first *)
Fixpoint pop_alts (s : list (list token)) (alts : list (list token)) : list (list token) * list (list token) :=
  match s with
  | top :: ((_ :: _) as rest) => pop_alts rest (alts ++ [top])
  | _ => (s, alts)
  end.

Definition pop_alternate (p : parser) : result parser :=
  let '(s, alts) := pop_alts (stack p) [] in
  push_token (set_stack p s) (TAlt alts).

Definition parse_comma (p : parser) : result parser :=
  if Nat.leb (length (stack p)) 1 then push_token p (TLit 44)
  else Ok (set_stack p ([] :: stack p)).

Definition parse_backslash (o : gopts) (p : parser) : result parser :=
  if backslash_escape o then
    let p := bump p in
    match cur p with
    | None => Err DanglingEscape
    | Some c => push_token p (TLit c)
    end
  else push_token p (TLit 92).        (* unix: '\\' is not a separator *)

Definition bind {A B} (r : result A) (f : A -> result B) : result B :=
  match r with Ok a => f a | Err e => Err e end.
Notation "'do' x <- r ; f" := (bind r (fun x => f)) (at level 200, x pattern, r at level 100, f at level 200).

Definition opt_is (o : option N) (c : N) : bool := match o with Some x => (x =? c)%N | None => false end.
Definition opt_sep (o : option N) : bool := match o with Some x => is_sep x | None => false end.

Definition push2stars (p : parser) : result parser :=
  do p <- push_token p TStar; push_token p TStar.

Definition parse_star (p : parser) : result parser :=
  let prev0 := prev p in
  if negb (opt_is (peek p) 42) then push_token p TStar
  else
    let p := bump p in                                   (* the second '*' *)
    do ht <- have_tokens p;
    if negb ht then
      if negb (match peek p with None => true | Some c => is_sep c end) then push2stars p
      else do p <- push_token p TRecPrefix; Ok (bump p)
    else
    if negb (opt_sep prev0) &&
       (Nat.leb (length (stack p)) 1 || (negb (opt_is prev0 44) && negb (opt_is prev0 123)))
    then push2stars p
    else
      let in_alt := Nat.leb 2 (length (stack p)) in
      let k (is_suffix : bool) (p : parser) : result parser :=
        do (t, p) <- pop_token p;
        match t with
        | TRecPrefix => push_token p TRecPrefix
        | TRecSuffix => push_token p TRecSuffix
        | _ => if is_suffix then push_token p TRecSuffix else push_token p TRecZeroOrMore
        end in
      match peek p with
      | None => k true (bump p)
      | Some c =>
        if ((c =? 44)%N || (c =? 125)%N) && in_alt then k true p
        else if is_sep c then k false (bump p)
        else push2stars p
      end.

(* ranges.last_mut().unwrap(), r.1 = add, error if r.1 < r.0 *)
Definition add_to_last_range (ranges : list (N * N)) (add : N) : result (list (N * N)) :=
  match rev ranges with
  | (lo, _) :: r =>
    if (add <? lo)%N then Err (InvalidRange lo add) else Ok (rev r ++ [(lo, add)])
  | [] => Err Panic
  end.

(* the `loop` of parse_class; [cs] is chars p (consumed structurally), prev/cur are updated as bump does *)
Fixpoint class_loop (cs : list N) (pv cu : option N) (ranges : list (N * N)) (first in_range : bool)
  : result (list (N * N) * bool * list N * option N * option N) :=
  match cs with
  | [] => Err UnclosedClass
  | c :: cs' =>
    let pv' := cu in let cu' := Some c in
    if (c =? 93)%N then
      if first then class_loop cs' pv' cu' (ranges ++ [(93, 93)%N]) false in_range
      else Ok (ranges, in_range, cs', pv', cu')
    else if (c =? 45)%N then
      if first then class_loop cs' pv' cu' (ranges ++ [(45, 45)%N]) false in_range
      else if in_range then
        do r <- add_to_last_range ranges 45;
        class_loop cs' pv' cu' r false false
      else
        match ranges with
        | [] => Err Panic                                 (* assert!(!ranges.is_empty()) *)
        | _ => class_loop cs' pv' cu' ranges false true
        end
    else
      if in_range then
        do r <- add_to_last_range ranges c;
        class_loop cs' pv' cu' r false false
      else class_loop cs' pv' cu' (ranges ++ [(c, c)]) false false
  end.

Definition parse_class (p : parser) : result parser :=
  let '(negated, p) :=
    match peek p with
    | Some c => if (c =? 33)%N || (c =? 94)%N then (true, bump p) else (false, p)
    | None => (false, p)
    end in
  do (ranges, in_range, cs, pv, cu) <- class_loop (chars p) (prev p) (cur p) [] true false;
  let ranges := if in_range then ranges ++ [(45, 45)%N] else ranges in
  push_token (mk_parser (stack p) cs pv cu) (TClass negated ranges).

(* one iteration of `while let Some(c) = self.bump()`, after the bump *)
Definition step (o : gopts) (c : N) (p : parser) : result parser :=
  if (c =? 63)%N then push_token p TAny
  else if (c =? 42)%N then parse_star p
  else if (c =? 91)%N then parse_class p
  else if (c =? 123)%N then push_alternate p
  else if (c =? 125)%N then pop_alternate p
  else if (c =? 44)%N then parse_comma p
  else if (c =? 92)%N then parse_backslash o p
  else push_token p (TLit c).

Fixpoint parse_loop (fuel : nat) (o : gopts) (p : parser) : option (result parser) :=
  match fuel with
  | 0 => None
  | S f =>
    let p := bump p in
    match cur p with
    | None => Some (Ok p)
    | Some c =>
      match step o c p with
      | Ok p' => parse_loop f o p'
      | Err e => Some (Err e)
      end
    end
  end.

(* GlobBuilder::build *)
Definition build_fuel (fuel : nat) (o : gopts) (g : list N) : option (result (list token)) :=
  match parse_loop fuel o (mk_parser [[]] g None None) with
  | None => None
  | Some (Err e) => Some (Err e)
  | Some (Ok p) =>
    match stack p with
    | [] => Some (Err UnopenedAlternates)
    | [ts] => Some (Ok ts)
    | _ => Some (Err UnclosedAlternates)
    end
  end.
Definition build (o : gopts) (g : list N) : option (result (list token)) :=
  build_fuel (S (length g)) o g.

(* ------------------------------------------------------------------ strategy extractors *)

Fixpoint lits_of (ts : list token) : option (list N) :=
  match ts with
  | [] => Some []
  | TLit c :: r => match lits_of r with Some l => Some (c :: l) | None => None end
  | _ => None
  end.

Definition nonempty_lit (l : option (list N)) : option (list N) :=
  match l with Some [] => None | x => x end.

Definition literal (o : gopts) (ts : list token) : option (list N) :=
  if case_insensitive o then None else nonempty_lit (lits_of ts).

Fixpoint ext_tail (ts : list token) : option (list N) :=
  match ts with
  | [] => Some []
  | TLit c :: r =>
    if (c =? 46)%N || (c =? 47)%N then None
    else match ext_tail r with Some l => Some (c :: l) | None => None end
  | _ => None
  end.

Definition ext (o : gopts) (ts : list token) : option (list N) :=
  if case_insensitive o then None else
  match ts with
  | [] => None
  | t0 :: _ =>
    let start := match t0 with TRecPrefix => 1 | _ => 0 end in
    match nth_error ts start with
    | Some TStar =>
      if Nat.eqb start 0 && literal_separator o then None else
      match nth_error ts (start + 1) with
      | Some (TLit c) =>
        if (c =? 46)%N then
          match ext_tail (skipn (start + 2) ts) with
          | Some l => Some (46%N :: l)          (* never empty: starts with "." *)
          | None => None
          end
        else None
      | _ => None
      end
    | _ => None
    end
  end.

(* iterates tokens in reverse; [acc] is the Vec `ext` read from its end (head = ext.last()) *)
Fixpoint required_ext_loop (rts : list token) (acc : list N) : option (list N) :=
  match rts with
  | [] => Some acc
  | TLit c :: r =>
    if (c =? 47)%N then None
    else if (c =? 46)%N then Some (c :: acc)         (* push, break *)
    else required_ext_loop r (c :: acc)
  | _ => None
  end.

Definition required_ext (o : gopts) (ts : list token) : option (list N) :=
  if case_insensitive o then None else
  match required_ext_loop (rev ts) [] with
  | Some ((c :: _) as e) => if (c =? 46)%N then Some e else None
  | _ => None
  end.

Definition prefix (o : gopts) (ts : list token) : option (list N) :=
  if case_insensitive o then None else
  match rev ts with
  | [] => None
  | lastt :: rinit =>
    let init := rev rinit in
    let r : option (list token * bool) :=
      match lastt with
      | TStar => if literal_separator o then None else Some (init, false)
      | TRecSuffix => Some (init, true)
      | _ => Some (ts, false)
      end in
    match r with
    | None => None
    | Some (front, need_sep) =>
      match lits_of front with
      | None => None
      | Some l => nonempty_lit (Some (if need_sep then l ++ [47%N] else l))
      end
    end
  end.

Definition suffix (o : gopts) (ts : list token) : option (list N * bool) :=
  if case_insensitive o then None else
  match ts with
  | [] => None
  | t0 :: _ =>
    let '(lit0, start, entire) :=
      match t0 with
      | TRecPrefix =>
        match nth_error ts 1 with
        | Some (TLit _) => ([47%N], 1, true)
        | _ => ([], 1, false)
        end
      | _ => ([], 0, false)
      end in
    match nth_error ts start with
    | None => None
    | Some t =>
      let ostart := match t with
                    | TStar => if literal_separator o then None else Some (start + 1)
                    | _ => Some start
                    end in
      match ostart with
      | None => None
      | Some start =>
        match lits_of (skipn start ts) with
        | None => None
        | Some l =>
          let lit := lit0 ++ l in
          match lit with
          | [] => None
          | [c] => if (c =? 47)%N then None else Some (lit, entire)
          | _ => Some (lit, entire)
          end
        end
      end
    end
  end.

Definition basename_ok (o : gopts) (t : token) : bool :=
  match t with
  | TLit c => negb (c =? 47)%N
  | TAny | TStar => literal_separator o
  | _ => false
  end.

Definition basename_tokens (o : gopts) (ts : list token) : option (list token) :=
  if case_insensitive o then None else
  match ts with
  | TRecPrefix :: rest =>
    match rest with
    | [] => None
    | _ => if forallb (basename_ok o) rest then Some rest else None
    end
  | _ => None
  end.

Definition basename_literal (o : gopts) (ts : list token) : option (list N) :=
  match basename_tokens o ts with
  | None => None
  | Some r => lits_of r
  end.

Inductive strategy :=
| SLiteral (l : list N)
| SBasenameLiteral (l : list N)
| SExtension (l : list N)
| SPrefix (l : list N)
| SSuffix (l : list N) (component : bool)
| SRequiredExtension (l : list N)
| SRegex.

(* MatchStrategy::new *)
Definition strategy_new (o : gopts) (ts : list token) : strategy :=
  match basename_literal o ts with Some l => SBasenameLiteral l | None =>
  match literal o ts with Some l => SLiteral l | None =>
  match ext o ts with Some l => SExtension l | None =>
  match prefix o ts with Some l => SPrefix l | None =>
  match suffix o ts with Some (l, c) => SSuffix l c | None =>
  match required_ext o ts with Some l => SRequiredExtension l | None =>
  SRegex end end end end end end.

(* ------------------------------------------------------------------ pathutil.rs, Candidate *)

(* bstr rfind_byte: index of the last occurrence *)
Fixpoint rfind_byte (b : N) (s : bytes) : option nat :=
  match s with
  | [] => None
  | x :: r =>
    match rfind_byte b r with
    | Some i => Some (S i)
    | None => if (x =? b)%N then Some 0 else None
    end
  end.

Definition after_last_slash (path : bytes) : bytes :=
  let last_slash := match rfind_byte 47 path with Some i => i + 1 | None => 0 end in
  skipn last_slash path.

(* pathutil::file_name after the repair of defect D3 (the current tree) *)
Definition file_name (path : bytes) : option bytes :=
  match path with
  | [] => None
  | _ => Some (after_last_slash path)
  end.

(* pathutil::file_name of the pinned tree (before the repair): None whenever the last byte is '.' *)
Definition file_name_d3 (path : bytes) : option bytes :=
  match rev path with
  | [] => None
  | b :: _ => if (b =? 46)%N then None else Some (after_last_slash path)
  end.

Definition file_name_ext (name : bytes) : option bytes :=
  match name with
  | [] => None
  | _ => match rfind_byte 46 name with
         | None => None
         | Some i => Some (skipn i name)
         end
  end.

Record candidate := mk_candidate { c_path : bytes; c_basename : bytes; c_ext : bytes }.

(* Candidate::new, parametric in the file_name function so that the pinned version can be stated too *)
Definition candidate_with (fname : bytes -> option bytes) (path : bytes) : candidate :=
  let basename := match fname path with Some b => b | None => [] end in
  let ext := match file_name_ext basename with Some e => e | None => [] end in
  mk_candidate path basename ext.
Definition candidate_new : bytes -> candidate := candidate_with file_name.
Definition candidate_d3 : bytes -> candidate := candidate_with file_name_d3.
