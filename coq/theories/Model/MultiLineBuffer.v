(* Model/MultiLineBuffer.v — mirrors crates/searcher/src/searcher/mod.rs
     Searcher::fill_multi_line_buffer_from_reader   (heap limit None: buf.clear(); read_to_end.
                                                     heap limit Some(h): h == 0 -> alloc_error; else the
                                                     `loop { read(&mut buf[pos..]) ... }` with initial length
                                                     min(DEFAULT_BUFFER_CAPACITY, h), growth min(2*len, h),
                                                     Interrupted retried, read() == 0 -> resize(pos), Ok)
     Searcher::fill_multi_line_buffer_from_file     (heap limit None: clear, reserve(file size + 1), read_to_end;
                                                     else from_reader)
     Searcher::check_config                         (the heap_limit == Some(0) && !mmap.is_enabled() test)
     the multi-line branches of Searcher::search_reader / search_file_maybe_path (fill, then MultiLine::run)
   The reader is the one of Model/ReadByLine.v: remaining bytes + a history of read() results
   (RChunk n: at most max(1,n) bytes; RFail: a hard error; RInterrupted: ErrorKind::Interrupted; history
   exhausted: every read fills the room offered).  The multi-line buffer is a Vec<u8> kept between
   searches: its contents and a lower bound of its capacity (clear keeps the capacity).
   [tr] = the sizes of the destination slices handed to read(), newest first — a ghost output used by
   the correspondence to observe the initial length and the growth policy; no theorem depends on it.
   std's read_to_end is external: the sizes of the slices it offers are the parameter [rooms]
   (exhausted: the whole rest fits).  Also (last section, only for the correspondence): the pass-through
   BomPeeker of encoding_rs_io that search_reader puts between the caller's reader and the loop.
   Definitions only. *)
From RG Require Import Base.Bytes Model.Lines Model.SearcherCore Model.Glue Model.ReadByLine.

(* the Vec<u8> multi_line_buffer *)
Record mlbuf := { mb_data : bytes; mb_cap : nat }.
Definition mb_new : mlbuf := {| mb_data := []; mb_cap := 0 |}.

(* one read() on the scripted reader with a destination of [room] bytes *)
Inductive read_outcome :=
| ROk (got : bytes) (r : reader)
| RErrInterrupted (r : reader)
| RErrOther (r : reader).

Definition reader_read (room : nat) (r : reader) : read_outcome :=
  let (step, hist') := match r_hist r with [] => (RChunk room, []) | x :: h => (x, h) end in
  match step with
  | RFail => RErrOther {| r_rest := r_rest r; r_hist := hist' |}
  | RInterrupted => RErrInterrupted {| r_rest := r_rest r; r_hist := hist' |}
  | RChunk n =>
    let k := Nat.min (Nat.min (Nat.max 1 n) room) (length (r_rest r)) in
    ROk (firstn k (r_rest r)) {| r_rest := skipn k (r_rest r); r_hist := hist' |}
  end.

(* result of a loop: the bytes in buf[..pos] / buf as left behind, buf.len() reached, the rooms offered, the reader *)
Inductive ml_loop_result :=
| LOk (data : bytes) (len : nat) (tr : list nat) (r : reader)        (* Ok(()) *)
| LIoErr (data : bytes) (len : nat) (tr : list nat) (r : reader)     (* Err(error_io(err)) of a failed read *)
| LHeapErr (data : bytes) (len : nat) (tr : list nat) (r : reader)   (* Err(error_io(alloc_error(heap_limit))) *)
| LFuel.

(* the `loop` of fill_multi_line_buffer_from_reader; [data] = buf[..pos], [len] = buf.len() *)
Fixpoint ml_heap_loop (fuel : nat) (h : nat) (len : nat) (data : bytes) (tr : list nat) (r : reader) : ml_loop_result :=
  match fuel with
  | 0 => LFuel
  | S fuel' =>
    let room := len - length data in
    match reader_read room r with
    | RErrInterrupted r' => ml_heap_loop fuel' h len data (room :: tr) r'
    | RErrOther r' => LIoErr data len (room :: tr) r'
    | ROk got r' =>
      if Nat.eqb (length got) 0 then LOk data len (room :: tr) r'          (* buf.resize(pos, 0) *)
      else
        let data' := data ++ got in                                       (* pos += nread *)
        if Nat.eqb (length data') len then                                (* buf[pos..].is_empty() *)
          let additional := h - len in
          if Nat.eqb additional 0 then LHeapErr data' len (room :: tr) r'
          else ml_heap_loop fuel' h (Nat.min (2 * len) (len + additional)) data' (room :: tr) r'
        else ml_heap_loop fuel' h len data' (room :: tr) r'
    end
  end.

(* std::io::Read::read_to_end: Interrupted retried, 0 = end, errors returned; the sizes of the slices it
   offers are std's business *)
Fixpoint ml_read_to_end (fuel : nat) (rooms : list nat) (data : bytes) (tr : list nat) (r : reader) : ml_loop_result :=
  match fuel with
  | 0 => LFuel
  | S fuel' =>
    let room := match rooms with [] => S (length (r_rest r)) | x :: _ => Nat.max 1 x end in
    match reader_read room r with
    | RErrInterrupted r' => ml_read_to_end fuel' (tl rooms) data (room :: tr) r'
    | RErrOther r' => LIoErr data (length data) (room :: tr) r'
    | ROk got r' =>
      if Nat.eqb (length got) 0 then LOk data (length data) (room :: tr) r'
      else ml_read_to_end fuel' (tl rooms) (data ++ got) (room :: tr) r'
    end
  end.

(* every iteration consumes a history entry, or reads at least one byte, or is the last *)
Definition ml_fuel (r : reader) : nat := S (length (r_hist r) + length (r_rest r)).

Inductive ml_fill_result :=
| MlOk (b : mlbuf) (tr : list nat) (r : reader)        (* Ok(()): the buffer is ready to be searched *)
| MlIoErr (b : mlbuf) (tr : list nat) (r : reader)     (* the read error is returned *)
| MlHeapErr (b : mlbuf) (tr : list nat) (r : reader)   (* "configured allocation limit (h) exceeded" *)
| MlFuel.

Definition zeros (n : nat) : bytes := repeat 0%N n.

(* the Vec after the loop: Ok -> resized to pos; Err -> left with len bytes (read part, then zeros) *)
Definition ml_finish (cap : nat) (lr : ml_loop_result) : ml_fill_result :=
  match lr with
  | LOk d len tr r => MlOk {| mb_data := d; mb_cap := Nat.max cap len |} tr r
  | LIoErr d len tr r => MlIoErr {| mb_data := d ++ zeros (len - length d); mb_cap := Nat.max cap len |} tr r
  | LHeapErr d len tr r => MlHeapErr {| mb_data := d ++ zeros (len - length d); mb_cap := Nat.max cap len |} tr r
  | LFuel => MlFuel
  end.

(* fill_multi_line_buffer_from_reader; [cap0] = DEFAULT_BUFFER_CAPACITY *)
Definition ml_fill_from_reader_cap (cap0 : nat) (heap_limit : option nat) (rooms : list nat) (b : mlbuf) (r : reader)
  : ml_fill_result :=
  (* buf.clear() *)
  match heap_limit with
  | None => ml_finish (mb_cap b) (ml_read_to_end (ml_fuel r) rooms [] [] r)
  | Some h =>
    if Nat.eqb h 0 then MlHeapErr {| mb_data := []; mb_cap := mb_cap b |} [] r
    else
      let len := Nat.min cap0 h in                                        (* buf.resize(min(DEFAULT, h), 0) *)
      ml_finish (mb_cap b) (ml_heap_loop (ml_fuel r) h len [] [] r)
  end.

Definition ml_fill_from_reader := ml_fill_from_reader_cap default_buffer_capacity.

(* fill_multi_line_buffer_from_file: without a heap limit clear, reserve(metadata len + 1), read_to_end *)
Definition ml_fill_from_file (heap_limit : option nat) (rooms : list nat) (file_len : nat) (b : mlbuf) (r : reader)
  : ml_fill_result :=
  match heap_limit with
  | None => ml_finish (Nat.max (mb_cap b) (S file_len)) (ml_read_to_end (ml_fuel r) rooms [] [] r)
  | Some _ => ml_fill_from_reader heap_limit rooms b r
  end.

(* Searcher::check_config, first test: no heap and no memory maps = nothing can be searched *)
Definition heap_config_ok (heap_limit : option nat) (mmap_enabled : bool) : bool :=
  match heap_limit with
  | Some 0 => mmap_enabled
  | _ => true
  end.

Section MlSearch.
  Variable cfg : config.
  Variable M : matcher.
  Variable heap_limit : option nat.
  Variable mmap_enabled : bool.          (* config.mmap.is_enabled() (the map itself is not used by a reader search) *)

  (* check_config: heap test, then the line terminator test (as Model/SearcherGlue.v check_config) *)
  Definition ml_check_config : bool :=
    heap_config_ok heap_limit mmap_enabled &&
    match m_line_term M with
    | None => true
    | Some lt => lt_eqb lt (c_lt cfg)
    end.

  (* what a search returns when the buffer could not be filled: the `?` leaves before MultiLine::new,
     no sink method is called *)
  Definition ml_after_fill (reply_of : nat -> reply) (b0 : mlbuf) (f : ml_fill_result) : run_result * mlbuf * list nat :=
    match f with
    | MlOk b tr _ => (multi_line_run cfg M reply_of (mb_data b), b, tr)
    | MlIoErr b tr _ => (RunErr [], b, tr)
    | MlHeapErr b tr _ => (RunErr [], b, tr)
    | MlFuel => (RunFuel, b0, [])
    end.

  (* the multi-line branch of Searcher::search_reader (transcoder = identity) *)
  Definition search_reader_ml (reply_of : nat -> reply) (rooms : list nat) (b : mlbuf) (r : reader)
    : run_result * mlbuf * list nat :=
    if negb ml_check_config then (RunErr [], b, [])
    else ml_after_fill reply_of b (ml_fill_from_reader heap_limit rooms b r).

  (* the multi-line branch of Searcher::search_file_maybe_path when no memory map is opened *)
  Definition search_file_ml (reply_of : nat -> reply) (rooms : list nat) (file_len : nat) (b : mlbuf) (r : reader)
    : run_result * mlbuf * list nat :=
    if negb ml_check_config then (RunErr [], b, [])
    else ml_after_fill reply_of b (ml_fill_from_file heap_limit rooms file_len b r).
End MlSearch.

(* ---- encoding_rs_io::BomPeeker in the configuration search_reader builds when bom_sniffing is off and
   no encoding is set (strip = false, no decoder): the first read() first fetches up to 3 bytes with
   read_full (Interrupted retried, errors returned, 0 = end), hands those out, then passes reads through.
   External library; modelled only so that the correspondence can relate the history of the caller's
   reader to the reads the loop sees. ---- *)
Inductive peek_result :=
| PeekOk (got : bytes) (tr : list nat) (r : reader)
| PeekErr (tr : list nat) (r : reader)
| PeekFuel.

Fixpoint peek_loop (fuel : nat) (need : nat) (got : bytes) (tr : list nat) (r : reader) : peek_result :=
  match need with
  | 0 => PeekOk got tr r
  | S _ =>
    match fuel with
    | 0 => PeekFuel
    | S fuel' =>
      match reader_read need r with
      | RErrInterrupted r' => peek_loop fuel' need got (need :: tr) r'
      | RErrOther r' => PeekErr (need :: tr) r'
      | ROk g r' =>
        if Nat.eqb (length g) 0 then PeekOk got (need :: tr) r'
        else peek_loop fuel' (need - length g) (got ++ g) (need :: tr) r'
      end
    end
  end.

(* the reader the loop sees behind the peeker: the fetched bytes come back in one read (every room the
   loop offers first is >= 3 or leads to the heap-limit error at once), the rest is passed through *)
Definition peeked_reader (got : bytes) (r : reader) : reader :=
  {| r_rest := got ++ r_rest r;
     r_hist := match got with [] => r_hist r | _ => RChunk (length got) :: r_hist r end |}.
