(* Model/RegexLiteral.v — mirrors of
     regex-syntax 0.8.4 src/hir/literal.rs: Literal::{exact,make_inexact,extend,keep_first_bytes,
       is_poisonous,From<u8>,From<char>}, Seq::{empty,infinite,singleton,push,make_inexact,
       make_infinite,cross_forward,cross_preamble,union,dedup,keep_first_bytes,is_finite,is_empty,
       len,is_exact,is_inexact,max_union_len,max_cross_len,min_literal_len,longest_common_prefix,
       optimize_for_prefix_by_preference (optimize_by_preference(true))}, PreferenceTrie::minimize
       (keep_exact = true), rank
     crates/regex/src/literal.rs: Extractor::{new,extract_untagged,extract,extract_concat,
       extract_alternation,extract_repetition,extract_class_unicode,extract_class_bytes,
       class_over_limit_unicode,class_over_limit_bytes,cross,union,enforce_literal_len},
       TSeq::{empty,infinite,singleton,make_inexact,make_infinite,make_not_prefix,is_good,
       is_really_good,has_poisonous_literal,choose}, is_poisonous,
       InnerLiterals::{new,none,one_regex (which literals reach the fast line regex)}
   Definitions only. *)
From RG Require Import Base.Bytes Spec.RegexSem Model.RegexTables Model.RegexBuild.

(* ---- Literal ---- *)
Record lit := { l_bytes : bytes; l_exact : bool }.
Definition lit_exact (b : bytes) : lit := {| l_bytes := b; l_exact := true |}.
Definition lit_make_inexact (l : lit) : lit := {| l_bytes := l_bytes l; l_exact := false |}.
Definition lit_len (l : lit) : nat := length (l_bytes l).
Definition lit_keep_first_bytes (n : nat) (l : lit) : lit :=
  if Nat.leb (lit_len l) n then l else {| l_bytes := firstn n (l_bytes l); l_exact := false |}.
Definition lit_eqb (a b : lit) : bool := bytes_eqb (l_bytes a) (l_bytes b) && Bool.eqb (l_exact a) (l_exact b).

Definition rank (b : N) : N := nth_N byte_frequencies b 0%N.
Definition lit_is_poisonous (l : lit) : bool :=
  match l_bytes l with
  | [] => true
  | [b] => (250 <=? rank b)%N
  | _ => false
  end.

(* ---- Seq: None = infinite ---- *)
Definition seq_t := option (list lit).
Definition seq_empty : seq_t := Some [].
Definition seq_infinite : seq_t := None.
Definition seq_singleton (l : lit) : seq_t := Some [l].

(* Vec::push unless equal to the last element *)
Definition seq_push (s : seq_t) (l : lit) : seq_t :=
  match s with
  | None => None
  | Some ls =>
    match rev ls with
    | last :: _ => if lit_eqb last l then Some ls else Some (ls ++ [l])
    | [] => Some [l]
    end
  end.

Definition seq_make_inexact (s : seq_t) : seq_t := option_map (map lit_make_inexact) s.

(* Vec::dedup_by with Seq::dedup's closure: consecutive literals with equal bytes collapse into
   the first one; if their exactness differs the survivor becomes inexact *)
Fixpoint dedup_into (kept : lit) (l : list lit) : list lit :=
  match l with
  | [] => [kept]
  | x :: t =>
    if bytes_eqb (l_bytes x) (l_bytes kept)
    then dedup_into (if Bool.eqb (l_exact x) (l_exact kept) then kept else lit_make_inexact kept) t
    else kept :: dedup_into x t
  end.
Definition lits_dedup (l : list lit) : list lit :=
  match l with [] => [] | x :: t => dedup_into x t end.
Definition seq_dedup (s : seq_t) : seq_t := option_map lits_dedup s.

Definition seq_keep_first_bytes (n : nat) (s : seq_t) : seq_t := option_map (map (lit_keep_first_bytes n)) s.
Definition seq_is_finite (s : seq_t) : bool := match s with Some _ => true | None => false end.
Definition seq_len (s : seq_t) : option nat := option_map (@length lit) s.
Definition seq_is_empty (s : seq_t) : bool := match s with Some [] => true | _ => false end.
Definition seq_is_exact (s : seq_t) : bool :=
  match s with Some ls => forallb l_exact ls | None => false end.
Definition seq_is_inexact (s : seq_t) : bool :=
  match s with Some ls => forallb (fun l => negb (l_exact l)) ls | None => true end.
Definition list_min (l : list nat) : option nat :=
  match l with [] => None | x :: t => Some (fold_left Nat.min t x) end.
Definition seq_min_literal_len (s : seq_t) : option nat :=
  match s with Some ls => list_min (map lit_len ls) | None => None end.
Definition seq_max_union_len (a b : seq_t) : option nat :=
  match seq_len a, seq_len b with Some x, Some y => Some (x + y) | _, _ => None end.
Definition seq_max_cross_len (a b : seq_t) : option nat :=
  match seq_len a, seq_len b with Some x, Some y => Some (x * y) | _, _ => None end.

(* Seq::cross_forward (with cross_preamble); the drained `other` is not modelled: every caller
   drops it *)
Definition cross_lits (l1 l2 : list lit) : list lit :=
  flat_map (fun a =>
    if l_exact a
    then map (fun b => {| l_bytes := l_bytes a ++ l_bytes b; l_exact := l_exact b |}) l2
    else [a]) l1.
Definition seq_cross_forward (s1 s2 : seq_t) : seq_t :=
  match s2 with
  | None =>
    match seq_min_literal_len s1 with
    | Some 0 => None
    | _ => seq_make_inexact s1
    end
  | Some l2 =>
    match s1 with
    | None => None
    | Some l1 => seq_dedup (Some (cross_lits l1 l2))
    end
  end.

(* Seq::union *)
Definition seq_union (s1 s2 : seq_t) : seq_t :=
  match s2 with
  | None => None
  | Some l2 => match s1 with None => None | Some l1 => seq_dedup (Some (l1 ++ l2)) end
  end.

(* PreferenceTrie::minimize(lits, keep_exact = true): a literal is dropped iff an earlier kept
   literal is a prefix of it *)
Fixpoint minimize_go (kept_rev : list lit) (l : list lit) : list lit :=
  match l with
  | [] => rev kept_rev
  | x :: t =>
    if existsb (fun k => is_prefix_of (l_bytes k) (l_bytes x)) kept_rev
    then minimize_go kept_rev t else minimize_go (x :: kept_rev) t
  end.
Definition minimize (l : list lit) : list lit := minimize_go [] l.

(* Seq::longest_common_prefix *)
Fixpoint common_len (a b : bytes) : nat :=
  match a, b with
  | x :: xs, y :: ys => if (x =? y)%N then S (common_len xs ys) else 0
  | _, _ => 0
  end.
Fixpoint lcp_go (base : bytes) (len : nat) (l : list lit) : nat :=
  match l with
  | [] => len
  | m :: t =>
    let len' := common_len (l_bytes m) (firstn len base) in
    if Nat.eqb len' 0 then 0 else lcp_go base len' t
  end.
Definition longest_common_prefix (s : seq_t) : option bytes :=
  match s with
  | None => None
  | Some [] => None
  | Some (l0 :: t) => Some (firstn (lcp_go (l_bytes l0) (lit_len l0) t) (l_bytes l0))
  end.

(* the ATTEMPTS loop of optimize_by_preference(prefix = true) *)
Fixpoint attempts (l : list (nat * nat)) (s : seq_t) : seq_t :=
  match l with
  | [] => s
  | (keep, limit) :: t =>
    match s with
    | None => s
    | Some ls =>
      if Nat.leb (length ls) limit then s
      else attempts t (option_map minimize (seq_keep_first_bytes keep s))
    end
  end.

(* Seq::optimize_for_prefix_by_preference *)
Definition optimize_for_prefix_by_preference (s0 : seq_t) : seq_t :=
  match s0 with
  | None => None
  | Some l0 =>
    let origlen := length l0 in
    match seq_min_literal_len s0 with
    | Some 0 => None
    | _ =>
      let s1 : seq_t := Some (minimize l0) in
      let after_fix : seq_t + seq_t :=     (* inl = returned early *)
        match longest_common_prefix s1 with
        | None => inr s1
        | Some fix_ =>
          if Nat.ltb 1 origlen && Nat.leb 1 (length fix_) && Nat.leb (length fix_) 3
             && (rank (nth 0 fix_ 0%N) <? 200)%N
          then inl (seq_dedup (seq_keep_first_bytes 1 s1))
          else
            let isfast := seq_is_exact s1
                          && match seq_len s1 with Some n => Nat.leb n 16 | None => false end in
            let usefix := Nat.ltb 4 (length fix_) || (Nat.ltb 1 (length fix_) && negb isfast) in
            if usefix then inr (seq_dedup (seq_keep_first_bytes (length fix_) s1)) else inr s1
        end in
      match after_fix with
      | inl r => r
      | inr s2 =>
        let exact : option seq_t := if seq_is_exact s2 then Some s2 else None in
        let s3 := attempts [(5, 10); (4, 10); (3, 64); (2, 64); (1, 10)] s2 in
        let s4 : seq_t :=
          match s3 with
          | Some ls => if existsb lit_is_poisonous ls then None else s3
          | None => None
          end in
        match exact with
        | None => s4
        | Some ex =>
          if negb (seq_is_finite s4) then ex
          else if match seq_min_literal_len s4 with Some n => Nat.leb n 2 | None => true end then ex
          else if match seq_len s4 with Some n => Nat.ltb 64 n | None => true end then ex
          else s4
        end
      end
    end
  end.

(* ---- TSeq ---- *)
Record tseq := { t_seq : seq_t; t_prefix : bool }.
Definition tseq_of (s : seq_t) : tseq := {| t_seq := s; t_prefix := true |}.
Definition tseq_empty := tseq_of seq_empty.
Definition tseq_infinite := tseq_of seq_infinite.
Definition tseq_singleton (l : lit) := tseq_of (seq_singleton l).
Definition t_map (f : seq_t -> seq_t) (t : tseq) : tseq := {| t_seq := f (t_seq t); t_prefix := t_prefix t |}.
Definition t_make_inexact := t_map seq_make_inexact.
Definition t_make_infinite := t_map (fun _ => seq_infinite).
Definition t_make_not_prefix (t : tseq) : tseq := {| t_seq := t_seq t; t_prefix := false |}.

Definition t_has_poisonous_literal (t : tseq) : bool :=
  match t_seq t with Some ls => existsb lit_is_poisonous ls | None => false end.

Definition t_is_good (t : tseq) : bool :=
  if t_has_poisonous_literal t then false else
  match seq_min_literal_len (t_seq t), seq_len (t_seq t) with
  | Some mn, Some len => if Nat.leb mn 1 then Nat.leb len 3 else Nat.leb 2 mn && Nat.leb len 64
  | _, _ => false
  end.

Definition t_is_really_good (t : tseq) : bool :=
  if t_has_poisonous_literal t then false else
  match seq_min_literal_len (t_seq t), seq_len (t_seq t) with
  | Some mn, Some len => Nat.leb 3 mn && Nat.leb len 8
  | _, _ => false
  end.

(* TSeq::choose *)
Definition t_choose (a b : tseq) : tseq :=
  let seq1 := t_make_inexact a in
  let seq2 := t_make_inexact b in
  if negb (seq_is_finite (t_seq seq1)) then seq2
  else if negb (seq_is_finite (t_seq seq2)) then seq1
  else if t_has_poisonous_literal seq1 then seq2
  else if t_has_poisonous_literal seq2 then seq1
  else match seq_min_literal_len (t_seq seq1) with
  | None => seq2
  | Some min1 =>
    match seq_min_literal_len (t_seq seq2) with
    | None => seq1
    | Some min2 =>
      if Nat.ltb min1 min2 then seq2
      else if Nat.ltb min2 min1 then seq1
      else
        let len1 := match seq_len (t_seq seq1) with Some n => n | None => 0 end in
        let len2 := match seq_len (t_seq seq2) with Some n => n | None => 0 end in
        if Nat.ltb len1 len2 then seq2
        else if Nat.ltb len2 len1 then seq1
        else seq1
    end
  end.

(* ---- Extractor ---- *)
Record limits := { limit_class : nat; limit_repeat : nat; limit_literal_len : nat; limit_total : nat }.
Definition extractor_new : limits :=
  {| limit_class := 10; limit_repeat := 10; limit_literal_len := 100; limit_total := 64 |}.

Section Extractor.
  Variable L : limits.

  Definition enforce_literal_len (t : tseq) : tseq := t_map (seq_keep_first_bytes (limit_literal_len L)) t.

  (* Extractor::cross *)
  Definition x_cross (seq1 seq2 : tseq) : tseq :=
    if negb (t_prefix seq2) then t_choose seq1 seq2
    else
      let seq2' :=
        match seq_max_cross_len (t_seq seq1) (t_seq seq2) with
        | Some len => if Nat.ltb (limit_total L) len then t_make_infinite seq2 else seq2
        | None => seq2
        end in
      enforce_literal_len {| t_seq := seq_cross_forward (t_seq seq1) (t_seq seq2'); t_prefix := t_prefix seq1 |}.

  (* Extractor::union *)
  Definition over_total (a b : seq_t) : bool :=
    match seq_max_union_len a b with Some len => Nat.ltb (limit_total L) len | None => false end.
  Definition x_union (seq1 seq2 : tseq) : tseq :=
    let '(s1, s2) :=
      if over_total (t_seq seq1) (t_seq seq2) then
        let a := seq_dedup (seq_keep_first_bytes 4 (t_seq seq1)) in
        let b := seq_dedup (seq_keep_first_bytes 4 (t_seq seq2)) in
        if over_total a b then (a, seq_infinite) else (a, b)
      else (t_seq seq1, t_seq seq2) in
    {| t_seq := seq_union s1 s2; t_prefix := t_prefix seq1 && t_prefix seq2 |}.

  (* class_over_limit_unicode / class_over_limit_bytes (r.len() = end - start + 1) *)
  Fixpoint class_over_limit_go (rs : list (N * N)) (count : N) : bool :=
    match rs with
    | [] => (N.of_nat (limit_class L) <? count)%N
    | r :: t => if (N.of_nat (limit_class L) <? count)%N then true
                else class_over_limit_go t (count + range_len r)%N
    end.
  Definition class_over_limit (rs : list (N * N)) : bool := class_over_limit_go rs 0%N.

  (* the values start..=end of one range, at most fuel of them (the class is under the limit) *)
  Fixpoint range_values (fuel : nat) (lo hi : N) : list N :=
    match fuel with
    | 0 => []
    | S f => if (hi <? lo)%N then [] else lo :: range_values f (lo + 1)%N hi
    end.
  Definition class_values (rs : list (N * N)) : list N :=
    flat_map (fun r => range_values (S (S (limit_class L))) (fst r) (snd r)) rs.

  (* a `char` range iterates over scalar values only (the surrogate gap is skipped) *)
  Definition extract_class_unicode (rs : list (N * N)) : tseq :=
    if class_over_limit rs then tseq_infinite
    else enforce_literal_len
           (tseq_of (fold_left (fun s cp => seq_push s (lit_exact (utf8_encode cp)))
                               (filter is_scalar (class_values rs)) seq_empty)).
  Definition extract_class_bytes (rs : list (N * N)) : tseq :=
    if class_over_limit rs then tseq_infinite
    else enforce_literal_len
           (tseq_of (fold_left (fun s b => seq_push s (lit_exact [b])) (class_values rs) seq_empty)).

  (* `for _ in 0..n { if seq.is_inexact() { break; } seq = cross(seq, subseq.clone()) }` *)
  Fixpoint rep_cross (n : nat) (seq subseq : tseq) : tseq :=
    match n with
    | 0 => seq
    | S m => if seq_is_inexact (t_seq seq) then seq else rep_cross m (x_cross seq subseq) subseq
    end.

  (* Extractor::extract_repetition, given the sub-expression's sequence *)
  Definition extract_repetition (mn : nat) (mx : option nat) (greedy : bool) (subseq : tseq) : tseq :=
    let empty := tseq_singleton (lit_exact []) in
    match mn, mx with
    | 0, _ =>
      let subseq' := match mx with Some 1 => subseq | _ => t_make_inexact subseq end in
      if greedy then x_union subseq' empty else x_union empty subseq'
    | _, Some m =>
      if Nat.eqb mn m then
        let seq := rep_cross (Nat.min mn (limit_repeat L)) empty subseq in
        if Nat.ltb (limit_repeat L) mn then t_make_inexact seq else seq
      else if Nat.ltb mn m then
        t_make_inexact (rep_cross (Nat.min mn (limit_repeat L)) empty subseq)
      else t_make_inexact subseq
    | _, None => t_make_inexact subseq
    end.

  (* the loop of Extractor::extract_concat over the already-extracted children; [extr] is the
     recursive call *)
  Section Loops.
    Variable extr : hir -> tseq.

    Fixpoint concat_loop (hs : list hir) (seq : tseq) (prev : option tseq) : tseq :=
      match hs with
      | [] => match prev with Some p => t_choose p seq | None => seq end
      | h :: t =>
        if seq_is_inexact (t_seq seq) then
          if seq_is_empty (t_seq seq) then seq
          else if t_is_really_good seq then seq
          else
            let prev' := Some (match prev with None => seq | Some p => t_choose p seq end) in
            let seq' := t_make_not_prefix (tseq_singleton (lit_exact [])) in
            concat_loop t (x_cross seq' (extr h)) prev'
        else concat_loop t (x_cross seq (extr h)) prev
      end.

    Fixpoint alt_loop (hs : list hir) (seq : tseq) : tseq :=
      match hs with
      | [] => seq
      | h :: t => if negb (seq_is_finite (t_seq seq)) then seq else alt_loop t (x_union seq (extr h))
      end.
  End Loops.

  (* Extractor::extract *)
  Fixpoint extract (h : hir) : tseq :=
    match h with
    | HEmpty | HLook _ => tseq_singleton (lit_exact [])
    | HLit b => enforce_literal_len (tseq_singleton (lit_exact b))
    | HClassU rs => extract_class_unicode rs
    | HClassB rs => extract_class_bytes rs
    | HRep mn mx g sub => extract_repetition mn mx g (extract sub)
    | HCap sub => extract sub
    | HConcat hs =>
      (fix go (hs : list hir) (seq : tseq) (prev : option tseq) : tseq :=
         match hs with
         | [] => match prev with Some p => t_choose p seq | None => seq end
         | h :: t =>
           if seq_is_inexact (t_seq seq) then
             if seq_is_empty (t_seq seq) then seq
             else if t_is_really_good seq then seq
             else
               let prev' := Some (match prev with None => seq | Some p => t_choose p seq end) in
               let seq' := t_make_not_prefix (tseq_singleton (lit_exact [])) in
               go t (x_cross seq' (extract h)) prev'
           else go t (x_cross seq (extract h)) prev
         end) hs (tseq_singleton (lit_exact [])) None
    | HAlt hs =>
      (fix go (hs : list hir) (seq : tseq) : tseq :=
         match hs with
         | [] => seq
         | h :: t => if negb (seq_is_finite (t_seq seq)) then seq else go t (x_union seq (extract h))
         end) hs tseq_empty
    end.

  (* Extractor::extract_untagged *)
  Definition extract_untagged (h : hir) : seq_t :=
    let t := extract h in
    let t' := t_map optimize_for_prefix_by_preference t in
    if t_is_good t' then t_seq t' else seq_infinite.
End Extractor.

(* Properties::is_literal: a literal, or a concatenation whose members all are (regex-syntax
   Properties::literal / ::concat; every other constructor sets it to false) *)
Fixpoint is_literal_prop (h : hir) : bool :=
  match h with
  | HLit _ => true
  | HConcat hs => (fix go (l : list hir) : bool :=
                     match l with [] => true | x :: t => is_literal_prop x && go t end) hs
  | _ => false
  end.

(* Properties::is_alternation_literal: a literal; an alternation whose branches all satisfy
   is_literal (Properties::union); a concatenation whose members all satisfy is_alternation_literal
   (Properties::concat); false for everything else *)
Fixpoint is_alternation_literal (h : hir) : bool :=
  match h with
  | HLit _ => true
  | HAlt hs => (fix go (l : list hir) : bool :=
                  match l with [] => true | x :: t => is_literal_prop x && go t end) hs
  | HConcat hs => (fix go (l : list hir) : bool :=
                     match l with [] => true | x :: t => is_alternation_literal x && go t end) hs
  | _ => false
  end.

(* InnerLiterals::new; [accelerated] = Regex::is_accelerated() of the compiled main regex (a fact
   about regex-automata, passed in) *)
Definition inner_literals (c : rconfig) (accelerated : bool) (final : hir) : seq_t :=
  match c_line_terminator c with
  | None => seq_infinite
  | Some _ =>
    if accelerated && negb (contains_word_unicode final) then seq_infinite
    else if is_alternation_literal final then seq_infinite
    else extract_untagged extractor_new final
  end.

(* InnerLiterals::one_regex: the literals the candidate regex is the alternation of; None = no
   fast line regex *)
Definition fast_line_literals (s : seq_t) : option (list bytes) :=
  match s with
  | None => None
  | Some [] => None
  | Some ls => Some (map l_bytes ls)
  end.
