(* Model/LineBufferBin.v — mirrors crates/searcher/src/line_buffer.rs
     BinaryDetection {None, Quit(u8), Convert(u8)}, BinaryDetection::is_quit
     BufferAllocation {Eager, Error(usize)}
     Config {capacity, lineterm, buffer_alloc, binary}
     LineBufferBuilder::build
     LineBuffer {buf, pos, last_lineterm, end, absolute_byte_offset, binary_byte_offset}
     LineBuffer::{clear, buffer, free_buffer, consume, fill, roll, ensure_capacity}
     replace_bytes
   The reader (`io::Read`) is a stream plus a history of read operations: each `RChunk k`
   answers one `read` call with at most k bytes (k = 0: a spurious zero-length read, which
   the code takes for EOF), `RErr` answers with an error; after the history is exhausted the
   reader hands out as much as fits.  Definitions only. *)
From RG Require Import Base.Bytes.

Inductive bin_mode := BNone | BQuit (b : byte) | BConvert (b : byte).

Definition is_quit (m : bin_mode) : bool := match m with BQuit _ => true | _ => false end.

Inductive buffer_alloc := AllocEager | AllocError (limit : nat).

Record lb_config := mk_cfg {
  cfg_capacity : nat;
  cfg_lineterm : byte;
  cfg_alloc : buffer_alloc;
  cfg_binary : bin_mode }.

Record line_buffer := mk_lb {
  lb_buf : bytes;                (* the whole Vec<u8>; its length is buf.len() *)
  lb_pos : nat;
  lb_last_lineterm : nat;
  lb_end : nat;
  lb_abs : nat;                  (* absolute_byte_offset *)
  lb_bin : option nat }.         (* binary_byte_offset *)

(* LineBufferBuilder::build *)
Definition lb_build (cfg : lb_config) : line_buffer :=
  mk_lb (repeat 0%N (cfg_capacity cfg)) 0 0 0 0 None.

(* LineBuffer::clear (called by LineBufferReader::new): the Vec is kept as it is *)
Definition lb_clear (lb : line_buffer) : line_buffer :=
  mk_lb (lb_buf lb) 0 0 0 0 None.

(* LineBuffer::buffer: &buf[pos..last_lineterm] *)
Definition lb_buffer (lb : line_buffer) : bytes := sub (lb_buf lb) (lb_pos lb) (lb_last_lineterm lb).

(* LineBuffer::free_buffer().len() *)
Definition lb_free_len (lb : line_buffer) : nat := length (lb_buf lb) - lb_end lb.

(* LineBuffer::consume (the assert amt <= buffer().len() is a safety lemma) *)
Definition lb_consume (lb : line_buffer) (amt : nat) : line_buffer :=
  mk_lb (lb_buf lb) (lb_pos lb + amt) (lb_last_lineterm lb) (lb_end lb) (lb_abs lb + amt) (lb_bin lb).

(* LineBuffer::roll: copy_within(pos..end, 0) *)
Definition lb_roll (lb : line_buffer) : line_buffer :=
  if Nat.eqb (lb_pos lb) (lb_end lb) then
    mk_lb (lb_buf lb) 0 0 0 (lb_abs lb) (lb_bin lb)
  else
    let roll_len := lb_end lb - lb_pos lb in
    let buf' := sub (lb_buf lb) (lb_pos lb) (lb_end lb) ++ skipn roll_len (lb_buf lb) in
    mk_lb buf' 0 roll_len roll_len (lb_abs lb) (lb_bin lb).

(* LineBuffer::ensure_capacity; None = alloc_error *)
Definition lb_ensure_capacity (cfg : lb_config) (lb : line_buffer) : option line_buffer :=
  if negb (Nat.eqb (lb_free_len lb) 0) then Some lb else
  let len := Nat.max 1 (length (lb_buf lb)) in
  let additional :=
    match cfg_alloc cfg with
    | AllocEager => Some (len * 2)
    | AllocError limit =>
      let used := length (lb_buf lb) - cfg_capacity cfg in
      let n := Nat.min (len * 2) (limit - used) in
      if Nat.eqb n 0 then None else Some n
    end in
  match additional with
  | None => None
  | Some a => Some (mk_lb (lb_buf lb ++ repeat 0%N a) (lb_pos lb) (lb_last_lineterm lb) (lb_end lb)
                          (lb_abs lb) (lb_bin lb))
  end.

(* bstr rfind_byte *)
Fixpoint memrchr_aux (b : byte) (l : bytes) (i : nat) (acc : option nat) : option nat :=
  match l with
  | [] => acc
  | x :: xs => memrchr_aux b xs (S i) (if N.eqb b x then Some i else acc)
  end.
Definition memrchr (b : byte) (l : bytes) : option nat := memrchr_aux b l 0 None.

(* replace_bytes: the three nested loops as written.
     first_pos = find_byte(src)?; bytes[first_pos] = replacement; bytes = &bytes[first_pos+1..];
     while let Some(i) = find_byte(src) { bytes[i] = repl; bytes = &bytes[i+1..];
         while bytes.get(0) == Some(&src) { bytes[0] = repl; bytes = &bytes[1..]; } }        *)
Fixpoint rb_inner (src rep : byte) (l : bytes) : bytes * bytes :=   (* (rewritten run, rest) *)
  match l with
  | x :: xs => if N.eqb x src then let (a, r) := rb_inner src rep xs in (rep :: a, r) else ([], l)
  | [] => ([], [])
  end.

Fixpoint rb_outer (fuel : nat) (src rep : byte) (l : bytes) : bytes :=
  match fuel with
  | 0 => l
  | S fuel' =>
    match memchr src l with
    | None => l
    | Some i =>
      let (run, rest) := rb_inner src rep (skipn (i + 1) l) in
      firstn i l ++ rep :: run ++ rb_outer fuel' src rep rest
    end
  end.

Definition replace_bytes (l : bytes) (src rep : byte) : bytes * option nat :=
  if N.eqb src rep then (l, None) else
  match memchr src l with
  | None => (l, None)
  | Some first_pos =>
    (firstn first_pos l ++ rep :: rb_outer (length l) src rep (skipn (first_pos + 1) l), Some first_pos)
  end.

(* ---- the reader ---- *)
Inductive read_op := RChunk (k : nat) | RErr.
(* rd_pre: bytes already pulled from the stream by a wrapper (encoding_rs_io's BomPeeker reads up to three
   bytes ahead); they are handed out first, as many as fit, without touching the history *)
Record reader := mk_rd { rd_pre : bytes; rd_data : bytes; rd_hist : list read_op }.
Inductive read_result := ReadOk (data : bytes) (r : reader) | ReadFail (r : reader).

Definition rd_read (r : reader) (free : nat) : read_result :=
  match rd_pre r with
  | _ :: _ =>
    let n := Nat.min free (length (rd_pre r)) in
    ReadOk (firstn n (rd_pre r)) (mk_rd (skipn n (rd_pre r)) (rd_data r) (rd_hist r))
  | [] =>
    match rd_hist r with
    | [] =>
      let n := Nat.min free (length (rd_data r)) in
      ReadOk (firstn n (rd_data r)) (mk_rd [] (skipn n (rd_data r)) [])
    | RChunk k :: h =>
      let n := Nat.min k (Nat.min free (length (rd_data r))) in
      ReadOk (firstn n (rd_data r)) (mk_rd [] (skipn n (rd_data r)) h)
    | RErr :: h => ReadFail (mk_rd [] (rd_data r) h)
    end
  end.

(* everything the reader will still deliver *)
Definition rd_rest (r : reader) : bytes := rd_pre r ++ rd_data r.

Inductive fill_result := FillMore (more : bool) | FillAllocErr | FillIoErr.

(* buf[oldend .. oldend+len data] = data *)
Definition write_at (buf : bytes) (at_ : nat) (data : bytes) : bytes :=
  firstn at_ buf ++ data ++ skipn (at_ + length data) buf.

(* the `loop` of LineBuffer::fill *)
Fixpoint lb_fill_loop (fuel : nat) (cfg : lb_config) (lb : line_buffer) (rd : reader)
  : option (fill_result * line_buffer * reader) :=
  match fuel with
  | 0 => None
  | S fuel' =>
    match lb_ensure_capacity cfg lb with
    | None => Some (FillAllocErr, lb, rd)
    | Some lb =>
      match rd_read rd (lb_free_len lb) with
      | ReadFail rd' => Some (FillIoErr, lb, rd')
      | ReadOk data rd' =>
        if Nat.eqb (length data) 0 then
          let lb' := mk_lb (lb_buf lb) (lb_pos lb) (lb_end lb) (lb_end lb) (lb_abs lb) (lb_bin lb) in
          Some (FillMore (negb (Nat.eqb (length (lb_buffer lb')) 0)), lb', rd')
        else
          let oldend := lb_end lb in
          let end' := oldend + length data in
          match cfg_binary cfg with
          | BQuit b =>
            match memchr b data with
            | Some i =>
              let e := oldend + i in
              let lb' := mk_lb (write_at (lb_buf lb) oldend data) (lb_pos lb) e e (lb_abs lb)
                               (Some (lb_abs lb + e)) in
              Some (FillMore (Nat.ltb (lb_pos lb) e), lb', rd')
            | None =>
              let buf' := write_at (lb_buf lb) oldend data in
              match memrchr (cfg_lineterm cfg) data with
              | Some i => Some (FillMore true,
                                mk_lb buf' (lb_pos lb) (oldend + i + 1) end' (lb_abs lb) (lb_bin lb), rd')
              | None => lb_fill_loop fuel' cfg
                          (mk_lb buf' (lb_pos lb) (lb_last_lineterm lb) end' (lb_abs lb) (lb_bin lb)) rd'
              end
            end
          | _ =>
            let '(newbytes, bin') :=
              match cfg_binary cfg with
              | BConvert b =>
                match replace_bytes data b (cfg_lineterm cfg) with
                | (d', Some i) =>
                  (d', match lb_bin lb with None => Some (lb_abs lb + (oldend + i)) | Some o => Some o end)
                | (d', None) => (d', lb_bin lb)
                end
              | _ => (data, lb_bin lb)
              end in
            let buf' := write_at (lb_buf lb) oldend newbytes in
            match memrchr (cfg_lineterm cfg) newbytes with
            | Some i => Some (FillMore true,
                              mk_lb buf' (lb_pos lb) (oldend + i + 1) end' (lb_abs lb) bin', rd')
            | None => lb_fill_loop fuel' cfg
                        (mk_lb buf' (lb_pos lb) (lb_last_lineterm lb) end' (lb_abs lb) bin') rd'
            end
          end
      end
    end
  end.

(* LineBuffer::fill.  Every iteration of the loop that does not return consumes at least one
   byte of the stream, so length (rd_rest rd) + 1 iterations always suffice (lemma
   lb_fill_fuel_suffices); None is returned only if that bound were wrong. *)
Definition lb_fill (cfg : lb_config) (lb : line_buffer) (rd : reader)
  : option (fill_result * line_buffer * reader) :=
  if is_quit (cfg_binary cfg) && (match lb_bin lb with Some _ => true | None => false end) then
    Some (FillMore (negb (Nat.eqb (length (lb_buffer lb)) 0)), lb, rd)
  else
    lb_fill_loop (S (length (rd_rest rd))) cfg (lb_roll lb) rd.
