(* Model/BinaryDetect.v — binary detection above the line buffer.  Mirrors
     crates/searcher/src/searcher/core.rs   Core::detect_binary, Core::binary_data, and the binary guard /
                                            break / event / reply skeleton of Core::sink_matched,
                                            sink_before_context, sink_after_context, sink_other_context
                                            (+ before_context_by_line's sink_break_context call order)
     crates/searcher/src/searcher/glue.rs   ReadByLine::{run, fill, should_binary_quit},
                                            SliceByLine::{run, byte_count}, MultiLine::{run (shell), byte_count}
     crates/printer/src/standard.rs         StandardSink::{begin, matched, context, context_break, binary_data,
                                            finish, should_quit, match_more_than_limit},
                                            StandardImpl::write_binary_message
     crates/printer/src/summary.rs          SummarySink::{begin, matched, binary_data, finish, should_quit},
                                            SummaryKind::quit_early   (kinds Count, PathWithMatch,
                                            PathWithoutMatch, Quiet; no stats; line mode)
     crates/core/flags/hiargs.rs            BinaryDetection::from_low_args
     crates/core/search.rs                  SearchWorker::search (implicit/explicit choice)
     crates/core/haystack.rs                Haystack::is_explicit
   The rest of Core (which lines are matched / are context, in which order, with which position) is
   abstract: a *plan* = the list of sink calls Core would make if every call succeeded.  Core's other
   bookkeeping changes only on success and a failure ends the search, so a plan + the replies determine
   the run.  A concrete plan generator for the context-free line-by-line search (`lite_plan`) is given for
   the correspondence runs.  Definitions only. *)
From RG Require Import Base.Bytes Model.LineBufferBin.

Inductive ctx_kind := KBefore | KAfter | KOther.

Inductive event :=
| EBegin
| EMatched (off : nat) (line : bytes)
| EContext (k : ctx_kind) (off : nat) (line : bytes)
| EBreak
| EBinary (off : nat)
| EFinish (byte_count : nat) (bin : option nat).

(* one planned sink call of Core *)
Record call := mk_call {
  c_matched : bool;          (* sink_matched, else one of the context sinks *)
  c_kind : ctx_kind;         (* which context sink (ignored for matched) *)
  c_start : nat;             (* range.start() in the buffer *)
  c_end : nat;               (* range.end() *)
  c_break : bool;            (* sink_break_context would call Sink::context_break here *)
  c_pos : nat }.             (* Core::pos() while this call is made *)

Section Searcher.
  Context {St : Type}.
  Variable sink : St -> event -> St * bool.          (* the Sink: new state, keep going? *)

  (* world = sink state + the events delivered so far, newest first *)
  Definition world : Type := St * list event.
  Definition emit (w : world) (ev : event) : world * bool :=
    let (s', r) := sink (fst w) ev in ((s', ev :: snd w), r).

  Variable mode : bin_mode.                         (* Config.binary *)

  (* Core::detect_binary (buf, range) with Core.binary_byte_offset = cb;
     result: (return value, new binary_byte_offset, world) *)
  Definition detect_binary (buf : bytes) (s e : nat) (cb : option nat) (w : world)
    : bool * option nat * world :=
    match cb with
    | Some _ => (is_quit mode, cb, w)
    | None =>
      match mode with
      | BNone => (false, cb, w)
      | BQuit b | BConvert b =>
        match memchr b (sub buf s e) with
        | Some i =>
          let offset := s + i in
          let (w', r) := emit w (EBinary offset) in
          if negb r then (true, Some offset, w') else (is_quit mode, Some offset, w')
        | None => (false, cb, w)
        end
      end
    end.

  (* the guard `if self.binary && self.detect_binary(buf, range)? { return Ok(false) }` *)
  Definition guard (binary : bool) (buf : bytes) (c : call) (cb : option nat) (w : world)
    : bool * option nat * world :=
    if binary then detect_binary buf (c_start c) (c_end c) cb w else (false, cb, w).

  Definition emit_break (c : call) (w : world) : world * bool :=
    if c_break c then emit w EBreak else (w, true).

  Definition call_event (abs : nat) (buf : bytes) (c : call) : event :=
    let line := sub buf (c_start c) (c_end c) in
    if c_matched c then EMatched (abs + c_start c) line else EContext (c_kind c) (abs + c_start c) line.

  (* one of the four sink functions of Core; result: (keep going, binary_byte_offset, world) *)
  Definition sink_call (binary : bool) (abs : nat) (buf : bytes) (c : call) (cb : option nat) (w : world)
    : bool * option nat * world :=
    let before_first := negb (c_matched c) && (match c_kind c with KBefore => true | _ => false end) in
    if before_first then
      (* before_context_by_line: sink_break_context, then sink_before_context (guard, event) *)
      let (w, r) := emit_break c w in
      if negb r then (false, cb, w) else
      let '(q, cb, w) := guard binary buf c cb w in
      if q then (false, cb, w) else
      let (w, r) := emit w (call_event abs buf c) in (r, cb, w)
    else
      let '(q, cb, w) := guard binary buf c cb w in
      if q then (false, cb, w) else
      let (w, r) := (if c_matched c then emit_break c w else (w, true)) in
      if negb r then (false, cb, w) else
      let (w, r) := emit w (call_event abs buf c) in (r, cb, w).

  (* deliver the planned calls until one fails; result: the call at which the search stopped *)
  Fixpoint run_calls (binary : bool) (abs : nat) (buf : bytes) (cs : list call) (cb : option nat) (w : world)
    : option call * option nat * world :=
    match cs with
    | [] => (None, cb, w)
    | c :: cs' =>
      let '(go, cb, w) := sink_call binary abs buf c cb w in
      if go then run_calls binary abs buf cs' cb w else (Some c, cb, w)
    end.

  (* ---- SliceByLine::run / MultiLine::run (shell): begin, sniff, the calls, byte_count, finish ---- *)
  Definition byte_count (cb : option nat) (pos : nat) : nat :=
    match cb with
    | Some offset => if Nat.ltb offset pos then offset else pos
    | None => pos
    end.

  Definition slice_run (sniff_cap : nat) (slice : bytes) (plan : list call) (final_pos : nat) (w : world)
    : world :=
    let (w, r) := emit w EBegin in
    let '(pos, cb, w) :=
      if r then
        let binary_upto := Nat.min (length slice) sniff_cap in
        let '(q, cb, w) := detect_binary slice 0 binary_upto None w in
        if q then (0, cb, w) else
        let '(stopped, cb, w) := run_calls true 0 slice plan cb w in
        (match stopped with Some c => c_pos c | None => final_pos end, cb, w)
      else (0, None, w) in
    fst (emit w (EFinish (byte_count cb pos) cb)).

  (* ---- ReadByLine over an abstract Core ---- *)
  Context {core : Type}.
  Variable c_roll : core -> bytes -> nat * core.                  (* Core::roll: consumed *)
  Variable c_plan : core -> bytes -> list call * bool * core.     (* Core::match_by_line(buf): the calls,
                                                                      its result if all succeed, new core *)
  Variable cfg : lb_config.

  Record rbl_state := mk_rs {
    rs_lb : line_buffer; rs_rd : reader; rs_core : core;
    rs_cabs : nat;                                              (* Core.absolute_byte_offset *)
    rs_w : world }.

  Inductive rbl_fill_result := RFGo (go : bool) | RFErr | RFStuck.

  (* ReadByLine::fill *)
  Definition rbl_fill (st : rbl_state) : rbl_fill_result * rbl_state :=
    let lb := rs_lb st in
    let already_binary := match lb_bin lb with Some _ => true | None => false end in
    let old_buf_len := length (lb_buffer lb) in
    let (consumed, core') := c_roll (rs_core st) (lb_buffer lb) in
    let cabs' := rs_cabs st + consumed in
    let lb := lb_consume lb consumed in
    match lb_fill cfg lb (rs_rd st) with
    | None => (RFStuck, st)
    | Some (FillAllocErr, lb, rd) | Some (FillIoErr, lb, rd) =>
      (RFErr, mk_rs lb rd core' cabs' (rs_w st))
    | Some (FillMore didread, lb, rd) =>
      let (w, notified_stop) :=
        if already_binary then (rs_w st, false) else
        match lb_bin lb with
        | Some offset => let (w, r) := emit (rs_w st) (EBinary offset) in (w, negb r)
        | None => (rs_w st, false)
        end in
      let st' := mk_rs lb rd core' cabs' w in
      if notified_stop then (RFGo false, st') else
      let should_binary_quit :=
        (match lb_bin lb with Some _ => true | None => false end) && is_quit (cfg_binary cfg) in
      if negb didread || should_binary_quit then (RFGo false, st') else
      if Nat.eqb consumed 0 && Nat.eqb old_buf_len (length (lb_buffer lb)) then
        (RFGo false, mk_rs (lb_consume lb old_buf_len) rd core' cabs' w)
      else (RFGo true, st')
    end.

  Inductive outcome := ODone | OErr | OFuel.

  (* while self.fill()? && self.core.match_by_line(self.rdr.buffer())? {} *)
  Fixpoint rbl_loop (fuel : nat) (st : rbl_state) : rbl_state * outcome :=
    match fuel with
    | 0 => (st, OFuel)
    | S fuel' =>
      match rbl_fill st with
      | (RFErr, st) => (st, OErr)
      | (RFStuck, st) => (st, OFuel)
      | (RFGo false, st) => (st, ODone)
      | (RFGo true, st) =>
        let buf := lb_buffer (rs_lb st) in
        let '(calls, go_all, core') := c_plan (rs_core st) buf in
        let '(stopped, _, w) := run_calls false (rs_cabs st) buf calls None (rs_w st) in
        let st' := mk_rs (rs_lb st) (rs_rd st) core' (rs_cabs st) w in
        match stopped with
        | Some _ => (st', ODone)
        | None => if go_all then rbl_loop fuel' st' else (st', ODone)
        end
      end
    end.

  (* ReadByLine::run (LineBufferReader::new clears the buffer first) *)
  Definition rbl_run (fuel : nat) (lb0 : line_buffer) (rd : reader) (core0 : core) (w : world)
    : world * outcome :=
    let (w, r) := emit w EBegin in
    let st := mk_rs (lb_clear lb0) rd core0 0 w in
    let (st, o) := if r then rbl_loop fuel st else (st, ODone) in
    match o with
    | ODone => (fst (emit (rs_w st) (EFinish (lb_abs (rs_lb st)) (lb_bin (rs_lb st)))), ODone)
    | _ => (rs_w st, o)
    end.
End Searcher.

(* ---- a concrete plan: context-free line-by-line search (what match_by_line_slow and the fast path both
        deliver when before_context = after_context = 0), matcher = "the line contains one of the needles" ---- *)
(* (start, end, bytes) of every line of l, l starting at offset i; cur = the current line so far, reversed.
   (S i, never i + 1: the extracted naturals are unary and must share structure) *)
Fixpoint line_ranges (lt : byte) (l : bytes) (s i : nat) (cur : bytes) : list (nat * nat * bytes) :=
  match l with
  | [] => match cur with [] => [] | _ => [(s, i, rev cur)] end
  | x :: xs => if N.eqb x lt then (s, S i, rev (x :: cur)) :: line_ranges lt xs (S i) (S i) []
               else line_ranges lt xs s (S i) (x :: cur)
  end.

Fixpoint contains (needle hay : bytes) : bool :=
  is_prefix_of needle hay || match hay with [] => false | _ :: t => contains needle t end.

(* c_pos: the slow path and the plain fast path set pos = line.end() before sinking a line; the inverted fast
   path (match_by_line_fast_invert) has already moved pos past the next line the matcher finds (or to the end
   of the buffer) while it sinks the lines of the inverted range *)
Fixpoint lite_calls (needles : list bytes) (invert passthru : bool) (buf_len : nat)
         (rs : list (nat * nat * bytes)) : list call * nat :=
  match rs with
  | [] => ([], buf_len)
  | (s, e, line) :: rs' =>
    let (rest, nxt) := lite_calls needles invert passthru buf_len rs' in
    let success := negb (Bool.eqb (existsb (fun n => contains n line) needles) invert) in
    if success then
      (mk_call true KOther s e false (if invert && negb passthru then nxt else e) :: rest, nxt)
    else
      ((if passthru then [mk_call false KOther s e false e] else []) ++ rest, e)
  end.

Definition lite_plan (needles : list bytes) (invert passthru : bool) (lt : byte) (buf : bytes) : list call :=
  fst (lite_calls needles invert passthru (length buf) (line_ranges lt buf 0 0 [])).

(* Core::roll with max_context() == 0: everything is consumed; the core has no other state here *)
Definition lite_roll (_ : unit) (buf : bytes) : nat * unit := (length buf, tt).
Definition lite_match (needles : list bytes) (invert passthru : bool) (lt : byte) (_ : unit) (buf : bytes)
  : list call * bool * unit := (lite_plan needles invert passthru lt buf, true, tt).

(* ---- decimal rendering ---- *)
Fixpoint dec_aux (fuel : nat) (n : N) (acc : bytes) : bytes :=
  match fuel with
  | 0 => acc
  | S f =>
    let acc' := (48 + N.modulo n 10)%N :: acc in
    if (N.div n 10 =? 0)%N then acc' else dec_aux f (N.div n 10) acc'
  end.
Definition dec (n : nat) : bytes := let m := N.of_nat n in dec_aux (S (N.size_nat m)) m [].

(* ---- the standard printer as a sink ---- *)
Record std_cfg := mk_std_cfg {
  sc_mode : bin_mode;                  (* searcher.binary_detection() *)
  sc_max_matches : option nat;
  sc_after_context : nat;              (* searcher.after_context() *)
  sc_path : option bytes;
  sc_lt : bytes;                       (* searcher.line_terminator().as_bytes() *)
  sc_sep : option bytes;               (* separator_context *)
  sc_dbg : byte -> bytes }.            (* format!("{:?}", [byte].as_bstr()) *)

Record std_sink := mk_std {
  ss_match_count : nat;
  ss_after_remaining : nat;
  ss_bin : option nat;
  ss_out : bytes }.

Section Standard.
  Variable cfg : std_cfg.
  Variable render : event -> bytes.    (* StandardImpl::from_match(..).sink() / from_context(..).sink() *)

  Definition std_should_quit (st : std_sink) : bool :=
    match sc_max_matches cfg with
    | None => false
    | Some limit => if Nat.ltb (ss_match_count st) limit then false else Nat.eqb (ss_after_remaining st) 0
    end.

  Definition std_more_than_limit (st : std_sink) : bool :=
    match sc_max_matches cfg with
    | None => false
    | Some limit => Nat.ltb limit (ss_match_count st)
    end.

  Definition is_convert (m : bin_mode) : bool := match m with BConvert _ => true | _ => false end.
  Definition is_some {A} (o : option A) : bool := match o with Some _ => true | None => false end.

  Definition path_prefix : bytes :=
    match sc_path cfg with Some p => p ++ (* ": " *) [58; 32]%N | None => [] end.

  (* StandardImpl::write_binary_message *)
  Definition binary_message (st : std_sink) (offset : nat) : bytes :=
    if Nat.eqb (ss_match_count st) 0 then [] else
    match sc_mode cfg with
    | BQuit b =>
      path_prefix ++ (* "WARNING: stopped searching binary file after match (found " *) [87; 65; 82; 78; 73; 78; 71; 58; 32; 115; 116; 111; 112; 112; 101; 100; 32; 115; 101; 97; 114; 99; 104; 105; 110; 103; 32; 98; 105; 110; 97; 114; 121; 32; 102; 105; 108; 101; 32; 97; 102; 116; 101; 114; 32; 109; 97; 116; 99; 104; 32; 40; 102; 111; 117; 110; 100; 32]%N
        ++ sc_dbg cfg b ++ (* " byte around offset " *) [32; 98; 121; 116; 101; 32; 97; 114; 111; 117; 110; 100; 32; 111; 102; 102; 115; 101; 116; 32]%N ++ dec offset ++ (* ")" *) [41]%N ++ [10%N]
    | BConvert b =>
      path_prefix ++ (* "binary file matches (found " *) [98; 105; 110; 97; 114; 121; 32; 102; 105; 108; 101; 32; 109; 97; 116; 99; 104; 101; 115; 32; 40; 102; 111; 117; 110; 100; 32]%N
        ++ sc_dbg cfg b ++ (* " byte around offset " *) [32; 98; 121; 116; 101; 32; 97; 114; 111; 117; 110; 100; 32; 111; 102; 102; 115; 101; 116; 32]%N ++ dec offset ++ (* ")" *) [41]%N ++ [10%N]
    | BNone => []
    end.

  Definition std_step (st : std_sink) (ev : event) : std_sink * bool :=
    match ev with
    | EBegin =>
      (mk_std 0 0 None (ss_out st),
       match sc_max_matches cfg with Some 0 => false | _ => true end)
    | EMatched _ _ =>
      let st1 := mk_std (ss_match_count st + 1) (ss_after_remaining st) (ss_bin st) (ss_out st) in
      let st2 := mk_std (ss_match_count st1)
                        (if std_more_than_limit st1 then ss_after_remaining st1 - 1 else sc_after_context cfg)
                        (ss_bin st1) (ss_out st1) in
      if is_convert (sc_mode cfg) && is_some (ss_bin st2) then (st2, false) else
      let st3 := mk_std (ss_match_count st2) (ss_after_remaining st2) (ss_bin st2) (ss_out st2 ++ render ev) in
      (st3, negb (std_should_quit st3))
    | EContext k _ _ =>
      let st1 := mk_std (ss_match_count st)
                        (match k with KAfter => ss_after_remaining st - 1 | _ => ss_after_remaining st end)
                        (ss_bin st) (ss_out st) in
      (* the line is not printed once binary data was seen in convert mode; the search goes on so that a
         later match still produces the notice *)
      if is_convert (sc_mode cfg) && is_some (ss_bin st1) then (st1, negb (std_should_quit st1)) else
      let st2 := mk_std (ss_match_count st1) (ss_after_remaining st1) (ss_bin st1) (ss_out st1 ++ render ev) in
      (st2, negb (std_should_quit st2))
    | EBreak =>
      (mk_std (ss_match_count st) (ss_after_remaining st) (ss_bin st)
              (ss_out st ++ match sc_sep cfg with Some sep => sep ++ sc_lt cfg | None => [] end), true)
    | EBinary off =>
      (mk_std (ss_match_count st) (ss_after_remaining st) (Some off) (ss_out st), true)
    | EFinish _ _ =>
      (mk_std (ss_match_count st) (ss_after_remaining st) (ss_bin st)
              (ss_out st ++ match ss_bin st with Some off => binary_message st off | None => [] end), true)
    end.
End Standard.

(* the rendering used by the correspondence runs: [path ':' | path '-'] line [terminator if missing]
   (no line numbers, no heading, no colour, no column, no replacement) *)
(* the lines of l, terminators kept (cur = current line, reversed) *)
Fixpoint split_keep (lt : byte) (l : bytes) (cur : bytes) : list bytes :=
  match l with
  | [] => match cur with [] => [] | _ => [rev cur] end
  | x :: xs => if N.eqb x lt then rev (x :: cur) :: split_keep lt xs [] else split_keep lt xs (x :: cur)
  end.

Definition simple_render (path : option bytes) (pterm : option byte) (lt : byte) (ev : event) : bytes :=
  (* PreludeWriter::write_path: the path is followed by the path terminator (-0/--null) if one is configured,
     else by the field separator (':' for a match, '-' for a context line); a multi-line match is written line
     by line, each with its prelude *)
  let pre (sep : byte) := match path with
                          | Some p => p ++ [match pterm with Some t => t | None => sep end]
                          | None => [] end in
  let body (l : bytes) := if is_suffix_of [lt] l then l else l ++ [lt] in
  let each (sep : byte) (l : bytes) := concat (map (fun ln => pre sep ++ body ln) (split_keep lt l [])) in
  match ev with
  | EMatched _ l => each 58%N l
  | EContext _ _ l => each 45%N l
  | _ => []
  end.

(* the plan of MultiLine for the pattern `\n`: every terminated line ends in a match and adjacent matching lines
   are merged, so there is one sink_matched call covering everything up to the last terminator, made during the
   final flush when Core::pos() is already the end of the slice *)
Definition ml_newline_plan (lt : byte) (buf : bytes) : list call :=
  match memrchr lt buf with
  | Some i => [mk_call true KOther 0 (S i) false (length buf)]
  | None => []
  end.

(* ---- the summary printer as a sink ---- *)
Inductive sum_kind := SKCount | SKPathWithMatch | SKPathWithoutMatch | SKQuiet.

Record sum_cfg := mk_sum_cfg {
  mc_mode : bin_mode;
  mc_kind : sum_kind;
  mc_max_matches : option nat;
  mc_exclude_zero : bool;
  mc_path : option bytes;
  mc_lt : bytes;
  mc_sep_field : bytes;              (* separator_field, ":" *)
  mc_path_term : option byte }.      (* path_terminator (-0/--null) *)

Record sum_sink := mk_sum { ms_match_count : nat; ms_bin : option nat; ms_out : bytes }.

Definition sum_quit_early (k : sum_kind) : bool :=
  match k with SKPathWithMatch | SKQuiet => true | _ => false end.

Definition sum_step (cfg : sum_cfg) (st : sum_sink) (ev : event) : sum_sink * bool :=
  match ev with
  | EBegin => (mk_sum 0 None (ms_out st), match mc_max_matches cfg with Some 0 => false | _ => true end)
  | EMatched _ _ =>
    let st1 := mk_sum (ms_match_count st + 1) (ms_bin st) (ms_out st) in
    if sum_quit_early (mc_kind cfg) then (st1, false) else
    (st1, match mc_max_matches cfg with None => true | Some limit => Nat.ltb (ms_match_count st1) limit end)
  | EContext _ _ _ | EBreak | EBinary _ => (st, true)
  | EFinish _ bin =>
    if is_some bin && is_quit (mc_mode cfg) then (mk_sum 0 bin (ms_out st), true) else
    (* write_path_field / write_path_line: the path terminator replaces the separator / the line terminator *)
    let path_field := match mc_path cfg with
                      | Some p => p ++ match mc_path_term cfg with Some t => [t] | None => mc_sep_field cfg end
                      | None => [] end in
    let path_line := match mc_path cfg with
                     | Some p => p ++ match mc_path_term cfg with Some t => [t] | None => mc_lt cfg end
                     | None => [] end in
    let show_count := negb (mc_exclude_zero cfg) || Nat.ltb 0 (ms_match_count st) in
    let o :=
      match mc_kind cfg with
      | SKCount => if show_count then path_field ++ dec (ms_match_count st) ++ mc_lt cfg else []
      | SKPathWithMatch => if Nat.ltb 0 (ms_match_count st) then path_line else []
      | SKPathWithoutMatch => if Nat.eqb (ms_match_count st) 0 then path_line else []
      | SKQuiet => []
      end in
    (mk_sum (ms_match_count st) bin (ms_out st ++ o), true)
  end.

(* ---- which detection a file gets: hiargs.rs BinaryDetection::from_low_args + search.rs SearchWorker::search ---- *)
Inductive binary_flag := BinAuto | BinSearchAndSuppress | BinAsText.    (* lowargs BinaryMode *)

Definition from_low_args (flag : binary_flag) (null_data : bool) : bin_mode * bin_mode :=   (* (explicit, implicit) *)
  let none := (match flag with BinAsText => true | _ => false end) || null_data in
  let convert := match flag with BinSearchAndSuppress => true | _ => false end in
  let explicit := if none then BNone else BConvert 0%N in
  let implicit := if none then BNone else if convert then BConvert 0%N else BQuit 0%N in
  (explicit, implicit).

(* Haystack::is_explicit *)
Definition is_explicit (is_stdin : bool) (depth : nat) (is_dir : bool) : bool :=
  is_stdin || (Nat.eqb depth 0 && negb is_dir).

Definition detection_for (flag : binary_flag) (null_data : bool) (explicit : bool) : bin_mode :=
  let (e, i) := from_low_args flag null_data in if explicit then e else i.
