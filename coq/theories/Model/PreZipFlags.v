(* Model/PreZipFlags.v — the flag-parsing state machine of the four flags that decide through which routine a file
   is read.  Mirrors (crates/core/flags/defs.rs):
     <Pre as Flag>::update        FlagValue::Value(v)      -> upd (EPre v)      (`--pre CMD`, `--pre=CMD`, `--pre ''`)
                                  FlagValue::Switch(false) -> upd ENoPre        (`--no-pre`)
     <SearchZip as Flag>::update  Switch(true)             -> upd EZip          (`-z`, `--search-zip`)
                                  Switch(false)            -> upd ENoZip        (`--no-search-zip`)
   and crates/core/flags/parse.rs::Parser::parse_low: the flags are applied to LowArgs::default() in command-line
   order (`final_state`).  The two LowArgs fields are `pre : Option<PathBuf>` and `search_zip : bool`; they
   become SearchWorker's `config.preprocessor` / `config.search_zip` unchanged (hiargs.rs). *)
From Coq Require Import List.
From RG Require Import Base.Bytes.
Import ListNotations.
Local Open Scope bool_scope.

Inductive pz_event :=
| EPre (cmd : bytes)      (* --pre CMD; CMD may be empty *)
| ENoPre                  (* --no-pre *)
| EZip                    (* -z / --search-zip *)
| ENoZip.                 (* --no-search-zip *)

Record pz_state := { pz_pre : option bytes; pz_zip : bool }.

Definition pz_init : pz_state := {| pz_pre := None; pz_zip := false |}.

Definition path_is_empty (p : bytes) : bool := match p with [] => true | _ => false end.

Definition upd (s : pz_state) (e : pz_event) : pz_state :=
  match e with
  | ENoPre => {| pz_pre := None; pz_zip := pz_zip s |}
  | EPre p =>
      let pre := if path_is_empty p then None else Some p in
      {| pz_pre := pre; pz_zip := match pre with Some _ => false | None => pz_zip s end |}
  | EZip => {| pz_pre := None; pz_zip := true |}
  | ENoZip => {| pz_pre := pz_pre s; pz_zip := false |}
  end.

Definition final_state (l : list pz_event) : pz_state := fold_left upd l pz_init.
