(* Model/Sink.v — what the searcher hands to a printer's Sink, and the pieces all three printers share.
   Mirrors
     crates/searcher/src/sink.rs        SinkMatch / SinkContext / SinkContextKind / SinkFinish (the data only)
     crates/searcher/src/searcher/glue.rs, core.rs   the order of Sink calls: begin, events until a
                                        `false` reply, finish  (run_sink; the prefix law itself is C16)
     crates/searcher/src/lines.rs       LineStep::next (line_spans), LineIter (count of lines)
     crates/printer/src/util.rs         find_iter_at_in_context
     crates/printer/src/lib.rs          MAX_LOOK_AHEAD
     crates/printer/src/counter.rs      CounterWriter (count / total_count / reset_count)
     crates/printer/src/stats.rs        Stats, add_*, AddAssign
     crates/printer/src/util.rs         DecimalFormatter::new / as_bytes
   The matcher is a Section variable.  Definitions only. *)
From RG Require Import Base.Bytes Model.MatchIter Model.Replace.

Definition MAX_LOOK_AHEAD : nat := 128.

Inductive ctx_kind := CBefore | CAfter | COther.

(* SinkMatch: buffer(), bytes_range_in_buffer(), line_number(), absolute_byte_offset() *)
Record sink_match := mkSM { m_buf : bytes; m_rs : nat; m_re : nat; m_lnum : option nat; m_off : nat }.
Definition m_bytes (m : sink_match) : bytes := sub (m_buf m) (m_rs m) (m_re m).
(* SinkContext: bytes(), kind(), line_number(), absolute_byte_offset() *)
Record sink_ctx := mkSC { c_bytes : bytes; c_kind : ctx_kind; c_lnum : option nat; c_off : nat }.

Inductive sevent :=
| SMatched (m : sink_match)
| SContext (c : sink_ctx)
| SBreak
| SBinary (off : nat).

(* SinkFinish: byte_count(), binary_byte_offset() *)
Record sfinish := mkFin { f_bytes : nat; f_bin : option nat }.

(* what a printer reads off the Searcher:
   line_terminator(), multi_line_with_matcher(&matcher), invert_match(), after_context(),
   binary_detection().quit_byte().is_some(), binary_detection().convert_byte().is_some() *)
Record senv := mkEnv { e_lt : lineterm; e_multi : bool; e_invert : bool; e_after : nat;
                       e_quit : bool; e_convert : bool }.

(* Result<bool, io::Error> of a Sink method *)
Inductive reply := Go | Halt | Fail.
Definition reply_of (keepgoing : bool) : reply := if keepgoing then Go else Halt.

(* ---- the searcher's side of the protocol ----
   begin; if it answers true the events in order until one is refused; then finish.  An Err from
   the sink aborts the search without finish.  A step returning None is the model out of fuel. *)
Section Run.
  Context {T : Type}.
  Variable begin : T -> T * reply.
  Variable step : sevent -> T -> option (T * reply).
  Variable finish : sfinish -> T -> T.

  (* k = number of events accepted so far; the result carries the index of the refused event, or
     the number of events when all were accepted *)
  Fixpoint feed (evs : list sevent) (k : nat) (s : T) : option (T * reply * nat) :=
    match evs with
    | [] => Some (s, Go, k)
    | e :: r =>
      match step e s with
      | None => None
      | Some (s', Go) => feed r (S k) s'
      | Some (s', rp) => Some (s', rp, k)
      end
    end.

  (* The SinkFinish the searcher hands over (byte count, binary offset) depends on where the search
     ended: fins 0 when begin refused, fins (1 + k) when event k was refused, fins (1 + length evs)
     after a complete search.
     result: final sink state and whether finish was called (false: the sink returned an error) *)
  Definition run_sink (evs : list sevent) (fins : nat -> sfinish) (s : T) : option (T * bool) :=
    match begin s with
    | (s1, Fail) => Some (s1, false)
    | (s1, Halt) => Some (finish (fins 0) s1, true)
    | (s1, Go) =>
      match feed evs 0 s1 with
      | None => None
      | Some (s2, Fail, _) => Some (s2, false)
      | Some (s2, _, k) => Some (finish (fins (1 + k)) s2, true)
      end
    end.
End Run.

(* ---- LineStep::next over bytes[0..len): successive (start, end), terminator included ---- *)
Fixpoint line_spans_aux (ltb : byte) (l : bytes) (start pos : nat) : list (nat * nat) :=
  match l with
  | [] => if Nat.ltb start pos then [(start, pos)] else []
  | b :: r =>
    if (b =? ltb)%N then (start, S pos) :: line_spans_aux ltb r (S pos) (S pos)
    else line_spans_aux ltb r start (S pos)
  end.
Definition line_spans (ltb : byte) (b : bytes) : list (nat * nat) := line_spans_aux ltb b 0 0.
(* SinkMatch::lines().count() *)
Definition line_count (lt : lineterm) (b : bytes) : nat := length (line_spans (lt_byte lt) b).

(* ---- find_iter_at_in_context ---- *)
Section Find.
  Variable find_at : bytes -> nat -> option (nat * nat).     (* matcher.find_at(haystack, at) *)

  (* the haystack the printer hands to the matcher *)
  Definition context_haystack (env : senv) (buf : bytes) (re : nat) : bytes :=
    if e_multi env then
      if Nat.leb MAX_LOOK_AHEAD (length buf - re) then firstn (re + MAX_LOOK_AHEAD) buf else buf
    else firstn (trim_line_terminator (e_lt env) buf 0 re) buf.

  Definition find_iter_at_in_context {St : Type} (env : senv) (buf : bytes) (rs re : nat)
             (matched : nat * nat -> St -> St * bool) (st : St) : option St :=
    let hay := context_haystack env buf re in
    iter_at (find_at hay) (fun m => m) (length hay)
            (fun m st => if Nat.leb re (fst m) then (st, false) else matched m st) rs st.

  (* the closure of StandardSink/JSONSink::record_matches: spans relative to the range start *)
  Definition push_rel (rs : nat) (m : nat * nat) (acc : list (nat * nat)) : list (nat * nat) * bool :=
    (acc ++ [(fst m - rs, snd m - rs)], true).
  (* the closure of SummarySink::matched *)
  Definition count_cb (_ : nat * nat) (n : nat) : nat * bool := (n + 1, true).
End Find.

(* ---- CounterWriter over a Vec<u8> ---- *)
Record wtr := mkW { w_out : bytes; w_count : nat; w_total : nat }.
Definition w_new : wtr := mkW [] 0 0.
Definition write (b : bytes) (w : wtr) : wtr := mkW (w_out w ++ b) (w_count w + length b) (w_total w).
Definition total_count (w : wtr) : nat := w_total w + w_count w.
Definition reset_count (w : wtr) : wtr := mkW (w_out w) 0 (w_total w + w_count w).

(* ---- Stats (elapsed time left out) ---- *)
Record stats := mkStats { s_searches : nat; s_with_match : nat; s_bytes_searched : nat;
                          s_bytes_printed : nat; s_matched_lines : nat; s_matches : nat }.
Definition stats_new : stats := mkStats 0 0 0 0 0 0.
Definition add_searches (n : nat) (s : stats) :=
  mkStats (s_searches s + n) (s_with_match s) (s_bytes_searched s) (s_bytes_printed s) (s_matched_lines s) (s_matches s).
Definition add_searches_with_match (n : nat) (s : stats) :=
  mkStats (s_searches s) (s_with_match s + n) (s_bytes_searched s) (s_bytes_printed s) (s_matched_lines s) (s_matches s).
Definition add_bytes_searched (n : nat) (s : stats) :=
  mkStats (s_searches s) (s_with_match s) (s_bytes_searched s + n) (s_bytes_printed s) (s_matched_lines s) (s_matches s).
Definition add_bytes_printed (n : nat) (s : stats) :=
  mkStats (s_searches s) (s_with_match s) (s_bytes_searched s) (s_bytes_printed s + n) (s_matched_lines s) (s_matches s).
Definition add_matched_lines (n : nat) (s : stats) :=
  mkStats (s_searches s) (s_with_match s) (s_bytes_searched s) (s_bytes_printed s) (s_matched_lines s + n) (s_matches s).
Definition add_matches (n : nat) (s : stats) :=
  mkStats (s_searches s) (s_with_match s) (s_bytes_searched s) (s_bytes_printed s) (s_matched_lines s) (s_matches s + n).
(* impl AddAssign<&Stats> for Stats *)
Definition stats_add (a b : stats) : stats :=
  mkStats (s_searches a + s_searches b) (s_with_match a + s_with_match b)
          (s_bytes_searched a + s_bytes_searched b) (s_bytes_printed a + s_bytes_printed b)
          (s_matched_lines a + s_matched_lines b) (s_matches a + s_matches b).

(* ---- DecimalFormatter::new(n).as_bytes(): at most MAX_U64_LEN = 20 digits ---- *)
Fixpoint decimal_loop (fuel : nat) (n : N) (acc : bytes) : bytes :=
  match fuel with
  | 0 => acc
  | S f =>
    let acc' := (48 + n mod 10)%N :: acc in
    let n' := (n / 10)%N in
    if (n' =? 0)%N then acc' else decimal_loop f n' acc'
  end.
Definition decimal_formatter (n : N) : bytes := decimal_loop 20 n [].
Definition dec (n : nat) : bytes := decimal_formatter (N.of_nat n).
