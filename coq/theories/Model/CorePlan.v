(* Model/CorePlan.v — the abstract *plan* of Model/BinaryDetect.v (the sink calls Core would make if every call
   succeeded) computed by the Core model of Model/SearcherCore.v (C03), which mirrors
     crates/searcher/src/searcher/core.rs   Core::{match_by_line, match_by_line_slow, match_by_line_fast,
                                            match_by_line_fast_invert, before/after/other_context_by_line, roll}
     crates/searcher/src/searcher/glue.rs   the `while ... match_by_line` loop of SliceByLine::run
   for every context configuration (-A/-B/-C, --passthru, --stop-on-nonmatch, -v).  The Core model is run with
   detection off and a sink that always continues; its log is the plan.  Core::pos() while a call is made (needed
   for byte_count when the search stops there) is read off a second run in which the sink stops at that call.
   Definitions only. *)
From RG Require Import Base.Bytes Model.LineBufferBin Model.BinaryDetect.
From RG Require Model.Lines Model.SearcherCore Model.Glue Model.ScriptedMatcher.

(* SearcherBuilder::build: passthru zeroes both context sizes *)
Definition plan_cfg (lt : byte) (invert : bool) (before after : nat) (passthru stop_on_nonmatch : bool)
  : SearcherCore.config :=
  {| SearcherCore.c_lt := LineTerm.LTByte lt;
     SearcherCore.c_invert := invert;
     SearcherCore.c_after := if passthru then 0 else after;
     SearcherCore.c_before := if passthru then 0 else before;
     SearcherCore.c_passthru := passthru;
     SearcherCore.c_line_number := false;
     SearcherCore.c_stop_on_nonmatch := stop_on_nonmatch;
     SearcherCore.c_binary := SearcherCore.BNone;
     SearcherCore.c_multi_line := false |}.

(* the matcher rg builds for `-F -e n1 -e n2 ...`: a line matches iff it contains one of the needles; it
   advertises the searcher's line terminator (fast path available), candidates are unconfirmed *)
Definition plan_matcher (cfg : SearcherCore.config) (needles : list bytes) : SearcherCore.matcher :=
  ScriptedMatcher.scripted cfg
    (map (fun n => {| ScriptedMatcher.n_anch := false; ScriptedMatcher.n_bytes := n;
                      ScriptedMatcher.n_real := true |}) needles)
    false 1%N.

Definition conv_kind (k : SearcherCore.ctx_kind) : ctx_kind :=
  match k with
  | SearcherCore.CBefore => KBefore
  | SearcherCore.CAfter => KAfter
  | SearcherCore.COther => KOther
  end.

(* the sink calls of a Core log (oldest first) as planned calls.  abs = absolute offset of the buffer;
   i = index of the head event among Core's sink calls; brk = a context_break precedes;
   pos_of i = Core::pos() while sink call i is made *)
Fixpoint calls_of (abs : nat) (pos_of : nat -> nat) (evs : list SearcherCore.event) (i : nat) (brk : bool)
  : list call :=
  match evs with
  | [] => []
  | SearcherCore.EBreak :: r => calls_of abs pos_of r (S i) true
  | SearcherCore.EMatched off _ b :: r =>
    mk_call true KOther (off - abs) (off - abs + length b) brk (pos_of i) :: calls_of abs pos_of r (S i) false
  | SearcherCore.EContext k off _ b :: r =>
    mk_call false (conv_kind k) (off - abs) (off - abs + length b) brk (pos_of i)
      :: calls_of abs pos_of r (S i) false
  | _ :: r => calls_of abs pos_of r (S i) brk
  end.

Definition all_continue (_ : nat) : SearcherCore.reply := SearcherCore.Continue.
Definition stop_at (k i : nat) : SearcherCore.reply :=
  if Nat.eqb i k then SearcherCore.Stop else SearcherCore.Continue.

(* a call no Core makes (start beyond end): marks a run of the Core model that ran out of fuel, so that the
   comparison with the code fails loudly instead of silently using an empty plan *)
Definition fuel_marker (n : nat) : call := mk_call true KOther (S n) 0 false 0.

(* ---- slice strategy: (plan, Core::pos() after an uninterrupted search) ---- *)
Definition core_slice_pos (cfg : SearcherCore.config) (M : SearcherCore.matcher) (s : bytes) (k : nat) : nat :=
  match Glue.slice_loop cfg M (stop_at k) (S (S (length s))) (SearcherCore.core_new cfg) s with
  | SearcherCore.OK _ c => SearcherCore.pos c
  | _ => 0
  end.

Definition core_slice_plan (cfg : SearcherCore.config) (M : SearcherCore.matcher) (s : bytes)
  : list call * nat :=
  match Glue.slice_loop cfg M all_continue (S (S (length s))) (SearcherCore.core_new cfg) s with
  | SearcherCore.OK _ c =>
    (calls_of 0 (core_slice_pos cfg M s) (rev (SearcherCore.log c)) 0 false, SearcherCore.pos c)
  | _ => ([fuel_marker (length s)], 0)
  end.

(* ---- reader strategy: Core::roll and Core::match_by_line on one buffer (c_pos is not used there) ---- *)
Definition core_roll (cfg : SearcherCore.config) (c : SearcherCore.core) (buf : bytes)
  : nat * SearcherCore.core := SearcherCore.roll cfg c buf.

Definition core_match (cfg : SearcherCore.config) (M : SearcherCore.matcher) (c : SearcherCore.core)
           (buf : bytes) : list call * bool * SearcherCore.core :=
  let c0 := SearcherCore.set_log c [] in
  match SearcherCore.match_by_line cfg M all_continue false c0 buf with
  | SearcherCore.OK b c' =>
    (calls_of (SearcherCore.abs_off c') (fun _ => SearcherCore.pos c') (rev (SearcherCore.log c')) 0 false, b, c')
  | _ => ([fuel_marker (length buf)], false, c0)
  end.
