(* Model/Json.v — mirrors crates/printer/src/json.rs and jsont.rs
     JSON::sink / sink_with_path
     JSONSink::{record_matches, should_quit, match_more_than_limit, write_begin_message}
     impl Sink for JSONSink: matched, context, binary_data, begin, finish
     SubMatches::new
     jsont::{Message, Begin, End, Match, Context, SubMatch} as a datatype (serde_json's text
       rendering is not modelled: the harness parses the real output and compares structurally)
     jsont::Data::from_bytes, base64_standard
   and std::str::from_utf8's accept/reject decision (utf8_valid; std is third-party: the
   correspondence check compares it on every generated line).  Definitions only. *)
From RG Require Import Base.Bytes Model.MatchIter Model.Replace Model.Sink Model.Standard.

(* ---- base64_standard ----  `>> k` is `/ 2^k`, `& 0b111111` is `mod 64`, `<< k` is `* 2^k`,
   `|` of values with disjoint bits is `+` *)
Definition B64_ALPHABET : bytes :=
  [65;66;67;68;69;70;71;72;73;74;75;76;77;78;79;80;81;82;83;84;85;86;87;88;89;90;
   97;98;99;100;101;102;103;104;105;106;107;108;109;110;111;112;113;114;115;116;117;118;119;120;121;122;
   48;49;50;51;52;53;54;55;56;57;43;47]%N.
Definition b64_char (i : N) : byte := nth_N B64_ALPHABET i 0%N.

Fixpoint base64_standard (b : bytes) : bytes :=
  match b with
  | b0 :: b1 :: b2 :: r =>
    let g := (b0 * 65536 + b1 * 256 + b2)%N in
    b64_char ((g / 262144) mod 64) :: b64_char ((g / 4096) mod 64) ::
    b64_char ((g / 64) mod 64) :: b64_char (g mod 64) :: base64_standard r
  | [b0] =>
    [b64_char ((b0 / 4) mod 64); b64_char ((b0 * 16) mod 64); 61; 61]%N
  | [b0; b1] =>
    let g := (b0 * 256 + b1)%N in
    [b64_char ((g / 1024) mod 64); b64_char ((g / 16) mod 64); b64_char ((g * 4) mod 64); 61]%N
  | [] => []
  end.

(* ---- std::str::from_utf8(bytes).is_ok(): the well-formed byte sequences of Unicode table 3-7 ---- *)
Definition in_range (lo hi b : N) : bool := (lo <=? b)%N && (b <=? hi)%N.
Definition is_cont (b : N) : bool := in_range 128 191 b.

Fixpoint utf8_valid (b : bytes) : bool :=
  match b with
  | [] => true
  | b0 :: r =>
    if (b0 <? 128)%N then utf8_valid r
    else if in_range 194 223 b0 then
      match r with b1 :: r1 => is_cont b1 && utf8_valid r1 | _ => false end
    else if in_range 224 239 b0 then
      match r with
      | b1 :: b2 :: r2 =>
        (if (b0 =? 224)%N then in_range 160 191 b1
         else if (b0 =? 237)%N then in_range 128 159 b1
         else is_cont b1) && is_cont b2 && utf8_valid r2
      | _ => false
      end
    else if in_range 240 244 b0 then
      match r with
      | b1 :: b2 :: b3 :: r3 =>
        (if (b0 =? 240)%N then in_range 144 191 b1
         else if (b0 =? 244)%N then in_range 128 143 b1
         else is_cont b1) && is_cont b2 && is_cont b3 && utf8_valid r3
      | _ => false
      end
    else false
  end.

(* Data: { "text": ... } or { "bytes": base64 } *)
Inductive jdata := JText (b : bytes) | JBytes (b64 : bytes).
Definition data_from_bytes (b : bytes) : jdata :=
  if utf8_valid b then JText b else JBytes (base64_standard b).

Record jsub := mkJSub { j_m : jdata; j_start : nat; j_end : nat }.
Inductive jmsg :=
| JBegin (path : option jdata)
| JMatch (path : option jdata) (lines : jdata) (lnum : option nat) (off : nat) (subs : list jsub)
| JContext (path : option jdata) (lines : jdata) (lnum : option nat) (off : nat) (subs : list jsub)
| JEnd (path : option jdata) (binoff : option nat) (st : stats).

Record jconfig := mkJCfg { j_max : option nat; j_always_begin_end : bool }.

(* bytes_printed needs serde_json's text length; it is not modelled (always 0 here, dropped by the
   harness) *)
Record jsink := mkJS { js_path : option bytes; js_match_count : nat; js_after_rem : nat;
                       js_bin : option nat; js_begin_printed : bool; js_stats : stats;
                       js_matches : list (nat * nat); js_out : list jmsg }.

Definition json_sink (path : option bytes) (out : list jmsg) : jsink :=
  mkJS path 0 0 None false stats_new [] out.

(* SubMatches::new(bytes, matches) *)
Definition submatches_new (b : bytes) (ms : list (nat * nat)) : list jsub :=
  map (fun m => mkJSub (data_from_bytes (sub b (fst m) (snd m))) (fst m) (snd m)) ms.

Section Json.
  Variable find_at : bytes -> nat -> option (nat * nat).
  Variable cfg : jconfig.
  Variable env : senv.

  Definition jpath (s : jsink) : option jdata := option_map data_from_bytes (js_path s).

  Definition json_record_matches (buf : bytes) (rs re : nat) : option (list (nat * nat)) :=
    match find_iter_at_in_context find_at env buf rs re (push_rel rs) [] with
    | None => None
    | Some ms =>
      match rev ms with
      | (s, e) :: rest => if Nat.eqb s e && Nat.leb (length buf) s then Some (rev rest) else Some ms
      | [] => Some ms
      end
    end.

  Definition js_should_quit (match_count after_rem : nat) : bool :=
    match j_max cfg with
    | None => false
    | Some limit => if Nat.ltb match_count limit then false else Nat.eqb after_rem 0
    end.
  Definition js_more_than_limit (match_count : nat) : bool :=
    match j_max cfg with
    | None => false
    | Some limit => Nat.ltb limit match_count
    end.

  Definition write_begin_message (s : jsink) : jsink :=
    if js_begin_printed s then s else
    mkJS (js_path s) (js_match_count s) (js_after_rem s) (js_bin s) true (js_stats s) (js_matches s)
         (js_out s ++ [JBegin (jpath s)]).

  Definition json_matched (m : sink_match) (s : jsink) : option (jsink * reply) :=
    let s := write_begin_message s in
    let mc := js_match_count s + 1 in
    let ar := if js_more_than_limit mc then js_after_rem s - 1 else e_after env in
    match json_record_matches (m_buf m) (m_rs m) (m_re m) with
    | None => None
    | Some ms =>
      let st := add_matched_lines (line_count (e_lt env) (m_bytes m)) (add_matches (length ms) (js_stats s)) in
      let msg := JMatch (jpath s) (data_from_bytes (m_bytes m)) (m_lnum m) (m_off m)
                        (submatches_new (m_bytes m) ms) in
      Some (mkJS (js_path s) mc ar (js_bin s) (js_begin_printed s) st ms (js_out s ++ [msg]),
            reply_of (negb (js_should_quit mc ar)))
    end.

  Definition json_context (c : sink_ctx) (s : jsink) : option (jsink * reply) :=
    let s := write_begin_message s in
    let ar := match c_kind c with CAfter => js_after_rem s - 1 | _ => js_after_rem s end in
    match (if e_invert env then json_record_matches (c_bytes c) 0 (length (c_bytes c)) else Some []) with
    | None => None
    | Some ms =>
      let msg := JContext (jpath s) (data_from_bytes (c_bytes c)) (c_lnum c) (c_off c)
                          (submatches_new (c_bytes c) ms) in
      Some (mkJS (js_path s) (js_match_count s) ar (js_bin s) (js_begin_printed s) (js_stats s) ms
                 (js_out s ++ [msg]),
            reply_of (negb (js_should_quit (js_match_count s) ar)))
    end.

  Definition json_step (e : sevent) (s : jsink) : option (jsink * reply) :=
    match e with
    | SMatched m => json_matched m s
    | SContext c => json_context c s
    | SBreak => Some (s, Go)
    | SBinary _ => Some (s, Go)
    end.

  Definition json_begin (s : jsink) : jsink * reply :=
    let s := mkJS (js_path s) 0 0 None (js_begin_printed s) (js_stats s) (js_matches s) (js_out s) in
    match j_max cfg with
    | Some 0 => (s, Halt)
    | _ => if negb (j_always_begin_end cfg) then (s, Go) else (write_begin_message s, Go)
    end.

  Definition json_finish (fin : sfinish) (s : jsink) : jsink :=
    let st := add_searches 1 (js_stats s) in
    let st := if Nat.ltb 0 (js_match_count s) then add_searches_with_match 1 st else st in
    let st := add_bytes_searched (f_bytes fin) st in
    (* a search that printed nothing gets no end message, but its statistics count *)
    if negb (js_begin_printed s) then
      mkJS (js_path s) (js_match_count s) (js_after_rem s) (f_bin fin) (js_begin_printed s) st (js_matches s) (js_out s)
    else
      mkJS (js_path s) (js_match_count s) (js_after_rem s) (f_bin fin) (js_begin_printed s) st (js_matches s)
           (js_out s ++ [JEnd (jpath s) (f_bin fin) st]).

  Definition json_run (path : option bytes) (evs : list sevent) (fins : nat -> sfinish) : option (jsink * bool) :=
    run_sink json_begin json_step json_finish evs fins (json_sink path []).
End Json.
