(* Proofs/LineLocalityProofs.v — line locality (C01): a match that lies inside the content of an
   LF-terminated line is the same whether the haystack is the whole buffer or the stripped line,
   for HIRs whose look-around assertions are LF line anchors or ASCII word assertions. *)
From RG Require Import Base.Bytes Base.BytesFacts Spec.RegexSem Model.RegexBuild Model.CoreLinePaths
  Proofs.RegexSemProofs Proofs.RegexBuildProofs Proofs.RegexLiteralProofs.

Section Locality.
  Variable buf : bytes.
  Variables a b : nat.
  Hypothesis Hab : a <= b <= length buf.

  Let content := sub buf a b.

  Lemma content_length : length content = b - a.
  Proof. unfold content, sub. rewrite firstn_length, skipn_length. lia. Qed.

  Lemma content_skipn i : skipn i content = firstn (b - a - i) (skipn (a + i) buf).
  Proof.
    unfold content, sub. rewrite skipn_firstn_comm. f_equal. rewrite Nat.add_comm. symmetry. apply skipn_add.
  Qed.

  Lemma nth_error_firstn' {A} (l : list A) m p : p < m -> nth_error (firstn m l) p = nth_error l p.
  Proof.
    revert m p; induction l as [|x xs IH]; intros [|m] [|p] H; cbn; try reflexivity; try lia.
    apply IH. lia.
  Qed.

  Lemma nth_error_skipn' {A} (l : list A) k p : nth_error (skipn k l) p = nth_error l (k + p).
  Proof. revert k; induction l as [|x xs IH]; intros [|k]; cbn; try reflexivity; [now destruct p|apply IH]. Qed.

  Lemma content_nth_error p : p < b - a -> nth_error content p = nth_error buf (a + p).
  Proof. intro Hp. unfold content, sub. rewrite nth_error_firstn' by exact Hp. apply nth_error_skipn'. Qed.

  Lemma byte_at_nth_error (s : bytes) p : byte_at s p = match nth_error s p with Some x => x | None => 0%N end.
  Proof.
    unfold byte_at. revert p; induction s as [|x xs IH]; intros [|p]; cbn; try reflexivity. apply IH.
  Qed.

  Lemma content_byte p : p < b - a -> byte_at content p = byte_at buf (a + p).
  Proof. intro Hp. rewrite !byte_at_nth_error. now rewrite content_nth_error. Qed.

  Lemma prefix_firstn_iff (lit t : bytes) m :
    is_prefix_of lit (firstn m t) = true <-> is_prefix_of lit t = true /\ length lit <= Nat.min m (length t).
  Proof.
    revert t m; induction lit as [|x xs IH]; intros t m; cbn.
    - split; [intros _; split; [reflexivity|lia]|reflexivity].
    - destruct t as [|y ys]; destruct m as [|m]; cbn.
      + split; [discriminate|intros [H _]; discriminate].
      + split; [discriminate|intros [H _]; discriminate].
      + split; [discriminate|intros [_ H]; lia].
      + rewrite !andb_true_iff, IH. split; [intros (H1 & H2 & H3); repeat split; auto; lia|].
        intros ((H1 & H2) & H3). repeat split; auto. lia.
  Qed.

  Lemma utf8_decode_firstn t m cp n :
    utf8_decode (firstn m t) = DOk cp n <-> utf8_decode t = DOk cp n /\ n <= m.
  Proof.
    unfold utf8_decode. destruct t as [|b0 r]; destruct m as [|m]; cbn [firstn].
    - split; [discriminate|intros [H _]; discriminate].
    - split; [discriminate|intros [H _]; discriminate].
    - split; [discriminate|]. intros [H Hn].
      destruct (utf8_len b0) as [[|[|[|[|k]]]]|]; try discriminate;
        do 3 (try (destruct r as [|? r]; try discriminate));
        try (destruct (_ && _); [|discriminate]); injection H as _ <-; lia.
    - destruct (utf8_len b0) as [[|[|[|[|k]]]]|]; try (split; [discriminate|intros [H _]; discriminate]).
      + (* Some 0 falls to the 4-byte arm *)
        destruct r as [|b1 [|b2 [|b3 r]]]; destruct m as [|[|[|m]]]; cbn [firstn];
          try (split; [discriminate|intros [H _]; discriminate]);
          try (split; [discriminate|intros [H Hn]; destruct (_ && _); [injection H as _ <-; lia|discriminate]]).
        destruct (_ && _); [|split; [discriminate|intros [H _]; discriminate]].
        split; [intro H; injection H as <- <-; split; [reflexivity|lia]|intros [H _]; exact H].
      + split; [intro H; injection H as <- <-; split; [reflexivity|lia]|intros [H _]; exact H].
      + destruct r as [|b1 r]; destruct m as [|m]; cbn [firstn];
          try (split; [discriminate|intros [H _]; discriminate]);
          try (split; [discriminate|intros [H Hn]; destruct (_ && _); [injection H as _ <-; lia|discriminate]]).
        destruct (_ && _); [|split; [discriminate|intros [H _]; discriminate]].
        split; [intro H; injection H as <- <-; split; [reflexivity|lia]|intros [H _]; exact H].
      + destruct r as [|b1 [|b2 r]]; destruct m as [|[|m]]; cbn [firstn];
          try (split; [discriminate|intros [H _]; discriminate]);
          try (split; [discriminate|intros [H Hn]; destruct (_ && _); [injection H as _ <-; lia|discriminate]]).
        destruct (_ && _); [|split; [discriminate|intros [H _]; discriminate]].
        split; [intro H; injection H as <- <-; split; [reflexivity|lia]|intros [H _]; exact H].
      + destruct r as [|b1 [|b2 [|b3 r]]]; destruct m as [|[|[|m]]]; cbn [firstn];
          try (split; [discriminate|intros [H _]; discriminate]);
          try (split; [discriminate|intros [H Hn]; destruct (_ && _); [injection H as _ <-; lia|discriminate]]).
        destruct (_ && _); [|split; [discriminate|intros [H _]; discriminate]].
        split; [intro H; injection H as <- <-; split; [reflexivity|lia]|intros [H _]; exact H].
  Qed.

  (* ---- look-around, LF lines: on both sides of the content there is a "\n" or the end of the buffer ---- *)
  Section LF.
  Hypothesis Hleft : a = 0 \/ byte_at buf (a - 1) = 10%N.
  Hypothesis Hright : b = length buf \/ byte_at buf b = 10%N.
  Lemma wb_local i : i <= b - a ->
    negb (Nat.eqb (a + i) 0) && is_word_byte (byte_at buf (a + i - 1))
    = negb (Nat.eqb i 0) && is_word_byte (byte_at content (i - 1)).
  Proof.
    intro Hi. destruct i as [|i'].
    - rewrite Nat.add_0_r. cbn [Nat.eqb negb andb]. destruct Hleft as [-> | E]; [reflexivity|].
      rewrite E. cbn. now rewrite andb_false_r.
    - replace (Nat.eqb (a + S i') 0) with false by (symmetry; apply Nat.eqb_neq; lia).
      cbn [Nat.eqb negb andb]. rewrite content_byte by lia. f_equal. f_equal. lia.
  Qed.

  Lemma wa_local i : i <= b - a ->
    Nat.ltb (a + i) (length buf) && is_word_byte (byte_at buf (a + i))
    = Nat.ltb i (length content) && is_word_byte (byte_at content i).
  Proof.
    intro Hi. rewrite content_length. destruct (Nat.eq_dec i (b - a)) as [->|Hne].
    - replace (a + (b - a)) with b by lia. rewrite Nat.ltb_irrefl. cbn [andb].
      destruct Hright as [-> | E]; [now rewrite Nat.ltb_irrefl|]. rewrite E. cbn. apply andb_false_r.
    - replace (Nat.ltb i (b - a)) with true by (symmetry; apply Nat.ltb_lt; lia).
      replace (Nat.ltb (a + i) (length buf)) with true by (symmetry; apply Nat.ltb_lt; lia).
      now rewrite content_byte by lia.
  Qed.

  Lemma start_lf_local i : i <= b - a ->
    Nat.eqb (a + i) 0 || (byte_at buf (a + i - 1) =? 10)%N = Nat.eqb i 0 || (byte_at content (i - 1) =? 10)%N.
  Proof.
    intro Hi. destruct i as [|i'].
    - rewrite Nat.add_0_r. cbn [Nat.eqb orb]. destruct Hleft as [-> | E]; [reflexivity|].
      rewrite E. cbn. apply orb_true_r.
    - replace (Nat.eqb (a + S i') 0) with false by (symmetry; apply Nat.eqb_neq; lia).
      cbn [Nat.eqb orb]. rewrite content_byte by lia. f_equal. f_equal. lia.
  Qed.

  Lemma end_lf_local i : i <= b - a ->
    Nat.eqb (a + i) (length buf) || (byte_at buf (a + i) =? 10)%N
    = Nat.eqb i (length content) || (byte_at content i =? 10)%N.
  Proof.
    intro Hi. rewrite content_length. destruct (Nat.eq_dec i (b - a)) as [->|Hne].
    - replace (a + (b - a)) with b by lia. rewrite (Nat.eqb_refl (b - a)). cbn [orb].
      destruct Hright as [-> | E]; [now rewrite Nat.eqb_refl|]. rewrite E. cbn. apply orb_true_r.
    - replace (Nat.eqb i (b - a)) with false by (symmetry; apply Nat.eqb_neq; lia).
      replace (Nat.eqb (a + i) (length buf)) with false by (symmetry; apply Nat.eqb_neq; lia).
      now rewrite content_byte by lia.
  Qed.

  Lemma look_local l i : local_look l = true -> i <= b - a ->
    look_matches l buf (a + i) = look_matches l content i.
  Proof.
    intros Hl Hi. pose proof (wb_local i Hi) as WB. pose proof (wa_local i Hi) as WA.
    destruct l; try discriminate; unfold look_matches.
    - apply start_lf_local; exact Hi.
    - apply end_lf_local; exact Hi.
    - now rewrite WB, WA.
    - now rewrite WB, WA.
    - now rewrite WB, WA.
    - now rewrite WB, WA.
    - now rewrite WB.
    - now rewrite WA.
  Qed.

  End LF.

  (* ---- look-around, CRLF lines: before the content there is a "\n" or the start of the buffer; after
          it the end of the buffer, or "\r\n", or a bare "\n" not preceded by "\r" ---- *)
  Section CRLF.
  Hypothesis Hleft : a = 0 \/ byte_at buf (a - 1) = 10%N.
  Hypothesis Hright : b = length buf \/ (byte_at buf b = 13%N /\ b < length buf) \/
                      (byte_at buf b = 10%N /\ b < length buf /\ (b = a \/ byte_at buf (b - 1) <> 13%N)).

  Lemma right_not_word : b < length buf -> is_word_byte (byte_at buf b) = false.
  Proof. intro H. destruct Hright as [E|[[E _]|[E _]]]; [lia|rewrite E; reflexivity|rewrite E; reflexivity]. Qed.

  Lemma wb_local_c i : i <= b - a ->
    negb (Nat.eqb (a + i) 0) && is_word_byte (byte_at buf (a + i - 1))
    = negb (Nat.eqb i 0) && is_word_byte (byte_at content (i - 1)).
  Proof.
    intro Hi. destruct i as [|i'].
    - rewrite Nat.add_0_r. cbn [Nat.eqb negb andb]. destruct Hleft as [-> | E]; [reflexivity|].
      rewrite E. cbn. now rewrite andb_false_r.
    - replace (Nat.eqb (a + S i') 0) with false by (symmetry; apply Nat.eqb_neq; lia).
      cbn [Nat.eqb negb andb]. rewrite content_byte by lia. f_equal. f_equal. lia.
  Qed.

  Lemma wa_local_c i : i <= b - a ->
    Nat.ltb (a + i) (length buf) && is_word_byte (byte_at buf (a + i))
    = Nat.ltb i (length content) && is_word_byte (byte_at content i).
  Proof.
    intro Hi. rewrite content_length. destruct (Nat.eq_dec i (b - a)) as [->|Hne].
    - replace (a + (b - a)) with b by lia. rewrite Nat.ltb_irrefl. cbn [andb].
      destruct (Nat.ltb b (length buf)) eqn:E; [|reflexivity]. apply Nat.ltb_lt in E. now rewrite right_not_word.
    - replace (Nat.ltb i (b - a)) with true by (symmetry; apply Nat.ltb_lt; lia).
      replace (Nat.ltb (a + i) (length buf)) with true by (symmetry; apply Nat.ltb_lt; lia).
      now rewrite content_byte by lia.
  Qed.

  Lemma start_crlf_local i : i <= b - a ->
    look_matches LStartCRLF buf (a + i) = look_matches LStartCRLF content i.
  Proof.
    intro Hi. unfold look_matches. rewrite content_length. destruct i as [|i'].
    - rewrite Nat.add_0_r. cbn [Nat.eqb orb]. destruct Hleft as [-> | E]; [reflexivity|].
      rewrite E. change ((10 =? 10)%N) with true. destruct (Nat.eqb a 0); reflexivity.
    - replace (Nat.eqb (a + S i') 0) with false by (symmetry; apply Nat.eqb_neq; lia).
      cbn [Nat.eqb orb]. replace (a + S i' - 1) with (a + i') by lia. replace (S i' - 1) with i' by lia.
      rewrite (content_byte i') by lia.
      destruct (byte_at buf (a + i') =? 13)%N eqn:E13; [|reflexivity]. cbn [andb]. f_equal.
      apply N.eqb_eq in E13.
      destruct (Nat.eq_dec (S i') (b - a)) as [En|Hne].
      + replace (a + S i') with b by lia. rewrite <- En. rewrite (Nat.leb_refl (S i')). cbn [orb].
        destruct Hright as [E|[[E _]|(E & Hlt & [Eab|Hprev])]].
        * rewrite E, Nat.leb_refl. reflexivity.
        * rewrite E. cbn. apply orb_true_r.
        * lia.
        * replace (b - 1) with (a + i') in Hprev by lia. congruence.
      + replace (Nat.leb (b - a) (S i')) with false by (symmetry; apply Nat.leb_gt; lia).
        replace (Nat.leb (length buf) (a + S i')) with false by (symmetry; apply Nat.leb_gt; lia).
        now rewrite content_byte by lia.
  Qed.

  Lemma end_crlf_local i : i <= b - a ->
    look_matches LEndCRLF buf (a + i) = look_matches LEndCRLF content i.
  Proof.
    intro Hi. unfold look_matches. rewrite content_length. destruct (Nat.eq_dec i (b - a)) as [->|Hne].
    - replace (a + (b - a)) with b by lia. rewrite (Nat.eqb_refl (b - a)). cbn [orb].
      destruct Hright as [E|[[E _]|(E & Hlt & Hprev)]].
      + rewrite E, Nat.eqb_refl. reflexivity.
      + rewrite E. change ((13 =? 13)%N) with true. destruct (Nat.eqb b (length buf)); reflexivity.
      + rewrite E. change ((10 =? 13)%N) with false. change ((10 =? 10)%N) with true.
        rewrite orb_false_r. cbn [andb].
        destruct Hprev as [Eab|Hprev].
        * subst b. destruct Hleft as [-> | E1]; [cbn [Nat.eqb orb]; apply orb_true_r|].
          rewrite E1. change ((10 =? 13)%N) with false. cbn [negb]. now rewrite !orb_true_r.
        * apply N.eqb_neq in Hprev. rewrite Hprev. cbn [negb]. now rewrite !orb_true_r.
    - replace (Nat.eqb i (b - a)) with false by (symmetry; apply Nat.eqb_neq; lia).
      replace (Nat.eqb (a + i) (length buf)) with false by (symmetry; apply Nat.eqb_neq; lia).
      cbn [orb]. rewrite content_byte by lia. f_equal. f_equal.
      destruct i as [|i'].
      + rewrite Nat.add_0_r. cbn [Nat.eqb orb]. destruct Hleft as [-> | E1]; [reflexivity|]. rewrite E1.
        change ((10 =? 13)%N) with false. cbn [negb]. now rewrite orb_true_r.
      + replace (Nat.eqb (a + S i') 0) with false by (symmetry; apply Nat.eqb_neq; lia). cbn [Nat.eqb orb].
        replace (a + S i' - 1) with (a + i') by lia. replace (S i' - 1) with i' by lia.
        now rewrite (content_byte i') by lia.
  Qed.

  Lemma look_local_crlf l i : local_look_crlf l = true -> i <= b - a ->
    look_matches l buf (a + i) = look_matches l content i.
  Proof.
    intros Hl Hi. pose proof (wb_local_c i Hi) as WB. pose proof (wa_local_c i Hi) as WA.
    destruct l; try discriminate.
    - now apply start_crlf_local.
    - now apply end_crlf_local.
    - unfold look_matches. now rewrite WB, WA.
    - unfold look_matches. now rewrite WB, WA.
    - unfold look_matches. now rewrite WB, WA.
    - unfold look_matches. now rewrite WB, WA.
    - unfold look_matches. now rewrite WB.
    - unfold look_matches. now rewrite WA.
  Qed.
  End CRLF.

  (* ---- the induction, for any set of looks that are local at this region ---- *)
  Section Ind.
  Variable ok : look -> bool.
  Hypothesis Hok : forall l i, ok l = true -> i <= b - a -> look_matches l buf (a + i) = look_matches l content i.
  Definition nonlocal (h : hir) : bool := has_look (fun l => negb (ok l)) h.

  Definition Loc (P1 P2 : nat -> nat -> Prop) : Prop :=
    forall p q, a <= p -> p <= q -> q <= b -> (P1 p q <-> P2 (p - a) (q - a)).

  Lemma RepM_local (P1 P2 : nat -> nat -> Prop) :
    (forall x y, P1 x y -> x <= y <= length buf) -> (forall x y, P2 x y -> x <= y <= b - a) ->
    Loc P1 P2 -> forall mn mx, Loc (RepM P1 (length buf) mn mx) (RepM P2 (b - a) mn mx).
  Proof.
    intros B1 B2 HL mn mx p q Hp Hpq Hq. split.
    - intro H. induction H as [mx i Hi|mn mx i k j Hmx HP HR IHR].
      + constructor. lia.
      + pose proof (B1 _ _ HP). pose proof (RepM_bounds _ _ _ _ _ _ B1 HR).
        econstructor; [exact Hmx| |apply IHR; lia]. apply (HL i k); [lia|lia|lia|exact HP].
    - intro H. remember (p - a) as i eqn:Ei. remember (q - a) as j eqn:Ej.
      revert p q Hp Hpq Hq Ei Ej. induction H as [mx i Hi|mn mx i k j Hmx HP HR IHR]; intros p q Hp Hpq Hq Ei Ej.
      + assert (p = q) by lia. subst q. constructor. lia.
      + pose proof (B2 _ _ HP). pose proof (RepM_bounds _ _ _ _ _ _ B2 HR).
        apply (RepMS _ _ _ _ _ (a + k) _ Hmx).
        * apply (HL p (a + k)); [lia|lia|lia|]. replace (a + k - a) with k by lia. now rewrite <- Ei.
        * apply IHR; lia.
  Qed.

  Theorem line_locality_aux : forall h, nonlocal h = false ->
    Loc (Matches h buf) (Matches h content).
  Proof.
    intro h. induction h as [|lit|rs|rs|l|mn mx g h IH|h IH|hs IH|hs IH] using hir_ind2;
      intros Hnl p q Hp Hpq Hq.
    - rewrite !matches_empty_iff, content_length. split; intros [H1 H2]; split; lia.
    - rewrite !matches_lit_iff, content_length, content_skipn.
      replace (a + (p - a)) with p by lia. rewrite prefix_firstn_iff, skipn_length.
      split.
      + intros (-> & H1 & H2). split; [lia|]. split; [lia|]. split; [exact H2|]. lia.
      + intros (H0 & H1 & H2 & H3). split; [lia|]. split; [lia|exact H2].
    - rewrite !matches_classb_iff. split.
      + intros (-> & x & Hx & Hr). split; [lia|]. exists x. split; [|exact Hr].
        rewrite content_nth_error by lia. now replace (a + (p - a)) with p by lia.
      + intros (H0 & x & Hx & Hr).
        assert (p - a < b - a).
        { rewrite <- content_length. apply nth_error_Some. congruence. }
        split; [lia|]. exists x. split; [|exact Hr].
        rewrite content_nth_error in Hx by lia. now replace (a + (p - a)) with p in Hx by lia.
    - rewrite !matches_classu_iff, content_length, content_skipn.
      replace (a + (p - a)) with p by lia. split.
      + intros (H0 & cp & n & -> & Hd & Hr). split; [lia|]. exists cp, n. split; [lia|].
        split; [|exact Hr]. apply utf8_decode_firstn. split; [exact Hd|lia].
      + intros (H0 & cp & n & H1 & Hd & Hr). apply utf8_decode_firstn in Hd as [Hd Hn].
        split; [lia|]. exists cp, n. split; [lia|]. auto.
    - rewrite !matches_look_iff, content_length. cbn in Hnl. apply negb_false_iff in Hnl.
      pose proof (Hok l (p - a) Hnl ltac:(lia)) as E. replace (a + (p - a)) with p in E by lia.
      rewrite E. split; intros (H1 & H2 & H3); repeat split; auto; lia.
    - rewrite !matches_rep_iff, content_length.
      apply (RepM_local (Matches h buf) (Matches h content)); auto.
      * apply matches_bounds.
      * intros x y M. apply matches_bounds in M. now rewrite content_length in M.
    - rewrite !matches_cap_iff. apply IH; auto.
    - cbn in Hnl. revert p q Hp Hpq Hq. induction IH as [|x xs Hx Hxs IHl]; intros p q Hp Hpq Hq.
      + rewrite !matches_concat_nil_iff, content_length. split; intros [H1 H2]; split; lia.
      + apply orb_false_iff in Hnl as [N1 N2]. rewrite !matches_concat_cons_iff. split.
        * intros (k & M1 & M2). pose proof (matches_bounds _ _ _ _ M1). pose proof (matches_bounds _ _ _ _ M2).
          exists (k - a). split; [apply (Hx N1 p k); auto; lia|apply (IHl N2 k q); auto; lia].
        * intros (k & M1 & M2). pose proof (matches_bounds _ _ _ _ M1) as B1. pose proof (matches_bounds _ _ _ _ M2) as B2.
          rewrite content_length in B2.
          exists (a + k). split.
          -- apply (Hx N1 p (a + k)); [lia|lia|lia|]. now replace (a + k - a) with k by lia.
          -- apply (IHl N2 (a + k) q); [lia|lia|lia|]. now replace (a + k - a) with k by lia.
    - cbn in Hnl. induction IH as [|x xs Hx Hxs IHl].
      + rewrite !matches_alt_nil_iff. tauto.
      + apply orb_false_iff in Hnl as [N1 N2]. rewrite !matches_alt_cons_iff.
        rewrite (Hx N1 p q Hp Hpq Hq), (IHl N2). tauto.
  Qed.
  End Ind.
End Locality.

(* the statement of Props/C01.v *)
Theorem line_locality_partial_proof : forall h buf a b i j,
  local_looks h = true ->
  a <= b <= length buf ->
  (a = 0 \/ byte_at buf (a - 1) = 10%N) -> (b = length buf \/ byte_at buf b = 10%N) ->
  i <= j <= b - a ->
  (Matches h buf (a + i) (a + j) <-> Matches h (sub buf a b) i j).
Proof.
  intros h buf a b i j Hl Hab HL HR Hij. unfold local_looks in Hl. apply negb_true_iff in Hl.
  pose proof (line_locality_aux buf a b Hab local_look (look_local buf a b Hab HL HR) h Hl
                (a + i) (a + j) ltac:(lia) ltac:(lia) ltac:(lia)) as H.
  replace (a + i - a) with i in H by lia. replace (a + j - a) with j in H by lia. exact H.
Qed.

(* CRLF lines: the content region is followed by the end of the buffer, by "\r\n", or by a bare "\n"
   that is not preceded by "\r"; local look-around = CRLF line anchors and ASCII word assertions *)
Theorem line_locality_crlf_proof : forall h buf a b i j,
  local_looks_crlf h = true ->
  a <= b <= length buf ->
  (a = 0 \/ byte_at buf (a - 1) = 10%N) ->
  (b = length buf \/ (byte_at buf b = 13%N /\ b < length buf) \/
   (byte_at buf b = 10%N /\ b < length buf /\ (b = a \/ byte_at buf (b - 1) <> 13%N))) ->
  i <= j <= b - a ->
  (Matches h buf (a + i) (a + j) <-> Matches h (sub buf a b) i j).
Proof.
  intros h buf a b i j Hl Hab HL HR Hij. unfold local_looks_crlf in Hl. apply negb_true_iff in Hl.
  pose proof (line_locality_aux buf a b Hab local_look_crlf (look_local_crlf buf a b Hab HL HR) h Hl
                (a + i) (a + j) ltac:(lia) ltac:(lia) ltac:(lia)) as H.
  replace (a + i - a) with i in H by lia. replace (a + j - a) with j in H by lia. exact H.
Qed.
