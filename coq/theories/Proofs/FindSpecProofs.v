(* Proofs/FindSpecProofs.v — find_by_line_fast meets its contract (Proofs/FastPathProofs.v find_spec)
   for every matcher whose find_candidate_line obeys the candidate contract of grep-matcher on
   whole-line buffers: "no line before the candidate's line matches; a Confirmed candidate lies in a
   line that matches". *)
From RG Require Import Base.Bytes Base.BytesFacts Model.Lines Model.SearcherCore Model.Glue Spec.GrepSpec
  Proofs.LinesProofs Proofs.SlowPathProofs Proofs.FuelProofs Proofs.FastPathProofs.

Ltac len := cbn [length] in *; rewrite ?app_length in *; cbn [length] in *; lia.

Section FS.
  Variable cfg : config.
  Variable M : matcher.
  Variable s : bytes.
  Notation ltb := (lt_byte (c_lt cfg)).
  Notation pm := (pmatch cfg M).

  (* position x (relative to the start of the lines ls) falls in line l = the line after pre *)
  Definition in_line (pre : list bytes) (l : bytes) (post : list bytes) (x : nat) : Prop :=
    length (concat pre) <= x /\
    (x < length (concat pre) + length l \/
     (post = [] /\ x = length (concat pre) + length l /\ partial ltb l)).

  (* the candidate contract, for the rest of the buffer starting at the line boundary p *)
  Definition cand_ok : Prop :=
    forall p ls, lines_at cfg s ls p -> ls <> [] ->
      match m_find_candidate M (skipn p s) with
      | None => Forall (fun l => pm l = false) ls
      | Some (conf, i) =>
        (exists pre l post, ls = pre ++ l :: post /\ Forall (fun x => pm x = false) pre /\ in_line pre l post i /\
                            (conf = true -> lt_is_crlf (c_lt cfg) = false -> pm l = true))
        \/ (conf = true /\ i = length (concat ls) /\ Forall (fun l => pm l = false) ls /\
            (exists pre l, ls = pre ++ [l] /\ terminated ltb l))
      end.

  (* locate maps a position inside a line to that line *)
  Lemma rfind_app_nolt a b : no_lt ltb b -> rfind_byte ltb (a ++ b) = rfind_byte ltb a.
  Proof.
    intro Hb. induction a as [|x a IH]; cbn [app rfind_byte].
    - apply rfind_nolt. exact Hb.
    - rewrite IH. reflexivity.
  Qed.

  Lemma rfind_concat_terminated pre : Forall (terminated ltb) pre ->
    rfind_byte ltb (concat pre) = match pre with [] => None | _ => Some (length (concat pre) - 1) end.
  Proof.
    intro H. destruct pre as [|l0 pre0] eqn:E; [reflexivity|]. rewrite <- E in *.
    destruct (rev pre) as [|l r] eqn:Er.
    { apply (f_equal (@rev _)) in Er. rewrite rev_involutive in Er. subst. discriminate. }
    apply (f_equal (@rev _)) in Er. rewrite rev_involutive in Er. cbn [rev] in Er.
    assert (Hl : terminated ltb l).
    { rewrite Er in H. apply Forall_app in H as [_ H]. inversion H; assumption. }
    destruct Hl as (body & -> & Hbody).
    rewrite Er. rewrite concat_app. cbn [concat]. rewrite app_nil_r.
    rewrite app_assoc. change [ltb] with (ltb :: []). rewrite rfind_app_term by reflexivity.
    f_equal. len.
  Qed.

  Notation bnd := (bnd cfg s).

  Lemma lines_seq_sub : forall pre p, lines_seq cfg s pre p -> Forall (terminated ltb) pre ->
    sub s p (p + length (concat pre)) = concat pre /\ p + length (concat pre) <= length s \/ pre = [].
  Proof.
    induction pre as [|x r IH]; intros p H Ht; [right; reflexivity|]. left.
    destruct H as ((Hsub & Hb & _) & _ & Hr). inversion Ht as [|? ? Hx Hr']; subst.
    cbn [concat]. rewrite app_length, Nat.add_assoc.
    destruct (IH (p + length x) Hr Hr') as [[I1 I2] | ->].
    - split; [|exact I2]. rewrite (sub_app_adj s p (p + length x)) by lia. now rewrite Hsub, I1.
    - cbn [concat length]. rewrite Nat.add_0_r, app_nil_r. split; [exact Hsub|exact Hb].
  Qed.

  Lemma firstn_as_sub (x p q : nat) : p <= q -> q <= x -> x <= length s ->
    firstn x s = firstn p s ++ sub s p q ++ sub s q x.
  Proof.
    intros H1 H2 H3. rewrite (firstn_sub s x). rewrite (sub_app_adj s 0 p x) by lia.
    rewrite <- (firstn_sub s p). f_equal. apply sub_app_adj; lia.
  Qed.

  Lemma locate_in_line pre l post p i :
    lines_at cfg s (pre ++ l :: post) p -> bnd p -> in_line pre l post i ->
    locate ltb s (p + i) (p + i) = (p + length (concat pre), p + length (concat pre) + length l).
  Proof.
    intros Hat Hbnd (Hi1 & Hi2).
    destruct (lines_at_split cfg s pre l post p Hat) as (Hseq & Hterm & Hnl & Hlterm & Hpost).
    pose proof (lines_at_total cfg s _ _ Hat) as Htot. rewrite concat_app, app_length in Htot. cbn [concat] in Htot.
    rewrite app_length in Htot.
    set (q := p + length (concat pre)) in *.
    destruct Hnl as (Hsubl & Hbl & Hshape).
    set (k := i - length (concat pre)).
    assert (Hk : p + i = q + k) by (unfold q, k; lia).
    assert (Hkl : k <= length l) by (unfold k; destruct Hi2 as [H|(_ & H & _)]; lia).
    (* the bytes of l before position k contain no terminator *)
    assert (Hpre_nolt : no_lt ltb (firstn k l)).
    { destruct Hi2 as [Hlt|(Hp0 & Hx & Hpart)].
      - destruct Hshape as [(body & -> & Hbody)|[(Hne & Hn) _]].
        + assert (k <= length body) by (unfold k; rewrite app_length in Hlt; cbn in Hlt; lia).
          rewrite firstn_app. replace (k - length body) with 0 by lia. cbn [firstn]. rewrite app_nil_r.
          unfold no_lt in *. rewrite <- (firstn_skipn k body) in Hbody. rewrite forallb_app in Hbody.
          apply andb_true_iff in Hbody. tauto.
        + unfold no_lt in *. rewrite <- (firstn_skipn k l) in Hn. rewrite forallb_app in Hn. apply andb_true_iff in Hn. tauto.
      - destruct Hpart as [_ Hn]. unfold no_lt in *. rewrite <- (firstn_skipn k l) in Hn. rewrite forallb_app in Hn.
        apply andb_true_iff in Hn. tauto. }
    assert (Hsubk : sub s q (q + k) = firstn k l).
    { rewrite <- Hsubl. unfold sub. rewrite firstn_firstn. f_equal; lia. }
    assert (Hpq : sub s p q = concat pre).
    { destruct (lines_seq_sub pre p Hseq Hterm) as [[H _] | ->]; [exact H|].
      unfold q. cbn [concat length]. unfold sub. replace (p + 0 - p) with 0 by lia. reflexivity. }
    assert (Hfirst : firstn (p + i) s = firstn p s ++ concat pre ++ firstn k l).
    { rewrite Hk. rewrite (firstn_as_sub (q + k) p q) by (unfold q; lia). now rewrite Hpq, Hsubk. }
    unfold locate.
    (* line start *)
    assert (Hstart : match rfind_byte ltb (firstn (p + i) s) with Some j => j + 1 | None => 0 end = q).
    { rewrite Hfirst. rewrite app_assoc. rewrite rfind_app_nolt by exact Hpre_nolt.
      destruct (rev pre) as [|x r] eqn:Er.
      - apply (f_equal (@rev _)) in Er. rewrite rev_involutive in Er. cbn [rev] in Er.
        unfold q. rewrite Er. cbn [concat length]. rewrite app_nil_r, Nat.add_0_r.
        destruct Hbnd as [-> | Hb]; [reflexivity|].
        destruct (Nat.eq_dec p 0) as [-> | Hp0]; [reflexivity|].
        assert (Hlen : length (firstn p s) = p) by (rewrite firstn_length; lia).
        rewrite (rfind_last ltb (firstn p s)).
        + rewrite Hlen. lia.
        + intro E. rewrite E in Hlen. cbn in Hlen. lia.
        + rewrite Hlen. rewrite nth_error_firstn_lt by lia. exact Hb.
      - apply (f_equal (@rev _)) in Er. rewrite rev_involutive in Er. cbn [rev] in Er.
        assert (Hx : terminated ltb x).
        { rewrite Er in Hterm. apply Forall_app in Hterm as [_ H]. inversion H; assumption. }
        destruct Hx as (body & -> & Hbody).
        rewrite Er. rewrite concat_app. cbn [concat]. rewrite app_nil_r.
        rewrite !app_assoc. change [ltb] with (ltb :: []).
        rewrite <- (app_assoc _ body). rewrite <- app_assoc. rewrite (app_assoc (firstn p s)). rewrite (app_assoc _ body).
        rewrite rfind_app_term by reflexivity.
        unfold q. rewrite Er, concat_app. cbn [concat]. rewrite app_nil_r.
        assert (Hlen : length (firstn p s) = p) by (rewrite firstn_length; lia).
        rewrite !app_length, Hlen. cbn [length]. lia. }
    rewrite Hstart.
    (* line end *)
    assert (Hcond : Nat.ltb q (p + i) && (match nth_error s (p + i - 1) with Some b => (b =? ltb)%N | None => false end) = false).
    { destruct (Nat.ltb_spec q (p + i)) as [Hlt|Hge]; [|reflexivity]. cbn [andb].
      assert (Hk1 : 1 <= k) by lia.
      assert (Hn : nth_error s (p + i - 1) = nth_error (firstn k l) (k - 1)).
      { rewrite <- Hsubk. rewrite nth_error_sub by lia. f_equal. lia. }
      rewrite Hn. destruct (nth_error (firstn k l) (k - 1)) as [b|] eqn:Eb; [|reflexivity].
      apply nth_error_In in Eb. unfold no_lt in Hpre_nolt. rewrite forallb_forall in Hpre_nolt.
      specialize (Hpre_nolt b Eb). apply negb_true_iff in Hpre_nolt. now rewrite N.eqb_sym. }
    rewrite Hcond. f_equal.
    assert (Hskip : skipn (p + i) s = skipn k l ++ skipn (q + length l) s).
    { rewrite (sub_decompose s q (q + length l)) at 1 by lia. rewrite Hsubl.
      assert (Hlen : length (firstn q s) = q) by (rewrite firstn_length; lia).
      rewrite Hk. rewrite skipn_app. rewrite skipn_all2 by lia. cbn [app].
      rewrite Hlen. replace (q + k - q) with k by lia.
      rewrite skipn_app. f_equal. replace (k - length l) with 0 by lia. reflexivity. }
    rewrite Hskip.
    destruct Hshape as [(body & El & Hbody)|[(Hne & Hn) Hend]].
    - assert (Hkb : k <= length body).
      { destruct Hi2 as [Hlt|(_ & Hx & [_ Hn])]; [rewrite El, app_length in Hlt; cbn in Hlt; unfold k; lia|].
        exfalso. rewrite El in Hn. unfold no_lt in Hn. rewrite forallb_app in Hn. cbn in Hn. rewrite N.eqb_refl in Hn.
        cbn in Hn. rewrite andb_false_r in Hn. discriminate. }
      rewrite El. rewrite skipn_app. replace (k - length body) with 0 by lia. cbn [skipn].
      rewrite <- app_assoc. rewrite find_byte_app_nolt.
      + cbn [app]. unfold find_byte, memchr. cbn [find_index]. rewrite N.eqb_refl. cbn [option_map].
        rewrite skipn_length. rewrite app_length. cbn [length]. lia.
      + unfold no_lt in *. rewrite <- (firstn_skipn k body) in Hbody. rewrite forallb_app in Hbody.
        apply andb_true_iff in Hbody. tauto.
    - (* last, unterminated line *)
      assert (Hend' : skipn (q + length l) s = []) by (apply skipn_all2; lia).
      rewrite Hend', app_nil_r.
      rewrite find_byte_nolt.
      + lia.
      + unfold no_lt in *. rewrite <- (firstn_skipn k l) in Hn. rewrite forallb_app in Hn. apply andb_true_iff in Hn. tauto.
  Qed.

  Hypothesis Hcand : cand_ok.

  (* a position at the very end, after a terminated last line, belongs to no line *)
  Lemma locate_at_end pre l p : lines_at cfg s (pre ++ [l]) p -> terminated ltb l ->
    fst (locate ltb s (length s) (length s)) = length s.
  Proof.
    intros Hat (body & -> & Hbody).
    destruct (lines_at_split cfg s pre (body ++ [ltb]) [] p Hat) as (_ & _ & (Hsub & Hb & _) & _ & Hend).
    cbn [lines_at] in Hend.
    unfold locate. cbn [fst]. rewrite firstn_all.
    assert (Hlast : nth_error s (length s - 1) = Some ltb).
    { assert (Hn : nth_error (sub s (p + length (concat pre)) (p + length (concat pre) + length (body ++ [ltb]))) (length body) = Some ltb).
      { rewrite Hsub. rewrite nth_error_app2 by lia. replace (length body - length body) with 0 by lia. reflexivity. }
      rewrite nth_error_sub in Hn by len. rewrite <- Hn. f_equal. len. }
    assert (Hne : s <> []) by (intro E; rewrite E in Hlast; cbn in Hlast; discriminate).
    rewrite (rfind_last ltb s Hne Hlast).
    destruct s; [congruence|cbn; lia].
  Qed.

  Lemma find_fast_spec : forall fuel ls p,
    lines_at cfg s ls p -> bnd p -> length s - p < fuel ->
    match find_fast_loop cfg M fuel s p with
    | None => False
    | Some None => Forall (fun l => pm l = false) ls
    | Some (Some (q, e)) =>
      exists pre l post, ls = pre ++ l :: post /\ Forall (fun x => pm x = false) pre /\ pm l = true /\
                         q = p + length (concat pre) /\ e = q + length l
    end.
  Proof.
    induction fuel as [|f IH]; intros ls p Hat Hb Hf; [lia|].
    cbn [find_fast_loop]. unfold ltb_.
    pose proof (lines_at_total cfg s ls p Hat) as Htot.
    pose proof (lines_count cfg s ls p Hat) as Hcnt.
    destruct (Nat.leb_spec (length s) p) as [Hend|Hlt].
    { assert (ls = []) by (destruct ls; [reflexivity|cbn in Hcnt; lia]). subst. constructor. }
    assert (Hne : ls <> []) by (intro E; subst; cbn in Htot; lia).
    pose proof (Hcand p ls Hat Hne) as Hc.
    destruct (m_find_candidate M (skipn p s)) as [[conf i]|]; [|exact Hc].
    destruct Hc as [(pre & l & post & -> & Hpre & Hin & Hconf)|(-> & -> & Hall & (pre & l & -> & Hl))].
    - (* the candidate lies in line l *)
      rewrite (locate_in_line pre l post p i Hat Hb Hin).
      destruct (lines_at_split cfg s pre l post p Hat) as (Hseq & Hterm & Hnl & Hlterm & Hpost).
      pose proof Hnl as (Hsubl & Hbl & Hshape).
      assert (Hl1 : 1 <= length l).
      { destruct Hshape as [Ht|[[Hn0 _] _]]; [now apply (terminated_length ltb)|destruct l; [congruence|cbn; lia]]. }
      (* after rejecting l the search continues behind it *)
      assert (Hcont : pm l = false ->
                match find_fast_loop cfg M f s (p + length (concat pre) + length l) with
                | None => False
                | Some None => Forall (fun l0 => pm l0 = false) (pre ++ l :: post)
                | Some (Some (q, e)) =>
                  exists pre0 l0 post0, pre ++ l :: post = pre0 ++ l0 :: post0 /\ Forall (fun x => pm x = false) pre0 /\
                                        pm l0 = true /\ q = p + length (concat pre0) /\ e = q + length l0
                end).
      { intro Hlf.
        destruct post as [|l2 post2].
        - (* l was the last line *)
          cbn [lines_at] in Hpost.
          destruct f as [|f']; [lia|]. cbn [find_fast_loop].
          destruct (Nat.leb_spec (length s) (p + length (concat pre) + length l)); [|lia].
          apply Forall_app. split; [exact Hpre|constructor; [exact Hlf|constructor]].
        - assert (Ht : terminated ltb l) by (apply Hlterm; discriminate).
          pose proof (IH (l2 :: post2) (p + length (concat pre) + length l) Hpost (bnd_next cfg s _ l Hnl Ht) ltac:(lia)) as Hrec.
          destruct (find_fast_loop cfg M f s (p + length (concat pre) + length l)) as [[[q e]|]|]; [| |exact Hrec].
          + destruct Hrec as (pre0 & l0 & post0 & E & Hp0 & Hl0 & Hq & He).
            exists (pre ++ l :: pre0), l0, post0. rewrite E. rewrite <- app_assoc. cbn [app].
            split; [reflexivity|]. split; [apply Forall_app; split; [exact Hpre|constructor; assumption]|].
            split; [exact Hl0|]. rewrite concat_app, app_length. cbn [concat]. rewrite app_length. split; lia.
          + apply Forall_app. split; [exact Hpre|constructor; assumption]. }
      assert (Hfound : pm l = true ->
                exists pre0 l0 post0, pre ++ l :: post = pre0 ++ l0 :: post0 /\ Forall (fun x => pm x = false) pre0 /\
                  pm l0 = true /\ p + length (concat pre) = p + length (concat pre0) /\
                  p + length (concat pre) + length l = p + length (concat pre) + length l0).
      { intro Hlt'. exists pre, l, post. auto. }
      rewrite Hsubl. fold (pm l).
      destruct conf.
      + destruct (Nat.eqb_spec (p + length (concat pre)) (length s)) as [E|E]; [lia|].
        destruct (lt_is_crlf (c_lt cfg)) eqn:Ecr.
        * destruct (pm l) eqn:Hpl; [apply Hfound; reflexivity|apply Hcont; reflexivity].
        * apply Hfound. apply Hconf; reflexivity.
      + destruct (pm l) eqn:Hpl; [apply Hfound; reflexivity|apply Hcont; reflexivity].
    - (* a confirmed position at the very end of the buffer: no line there *)
      rewrite Htot.
      pose proof (locate_at_end pre l p Hat Hl) as Hst.
      destruct (locate ltb s (length s) (length s)) as [ls0 le0]. cbn [fst] in Hst. subst ls0.
      rewrite Nat.eqb_refl.
      destruct f as [|f']; [lia|]. cbn [find_fast_loop]. rewrite Nat.leb_refl. exact Hall.
  Qed.

  (* find_by_line_fast meets its contract *)
  Theorem find_spec_of_cand_proof : find_spec cfg M s.
  Proof.
    intros c ls p Hp Hat Hb. unfold find_by_line_fast. rewrite Hp.
    apply (find_fast_spec (S (S (length s))) ls p Hat Hb). lia.
  Qed.
End FS.
