(* Proofs/LineBufferProofs.v — the roll buffer (Model/ReadByLine.v, mirror of line_buffer.rs) hands
   the stream to the searcher unaltered, in order and in whole lines, however the reader fragments
   its reads, whatever the capacity and growth policy. *)
From RG Require Import Base.Bytes Base.BytesFacts Model.Lines Model.SearcherCore Model.Glue Model.ReadByLine
  Proofs.FuelProofs.

Ltac len := cbn [length] in *; rewrite ?app_length in *; cbn [length] in *; lia.

Section LB.
  Variable S : bytes.          (* the whole stream *)
  Variable ltb : byte.
  Variable pol : alloc_policy.

  (* the buffer is a window of the stream; the reader holds exactly what follows it *)
  Record lb_wf (lb : linebuf) (r : reader) : Prop := {
    wf_pos : lb_pos lb <= lb_llt lb;
    wf_llt : lb_llt lb <= length (lb_data lb);
    wf_abs : lb_pos lb <= lb_abs lb;
    wf_win : S = firstn (lb_abs lb - lb_pos lb) S ++ lb_data lb ++ r_rest r;
    wf_start : lb_abs lb - lb_pos lb <= length S;
    wf_cap : length (lb_data lb) <= lb_cap lb;
  }.

  Lemma wf_init cap hist : lb_wf (lb_new cap) {| r_rest := S; r_hist := hist |}.
  Proof. constructor; cbn; try lia. reflexivity. Qed.

  Lemma consume_wf lb r amt : lb_wf lb r -> amt <= lb_llt lb - lb_pos lb -> lb_wf (lb_consume lb amt) r.
  Proof.
    intros [H1 H2 H3 H4 H5 H6] Ha. constructor; cbn [lb_consume lb_pos lb_llt lb_data lb_abs lb_cap]; try lia.
    all: replace (lb_abs lb + amt - (lb_pos lb + amt)) with (lb_abs lb - lb_pos lb) by lia; assumption.
  Qed.

  Lemma firstn_app_plus {A} (a b : list A) k : k <= length b -> firstn (length a + k) (a ++ b) = a ++ firstn k b.
  Proof.
    intro H. rewrite firstn_app. rewrite firstn_all2 by lia. f_equal. f_equal. lia.
  Qed.

  Lemma roll_wf lb r : lb_wf lb r -> lb_wf (lb_roll lb) r /\ lb_abs (lb_roll lb) = lb_abs lb /\ lb_pos (lb_roll lb) = 0.
  Proof.
    intros [H1 H2 H3 H4 H5 H6]. unfold lb_roll.
    set (n := lb_abs lb - lb_pos lb) in *.
    assert (Hn : length (firstn n S) = n) by (rewrite firstn_length; lia).
    assert (Habs : firstn (lb_abs lb) S = firstn n S ++ firstn (lb_pos lb) (lb_data lb)).
    { rewrite H4 at 1. replace (lb_abs lb) with (length (firstn n S) + lb_pos lb) by lia.
      rewrite firstn_app_plus by len. f_equal.
      rewrite firstn_app. replace (lb_pos lb - length (lb_data lb)) with 0 by lia. cbn. now rewrite app_nil_r. }
    assert (Hlen : length S = n + length (lb_data lb) + length (r_rest r)).
    { pose proof (f_equal (@length _) H4) as HL. rewrite !app_length, Hn in HL. lia. }
    destruct (Nat.eqb_spec (lb_pos lb) (length (lb_data lb))) as [E|E].
    - split; [|split; reflexivity].
      constructor; cbn [lb_pos lb_llt lb_data lb_abs lb_cap length]; try lia.
      rewrite Nat.sub_0_r. rewrite Habs. rewrite E, firstn_all. cbn [app]. rewrite <- app_assoc. exact H4.
    - split; [|split; reflexivity].
      constructor; cbn [lb_pos lb_llt lb_data lb_abs lb_cap]; rewrite ?skipn_length; try lia.
      rewrite Nat.sub_0_r. rewrite Habs. rewrite <- app_assoc.
      rewrite (app_assoc (firstn (lb_pos lb) (lb_data lb))). rewrite firstn_skipn. exact H4.
  Qed.

  Lemma ensure_wf lb r lb' : lb_wf lb r -> lb_ensure_capacity pol lb = Some lb' ->
    lb_wf lb' r /\ lb_data lb' = lb_data lb /\ lb_pos lb' = lb_pos lb /\ lb_abs lb' = lb_abs lb /\
    lb_llt lb' = lb_llt lb /\ length (lb_data lb') < lb_cap lb'.
  Proof.
    intros Hwf He. unfold lb_ensure_capacity in He. cbv zeta in He.
    remember (Nat.max 1 (lb_cap lb)) as mx eqn:Emx. assert (Hmx : 1 <= mx) by lia.
    destruct (Nat.ltb_spec (length (lb_data lb)) (lb_cap lb)) as [Hlt|Hge].
    - injection He as <-. split; [exact Hwf|]. repeat split; auto.
    - destruct pol as [|limit].
      + injection He as <-. pose proof Hwf as [H1 H2 H3 H4 H5 H6]. split; [constructor; cbn [lb_data lb_pos lb_abs lb_llt lb_cap]; auto; lia|]. cbn [lb_data lb_pos lb_abs lb_llt lb_cap]. repeat split; auto; lia.
      + destruct (Nat.eqb_spec (Nat.min (mx * 2) (limit - (lb_cap lb - lb_cap0 lb))) 0) as [E|E];
          [discriminate|].
        injection He as <-. pose proof Hwf as [H1 H2 H3 H4 H5 H6]. split; [constructor; cbn [lb_data lb_pos lb_abs lb_llt lb_cap]; auto; lia|]. cbn [lb_data lb_pos lb_abs lb_llt lb_cap]. repeat split; auto; lia.
  Qed.

  (* what a fill leaves behind: the data is still the window, nothing was lost or reordered, and
     the searchable part ends right after a terminator unless the stream is exhausted *)
  Definition fill_post (lb0 : linebuf) (didread : bool) (lb : linebuf) (r : reader) : Prop :=
    lb_wf lb r /\ lb_abs lb = lb_abs lb0 /\ lb_pos lb = lb_pos lb0 /\
    (exists more, lb_data lb = lb_data lb0 ++ more) /\
    (didread = Nat.ltb (lb_pos lb) (lb_llt lb) \/ didread = true) /\
    ((r_rest r = [] /\ lb_llt lb = length (lb_data lb)) \/
     (1 <= lb_llt lb /\ nth_error (lb_data lb) (lb_llt lb - 1) = Some ltb /\
      forallb (fun x => negb (ltb =? x)%N) (skipn (lb_llt lb) (lb_data lb)) = true /\ length (lb_data lb0) < lb_llt lb)).

  Lemma rfind_spec l i : rfind_byte ltb l = Some i ->
    nth_error l i = Some ltb /\ forallb (fun x => negb (ltb =? x)%N) (skipn (Datatypes.S i) l) = true.
  Proof.
    revert i; induction l as [|x l IH]; intros i H; [discriminate|].
    cbn [rfind_byte] in H. destruct (rfind_byte ltb l) as [j|] eqn:Ej.
    - injection H as <-. destruct (IH j eq_refl) as [I1 I2]. cbn. auto.
    - destruct (N.eqb_spec x ltb) as [->|Hx]; [|discriminate]. injection H as <-.
      cbn [nth_error skipn]. split; [reflexivity|].
      clear -Ej. induction l as [|y l IH]; [reflexivity|].
      cbn [rfind_byte] in Ej. destruct (rfind_byte ltb l); [discriminate|].
      destruct (N.eqb_spec y ltb) as [->|Hy]; [discriminate|].
      cbn [forallb]. rewrite IH by reflexivity. rewrite andb_true_r.
      apply negb_true_iff, N.eqb_neq. congruence.
  Qed.

  Lemma fill_loop_spec : forall fuel lb r,
    lb_wf lb r -> length (r_rest r) < fuel ->
    match lb_fill_loop fuel ltb pol lb r with
    | FillOk d lb' r' => fill_post lb d lb' r'
    | FillFuel => False
    | FillIoErr | FillAllocErr => True
    end.
  Proof.
    induction fuel as [|f IH]; intros lb r Hwf Hf; [lia|]. cbn [lb_fill_loop].
    destruct (lb_ensure_capacity pol lb) as [lb1|] eqn:Ee; [|exact I].
    destruct (ensure_wf lb r lb1 Hwf Ee) as (Hwf1 & Ed & Ep & Ea & El & Hfree).
    set (free := lb_cap lb1 - length (lb_data lb1)).
    destruct (match r_hist r with [] => (RChunk free, []) | x :: h => (x, h) end) as [step hist'].
    destruct step as [n| |]; [|exact I|exact I].
    set (readlen := Nat.min (Nat.min (Nat.max 1 n) free) (length (r_rest r))).
    destruct (Nat.eqb_spec readlen 0) as [E0|E0].
    - (* end of stream *)
      assert (Hrest : r_rest r = []).
      { destruct (r_rest r) as [|x t] eqn:Er; [reflexivity|]. unfold readlen, free in E0. rewrite ?Er in E0. cbn [length] in E0. lia. }
      destruct Hwf1 as [H1 H2 H3 H4 H5 H6].
      unfold fill_post. cbn [lb_data lb_pos lb_llt lb_abs r_rest].
      rewrite E0. cbn [skipn]. rewrite Hrest in *.
      split. { constructor; cbn [lb_data lb_pos lb_llt lb_abs lb_cap r_rest]; auto; lia. }
      split; [exact Ea|]. split; [exact Ep|]. split; [exists []; rewrite app_nil_r; exact Ed|].
      split; [left; reflexivity|]. left. split; reflexivity.
    - set (newbytes := firstn readlen (r_rest r)).
      assert (Hnb : length newbytes = readlen) by (unfold newbytes; rewrite firstn_length; unfold readlen; lia).
      set (r' := {| r_rest := skipn readlen (r_rest r); r_hist := hist' |}).
      assert (Hwf2 : forall llt, lb_pos lb1 <= llt -> llt <= length (lb_data lb1 ++ newbytes) ->
                lb_wf {| lb_data := lb_data lb1 ++ newbytes; lb_cap := lb_cap lb1; lb_cap0 := lb_cap0 lb1;
                         lb_pos := lb_pos lb1; lb_llt := llt; lb_abs := lb_abs lb1 |} r').
      { intros llt Hl1 Hl2. destruct Hwf1 as [H1 H2 H3 H4 H5 H6].
        constructor; cbn [lb_data lb_pos lb_llt lb_abs lb_cap r_rest r']; auto.
        - rewrite <- app_assoc. unfold newbytes. rewrite firstn_skipn. exact H4.
        - rewrite app_length, Hnb. unfold readlen, free. lia. }
      destruct (rfind_byte ltb newbytes) as [i|] eqn:Er.
      + destruct (rfind_spec newbytes i Er) as [Hn1 Hn2].
        assert (Hi : i < readlen) by (rewrite <- Hnb; apply (rfind_lt ltb); exact Er).
        unfold fill_post. cbn [lb_data lb_pos lb_llt lb_abs r_rest].
        pose proof Hwf1 as [H1 H2 H3 H4 H5 H6].
        split; [apply Hwf2; len|]. split; [exact Ea|]. split; [exact Ep|].
        split; [exists newbytes; now rewrite Ed|]. split; [right; reflexivity|].
        right. split; [lia|]. split.
        * replace (length (lb_data lb1) + i + 1 - 1) with (length (lb_data lb1) + i) by lia.
          rewrite nth_error_app2 by lia. replace (length (lb_data lb1) + i - length (lb_data lb1)) with i by lia.
          exact Hn1.
        * split.
          -- rewrite skipn_app. rewrite skipn_all2 by lia. cbn [app].
             replace (length (lb_data lb1) + i + 1 - length (lb_data lb1)) with (Datatypes.S i) by lia. exact Hn2.
          -- rewrite <- Ed. lia.
      + (* no terminator yet: read more *)
        set (lb2 := {| lb_data := lb_data lb1 ++ newbytes; lb_cap := lb_cap lb1; lb_cap0 := lb_cap0 lb1;
                       lb_pos := lb_pos lb1; lb_llt := lb_llt lb1; lb_abs := lb_abs lb1 |}).
        assert (Hwf3 : lb_wf lb2 r').
        { pose proof Hwf1 as [H1 H2 H3 H4 H5 H6]. apply Hwf2; [exact H1|len]. }
        specialize (IH lb2 r' Hwf3).
        assert (Hlen' : length (r_rest r') < f).
        { cbn [r' r_rest]. rewrite skipn_length. lia. }
        specialize (IH Hlen').
        destruct (lb_fill_loop f ltb pol lb2 r') as [d lb' r''| | |]; auto.
        destruct IH as (I1 & I2 & I3 & (more & I4) & I5 & I6).
        unfold fill_post. split; [exact I1|]. split; [cbn [lb2 lb_abs] in I2; congruence|].
        split; [cbn [lb2 lb_pos] in I3; congruence|].
        split; [exists (newbytes ++ more); cbn [lb2 lb_data] in I4; rewrite I4, Ed; now rewrite app_assoc|].
        split; [exact I5|].
        destruct I6 as [I6|(J1 & J2 & J3 & J4)]; [left; exact I6|].
        right. repeat split; auto. cbn [lb2 lb_data] in J4. rewrite app_length in J4. rewrite <- Ed. lia.
  Qed.

  (* LineBuffer::fill *)
  Theorem lb_fill_spec lb r : lb_wf lb r ->
    match lb_fill ltb pol lb r with
    | FillOk d lb' r' => fill_post (lb_roll lb) d lb' r' /\ lb_abs lb' = lb_abs lb /\ lb_pos lb' = 0
    | FillFuel => False
    | FillIoErr | FillAllocErr => True
    end.
  Proof.
    intro Hwf. unfold lb_fill.
    destruct (roll_wf lb r Hwf) as (Hwf' & Ha & Hp).
    pose proof (fill_loop_spec (Datatypes.S (Datatypes.S (length (r_rest r)))) (lb_roll lb) r Hwf' ltac:(lia)) as H.
    destruct (lb_fill_loop _ ltb pol (lb_roll lb) r) as [d lb' r'| | |]; auto.
    split; [exact H|]. destruct H as (_ & H2 & H3 & _). split; congruence.
  Qed.
End LB.
