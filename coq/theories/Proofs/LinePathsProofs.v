(* Proofs/LinePathsProofs.v — regex-side facts behind the fast/slow line paths (C01). *)
From RG Require Import Base.Bytes Base.BytesFacts Base.LineTerm Model.Lines Model.SearcherCore
  Spec.RegexSem Model.RegexBuild Model.CoreLinePaths
  Proofs.RegexSemProofs Proofs.RegexBuildProofs Proofs.Utf8Proofs Proofs.RegexPassesProofs.

(* ---- lines::without_terminator after the D9 repair ---- *)
Lemma rev_snoc {A} (l : list A) x : rev (l ++ [x]) = x :: rev l.
Proof. now rewrite rev_app_distr. Qed.

(* a line that ends in "\r\n" loses both bytes, a line that ends in a bare "\n" loses it, a line
   without final "\n" (last line of the input) is left alone *)
Theorem without_terminator_fixed_crlf_spec : forall c : bytes,
  without_terminator_fixed LTCrlf (c ++ [13; 10]%N) = c /\
  (match rev c with 13%N :: _ => False | _ => True end -> without_terminator_fixed LTCrlf (c ++ [10]%N) = c) /\
  (match rev c with 10%N :: _ => False | _ => True end -> without_terminator_fixed LTCrlf c = c).
Proof.
  intro c. unfold without_terminator_fixed. repeat split.
  - replace (c ++ [13; 10]%N) with ((c ++ [13%N]) ++ [10%N]) by now rewrite <- app_assoc.
    rewrite rev_snoc, rev_snoc. now rewrite rev_involutive.
  - intro H. rewrite rev_snoc. destruct (rev c) as [|x r] eqn:E.
    + apply (f_equal (@rev N)) in E. now rewrite rev_involutive in E.
    + assert (Hc : c = rev (x :: r)) by (rewrite <- E; now rewrite rev_involutive).
      destruct x as [|p]; [now symmetry|].
      do 4 (destruct p as [p|p|]; try (now symmetry)).
  - intro H. destruct (rev c) as [|x r] eqn:E; [reflexivity|].
    destruct x as [|p]; [reflexivity|].
    do 4 (destruct p as [p|p|]; try reflexivity). destruct H.
Qed.

(* byte terminators: unchanged by the repair *)
Theorem without_terminator_fixed_byte : forall b l,
  without_terminator_fixed (LTByte b) l = without_terminator (LTByte b) l.
Proof. reflexivity. Qed.

(* ---- whenever the searcher may take the fast path, no match in the buffer contains the
        terminator byte the searcher splits lines at ---- *)
Lemma lt_eqb_eq a b : lt_eqb a b = true -> a = b.
Proof.
  destruct a as [x|], b as [y|]; cbn; try discriminate; [|reflexivity].
  intro H. apply N.eqb_eq in H. now subst.
Qed.

Lemma term_byte_of lt : is_term_byte lt (lt_byte (lineterm_of lt)) = true.
Proof. destruct lt as [b|]; cbn; [apply N.eqb_refl|reflexivity]. Qed.

Theorem path_selection_safe_proof :
  forall norm, norm_ok norm ->
  forall rc tr final adv cand fa cfg c,
    build norm rc tr = inl (final, adv) ->
    is_line_by_line_fast cfg (regex_matcher final adv cand fa) c = true ->
    c_passthru cfg = false /\
    (c_stop_on_nonmatch cfg && has_matched c = false) /\
    forall buf i j, Matches final buf i j -> forall p, i <= p < j -> byte_at buf p <> lt_byte (c_lt cfg).
Proof.
  intros norm Hn rc tr final adv cand fa cfg c Hb Hf. unfold is_line_by_line_fast in Hf.
  destruct (c_passthru cfg); [discriminate|]. split; [reflexivity|].
  destruct (c_stop_on_nonmatch cfg && has_matched c); [discriminate|]. split; [reflexivity|].
  cbn [m_line_term m_nonmatching regex_matcher] in Hf.
  assert (Hnm : non_matching_bytes final (ltb_ cfg) = true ->
                forall buf i j, Matches final buf i j -> forall p, i <= p < j -> byte_at buf p <> lt_byte (c_lt cfg)).
  { intros H buf i j M. exact (non_matching_sound_proof final _ buf i j H M). }
  destruct adv as [lt|]; cbn [option_map] in Hf; [|exact (Hnm Hf)].
  destruct (lt_byte (lineterm_of lt) =? 0)%N; [discriminate|].
  destruct (lt_eqb (lineterm_of lt) (c_lt cfg)) eqn:E; [|exact (Hnm Hf)].
  apply lt_eqb_eq in E. intros buf i j M p Hp Hbyte.
  pose proof (build_line_terminator_promise_proof norm Hn rc tr final lt buf i j Hb M p Hp) as H.
  rewrite Hbyte, <- E, term_byte_of in H. discriminate.
Qed.

(* ---- on a line's content (which never holds a byte terminator) the stripped and the
        unstripped pattern have the same matches ---- *)
Theorem strip_invisible_on_content_proof : forall norm h b h' content i j,
  strip_from_match norm h (RTByte b) = inl h' ->
  (forall p, p < length content -> byte_at content p <> b) ->
  (Matches h' content i j <-> Matches h content i j).
Proof.
  intros norm h b h' content i j Hs Hc.
  assert (Hn : norm_ok (fun x => x)) by (intros ? ? ? ?; reflexivity).
  assert (Hs' : strip_from_match (fun x => x) h (RTByte b) = inl h') by exact Hs.
  rewrite (strip_rejects_not_alters_proof _ Hn h (RTByte b) h' content i j Hs').
  split; [tauto|]. intro M. split; [exact M|].
  intros p Hp. unfold is_term_byte. apply N.eqb_neq. apply Hc.
  apply matches_bounds in M. lia.
Qed.
