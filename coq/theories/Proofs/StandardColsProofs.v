(* Proofs/StandardColsProofs.v — proofs about Model/StandardCols.v (--max-columns, --max-columns-preview,
   --trim in the standard printer) against Spec/ColsSpec.v. *)
From Coq Require Import String Ascii.
From RG Require Import Base.Bytes Model.MatchIter Model.Replace Model.Sink Model.Standard Model.StandardCols
  Spec.PrinterSpec Spec.ColsSpec Proofs.PrinterProofs.

(* ---------- the notices are the documented texts ---------- *)
Lemma msg_omit_match_str : msg_omit_match = str "[Omitted long matching line]". Proof. reflexivity. Qed.
Lemma msg_omit_context_str : msg_omit_context = str "[Omitted long context line]". Proof. reflexivity. Qed.
Lemma msg_omit_with_str : msg_omit_with = str "[Omitted long line with ". Proof. reflexivity. Qed.
Lemma msg_matches_close_str : msg_matches_close = str " matches]". Proof. reflexivity. Qed.
Lemma msg_omit_end_str : msg_omit_end = str " [... omitted end of long line]". Proof. reflexivity. Qed.
Lemma msg_more_open_str : msg_more_open = str " [... ". Proof. reflexivity. Qed.
Lemma msg_more_match_str : msg_more ++ msg_match_close = str " more match]". Proof. reflexivity. Qed.
Lemma msg_more_matches_str : msg_more ++ msg_matches_close = str " more matches]". Proof. reflexivity. Qed.

(* ---------- trim_ascii_prefix ---------- *)
Lemma trim_pred_trimmable lt b : trim_pred lt b = trimmable lt b.
Proof.
  unfold trim_pred, trimmable. f_equal. unfold is_space, ascii_ws. cbn [existsb].
  rewrite Bool.orb_false_r, !Bool.orb_assoc. reflexivity.
Qed.

Lemma take_while_ext {A} (f g : A -> bool) l : (forall x, f x = g x) -> take_while f l = take_while g l.
Proof. intro H. induction l as [|x r IH]; cbn [take_while]; [reflexivity|]. rewrite H, IH. reflexivity. Qed.
Lemma drop_while_ext {A} (f g : A -> bool) l : (forall x, f x = g x) -> drop_while f l = drop_while g l.
Proof. intro H. induction l as [|x r IH]; cbn [drop_while]; [reflexivity|]. rewrite H, IH. reflexivity. Qed.

Lemma skipn_take_while {A} (f : A -> bool) l : skipn (length (take_while f l)) l = drop_while f l.
Proof.
  induction l as [|x r IH]; cbn [take_while drop_while]; [reflexivity|].
  destruct (f x); cbn [length skipn]; [exact IH|reflexivity].
Qed.
Lemma firstn_take_while {A} (f : A -> bool) l : firstn (length (take_while f l)) l = take_while f l.
Proof.
  induction l as [|x r IH]; cbn [take_while]; [reflexivity|].
  destruct (f x); cbn [length firstn]; [now rewrite IH|reflexivity].
Qed.
Lemma take_while_all {A} (f : A -> bool) l : forallb f (take_while f l) = true.
Proof.
  induction l as [|x r IH]; cbn [take_while]; [reflexivity|].
  destruct (f x) eqn:E; cbn [forallb]; [now rewrite E, IH|reflexivity].
Qed.
Lemma drop_while_head {A} (f : A -> bool) l :
  match drop_while f l with [] => True | b :: _ => f b = false end.
Proof.
  induction l as [|x r IH]; cbn [drop_while]; [exact I|]. destruct (f x) eqn:E; [exact IH|exact E].
Qed.

Lemma sub_full {A} (l : list A) : sub l 0 (length l) = l.
Proof. unfold sub. rewrite Nat.sub_0_r. cbn [skipn]. apply firstn_all. Qed.
Lemma sub_to_end {A} (l : list A) k : sub l k (length l) = skipn k l.
Proof. unfold sub. apply firstn_all2. rewrite skipn_length. lia. Qed.
Lemma sub_from_0 {A} (l : list A) k : sub l 0 k = firstn k l.
Proof. unfold sub. rewrite Nat.sub_0_r. reflexivity. Qed.

(* the slice write_line goes on with under --trim is the declaratively trimmed line *)
Lemma trimmed_slice_is_shown lt line :
  sub line (trim_ascii_prefix lt line 0 (length line)) (length line) = shown_line lt true line.
Proof.
  unfold trim_ascii_prefix, shown_line. rewrite sub_full, Nat.add_0_l, sub_to_end, skipn_take_while.
  apply drop_while_ext. apply trim_pred_trimmable.
Qed.

Lemma trim_only_removes_ascii_whitespace_prefix_proof lt line :
  let k := trim_ascii_prefix lt line 0 (length line) in
  line = firstn k line ++ sub line k (length line)
  /\ Forall (fun b => ascii_ws b = true /\ ~ In b (lt_bytes lt)) (firstn k line)
  /\ match sub line k (length line) with [] => True | b :: _ => trimmable lt b = false end.
Proof.
  cbn zeta. split; [|split].
  - rewrite sub_to_end. symmetry. apply firstn_skipn.
  - unfold trim_ascii_prefix. rewrite sub_full, Nat.add_0_l, firstn_take_while.
    pose proof (take_while_all (trim_pred lt) line) as Hall. rewrite forallb_forall in Hall.
    apply Forall_forall. intros b Hb. specialize (Hall b Hb). rewrite trim_pred_trimmable in Hall.
    unfold trimmable in Hall. apply andb_prop in Hall. destruct Hall as [H1 H2]. split; [exact H1|].
    intro Hin. apply Bool.negb_true_iff in H2.
    assert (Hex : existsb (N.eqb b) (lt_bytes lt) = true).
    { apply existsb_exists. exists b. split; [exact Hin|apply N.eqb_refl]. }
    congruence.
  - rewrite trimmed_slice_is_shown. unfold shown_line. apply drop_while_head.
Qed.

(* ---------- write_line ---------- *)
Lemma write_line_out env line w : w_out (write_line env line w) = w_out w ++ terminated (e_lt env) line.
Proof.
  unfold write_line, terminated, lt. destruct (lt_is_suffix (e_lt env) line); cbn [negb].
  - reflexivity.
  - unfold write_line_term, lt. cbn [write w_out]. now rewrite app_assoc.
Qed.

Lemma wcm_out env bytes le matches w :
  w_out (snd (write_colored_matches env bytes 0 le matches 0 w))
  = w_out w ++ firstn (trim_line_terminator (e_lt env) bytes 0 le) bytes.
Proof.
  unfold write_colored_matches, lt. destruct matches as [|m0 ms]; cbn [is_empty_list].
  - cbn [snd write w_out]. now rewrite sub_from_0.
  - destruct (wcm_loop_out bytes (m0 :: ms)
                (trim_line_terminator (e_lt env) bytes 0 le - 0 + length (m0 :: ms) + 1)
                0 (trim_line_terminator (e_lt env) bytes 0 le) 0 w) as [E _];
      [lia|cbn [length]; lia|cbn [length]; lia|].
    rewrite E. now rewrite sub_from_0.
Qed.

Lemma omitted_notice_is_spec cfg sk :
  omitted_notice cfg sk = omitted_notice_spec (st_only_matching cfg) (is_context sk) (length (k_matches sk)).
Proof.
  unfold omitted_notice, omitted_notice_spec.
  rewrite <- msg_omit_match_str, <- msg_omit_context_str, <- msg_omit_with_str, <- msg_matches_close_str.
  destruct (k_matches sk) as [|m ms]; cbn [is_empty_list length Nat.eqb orb].
  - destruct (is_context sk); reflexivity.
  - destruct (st_only_matching cfg); [destruct (is_context sk)|]; reflexivity.
Qed.

Lemma preview_notice_is_spec matches cut len :
  preview_notice matches cut len = preview_notice_spec matches cut len.
Proof.
  unfold preview_notice, preview_notice_spec, remaining_matches.
  rewrite <- msg_omit_end_str, <- msg_more_open_str, <- msg_more_match_str, <- msg_more_matches_str.
  destruct matches as [|m ms]; cbn [is_empty_list]; [reflexivity|].
  destruct (Nat.eqb _ 1); reflexivity.
Qed.

Lemma write_line_c_out gends cfg cc env sk line w :
  w_out (write_line_c gends cfg cc env sk line w)
  = w_out w ++ line_or_notice gends (e_lt env) (cc_max cc) (cc_preview cc) (cc_trim cc)
                 (st_only_matching cfg) (is_context sk) (k_matches sk) line.
Proof.
  unfold write_line_c, line_or_notice.
  assert (Hshown : (if negb (cc_trim cc) then line
                    else sub line (trim_ascii_prefix (e_lt env) line 0 (length line)) (length line))
                   = shown_line (e_lt env) (cc_trim cc) line).
  { destruct (cc_trim cc); cbn [negb]; [apply trimmed_slice_is_shown|reflexivity]. }
  rewrite Hshown. set (shown := shown_line (e_lt env) (cc_trim cc) line).
  unfold exceeds_max_columns. destruct (cc_max cc) as [limit|] eqn:Emax; [|apply write_line_out].
  destruct (Nat.leb_spec (length shown) limit) as [Hle|Hgt].
  - replace (Nat.ltb limit (length shown)) with false by (symmetry; apply Nat.ltb_ge; exact Hle).
    apply write_line_out.
  - replace (Nat.ltb limit (length shown)) with true by (symmetry; apply Nat.ltb_lt; exact Hgt).
    unfold write_exceeded_line. destruct (cc_preview cc).
    + unfold preview_end. rewrite Emax, sub_full, Nat.add_0_r.
      fold (preview_cut gends limit shown). set (cut := preview_cut gends limit shown).
      pose proof (wcm_out env shown cut (k_matches sk) w) as E.
      destruct (write_colored_matches env shown 0 cut (k_matches sk) 0 w) as [midx' w'].
      cbn [snd] in E. cbn beta iota. cbn [snd]. unfold write_line_term, lt. cbn [write w_out]. rewrite E, preview_notice_is_spec.
      now rewrite <- !app_assoc.
    + cbn [snd]. unfold write_line_term, lt. cbn [write w_out]. rewrite omitted_notice_is_spec.
      now rewrite <- !app_assoc.
Qed.

(* ---------- records: the prelude (column, offset, line number) does not depend on the new options ---------- *)
Lemma sink_fast_c_layout gends cfg cc env path sk w :
  w_out (sink_fast_c gends cfg cc env path sk w)
  = w_out w ++ prelude_spec cfg path (separator_field cfg sk) (k_off sk) (k_lnum sk) None
          ++ line_or_notice gends (e_lt env) (cc_max cc) (cc_preview cc) (cc_trim cc)
               (st_only_matching cfg) (is_context sk) (k_matches sk) (k_bytes sk).
Proof. unfold sink_fast_c. rewrite write_line_c_out, write_prelude_layout. now rewrite <- app_assoc. Qed.

Lemma sink_slow_c_layout gends cfg cc env path sk w :
  st_only_matching cfg = false -> st_per_match cfg = false ->
  w_out (sink_slow_c gends cfg cc env path sk w)
  = w_out w ++ prelude_spec cfg path (separator_field cfg sk) (k_off sk) (k_lnum sk)
                 (Some (fst (nth_span (k_matches sk) 0) + 1))
          ++ line_or_notice gends (e_lt env) (cc_max cc) (cc_preview cc) (cc_trim cc)
               false (is_context sk) (k_matches sk) (k_bytes sk).
Proof.
  intros Hom Hpm. unfold sink_slow_c. rewrite Hom, Hpm, write_line_c_out, write_prelude_layout, Hom.
  now rewrite <- app_assoc.
Qed.

(* ---------- no limit, no trim: the model of Standard.v ---------- *)
Lemma write_line_c_off gends cfg env sk line w :
  write_line_c gends cfg cols_off env sk line w = write_line env line w.
Proof. reflexivity. Qed.

Lemma sink_fast_ml_loop_c_off gends cfg env path sk : forall spans i off w,
  sink_fast_ml_loop_c gends cfg cols_off env path sk spans i off w
  = sink_fast_ml_loop cfg env path sk spans i off w.
Proof.
  induction spans as [|[s e] r IH]; intros i off w; cbn [sink_fast_ml_loop_c sink_fast_ml_loop]; [reflexivity|].
  rewrite write_line_c_off. apply IH.
Qed.

Lemma sink_slow_ml_loop_c_off gends cfg env path sk : forall spans count midx w,
  sink_slow_ml_loop_c gends cfg cols_off env path sk spans count midx w
  = sink_slow_ml_loop cfg env path sk spans count midx w.
Proof.
  induction spans as [|[s e] r IH]; intros count midx w; cbn [sink_slow_ml_loop_c sink_slow_ml_loop]; [reflexivity|].
  unfold impl_trim_ascii_prefix, exceeds_max_columns. cbn [cols_off cc_trim cc_max negb].
  destruct (write_colored_matches env (k_bytes sk) s e (k_matches sk) midx _) as [midx' w']. apply IH.
Qed.

Lemma impl_sink_c_off gends cfg env path sk w :
  impl_sink_c gends cfg cols_off env path sk w = impl_sink cfg env path sk w.
Proof.
  unfold impl_sink_c, impl_sink.
  destruct (is_empty_list (k_matches sk)); destruct (e_multi env && negb (is_context sk)).
  - unfold sink_fast_multi_line_c, sink_fast_multi_line, lt. apply sink_fast_ml_loop_c_off.
  - reflexivity.
  - unfold sink_slow_multi_line_c, sink_slow_multi_line, lt.
    destruct (st_only_matching cfg); [reflexivity|]. destruct (st_per_match cfg); [reflexivity|].
    apply sink_slow_ml_loop_c_off.
  - reflexivity.
Qed.

Lemma standard_step_c_off gends find_at cfg env e s :
  standard_step_c gends find_at cfg cols_off env e s = standard_step find_at cfg env e s.
Proof.
  destruct e as [m|c| |off]; reflexivity.
Qed.

Lemma feed_ext {T} (step1 step2 : sevent -> T -> option (T * reply)) :
  (forall e s, step1 e s = step2 e s) -> forall evs k s, feed step1 evs k s = feed step2 evs k s.
Proof.
  intros H. induction evs as [|e r IH]; intros k s; cbn [feed]; [reflexivity|].
  rewrite H. destruct (step2 e s) as [[s' [| |]]|]; try reflexivity. apply IH.
Qed.

Lemma standard_run_c_off gends find_at cfg env path w evs fins :
  standard_run_c gends find_at cfg cols_off env path w evs fins = standard_run find_at cfg env path w evs fins.
Proof.
  unfold standard_run_c, standard_run, run_sink.
  destruct (standard_begin cfg (standard_sink cfg path w)) as [s1 [| |]]; try reflexivity.
  rewrite (feed_ext (standard_step_c gends find_at cfg cols_off env) (standard_step find_at cfg env)
                    (standard_step_c_off gends find_at cfg env)).
  reflexivity.
Qed.

(* ---------- -o / --vimgrep (line-oriented): one record per recorded span ---------- *)
Section PerMatchCols.
  Variable gends : bytes -> list nat.
  Variable cfg : stdconfig.
  Variable cc : colcfg.
  Variable env : senv.
  Variable path : option bytes.
  Variable sk : sunk.

  Definition span_record_c (only : bool) (m : nat * nat) : bytes :=
    prelude_spec cfg path (separator_field cfg sk) (k_off sk + fst m) (k_lnum sk) (Some (fst m + 1))
    ++ line_or_notice gends (e_lt env) (cc_max cc) (cc_preview cc) (cc_trim cc) (st_only_matching cfg)
         (is_context sk) (k_matches sk) (if only then sub (k_bytes sk) (fst m) (snd m) else k_bytes sk).

  Lemma fold_span_records_c (only : bool) : forall (ms : list (nat * nat)) (w : wtr),
    w_out (fold_left (fun (w : wtr) (m : nat * nat) =>
             write_line_c gends cfg cc env sk (if only then sub (k_bytes sk) (fst m) (snd m) else k_bytes sk)
               (write_prelude cfg path sk (k_off sk + fst m) (k_lnum sk) (Some (fst m + 1)) w)) ms w)
    = w_out w ++ concat (map (span_record_c only) ms).
  Proof.
    induction ms as [|m ms IH]; intro w; cbn [fold_left map concat]; [now rewrite app_nil_r|].
    rewrite IH, write_line_c_out, write_prelude_layout. unfold span_record_c. now rewrite <- !app_assoc.
  Qed.

  Lemma sink_slow_c_only_matching_layout w : st_only_matching cfg = true ->
    w_out (sink_slow_c gends cfg cc env path sk w) = w_out w ++ concat (map (span_record_c true) (k_matches sk)).
  Proof. intro H. unfold sink_slow_c. rewrite H. apply (fold_span_records_c true). Qed.

  Lemma sink_slow_c_per_match_layout w : st_only_matching cfg = false -> st_per_match cfg = true ->
    w_out (sink_slow_c gends cfg cc env path sk w) = w_out w ++ concat (map (span_record_c false) (k_matches sk)).
  Proof. intros H1 H2. unfold sink_slow_c. rewrite H1, H2. apply (fold_span_records_c false). Qed.

  (* ---------- multi-line block without recorded spans: one line_or_notice record per line ---------- *)
  Fixpoint block_records_c (spans : list (nat * nat)) (i off : nat) : bytes :=
    match spans with
    | [] => []
    | (s, e) :: r =>
      prelude_spec cfg path (separator_field cfg sk) off (option_map (fun n => n + i) (k_lnum sk)) None
      ++ line_or_notice gends (e_lt env) (cc_max cc) (cc_preview cc) (cc_trim cc) (st_only_matching cfg)
           (is_context sk) (k_matches sk) (sub (k_bytes sk) s e)
      ++ block_records_c r (S i) (off + (e - s))
    end.

  Lemma sink_fast_ml_loop_c_layout : forall spans i off w,
    w_out (sink_fast_ml_loop_c gends cfg cc env path sk spans i off w) = w_out w ++ block_records_c spans i off.
  Proof.
    induction spans as [|[s e] r IH]; intros i off w; cbn [sink_fast_ml_loop_c block_records_c].
    - now rewrite app_nil_r.
    - rewrite IH, write_line_c_out, write_prelude_layout. now rewrite <- !app_assoc.
  Qed.

  Lemma sink_fast_multi_line_c_layout w :
    w_out (sink_fast_multi_line_c gends cfg cc env path sk w)
    = w_out w ++ block_records_c (line_spans (lt_byte (e_lt env)) (k_bytes sk)) 0 (k_off sk).
  Proof. apply sink_fast_ml_loop_c_layout. Qed.

  (* ---------- multi-line block with recorded spans (-U --column / --stats) ---------- *)
  Fixpoint slow_block_records_c (spans : list (nat * nat)) (count : nat) : bytes :=
    match spans with
    | [] => []
    | (s, e) :: r =>
      prelude_spec cfg path (separator_field cfg sk) (k_off sk + s) (option_map (fun n => n + count) (k_lnum sk))
                   (Some (fst (nth_span (k_matches sk) 0) + 1))
      ++ block_line_text gends (e_lt env) (cc_max cc) (cc_preview cc) (cc_trim cc) (is_context sk)
           (k_matches sk) (k_bytes sk) s e
      ++ slow_block_records_c r (S count)
    end.

  Lemma impl_trim_is_spec s e :
    impl_trim_ascii_prefix cc env (k_bytes sk) s e
    = if cc_trim cc then s + length (take_while (trimmable (e_lt env)) (sub (k_bytes sk) s e)) else s.
  Proof.
    unfold impl_trim_ascii_prefix, trim_ascii_prefix. destruct (cc_trim cc); cbn [negb]; [|reflexivity].
    f_equal. f_equal. apply take_while_ext. apply trim_pred_trimmable.
  Qed.

  Lemma sink_slow_ml_loop_c_layout : forall spans count midx w,
    st_only_matching cfg = false ->
    Forall (fun se => block_line_guard gends (e_lt env) (cc_max cc) (cc_trim cc) (k_bytes sk) (fst se) (snd se)) spans ->
    midx < length (k_matches sk) ->
    w_out (sink_slow_ml_loop_c gends cfg cc env path sk spans count midx w) = w_out w ++ slow_block_records_c spans count.
  Proof.
    induction spans as [|[s e] r IH]; intros count midx w Hom Hall Hm; cbn [sink_slow_ml_loop_c slow_block_records_c].
    - now rewrite app_nil_r.
    - inversion Hall as [|? ? Hse Hr]; subst. cbn [fst snd] in Hse. unfold block_line_guard in Hse. cbn zeta in Hse.
      unfold block_line_text. cbn zeta. rewrite impl_trim_is_spec.
      set (s' := if cc_trim cc then s + length (take_while (trimmable (e_lt env)) (sub (k_bytes sk) s e)) else s) in *.
      destruct Hse as [Hplain Hcut].
      set (w1 := write_prelude cfg path sk (k_off sk + s) (option_map (fun n => n + count) (k_lnum sk))
                   (Some (fst (nth_span (k_matches sk) 0) + 1)) w).
      assert (Ew1 : w_out w1 = w_out w ++ prelude_spec cfg path (separator_field cfg sk) (k_off sk + s)
                                 (option_map (fun n => n + count) (k_lnum sk))
                                 (Some (fst (nth_span (k_matches sk) 0) + 1))) by apply write_prelude_layout.
      assert (Hplain_case :
        w_out (let (midx0, w0) := write_colored_matches env (k_bytes sk) s' e (k_matches sk) midx w1 in
               sink_slow_ml_loop_c gends cfg cc env path sk r (S count) midx0 (write_line_term env w0))
        = w_out w ++ prelude_spec cfg path (separator_field cfg sk) (k_off sk + s)
                       (option_map (fun n => n + count) (k_lnum sk)) (Some (fst (nth_span (k_matches sk) 0) + 1))
                  ++ (sub (k_bytes sk) s' (trim_line_terminator (e_lt env) (k_bytes sk) s' e) ++ lt_bytes (e_lt env))
                  ++ slow_block_records_c r (S count)).
      { destruct (write_colored_matches_out env sk s' e midx w1 Hplain Hm) as [E1 E2].
        destruct (write_colored_matches env (k_bytes sk) s' e (k_matches sk) midx w1) as [midx' w'].
        cbn [fst snd] in E1, E2. rewrite IH by assumption.
        unfold write_line_term, lt. cbn [write w_out]. rewrite E1, Ew1. now rewrite <- !app_assoc. }
      unfold exceeds_max_columns. destruct (cc_max cc) as [limit|] eqn:Emax; [|exact Hplain_case].
      destruct (Nat.leb_spec (length (sub (k_bytes sk) s' e)) limit) as [Hle|Hgt].
      + replace (Nat.ltb limit (length (sub (k_bytes sk) s' e))) with false by (symmetry; apply Nat.ltb_ge; exact Hle).
        exact Hplain_case.
      + replace (Nat.ltb limit (length (sub (k_bytes sk) s' e))) with true by (symmetry; apply Nat.ltb_lt; exact Hgt).
        unfold write_exceeded_line. destruct (cc_preview cc).
        * unfold preview_end. rewrite Emax. fold (preview_cut gends limit (sub (k_bytes sk) s' e)).
          set (cut := preview_cut gends limit (sub (k_bytes sk) s' e) + s').
          specialize (Hcut limit eq_refl). fold cut in Hcut.
          destruct (write_colored_matches_out env sk s' cut midx w1 Hcut Hm) as [E1 E2].
          destruct (write_colored_matches env (k_bytes sk) s' cut (k_matches sk) midx w1) as [midx' w'].
          cbn [fst snd] in E1, E2. rewrite IH by assumption.
          unfold write_line_term, lt. cbn [write w_out]. rewrite E1, Ew1, preview_notice_is_spec.
          now rewrite <- !app_assoc.
        * rewrite IH by assumption. unfold write_line_term, lt. cbn [write w_out].
          rewrite Ew1, omitted_notice_is_spec, Hom. destruct (k_matches sk) as [|m0 ms] eqn:Ems; [cbn in Hm; lia|].
          now rewrite <- !app_assoc.
  Qed.

  Lemma sink_slow_multi_line_c_layout w :
    st_only_matching cfg = false -> st_per_match cfg = false -> k_matches sk <> [] ->
    Forall (fun se => block_line_guard gends (e_lt env) (cc_max cc) (cc_trim cc) (k_bytes sk) (fst se) (snd se))
           (line_spans (lt_byte (e_lt env)) (k_bytes sk)) ->
    w_out (sink_slow_multi_line_c gends cfg cc env path sk w)
    = w_out w ++ slow_block_records_c (line_spans (lt_byte (e_lt env)) (k_bytes sk)) 0.
  Proof.
    intros Hom Hpm Hne Hall. unfold sink_slow_multi_line_c. rewrite Hom, Hpm.
    apply sink_slow_ml_loop_c_layout; [exact Hom|exact Hall|].
    destruct (k_matches sk); [congruence|cbn [length]; lia].
  Qed.
End PerMatchCols.

(* ---------- the cut of a preview is the end of one of the first `limit` graphemes (or 0) ---------- *)
Lemma last_firstn_nth (l : list nat) : forall n,
  firstn n l = [] \/ exists i, i < n /\ nth_error l i = Some (last (firstn n l) 0).
Proof.
  induction l as [|a l IH]; intro n.
  - left. now rewrite firstn_nil.
  - destruct n as [|n]; [left; reflexivity|]. right. cbn [firstn].
    destruct (IH n) as [E|[i [Hi Hn]]].
    + exists 0. rewrite E. cbn [last nth_error]. split; [lia|reflexivity].
    + exists (S i). split; [lia|]. cbn [nth_error]. rewrite Hn. f_equal.
      destruct (firstn n l) as [|b r] eqn:E; [|reflexivity].
      (* firstn n l = [] but nth_error l i is defined with i < n: then last [] 0 = 0 = the element; still fine *)
      cbn [last]. cbn [last] in Hn. destruct n as [|n']; [lia|]. destruct l as [|c l']; [destruct i; discriminate|discriminate].
Qed.

Lemma preview_cut_boundary gends limit shown :
  preview_cut gends limit shown = 0
  \/ exists i, i < limit /\ nth_error (gends shown) i = Some (preview_cut gends limit shown).
Proof.
  unfold preview_cut. destruct (last_firstn_nth (gends shown) limit) as [E|H]; [left; now rewrite E|right; exact H].
Qed.

Lemma preview_cut_in_line gends limit shown :
  Forall (fun e => e <= length shown) (gends shown) -> preview_cut gends limit shown <= length shown.
Proof.
  intro Hall. destruct (preview_cut_boundary gends limit shown) as [E|[i [_ Hn]]]; [lia|].
  rewrite Forall_forall in Hall. apply Hall. eapply nth_error_In. exact Hn.
Qed.

Lemma trim_line_terminator_le lt buf st en : trim_line_terminator lt buf st en <= en.
Proof.
  unfold trim_line_terminator. destruct (lt_is_suffix lt (sub buf st en)); [|lia].
  destruct lt; [lia|]. destruct (_ && _); lia.
Qed.

(* under the one fact assumed about the segmentation (every grapheme ends inside the string), the preview is
   exactly the first k bytes of the shown line for a k <= cut <= length *)
Lemma preview_prefix_length gends lt limit shown :
  Forall (fun e => e <= length shown) (gends shown) ->
  let cut := preview_cut gends limit shown in
  let k := trim_line_terminator lt shown 0 cut in
  k <= cut /\ cut <= length shown /\ length (firstn k shown) = k.
Proof.
  intro Hall. cbn zeta. pose proof (preview_cut_in_line gends limit shown Hall) as Hc.
  pose proof (trim_line_terminator_le lt shown 0 (preview_cut gends limit shown)) as Hk.
  repeat split; [exact Hk|exact Hc|]. rewrite firstn_length. lia.
Qed.
