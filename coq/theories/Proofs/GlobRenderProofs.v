(* Proofs/GlobRenderProofs.v — the glob parser (Model/Glob.v build) on the rendering of documented glob syntax
   (Spec/GlobSyntax.v) yields exactly the tokens the documented reading assigns: build (render g) = glob_tokens g *)
From RG Require Import Base.Bytes Model.Glob Spec.GlobSyntax Proofs.GlobParseProofs.

(* ---- fuel irrelevance ---- *)
Lemma parse_loop_mono o : forall f p r, parse_loop f o p = Some r -> parse_loop (S f) o p = Some r.
Proof.
  induction f as [|f IH]; intros p r H; [discriminate|].
  cbn [parse_loop] in *. destruct (cur (bump p)) as [c|]; [|exact H].
  destruct (step o c (bump p)) as [p'|e]; [|exact H]. now apply IH.
Qed.

Lemma parse_loop_mono_le o f f' p r : f <= f' -> parse_loop f o p = Some r -> parse_loop f' o p = Some r.
Proof. intros Hle; induction Hle as [|m Hle IH]; [auto|]. intro Hp. apply parse_loop_mono. auto. Qed.

Definition parse_all (o : gopts) (p : parser) : option (result parser) :=
  parse_loop (S (length (chars p))) o p.

Lemma parse_all_fuel o p f : length (chars p) < f -> parse_loop f o p = parse_all o p.
Proof.
  intro H. destruct (parse_loop_total o (S (length (chars p))) p (Nat.lt_succ_diag_r _)) as (r & Hr & _).
  unfold parse_all. rewrite Hr. eapply parse_loop_mono_le; [|exact Hr]. lia.
Qed.

Lemma parse_loop_S o f p :
  parse_loop (S f) o p =
  match cur (bump p) with
  | None => Some (Ok (bump p))
  | Some c => match step o c (bump p) with Ok p' => parse_loop f o p' | Err e => Some (Err e) end
  end.
Proof. reflexivity. Qed.

Lemma parse_all_step o p c cs p' :
  chars p = c :: cs -> step o c (bump p) = Ok p' -> parse_all o p = parse_all o p'.
Proof.
  intros Hc Hs. unfold parse_all at 1. rewrite Hc, parse_loop_S.
  assert (Hb : bump p = mk_parser (stack p) cs (cur p) (Some c)) by (unfold bump; now rewrite Hc).
  rewrite Hb in *. cbn [cur]. rewrite Hs. apply parse_all_fuel. cbn [length].
  destruct (step_ok o c (mk_parser (stack p) cs (cur p) (Some c))) as [_ Hl]. specialize (Hl _ Hs). cbn [chars] in Hl. lia.
Qed.

Lemma parse_all_end o p : chars p = [] -> parse_all o p = Some (Ok (bump p)).
Proof. intro H. unfold parse_all. rewrite H. cbn [length parse_loop]. unfold bump. rewrite H. reflexivity. Qed.

(* a state: one stack level with tokens ts, remaining text, last consumed character *)
Definition st (ts : list token) (cs : list N) (pv cu : option N) : parser := mk_parser [ts] cs pv cu.

(* the result does not depend on [prev] of the state (bump overwrites it) *)
Lemma parse_all_prev o ts cs pv pv' cu : parse_all o (st ts cs pv cu) = parse_all o (st ts cs pv' cu).
Proof.
  unfold parse_all, st. cbn [chars]. destruct cs as [|c cs]; cbn [length parse_loop bump chars stack cur]; reflexivity.
Qed.

Lemma push_st ts cs pv cu t : push_token (st ts cs pv cu) t = Ok (st (ts ++ [t]) cs pv cu).
Proof. reflexivity. Qed.

(* ---- single items ---- *)
Lemma run_plain o ts c cs pv cu :
  plain_ok c = true \/ c = 47%N ->
  parse_all o (st ts (c :: cs) pv cu) = parse_all o (st (ts ++ [TLit c]) cs cu (Some c)).
Proof.
  intro H. apply (parse_all_step o _ c cs); [reflexivity|]. unfold st, step, bump. cbn [chars stack cur].
  assert (E : ((c =? 63) = false /\ (c =? 42) = false /\ (c =? 91) = false /\ (c =? 123) = false /\
               (c =? 125) = false /\ (c =? 44) = false /\ (c =? 92) = false)%N).
  { destruct H as [H| ->]; [|repeat split; reflexivity]. unfold plain_ok in H. apply negb_true_iff in H.
    repeat (apply orb_false_iff in H as [H ?]). repeat split; assumption. }
  destruct E as (E1 & E2 & E3 & E4 & E5 & E6 & E7). rewrite E1, E2, E3, E4, E5, E6, E7. reflexivity.
Qed.

Lemma run_esc o ts c cs pv cu :
  backslash_escape o = true ->
  parse_all o (st ts (92%N :: c :: cs) pv cu) = parse_all o (st (ts ++ [TLit c]) cs (Some 92%N) (Some c)).
Proof.
  intro Hb. apply (parse_all_step o _ 92%N (c :: cs)); [reflexivity|]. unfold st, step, bump. cbn [chars stack cur].
  change ((92 =? 63)%N) with false. change ((92 =? 42)%N) with false. change ((92 =? 91)%N) with false.
  change ((92 =? 123)%N) with false. change ((92 =? 125)%N) with false. change ((92 =? 44)%N) with false.
  change ((92 =? 92)%N) with true. cbv iota. unfold parse_backslash. rewrite Hb. unfold bump. cbn [chars stack cur].
  reflexivity.
Qed.

Lemma run_any o ts cs pv cu :
  parse_all o (st ts (63%N :: cs) pv cu) = parse_all o (st (ts ++ [TAny]) cs cu (Some 63%N)).
Proof. apply (parse_all_step o _ 63%N cs); reflexivity. Qed.

Lemma run_star o ts cs pv cu :
  hd_error cs <> Some 42%N ->
  parse_all o (st ts (42%N :: cs) pv cu) = parse_all o (st (ts ++ [TStar]) cs cu (Some 42%N)).
Proof.
  intro H. apply (parse_all_step o _ 42%N cs); [reflexivity|]. unfold st, step, bump. cbn [chars stack cur].
  change ((42 =? 63)%N) with false. change ((42 =? 42)%N) with true. cbv iota.
  rewrite parse_star_eq. cbv zeta. unfold peek. cbn [chars].
  assert (E : opt_is (hd_error cs) 42 = false).
  { destruct cs as [|x cs']; [reflexivity|]. cbn. apply N.eqb_neq. intros ->. now apply H. }
  rewrite E. reflexivity.
Qed.

(* ---- classes ---- *)
Lemma class_char_neq c : class_char_ok c = true -> (c =? 93)%N = false /\ (c =? 45)%N = false.
Proof. unfold class_char_ok. intro H. apply negb_true_iff in H. now apply orb_false_iff in H. Qed.

Lemma class_loop_run ms : forall ranges first pv cu rest,
  forallb member_ok ms = true -> (ms = [] -> first = false) ->
  exists pv', class_loop (flat_map render_member ms ++ 93%N :: rest) pv cu ranges first false
              = Ok (ranges ++ ms, false, rest, pv', Some 93%N).
Proof.
  induction ms as [|[lo hi] ms IH]; intros ranges first pv cu rest Hok Hf.
  - rewrite (Hf eq_refl). cbn [flat_map app class_loop]. rewrite N.eqb_refl, app_nil_r. eauto.
  - cbn [forallb] in Hok. apply andb_true_iff in Hok as [Hm Hok]. unfold member_ok in Hm. cbn [fst snd] in Hm.
    apply andb_true_iff in Hm as [Hm Hle]. apply andb_true_iff in Hm as [Hlo Hhi].
    apply class_char_neq in Hlo as [Hlo1 Hlo2]. apply class_char_neq in Hhi as [Hhi1 Hhi2]. apply N.leb_le in Hle.
    cbn [flat_map]. unfold render_member at 1. cbn [fst snd]. destruct (lo =? hi)%N eqn:E.
    + apply N.eqb_eq in E. subst hi. cbn [app class_loop]. rewrite Hlo1, Hlo2.
      destruct (IH (ranges ++ [(lo, lo)]) false cu (Some lo) rest Hok ltac:(reflexivity)) as (pv' & ->).
      rewrite <- app_assoc. cbn [app]. eauto.
    + cbn [app class_loop]. rewrite Hlo1, Hlo2. cbn [class_loop]. change ((45 =? 93)%N) with false.
      change ((45 =? 45)%N) with true. cbv iota.
      destruct (ranges ++ [(lo, lo)]) as [|r0 rr] eqn:Er; [destruct ranges; discriminate|]. rewrite <- Er.
      cbn [class_loop]. rewrite Hhi1, Hhi2. unfold add_to_last_range. rewrite rev_app_distr. cbn [rev app].
      assert (Hlt : (hi <? lo)%N = false) by (apply N.ltb_ge; exact Hle). rewrite Hlt. cbn [bind].
      rewrite rev_involutive.
      destruct (IH (ranges ++ [(lo, hi)]) false (Some 45%N) (Some hi) rest Hok ltac:(reflexivity)) as (pv' & ->).
      rewrite <- app_assoc. cbn [app]. eauto.
Qed.

Lemma run_class o ts ms cs pv cu :
  item_ok (IClass ms) = true ->
  parse_all o (st ts (91%N :: flat_map render_member ms ++ 93%N :: cs) pv cu)
  = parse_all o (st (ts ++ [TClass false ms]) cs None (Some 93%N)).
Proof.
  intro Hok. cbn [item_ok] in Hok. apply andb_true_iff in Hok as [Hms Hfirst].
  destruct ms as [|[lo hi] ms']; [discriminate|]. set (ms := (lo, hi) :: ms') in *.
  destruct (class_loop_run ms [] true cu (Some 91%N) cs Hms ltac:(discriminate)) as (pv' & Hloop).
  cbn [app] in Hloop.
  rewrite (parse_all_prev o _ _ None pv').
  apply (parse_all_step o _ 91%N (flat_map render_member ms ++ 93%N :: cs)); [reflexivity|].
  unfold st, step, bump. cbn [chars stack cur].
  change ((91 =? 63)%N) with false. change ((91 =? 42)%N) with false. change ((91 =? 91)%N) with true. cbv iota.
  unfold parse_class, peek. cbn [chars].
  assert (Hpeek : exists c0 rest0, flat_map render_member ms ++ 93%N :: cs = c0 :: rest0 /\
                                   ((c0 =? 33) || (c0 =? 94))%N = false /\ c0 = lo).
  { unfold ms. cbn [flat_map]. unfold render_member at 1. cbn [fst snd] in *.
    apply negb_true_iff in Hfirst. destruct (lo =? hi)%N; cbn [app]; eauto. }
  destruct Hpeek as (c0 & rest0 & Etxt & Hneg & _). rewrite Etxt. cbn [hd_error]. rewrite Hneg.
  cbn [chars prev cur stack]. rewrite <- Etxt, Hloop. cbn [bind]. reflexivity.
Qed.

(* ---- a component ---- *)
Definition starts_no_star (cs : list N) : Prop := hd_error cs <> Some 42%N.

Lemma item_head_no_star i r : item_ok i = true -> i <> IStar -> starts_no_star (render_item i ++ r).
Proof.
  unfold starts_no_star. destruct i; cbn; intros H Hn; try discriminate; try congruence.
  unfold plain_ok in H. apply negb_true_iff in H. repeat (apply orb_false_iff in H as [H ?]).
  intro E. injection E as ->. discriminate.
Qed.

Lemma run_comp o its : forall ts rest pv cu,
  backslash_escape o = true -> forallb item_ok its = true -> no_adjacent_star its = true ->
  starts_no_star rest ->
  exists pv' cu', parse_all o (st ts (render_comp its ++ rest) pv cu)
                  = parse_all o (st (ts ++ comp_toks its) rest pv' cu').
Proof.
  induction its as [|i its IH]; intros ts rest pv cu Hb Hok Hadj Hrest.
  - cbn [render_comp flat_map app comp_toks map]. rewrite app_nil_r. eauto.
  - cbn [forallb] in Hok. apply andb_true_iff in Hok as [Hi Hok].
    assert (Hadj' : no_adjacent_star its = true) by (destruct i; try exact Hadj; destruct its as [|[]]; try exact Hadj; discriminate).
    cbn [render_comp flat_map comp_toks map]. fold (render_comp its). fold (comp_toks its). rewrite <- app_assoc.
    assert (Hnext : i = IStar -> starts_no_star (render_comp its ++ rest)).
    { intros ->. destruct its as [|j its']; [exact Hrest|]. cbn [render_comp flat_map]. rewrite <- app_assoc.
      cbn [forallb] in Hok. apply andb_true_iff in Hok as [Hj _]. apply item_head_no_star; [assumption|].
      intros ->. discriminate. }
    assert (Hgo : forall pv1 cu1, exists pv' cu',
               parse_all o (st (ts ++ [item_tok i]) (render_comp its ++ rest) pv1 cu1) =
               parse_all o (st (ts ++ item_tok i :: comp_toks its) rest pv' cu')).
    { intros pv1 cu1. destruct (IH (ts ++ [item_tok i]) rest pv1 cu1 Hb Hok Hadj' Hrest) as (pv' & cu' & E).
      rewrite <- app_assoc in E. eauto. }
    destruct i as [c|c| | |ms]; cbn [render_item app item_tok].
    + rewrite run_plain by (left; exact Hi). apply Hgo.
    + rewrite run_esc by assumption. apply Hgo.
    + rewrite run_any. apply Hgo.
    + rewrite run_star by (now apply Hnext). apply Hgo.
    + rewrite <- app_assoc. cbn [app]. rewrite run_class by assumption. apply Hgo.
Qed.

(* ---- "**" in its three positions ---- *)
Lemma run_dstar_lead o cs pv cu :
  parse_all o (st [] (42%N :: 42%N :: 47%N :: cs) pv cu) = parse_all o (st [TRecPrefix] cs (Some 42%N) (Some 47%N)).
Proof.
  apply (parse_all_step o _ 42%N (42%N :: 47%N :: cs)); [reflexivity|]. unfold st, step, bump. cbn [chars stack cur].
  change ((42 =? 63)%N) with false. change ((42 =? 42)%N) with true. cbv iota.
  rewrite parse_star_eq. reflexivity.
Qed.

Lemma run_dstar_lone o pv cu :
  parse_all o (st [] [42%N; 42%N] pv cu) = parse_all o (st [TRecPrefix] [] (Some 42%N) None).
Proof.
  apply (parse_all_step o _ 42%N [42%N]); [reflexivity|]. unfold st, step, bump. cbn [chars stack cur].
  change ((42 =? 63)%N) with false. change ((42 =? 42)%N) with true. cbv iota.
  rewrite parse_star_eq. reflexivity.
Qed.

Lemma star_tail_slash b ts cs pv cu :
  star_tail b (mk_parser [ts ++ [TLit 47]] cs pv cu) =
  Ok (mk_parser [ts ++ [if b then TRecSuffix else TRecZeroOrMore]] cs pv cu).
Proof.
  unfold star_tail, pop_token, bind. cbn [stack]. rewrite rev_app_distr. cbn [rev app].
  unfold set_stack. cbn [chars prev cur]. rewrite rev_involutive. destruct b; reflexivity.
Qed.

Lemma have_tokens_snoc ts t cs pv cu : have_tokens (mk_parser [ts ++ [t]] cs pv cu) = Ok true.
Proof. unfold have_tokens. cbn [stack]. destruct ts; reflexivity. Qed.

Lemma run_dstar_mid o ts cs pv cu :
  parse_all o (st ts (47%N :: 42%N :: 42%N :: 47%N :: cs) pv cu)
  = parse_all o (st (ts ++ [TRecZeroOrMore]) cs (Some 42%N) (Some 47%N)).
Proof.
  rewrite run_plain by now right.
  apply (parse_all_step o _ 42%N (42%N :: 47%N :: cs)); [reflexivity|]. unfold st, step, bump. cbn [chars stack cur].
  change ((42 =? 63)%N) with false. change ((42 =? 42)%N) with true. cbv iota.
  rewrite parse_star_eq. cbv zeta. unfold peek, bump. cbn [chars stack cur prev hd_error opt_is].
  change ((42 =? 42)%N) with true. cbn [negb]. cbv iota. rewrite have_tokens_snoc. cbn [bind negb opt_sep is_sep].
  change ((47 =? 47)%N) with true. cbn [negb andb]. cbv iota.
  change ((47 =? 44)%N) with false. change ((47 =? 125)%N) with false. cbn [orb andb]. cbv iota.
  apply star_tail_slash.
Qed.

Lemma run_dstar_end o ts pv cu :
  parse_all o (st ts [47%N; 42%N; 42%N] pv cu) = parse_all o (st (ts ++ [TRecSuffix]) [] (Some 42%N) None).
Proof.
  rewrite run_plain by now right.
  apply (parse_all_step o _ 42%N [42%N]); [reflexivity|]. unfold st, step, bump. cbn [chars stack cur].
  change ((42 =? 63)%N) with false. change ((42 =? 42)%N) with true. cbv iota.
  rewrite parse_star_eq. cbv zeta. unfold peek, bump. cbn [chars stack cur prev hd_error opt_is].
  change ((42 =? 42)%N) with true. cbn [negb]. cbv iota. rewrite have_tokens_snoc. cbn [bind negb opt_sep is_sep].
  change ((47 =? 47)%N) with true. cbn [negb andb]. cbv iota.
  apply star_tail_slash.
Qed.

(* ---- the whole glob ---- *)
Definition render_after (ps : list gpiece) : list N := flat_map (fun p => 47%N :: render_piece p) ps.

Lemma render_glob_cons p r : render_glob (p :: r) = render_piece p ++ render_after r.
Proof.
  revert p; induction r as [|q r IH]; intro p.
  - cbn. now rewrite app_nil_r.
  - change (render_glob (p :: q :: r)) with (render_piece p ++ 47%N :: render_glob (q :: r)).
    rewrite IH. reflexivity.
Qed.

Lemma render_after_starts ps : starts_no_star (render_after ps).
Proof. destruct ps; cbn; discriminate. Qed.

Lemma piece_ok_comp its : piece_ok (PComp its) = true -> forallb item_ok its = true /\ no_adjacent_star its = true.
Proof. cbn. intro H. apply andb_true_iff in H as [H _]. now apply andb_true_iff in H. Qed.

Lemma run_after_n o n : forall ps ts pv cu,
  length ps <= n -> backslash_escape o = true ->
  forallb piece_ok ps = true -> no_adjacent_dstar_p ps = true ->
  exists pv' cu', parse_all o (st ts (render_after ps) pv cu) = parse_all o (st (ts ++ after_piece ps) [] pv' cu').
Proof.
  induction n as [|n IH]; intros ps ts pv cu Hlen Hb Hok Hadj.
  { destruct ps; [|cbn in Hlen; lia]. cbn. rewrite app_nil_r. eauto. }
  destruct ps as [|p r]; [cbn; rewrite app_nil_r; eauto|].
  cbn [length] in Hlen. cbn [forallb] in Hok. apply andb_true_iff in Hok as [Hp Hok].
  destruct p as [its|].
  - apply piece_ok_comp in Hp as [Hits Hadjs]. assert (Hadj' : no_adjacent_dstar_p r = true) by exact Hadj.
    cbn [render_after flat_map render_piece after_piece]. fold (render_after r). rewrite <- app_comm_cons.
    rewrite run_plain by now right.
    destruct (run_comp o its (ts ++ [TLit 47]) (render_after r) cu (Some 47%N) Hb Hits Hadjs (render_after_starts r))
      as (pv1 & cu1 & ->).
    destruct (IH r ((ts ++ [TLit 47]) ++ comp_toks its) pv1 cu1 ltac:(lia) Hb Hok Hadj') as (pv2 & cu2 & ->).
    rewrite <- !app_assoc. cbn [app]. eauto.
  - destruct r as [|[its|] r'].
    + cbn [render_after flat_map render_piece after_piece app]. rewrite run_dstar_end. eauto.
    + cbn [forallb] in Hok. apply andb_true_iff in Hok as [Hp2 Hok']. apply piece_ok_comp in Hp2 as [Hits Hadjs].
      assert (Hadj' : no_adjacent_dstar_p r' = true) by exact Hadj. cbn [length] in Hlen.
      cbn [render_after flat_map render_piece after_piece app]. fold (render_after r').
      rewrite run_dstar_mid.
      destruct (run_comp o its (ts ++ [TRecZeroOrMore]) (render_after r') (Some 42%N) (Some 47%N) Hb Hits Hadjs
                         (render_after_starts r')) as (pv1 & cu1 & ->).
      destruct (IH r' ((ts ++ [TRecZeroOrMore]) ++ comp_toks its) pv1 cu1 ltac:(lia) Hb Hok' Hadj') as (pv2 & cu2 & ->).
      rewrite <- !app_assoc. cbn [app]. eauto.
    + discriminate.
Qed.

Lemma build_parse_all o g : build o g = match parse_all o (st [] g None None) with
                                        | None => None
                                        | Some (Err e) => Some (Err e)
                                        | Some (Ok p) => match stack p with
                                                         | [] => Some (Err UnopenedAlternates)
                                                         | [ts] => Some (Ok ts)
                                                         | _ => Some (Err UnclosedAlternates)
                                                         end
                                        end.
Proof. reflexivity. Qed.

Theorem build_render_proof o ps :
  backslash_escape o = true -> glob_ok ps = true ->
  build o (render_glob ps) = Some (Ok (glob_tokens ps)).
Proof.
  intros Hb Hok. unfold glob_ok in Hok. apply andb_true_iff in Hok as [Hok Hne]. apply andb_true_iff in Hok as [Hps Hadj].
  destruct ps as [|p r]; [discriminate|]. clear Hne. rewrite build_parse_all, render_glob_cons.
  cbn [forallb] in Hps. apply andb_true_iff in Hps as [Hp Hr].
  assert (Hfin : forall ts pv cu, match parse_all o (st ts [] pv cu) with
                                  | None => None | Some (Err e) => Some (Err e)
                                  | Some (Ok p0) => match stack p0 with [] => Some (Err UnopenedAlternates)
                                                                | [ts0] => Some (Ok ts0) | _ => Some (Err UnclosedAlternates) end
                                  end = Some (Ok ts)).
  { intros. rewrite parse_all_end by reflexivity. reflexivity. }
  destruct p as [its|].
  - apply piece_ok_comp in Hp as [Hits Hadjs]. assert (Hadj' : no_adjacent_dstar_p r = true) by exact Hadj.
    cbn [render_piece glob_tokens].
    destruct (run_comp o its [] (render_after r) None None Hb Hits Hadjs (render_after_starts r)) as (pv1 & cu1 & ->).
    destruct (run_after_n o (length r) r ([] ++ comp_toks its) pv1 cu1 (le_n _) Hb Hr Hadj') as (pv2 & cu2 & ->).
    cbn [app]. apply Hfin.
  - destruct r as [|[its|] r'].
    + cbn [render_piece render_after flat_map app glob_tokens]. rewrite run_dstar_lone. apply Hfin.
    + cbn [forallb] in Hr. apply andb_true_iff in Hr as [Hp2 Hr']. apply piece_ok_comp in Hp2 as [Hits Hadjs].
      assert (Hadj' : no_adjacent_dstar_p r' = true) by exact Hadj.
      cbn [render_piece render_after flat_map app glob_tokens]. fold (render_after r').
      rewrite run_dstar_lead.
      destruct (run_comp o its [TRecPrefix] (render_after r') (Some 42%N) (Some 47%N) Hb Hits Hadjs (render_after_starts r'))
        as (pv1 & cu1 & ->).
      destruct (run_after_n o (length r') r' ([TRecPrefix] ++ comp_toks its) pv1 cu1 (le_n _) Hb Hr' Hadj') as (pv2 & cu2 & ->).
      cbn [app]. apply Hfin.
    + discriminate.
Qed.
