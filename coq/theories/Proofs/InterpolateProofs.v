(* Proofs/InterpolateProofs.v — interpolate (model of interpolate.rs) = expand_spec *)
From RG Require Import Base.Bytes Base.BytesFacts Model.Interpolate Spec.TemplateSpec.

Ltac len := cbn [length] in *; rewrite ?app_length in *; cbn [length] in *; lia.

Section P.
  Variable cap_text : N -> option bytes.
  Variable n2i : bytes -> option N.

  Notation ex := (fun l => concat (map (expand_seg cap_text n2i) l)).

  Lemma valid_not_special c : is_valid_cap_letter c = true ->
    (c =? 36)%N = false /\ (c =? 123)%N = false /\ (c =? 125)%N = false.
  Proof.
    unfold is_valid_cap_letter. intro H.
    repeat split; apply N.eqb_neq; intro E; subst c; vm_compute in H; discriminate.
  Qed.

  (* text without '$' parses to itself *)
  Lemma parse_text_nodollar pre rest :
    forallb (fun x => negb (36 =? x)%N) pre = true ->
    ex (parse_t PText (pre ++ rest)) = pre ++ ex (parse_t PText rest).
  Proof.
    induction pre as [|c pre IH]; cbn [app forallb]; intro H; [reflexivity|].
    apply andb_true_iff in H as [Hc Hp].
    cbn [parse_t]. rewrite N.eqb_sym in Hc. apply negb_true_iff in Hc. rewrite Hc.
    cbn [map concat expand_seg app]. f_equal. apply IH, Hp.
  Qed.

  Lemma parse_name_run acc name after :
    forallb is_valid_cap_letter name = true ->
    parse_t (PName acc) (name ++ after) = parse_t (PName (rev name ++ acc)) after.
  Proof.
    revert acc; induction name as [|c name IH]; intros acc H; [reflexivity|].
    cbn [forallb] in H. apply andb_true_iff in H as [Hc Hn].
    cbn [app parse_t]. rewrite Hc. rewrite IH by exact Hn. cbn [rev]. now rewrite <- app_assoc.
  Qed.

  Lemma parse_brace_run acc name after :
    forallb is_valid_cap_letter name = true ->
    parse_t (PBrace acc) (name ++ after) = parse_t (PBrace (rev name ++ acc)) after.
  Proof.
    revert acc; induction name as [|c name IH]; intros acc H; [reflexivity|].
    cbn [forallb] in H. apply andb_true_iff in H as [Hc Hn].
    cbn [app parse_t]. rewrite Hc. rewrite IH by exact Hn. cbn [rev]. now rewrite <- app_assoc.
  Qed.

  (* after a complete $name, the rest is parsed as ordinary text *)
  Lemma parse_name_end acc after :
    match after with [] => True | c :: _ => is_valid_cap_letter c = false end ->
    ex (parse_t (PName acc) after) = expand_seg cap_text n2i (SRef (rev acc)) ++ ex (parse_t PText after).
  Proof.
    destruct after as [|c t]; intro H.
    - cbn [parse_t map concat]. now rewrite app_nil_r.
    - cbn [parse_t]. rewrite H. destruct (c =? 36)%N; reflexivity.
  Qed.

  Lemma expand_ref name dst :
    forall k : bytes -> option bytes,
    dst ++ expand_seg cap_text n2i (SRef name) =
      match mk_ref name with
      | RNum n => append cap_text n dst
      | RName s => match n2i s with Some n => append cap_text n dst | None => dst end
      end.
  Proof.
    intros _. unfold mk_ref, expand_seg, append.
    destruct (parse_u32 name) as [n|].
    - destruct (cap_text n); cbn [opt_bytes]; [reflexivity|apply app_nil_r].
    - destruct (n2i name) as [n|]; [|apply app_nil_r].
      destruct (cap_text n); cbn [opt_bytes]; [reflexivity|apply app_nil_r].
  Qed.

  Lemma take_while_split (f : N -> bool) (l : list N) :
    exists name after, l = name ++ after /\ take_while f l = name /\ skipn (length name) l = after /\
      forallb f name = true /\ match after with [] => True | c :: _ => f c = false end.
  Proof.
    exists (take_while f l), (drop_while f l).
    split; [symmetry; apply take_drop_while|]. split; [reflexivity|].
    split; [symmetry; apply drop_while_skipn|]. split; [apply take_while_all|].
    destruct (drop_while f l) eqn:E; [exact I|]. eapply drop_while_head; exact E.
  Qed.

  Lemma interp_loop_spec : forall fuel rep dst, length rep < fuel ->
    interp_loop cap_text n2i fuel rep dst = Some (dst ++ ex (parse_t PText rep)).
  Proof.
    induction fuel as [|fuel IH]; intros rep dst Hf; [lia|].
    assert (Hu : interp_loop cap_text n2i (S fuel) rep dst =
                 match rep with [] => Some dst | _ :: _ => interp_step cap_text n2i (interp_loop cap_text n2i fuel) rep dst end)
      by reflexivity.
    rewrite Hu; clear Hu.
    destruct rep as [|r0 rep0] eqn:Erep; [cbn; now rewrite app_nil_r|].
    rewrite <- Erep in *. clear Erep r0 rep0.
    unfold interp_step.
    destruct (memchr 36%N rep) as [i|] eqn:Em.
    2:{ apply find_index_none in Em.
        pose proof (parse_text_nodollar rep [] Em) as H. rewrite app_nil_r in H.
        rewrite H. cbn. now rewrite app_nil_r. }
    apply find_index_some in Em as (Hi & Hpre & x & r & Hsk & Hx).
    apply N.eqb_eq in Hx. subst x.
    replace (parse_t PText rep) with (parse_t PText (firstn i rep ++ skipn i rep)) by now rewrite firstn_skipn.
    rewrite parse_text_nodollar by exact Hpre.
    rewrite Hsk. rewrite app_assoc. set (dst' := dst ++ firstn i rep).
    assert (Hlen : length r < fuel).
    { assert (length (skipn i rep) = length rep - i) by apply skipn_length.
      rewrite Hsk in H. cbn in H. lia. }
    cbn [parse_t]. rewrite N.eqb_refl.
    (* rep' = '$' :: r *)
    destruct r as [|b rest].
    { (* lone trailing '$' *)
      cbn [find_cap_ref skipn]. rewrite IH by (cbn; lia). cbn. now rewrite !app_nil_r. }
    destruct (N.eqb_spec b 36) as [->|Hb36].
    { (* "$$" *)
      rewrite ?N.eqb_refl. cbn [skipn]. rewrite IH by (cbn in Hlen; lia). cbn [parse_t]. rewrite ?N.eqb_refl.
      cbn [map concat expand_seg]. now rewrite <- app_assoc. }
    apply N.eqb_neq in Hb36. cbn [skipn]. rewrite ?Hb36.
    unfold find_cap_ref. rewrite N.eqb_refl. cbn [negb].
    destruct (N.eqb_spec b 123) as [->|Hb123].
    - (* brace *)
      cbn [parse_t]. change ((123 =? 36)%N) with false. change ((123 =? 123)%N) with true. cbv iota.
      destruct (take_while_split is_valid_cap_letter rest) as (name & after & Hr & Htw & Hsn & Hall & Hafter).
      rewrite Htw, Hsn. subst rest. rewrite parse_brace_run by exact Hall. rewrite app_nil_r.
      destruct name as [|n0 name'] eqn:En.
      + (* empty name: "${" is literal *)
        cbn [length Nat.add Nat.eqb app rev].
        rewrite IH by len. cbn [skipn app].
        change (parse_t PText (123%N :: after)) with (SLit [123%N] :: parse_t PText after).
        cbn [map concat expand_seg]. unfold dst'. rewrite <- !app_assoc. do 3 f_equal.
        destruct after as [|c t]; [reflexivity|].
        cbn [parse_t]. cbn in Hafter. rewrite Hafter.
        destruct (N.eqb_spec c 125) as [->|Hc125]; [reflexivity|].
        destruct (N.eqb_spec c 36) as [->|Hc36]; [reflexivity|].
        apply N.eqb_neq in Hc36. rewrite ?Hc36. reflexivity.
      + rewrite <- En in *. assert (Hne : name <> []) by (rewrite En; discriminate).
        assert (Hnz : Nat.eqb (2 + length name) 2 = false).
        { apply Nat.eqb_neq. destruct name; [congruence|cbn; lia]. }
        rewrite Hnz. clear En n0 name'.
        destruct after as [|c t].
        * (* unterminated "${name" at end of template *)
          rewrite IH by len. cbn [skipn].
          change (123%N :: name ++ []) with ([123%N] ++ name ++ []).
          rewrite app_nil_r.
          pose proof (parse_text_nodollar ([123%N] ++ name) []) as Hp. rewrite app_nil_r in Hp.
          rewrite Hp.
          2:{ cbn [app forallb]. apply andb_true_iff; split; [reflexivity|].
              clear -Hall. induction name as [|c n IH]; [reflexivity|]. cbn [forallb] in *.
              apply andb_true_iff in Hall as [Hc Hn]. apply andb_true_iff; split; [|now apply IH].
              apply valid_not_special in Hc as (Hc & _). rewrite N.eqb_sym. now rewrite Hc. }
          cbn [map concat expand_seg parse_t]. rewrite !app_nil_r. unfold dst'.
          rewrite rev_involutive. rewrite <- !app_assoc. reflexivity.
        * cbn in Hafter. cbn [parse_t]. rewrite Hafter.
          destruct (N.eqb_spec c 125) as [->|Hc125].
          -- (* "${name}" *)
             destruct (rev name) as [|x xs] eqn:Erev.
             { exfalso. apply Hne. apply (f_equal (@rev _)) in Erev. now rewrite rev_involutive in Erev. }
             rewrite <- Erev. cbn [map concat]. rewrite rev_involutive.
             rewrite app_assoc. rewrite (expand_ref name dst' (fun _ => None)).
             assert (Hsk2 : skipn (2 + length name + 1) (36%N :: 123%N :: name ++ 125%N :: t) = t).
             { replace (2 + length name + 1) with (S (S (length name + 1))) by lia.
               cbn [skipn]. rewrite skipn_app. rewrite skipn_all2 by lia.
               replace (length name + 1 - length name) with 1 by lia. reflexivity. }
             rewrite Hsk2.
             assert (Ht : length t < fuel).
             { len. }
             destruct (mk_ref name) as [n|s]; [now rewrite IH|].
             destruct (n2i s); now rewrite IH.
          -- (* "${name" followed by something else: literal *)
             rewrite IH by len. cbn [skipn].
             change (123%N :: name ++ c :: t) with (([123%N] ++ name) ++ c :: t).
             rewrite parse_text_nodollar.
             2:{ cbn [app forallb]. apply andb_true_iff; split; [reflexivity|].
                 clear -Hall. induction name as [|c n IH]; [reflexivity|]. cbn [forallb] in *.
                 apply andb_true_iff in Hall as [Hc Hn]. apply andb_true_iff; split; [|now apply IH].
                 apply valid_not_special in Hc as (Hc & _). rewrite N.eqb_sym. now rewrite Hc. }
             rewrite rev_involutive. unfold dst'. rewrite <- !app_assoc. do 2 f_equal.
             cbn [app]. do 2 f_equal.
             destruct (N.eqb_spec c 36) as [->|Hc36].
             ++ cbn [map concat expand_seg parse_t]. rewrite N.eqb_refl. reflexivity.
             ++ apply N.eqb_neq in Hc36. cbn [map concat expand_seg parse_t]. rewrite ?Hc36. reflexivity.
    - (* no brace *)
      apply N.eqb_neq in Hb123.
      destruct (take_while_split is_valid_cap_letter (b :: rest)) as (name & after & Hr & Htw & Hsn & Hall & Hafter).
      rewrite Htw.
      destruct name as [|n0 name'] eqn:En.
      + (* '$' followed by a non-name byte: literal '$' *)
        cbn [length Nat.add Nat.eqb].
        rewrite IH by (cbn in *; lia). cbn [skipn].
        cbn [app] in Hr. subst after. cbn in Hafter.
        cbn [parse_t]. rewrite ?Hb36, ?Hb123, ?Hafter.
        cbn [map concat expand_seg]. unfold dst'. rewrite <- !app_assoc. reflexivity.
      + rewrite <- En in *. assert (Hne : name <> []) by (rewrite En; discriminate).
        assert (Hnz : Nat.eqb (1 + length name) 1 = false).
        { apply Nat.eqb_neq. destruct name; [congruence|cbn; lia]. }
        rewrite Hnz.
        assert (Hbv : is_valid_cap_letter b = true).
        { rewrite En in Hr. cbn [app] in Hr. injection Hr as -> _.
          rewrite En in Hall. cbn [forallb] in Hall. now apply andb_true_iff in Hall as [? _]. }
        cbn [parse_t]. rewrite ?Hb36, ?Hb123, ?Hbv.
        (* parse_t (PName [b]) rest *)
        assert (Hr' : rest = tl name ++ after /\ hd 0%N name = b).
        { rewrite En in *. cbn [app] in Hr. injection Hr as -> ->. split; reflexivity. }
        destruct Hr' as [Hrest Hhd].
        rewrite Hrest. rewrite parse_name_run.
        2:{ rewrite En in *. cbn [forallb tl] in *. now apply andb_true_iff in Hall as [_ ?]. }
        rewrite parse_name_end by exact Hafter.
        assert (Hrev : rev (rev (tl name) ++ [b]) = name).
        { rewrite rev_app_distr, rev_involutive. cbn. rewrite En in *. cbn in *. now subst. }
        rewrite Hrev. rewrite app_assoc. rewrite (expand_ref name dst' (fun _ => None)).
        assert (Hsk2 : skipn (1 + length name) (36%N :: b :: tl name ++ after) = after).
        { cbn [Nat.add skipn]. rewrite <- Hrest, <- Hsn. reflexivity. }
        rewrite Hsk2.
        assert (Ht : length after < fuel).
        { cbn in Hlen. rewrite Hrest in Hlen. rewrite app_length in Hlen. lia. }
        destruct (mk_ref name) as [n|s]; [now rewrite IH|].
        destruct (n2i s); now rewrite IH.
  Qed.

  Theorem interpolate_eq_spec_proof : forall t dst,
    interpolate cap_text n2i t dst = Some (dst ++ expand_spec cap_text n2i t).
  Proof. intros. unfold interpolate, expand_spec. apply interp_loop_spec. lia. Qed.
End P.
