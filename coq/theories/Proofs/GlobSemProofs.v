(* Proofs/GlobSemProofs.v — lemmas about the regex meaning tmk / tok_k of Spec/GlobSem.v *)
From RG Require Import Base.Bytes Base.BytesFacts Model.Glob Spec.GlobSem.

Lemma bool_eq_iff (a b : bool) : (a = true <-> b = true) -> a = b.
Proof. destruct a, b; intros [H1 H2]; try reflexivity; [symmetry; now apply H1|now apply H2]. Qed.

(* ---- nested induction principle for tokens ---- *)
Section token_ind2.
  Variable P : token -> Prop.
  Hypothesis HLit : forall c, P (TLit c).
  Hypothesis HAny : P TAny.
  Hypothesis HStar : P TStar.
  Hypothesis HRP : P TRecPrefix.
  Hypothesis HRS : P TRecSuffix.
  Hypothesis HRZ : P TRecZeroOrMore.
  Hypothesis HClass : forall neg rs, P (TClass neg rs).
  Hypothesis HAlt : forall alts, Forall (Forall P) alts -> P (TAlt alts).
  Fixpoint token_ind2 (t : token) : P t :=
    match t with
    | TLit c => HLit c
    | TAny => HAny
    | TStar => HStar
    | TRecPrefix => HRP
    | TRecSuffix => HRS
    | TRecZeroOrMore => HRZ
    | TClass neg rs => HClass neg rs
    | TAlt alts =>
      HAlt alts
        ((fix go (l : list (list token)) : Forall (Forall P) l :=
            match l with
            | [] => Forall_nil _
            | a :: r =>
              Forall_cons a
                ((fix go2 (ts : list token) : Forall P ts :=
                    match ts with
                    | [] => Forall_nil _
                    | t :: r2 => Forall_cons t (token_ind2 t) (go2 r2)
                    end) a)
                (go r)
            end) alts)
    end.
End token_ind2.

(* ---- unfolding of the alternates case in terms of tmk ---- *)
Lemma tok_k_alt o alts k p :
  tok_k o (TAlt alts) k p =
  if forallb (fun a => negb (branch_kept o a)) alts then k p
  else existsb (fun a => branch_kept o a && tmk o a k p) alts.
Proof.
  cbn [tok_k]. destruct (forallb _ alts); [reflexivity|].
  induction alts as [|a r IH]; [reflexivity|].
  cbn [existsb]. rewrite <- IH. f_equal. f_equal.
  match goal with |- ?f a k p = _ =>
    enough (H : forall k', f a k' = tmk o a k') by (rewrite H; reflexivity) end.
  clear. induction a as [|t a IHa]; intros k; [reflexivity|].
  cbn [tmk]. rewrite IHa. reflexivity.
Qed.

(* ---- the continuation is always called on a suffix of the path ---- *)
Lemma one_k_iff ok k p :
  one_k ok k p = true <-> exists b r, p = b :: r /\ ok b = true /\ k r = true.
Proof.
  destruct p as [|b r]; cbn [one_k]; split.
  - discriminate.
  - intros (b & r & H & _); discriminate.
  - intro H. apply andb_true_iff in H. exists b, r. tauto.
  - intros (b' & r' & H & H1 & H2). injection H as -> ->. now rewrite H1, H2.
Qed.

Lemma star_k_iff ok k p :
  star_k ok k p = true <-> exists x y, p = x ++ y /\ forallb ok x = true /\ k y = true.
Proof.
  induction p as [|b r IH]; cbn [star_k]; split.
  - rewrite orb_false_r. intro H. exists [], []. auto.
  - intros (x & y & H & _ & Hk). destruct x; [|discriminate]. cbn in H. subst y. now rewrite Hk.
  - intro H. apply orb_true_iff in H as [H|H].
    + exists [], (b :: r). auto.
    + apply andb_true_iff in H as [Hb H]. apply IH in H as (x & y & -> & Hx & Hy).
      exists (b :: x), y. cbn. rewrite Hb, Hx. auto.
  - intros (x & y & H & Hx & Hy). destruct x as [|c x].
    + cbn in H. subst y. now rewrite Hy.
    + cbn in H. injection H as <- ->. cbn in Hx. apply andb_true_iff in Hx as [Hc Hx].
      rewrite Hc. cbn. apply orb_true_iff. right. apply IH. eauto.
Qed.

Lemma after_some_slash_iff k p :
  after_some_slash k p = true <-> exists x y, p = x ++ 47%N :: y /\ k y = true.
Proof.
  induction p as [|b r IH]; cbn [after_some_slash]; split.
  - discriminate.
  - intros (x & y & H & _). destruct x; discriminate.
  - intro H. apply orb_true_iff in H as [H|H].
    + apply andb_true_iff in H as [Hb H]. apply N.eqb_eq in Hb. subst b. exists [], r. auto.
    + apply IH in H as (x & y & -> & Hy). exists (b :: x), y. auto.
  - intros (x & y & H & Hy). destruct x as [|c x]; cbn in H; injection H as -> ->.
    + rewrite N.eqb_refl, Hy. reflexivity.
    + apply orb_true_iff. right. apply IH. eauto.
Qed.

Lemma skipn_add {A} (n m : nat) (l : list A) : skipn m (skipn n l) = skipn (n + m) l.
Proof. revert l; induction n; intros l; [reflexivity|]. destruct l; cbn; [now destruct m|apply IHn]. Qed.

Lemma skipn_app_len {A} (x y : list A) : skipn (length x) (x ++ y) = y.
Proof. induction x; cbn; auto. Qed.

Lemma tok_k_suffix o t : forall k p, tok_k o t k p = true -> exists n, k (skipn n p) = true.
Proof.
  induction t as [c| | | | | |neg rs|alts IHalts] using token_ind2; intros k p H.
  - apply one_k_iff in H as (b & r & -> & _ & H). now exists 1.
  - apply one_k_iff in H as (b & r & -> & _ & H). now exists 1.
  - apply star_k_iff in H as (x & y & -> & _ & H). exists (length x). now rewrite skipn_app_len.
  - cbn [tok_k] in H. apply orb_true_iff in H as [H|H]; [apply orb_true_iff in H as [H|H]|].
    + now exists 0.
    + apply one_k_iff in H as (b & r & -> & _ & H). now exists 1.
    + apply after_some_slash_iff in H as (x & y & -> & H). exists (length (x ++ [47%N])).
      replace (x ++ 47%N :: y) with ((x ++ [47%N]) ++ y) by now rewrite <- app_assoc.
      now rewrite skipn_app_len.
  - apply one_k_iff in H as (b & r & -> & _ & H). apply star_k_iff in H as (x & y & -> & _ & H).
    exists (S (length x)). cbn. now rewrite skipn_app_len.
  - apply one_k_iff in H as (b & r & -> & _ & H). apply orb_true_iff in H as [H|H].
    + now exists 1.
    + apply after_some_slash_iff in H as (x & y & -> & H). exists (S (length (x ++ [47%N]))).
      replace (x ++ 47%N :: y) with ((x ++ [47%N]) ++ y) by now rewrite <- app_assoc.
      cbn [skipn]. now rewrite skipn_app_len.
  - apply one_k_iff in H as (b & r & -> & _ & H). now exists 1.
  - rewrite tok_k_alt in H. destruct (forallb _ alts); [now exists 0|].
    apply existsb_exists in H as (a & Ha & Hm). apply andb_true_iff in Hm as [_ Hm].
    rewrite Forall_forall in IHalts. specialize (IHalts a Ha). clear Ha.
    revert k p Hm. induction a as [|t a IHa]; intros k p Hm.
    + now exists 0.
    + cbn [tmk] in Hm. inversion IHalts as [|? ? Ht Hr]; subst.
      apply Ht in Hm as (n & Hn). apply (IHa Hr) in Hn as (m & Hm2).
      exists (n + m). now rewrite <- skipn_add.
Qed.

Lemma tmk_app_suffix o pre : forall r k p,
  tmk o (pre ++ r) k p = true -> exists n, tmk o r k (skipn n p) = true.
Proof.
  induction pre as [|t pre IH]; intros r k p H.
  - now exists 0.
  - cbn [app tmk] in H. apply tok_k_suffix in H as (n & Hn). apply IH in Hn as (m & Hm).
    exists (n + m). now rewrite <- skipn_add.
Qed.

(* ---- a run of literal tokens, case sensitive ---- *)
Lemma tmk_lits_app o l : forall r k p,
  case_insensitive o = false ->
  tmk o (map TLit l ++ r) k p = is_prefix_of l p && tmk o r k (skipn (length l) p).
Proof.
  induction l as [|c l IH]; intros r k p Hci; [reflexivity|].
  cbn [map app tmk tok_k]. destruct p as [|b p]; [reflexivity|].
  cbn [one_k is_prefix_of length skipn]. unfold lit_match. rewrite Hci.
  rewrite IH by assumption. now rewrite andb_assoc.
Qed.

Lemma tmk_lits o l k p :
  case_insensitive o = false ->
  tmk o (map TLit l) k p = is_prefix_of l p && k (skipn (length l) p).
Proof.
  intro Hci. rewrite <- (app_nil_r (map TLit l)). now rewrite tmk_lits_app.
Qed.

Lemma is_prefix_of_iff l p : is_prefix_of l p = true <-> exists y, p = l ++ y.
Proof.
  revert p; induction l as [|c l IH]; intros p; cbn [is_prefix_of].
  - split; [intros _; now exists p|reflexivity].
  - destruct p as [|b p]; split.
    + discriminate.
    + intros (y & H). discriminate.
    + intro H. apply andb_true_iff in H as [H1 H2]. apply N.eqb_eq in H1. subst.
      apply IH in H2 as (y & ->). now exists y.
    + intros (y & H). cbn in H. injection H as -> ->. rewrite N.eqb_refl. apply IH. eauto.
Qed.

(* lits then end of path = equality *)
Lemma tmk_lits_nil o l p :
  case_insensitive o = false -> tmk o (map TLit l) is_nil p = bytes_eqb l p.
Proof.
  intro Hci. rewrite tmk_lits by assumption. apply bool_eq_iff. rewrite andb_true_iff, bytes_eqb_eq, is_prefix_of_iff.
  split.
  - intros [(y & ->) H]. rewrite skipn_app_len in H. destruct y; [now rewrite app_nil_r|discriminate].
  - intros <-. split; [exists []; now rewrite app_nil_r|]. now rewrite skipn_all.
Qed.
