(* Proofs/WalkIgErr.v — partial errors of a directory's ignore files never change the installed matcher *)
From RG Require Import Base.Bytes Model.Walk Model.WalkIgErr Spec.WalkSpec Proofs.WalkProofs Proofs.WalkTotal.
From Coq Require Import Permutation.

Section P.
  Variables (matcher igerr : Type) (compile : bytes -> nat -> matcher * option igerr) (fs : fsys).

  Lemma partial_error_keeps_matcher_proof (ig : mstack matcher) (e : dent) (skipped : bool) :
    fst (serial_dir_push matcher igerr compile fs skipped ig e)
      = {| in_dir := de_path e; in_ino := hino fs e; in_m := fst (compile (de_path e) (hino fs e)) |} :: ig
    /\ fst (par_read_dir matcher igerr compile ig e)
      = {| in_dir := de_path e; in_ino := de_ino e; in_m := fst (compile (de_path e) (de_ino e)) |} :: ig
    /\ snd (par_read_dir matcher igerr compile ig e) = snd (compile (de_path e) (de_ino e))
    /\ snd (serial_dir_push matcher igerr compile fs false ig e) = snd (compile (de_path e) (hino fs e)).
  Proof.
    unfold serial_dir_push, par_read_dir, add_child. destruct skipped; cbn [fst snd]; repeat split; reflexivity.
  Qed.

  Lemma push_erase_proof (ig : mstack matcher) (e : dent) (skipped : bool) :
    erase matcher (fst (serial_dir_push matcher igerr compile fs skipped ig e)) = (de_path e, hino fs e) :: erase matcher ig
    /\ erase matcher (fst (par_read_dir matcher igerr compile ig e)) = (de_path e, de_ino e) :: erase matcher ig.
  Proof.
    unfold serial_dir_push, par_read_dir, add_child, erase. destruct skipped; cbn [fst snd map in_dir in_ino]; split; reflexivity.
  Qed.

  Lemma wf_preserved_proof (ig : mstack matcher) (e : dent) (skipped : bool) :
    wf_mstack matcher igerr compile ig ->
    wf_mstack matcher igerr compile (fst (serial_dir_push matcher igerr compile fs skipped ig e))
    /\ wf_mstack matcher igerr compile (fst (par_read_dir matcher igerr compile ig e))
    /\ wf_mstack matcher igerr compile (tl ig)
    /\ wf_mstack matcher igerr compile [].
  Proof.
    unfold wf_mstack, serial_dir_push, par_read_dir, add_child, erase, rebuild. intro Hwf.
    repeat split.
    - destruct skipped; cbn [fst snd map in_dir in_ino]; f_equal; exact Hwf.
    - cbn [fst snd map in_dir in_ino]. f_equal. exact Hwf.
    - destruct ig as [|n ig']; [reflexivity|]. cbn [tl]. cbn [map] in Hwf. injection Hwf as _ Hwf. exact Hwf.
  Qed.

  Lemma verdict_on_wf_proof (verdict : mstack matcher -> dent -> bool) (ig : mstack matcher) (e : dent) :
    wf_mstack matcher igerr compile ig ->
    verdict ig e = should_skip_of matcher igerr compile verdict (erase matcher ig) e.
  Proof. unfold wf_mstack, should_skip_of. intro Hwf. rewrite Hwf. reflexivity. Qed.

  Lemma serial_eq_parallel_partial_errors_proof
        (verdict : mstack matcher -> dent -> bool)
        (max_depth : option nat) (max_filesize : option N) (follow_links same_fs has_filter : bool)
        (filter : dent -> bool) (rk : nat -> nat) (B : nat) (roots : list (bytes * nat)) :
    ranked fs rk B -> links_ok fs ->
    exists n souts pouts,
      (forall F, serial_walk fs max_depth max_filesize follow_links same_fs has_filter filter
                   (should_skip_of matcher igerr compile verdict) (n + F) roots = Some souts) /\
      (forall F, par_walk fs max_depth max_filesize follow_links same_fs has_filter filter
                   (should_skip_of matcher igerr compile verdict) (n + F) roots = Some pouts) /\
      Permutation (map okey souts) (map okey pouts).
  Proof. apply serial_eq_parallel_proof. Qed.
End P.

(* the variant that drops the matcher when an error accompanies it does not satisfy partial_error_keeps_matcher *)
Lemma only_if_ok_loses_matcher_proof :
  exists (compile : bytes -> nat -> nat * option unit) (e : dent),
    fst (par_read_dir_only_if_ok nat unit compile [] e) <> fst (par_read_dir nat unit compile [] e).
Proof.
  exists (fun _ _ => (7, Some tt)),
         {| de_path := []; de_depth := 1; de_ty := TyDir; de_follow := false; de_ino := 0 |}.
  vm_compute. discriminate.
Qed.
