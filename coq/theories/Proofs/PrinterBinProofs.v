(* Proofs/PrinterBinProofs.v — the printers' reactions to binary data (Model/BinaryDetect.v) against
   Spec/BinarySpec.v, and the composition searcher + standard printer. *)
From RG Require Import Base.Bytes Base.BytesFacts Model.LineBufferBin Model.BinaryDetect Spec.BinarySpec
  Proofs.LineBufferBinProofs Proofs.BinaryDetectProofs.

Section Std.
  Variable cfg : std_cfg.
  Variable render : event -> bytes.

  (* the sink fed a chronological list of events, replies ignored *)
  Definition std_run (evs : list event) (st : std_sink) : std_sink :=
    fold_left (fun st ev => fst (std_step cfg render st ev)) evs st.

  Lemma binary_message_count st off :
    binary_message cfg st off = notice cfg (ss_match_count st) off.
  Proof. unfold notice, binary_message. reflexivity. Qed.

  Lemma std_step_spec st ev :
    let st' := fst (std_step cfg render st ev) in
    ss_out st' = ss_out st ++ std_spec cfg render [ev] (ss_match_count st) (ss_bin st) /\
    ss_match_count st' = match ev with EBegin => 0 | EMatched _ _ => ss_match_count st + 1 | _ => ss_match_count st end /\
    ss_bin st' = match ev with EBegin => None | EBinary off => Some off | _ => ss_bin st end.
  Proof.
    destruct ev as [|off l|k off l| |off|bc bn]; cbn [std_step std_spec]; unfold suppressed.
    - cbn. rewrite app_nil_r. tauto.
    - cbn [ss_match_count ss_bin ss_out ss_after_remaining].
      destruct (is_convert (sc_mode cfg) && is_some (ss_bin st)); cbn; rewrite ?app_nil_r; tauto.
    - cbn [ss_match_count ss_bin ss_out ss_after_remaining].
      destruct (is_convert (sc_mode cfg) && is_some (ss_bin st)); cbn; rewrite ?app_nil_r; tauto.
    - cbn. unfold sep_bytes. rewrite app_nil_r. tauto.
    - cbn. rewrite app_nil_r. tauto.
    - cbn. rewrite app_nil_r. destruct (ss_bin st); [rewrite binary_message_count|]; tauto.
  Qed.

  (* how a prefix of events advances (match count, binary offset) *)
  Fixpoint adv (evs : list event) (c : nat) (bn : option nat) : nat * option nat :=
    match evs with
    | [] => (c, bn)
    | EBegin :: r => adv r 0 None
    | EMatched _ _ :: r => adv r (c + 1) bn
    | EBinary off :: r => adv r c (Some off)
    | _ :: r => adv r c bn
    end.

  Lemma std_spec_app evs1 evs2 count bin :
    std_spec cfg render (evs1 ++ evs2) count bin =
    std_spec cfg render evs1 count bin ++
    std_spec cfg render evs2 (fst (adv evs1 count bin)) (snd (adv evs1 count bin)).
  Proof.
    revert count bin. induction evs1 as [|ev r IH]; intros count bin; [reflexivity|].
    destruct ev; cbn [app std_spec adv]; rewrite IH, <- ?app_assoc; reflexivity.
  Qed.

  Lemma adv_no_begin evs : no_begin evs -> forall c bn,
    adv evs c bn = (c + count_matched evs, last_binary evs bn).
  Proof.
    induction evs as [|ev r IH]; intros Hnb c bn; [cbn; f_equal; lia|].
    inversion Hnb as [|? ? Hne Hnb']; subst.
    destruct ev; cbn [adv count_matched last_binary]; try contradiction; rewrite IH by assumption; f_equal; lia.
  Qed.

  (* link: the model sink writes exactly what the specification says *)
  Lemma std_run_eq_spec_proof evs st :
    ss_out (std_run evs st) = ss_out st ++ std_spec cfg render evs (ss_match_count st) (ss_bin st).
  Proof.
    revert st. induction evs as [|ev r IH]; intro st; [cbn; now rewrite app_nil_r|].
    unfold std_run. cbn [fold_left]. fold (std_run r). rewrite IH.
    destruct (std_step_spec st ev) as (-> & -> & ->). rewrite <- app_assoc. f_equal.
    destruct ev; cbn [std_spec]; rewrite ?app_nil_r, <- ?app_assoc; reflexivity.
  Qed.

  (* ---- freeness of the output ---- *)
  Variable b : byte.
  Definition render_ok : Prop := forall ev, ev_free b ev -> ~ In b (render ev).
  Definition texts_free : Prop := ~ In b (sep_bytes cfg) /\ forall count off, ~ In b (notice cfg count off).
  Hypothesis Hrender : render_ok.
  Hypothesis Htexts : texts_free.

  Lemma spec_free_all evs : no_begin evs -> Forall (ev_free b) evs ->
    forall count bin, ~ In b (std_spec cfg render evs count bin).
  Proof.
    intros Hnb Hf. induction evs as [|ev r IH]; intros count bin; [cbn; tauto|].
    inversion Hnb as [|? ? Hne Hnb']; subst. inversion Hf as [|? ? Hev Hf']; subst.
    destruct Htexts as [Hs Hn].
    destruct ev; cbn [std_spec]; try contradiction; intro H; try apply in_app_or in H as [H|H];
      try (revert H; apply IH; assumption).
    - destruct (suppressed cfg bin); [destruct H|]. revert H. apply Hrender. exact Hev.
    - destruct (suppressed cfg bin); [destruct H|]. revert H. apply Hrender. exact Hev.
    - contradiction.
    - destruct bin; [revert H; apply Hn|destruct H].
  Qed.

  Lemma spec_free_suppressed evs : is_convert (sc_mode cfg) = true -> no_begin evs ->
    forall count off, ~ In b (std_spec cfg render evs count (Some off)).
  Proof.
    intros Hc Hnb. induction evs as [|ev r IH]; intros count off; [cbn; tauto|].
    inversion Hnb as [|? ? Hne Hnb']; subst. destruct Htexts as [Hs Hn].
    destruct ev; cbn [std_spec]; unfold suppressed; rewrite ?Hc; cbn [andb is_some app]; try contradiction;
      intro H; try apply in_app_or in H as [H|H]; try (revert H; apply IH; assumption).
    - contradiction.
    - revert H. apply Hn.
  Qed.

  Lemma spec_free_guarded evs : is_convert (sc_mode cfg) = true -> no_begin evs -> guarded b evs ->
    forall count, ~ In b (std_spec cfg render evs count None).
  Proof.
    intros Hc Hnb. induction evs as [|ev r IH]; intros Hg count; [cbn; tauto|].
    inversion Hnb as [|? ? Hne Hnb']; subst. destruct Htexts as [Hs Hn].
    destruct ev; cbn [std_spec guarded] in *; unfold suppressed; cbn [is_some andb]; rewrite ?andb_false_r;
      try contradiction; try (destruct Hg as [Hev Hg]); intro H; try apply in_app_or in H as [H|H];
      try (revert H; apply IH; assumption).
    - revert H. apply Hrender. exact Hev.
    - revert H. apply Hrender. exact Hev.
    - contradiction.
    - revert H. apply spec_free_suppressed; assumption.
    - destruct H.
  Qed.

  (* ---- notice / warning ---- *)
  Lemma notice_iff_proof evs bc bn c0 b0 : no_begin evs -> no_finish evs ->
    std_spec cfg render (EBegin :: evs ++ [EFinish bc bn]) c0 b0 =
    std_spec cfg render evs 0 None ++
    match last_binary evs None with Some off => notice cfg (count_matched evs) off | None => [] end.
  Proof.
    intros Hnb Hnf. cbn [std_spec]. rewrite std_spec_app. f_equal.
    rewrite adv_no_begin by assumption. cbn [fst snd std_spec]. rewrite app_nil_r. reflexivity.
  Qed.

  Lemma notice_nil_iff_proof count off :
    notice cfg count off = [] <-> count = 0 \/ sc_mode cfg = BNone.
  Proof.
    unfold notice, binary_message. cbn [ss_match_count]. destruct (Nat.eqb_spec count 0) as [->|Hne]; [tauto|].
    destruct (sc_mode cfg) as [|q|c].
    - tauto.
    - split; [intro H; apply (f_equal (@length N)) in H; rewrite !app_length in H; cbn in H; lia|intros [H|H]; [lia|discriminate]].
    - split; [intro H; apply (f_equal (@length N)) in H; rewrite !app_length in H; cbn in H; lia|intros [H|H]; [lia|discriminate]].
  Qed.
End Std.

(* ---- the summary printer ---- *)
Lemma sum_step_out_proof cfg st ev :
  (match ev with EFinish _ _ => False | _ => True end) -> ms_out (fst (sum_step cfg st ev)) = ms_out st.
Proof.
  destruct ev; cbn; try tauto; intros _.
  destruct (sum_quit_early (mc_kind cfg)); reflexivity.
Qed.

Lemma sum_quit_squash_proof cfg st bc off q :
  mc_mode cfg = BQuit q ->
  fst (sum_step cfg st (EFinish bc (Some off))) = mk_sum 0 (Some off) (ms_out st).
Proof. intro H. cbn. rewrite H. reflexivity. Qed.

(* ---- decimal digits and the fixed texts carry no NUL ---- *)
Lemma dec_aux_nonzero fuel : forall n acc, ~ In 0%N acc -> ~ In 0%N (dec_aux fuel n acc).
Proof.
  induction fuel as [|f IH]; intros n acc Ha; cbn [dec_aux]; [exact Ha|].
  assert (Hd : ~ In 0%N ((48 + n mod 10)%N :: acc)) by (intros [H|H]; [revert H; generalize (n mod 10)%N; intros m Hm; lia|tauto]).
  destruct (N.eqb (n / 10) 0); [exact Hd|apply IH; exact Hd].
Qed.

Lemma dec_nonzero n : ~ In 0%N (dec n).
Proof. unfold dec. apply dec_aux_nonzero. tauto. Qed.

Lemma texts_free_nul cfg :
  (match sc_path cfg with Some p => ~ In 0%N p | None => True end) ->
  (match sc_sep cfg with Some s => ~ In 0%N s | None => True end) ->
  ~ In 0%N (sc_lt cfg) -> (forall x, ~ In 0%N (sc_dbg cfg x)) ->
  texts_free cfg 0%N.
Proof.
  intros Hp Hs Hl Hd. split.
  - unfold sep_bytes. destruct (sc_sep cfg); [|tauto]. intro H. apply in_app_or in H. tauto.
  - intros count off. unfold notice, binary_message. cbn [ss_match_count].
    destruct (count =? 0); [tauto|].
    assert (Hpp : ~ In 0%N (path_prefix cfg)).
    { unfold path_prefix. destruct (sc_path cfg); [|tauto]. intro H. apply in_app_or in H as [H|H]; [tauto|].
      cbn in H. intuition discriminate. }
    pose proof (dec_nonzero off) as Hdec.
    destruct (sc_mode cfg) as [|q|c]; [tauto| |];
      (intro H; repeat (apply in_app_or in H as [H|H]); try tauto;
       try (revert H; apply Hd); try (cbn in H; intuition discriminate)).
Qed.

(* ---- composition: searcher strategies with the standard printer as sink ---- *)
Section Compose.
  Variable cfg : std_cfg.
  Variable render : event -> bytes.
  Variable b : byte.
  Hypothesis Hrender : render_ok render b.
  Hypothesis Htexts : texts_free cfg b.

  Notation sink := (std_step cfg render).
  Definition st0 : std_sink := mk_std 0 0 None [].

  (* the printer state is the fold of the sink over the delivered events, which start with one begin *)
  Definition fold_shape (w : @world std_sink) : Prop :=
    fst w = std_run cfg render (rev (snd w)) st0 /\
    exists t, rev (snd w) = EBegin :: t /\ no_begin t.

  Lemma fold_shape_emit w ev : ev <> EBegin -> fold_shape w -> fold_shape (fst (emit sink w ev)).
  Proof.
    intros Hne [Hf (t & Ht & Hnb)]. unfold emit. destruct (sink (fst w) ev) as [s' r] eqn:E. cbn [fst snd]. split.
    - cbn [fst snd rev]. unfold std_run. rewrite fold_left_app. cbn [fold_left].
      change (fold_left (fun st ev0 => fst (sink st ev0)) (rev (snd w)) st0) with (std_run cfg render (rev (snd w)) st0).
      rewrite <- Hf, E. reflexivity.
    - exists (t ++ [ev]). cbn [fst snd rev]. rewrite Ht. split; [reflexivity|]. apply Forall_app. split; [exact Hnb|].
      constructor; [exact Hne|constructor].
  Qed.

  Lemma fold_shape_begin : fold_shape (fst (emit sink (st0, []) EBegin)).
  Proof.
    unfold emit. cbn [fst snd]. destruct (sink st0 EBegin) as [s' r] eqn:E. cbn [fst snd rev app]. split.
    - cbn [fst snd rev app]. unfold std_run. cbn [fold_left]. rewrite E. reflexivity.
    - exists []. split; [reflexivity|constructor].
  Qed.

  Lemma out_of_shape w : fold_shape w ->
    exists t, rev (snd w) = EBegin :: t /\ no_begin t /\ ss_out (fst w) = std_spec cfg render t 0 None.
  Proof.
    intros [Hf (t & Ht & Hnb)]. exists t. split; [exact Ht|]. split; [exact Hnb|].
    rewrite Hf, Ht, std_run_eq_spec_proof. reflexivity.
  Qed.

  Lemma slice_standard_output_free_proof mode sniff slice plan fp :
    sc_mode cfg = mode -> mode = BQuit b \/ mode = BConvert b ->
    ~ In b (ss_out (fst (slice_run sink mode sniff slice plan fp (st0, [])))).
  Proof.
    intros Hm Hqc. set (w := slice_run sink mode sniff slice plan fp (st0, [])).
    assert (Hs : fold_shape w).
    { apply (slice_run_emit_pres sink mode b fold_shape); [intros; apply fold_shape_emit; assumption|apply fold_shape_begin]. }
    destruct (out_of_shape w Hs) as (t & Ht & Hnb & ->).
    destruct Hqc as [Hq|Hc].
    - pose proof (slice_quit_events_free_proof sink mode b sniff slice plan fp st0 Hq) as Hf. fold w in Hf.
      apply Forall_rev' in Hf. rewrite Ht in Hf. inversion Hf; subst.
      apply spec_free_all with (b := b); assumption.
    - pose proof (slice_convert_guarded_proof sink mode b sniff slice plan fp st0 Hc) as Hg. fold w in Hg.
      rewrite Ht in Hg. cbn [guarded] in Hg. destruct Hg as [_ Hg].
      apply spec_free_guarded with (b := b); try assumption. rewrite Hm, Hc. reflexivity.
  Qed.

  Lemma reader_standard_output_free_proof {core : Type} (c_roll : core -> bytes -> nat * core)
        (c_plan : core -> bytes -> list call * bool * core) mode lcfg fuel lb0 rd core0 :
    hides lcfg b -> (forall c buf, fst (c_roll c buf) <= length buf) ->
    ~ In b (ss_out (fst (fst (rbl_run sink mode c_roll c_plan lcfg fuel lb0 rd core0 (st0, []))))).
  Proof.
    intros Hh Hr. set (w := fst (rbl_run sink mode c_roll c_plan lcfg fuel lb0 rd core0 (st0, []))).
    assert (Hs : fold_shape w).
    { apply (rbl_run_pres sink mode b c_roll c_plan lcfg Hh Hr fold_shape);
        [intros; apply fold_shape_emit; assumption|apply fold_shape_begin]. }
    destruct (out_of_shape w Hs) as (t & Ht & Hnb & ->).
    pose proof (rbl_events_free_proof sink mode b c_roll c_plan lcfg fuel lb0 rd core0 st0 Hh Hr) as Hf. fold w in Hf.
    apply Forall_rev' in Hf. rewrite Ht in Hf. inversion Hf; subst.
    apply spec_free_all with (b := b); assumption.
  Qed.
End Compose.
