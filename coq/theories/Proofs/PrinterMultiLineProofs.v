(* Proofs/PrinterMultiLineProofs.v — C09/C10: the records of --only-matching and per-match output of a
   multi-line block (StandardImpl::sink_slow_multi_line_only_matching, sink_slow_multi_per_match) *)
From RG Require Import Base.Bytes Base.BytesFacts Model.MatchIter Model.Replace Model.Sink Model.Standard
  Spec.ReplaceSpec Spec.ModesSpec Spec.PrinterSpec Spec.PrinterMultiLineSpec Proofs.PrinterProofs Proofs.SinkProofs Proofs.ModesProofs.
From Coq Require Import Lia.

(* ------------------------------------------------------------------ ordered spans *)
Lemma spans_ordered_weaken : forall l lo lo', lo <= lo' -> spans_ordered lo' l -> spans_ordered lo l.
Proof. intros [|m r] lo lo' Hle H; [exact I|]. cbn [spans_ordered] in *. intuition lia. Qed.

Lemma spans_ordered_lower : forall l lo, spans_ordered lo l -> Forall (fun x => lo <= fst x) l.
Proof.
  induction l as [|m r IH]; intros lo H; [constructor|]. cbn [spans_ordered] in H.
  destruct H as (H1 & H2 & H3). constructor; [exact H1|].
  specialize (IH _ H3). eapply Forall_impl; [|exact IH]. cbn beta. intros x Hx. lia.
Qed.

Lemma line_spans_aux_ordered ltb : forall l start pos, start <= pos ->
  spans_ordered start (line_spans_aux ltb l start pos).
Proof.
  induction l as [|b r IH]; intros start pos Hle; cbn [line_spans_aux].
  - destruct (Nat.ltb_spec start pos); cbn [spans_ordered fst snd]; [lia|exact I].
  - destruct (b =? ltb)%N.
    + cbn [spans_ordered fst snd]. repeat split; [lia|lia|]. apply IH. lia.
    + apply IH. lia.
Qed.
Lemma line_spans_ordered ltb b : spans_ordered 0 (line_spans ltb b).
Proof. apply line_spans_aux_ordered. lia. Qed.

Lemma trim_le lt buf s e : trim_line_terminator lt buf s e <= e.
Proof.
  unfold trim_line_terminator. destruct (lt_is_suffix lt (sub buf s e)); [|lia].
  destruct lt as [b|]; [lia|]. destruct (Nat.ltb 0 (e - 1) && _); lia.
Qed.

(* every LineStep line is non-empty and starts at 0 or right after a terminator byte; hence trimming
   its terminator (also the two-byte CRLF) never moves its end before its start *)
Definition line_start_ok (ltb : byte) (buf : bytes) (se : nat * nat) : Prop :=
  fst se < snd se /\ (fst se = 0 \/ nth_error buf (fst se - 1) = Some ltb).

Lemma line_spans_aux_starts ltb buf : forall l pre start,
  buf = pre ++ l -> start <= length pre ->
  (start = 0 \/ nth_error buf (start - 1) = Some ltb) ->
  Forall (line_start_ok ltb buf) (line_spans_aux ltb l start (length pre)).
Proof.
  induction l as [|b r IH]; intros pre start Hb Hle Hst; cbn [line_spans_aux].
  - destruct (Nat.ltb_spec start (length pre)); constructor; [|constructor].
    split; cbn [fst snd]; assumption.
  - assert (buf = (pre ++ [b]) ++ r) as Hb' by (now rewrite <- app_assoc).
    assert (length (pre ++ [b]) = S (length pre)) as Hl by (rewrite app_length; cbn [length]; lia).
    destruct (N.eqb_spec b ltb) as [->|Hne].
    + constructor; [split; cbn [fst snd]; [lia|assumption]|].
      rewrite <- Hl. apply IH; [exact Hb'|lia|]. right. rewrite Hl. cbn [Nat.sub]. rewrite Nat.sub_0_r.
      rewrite Hb, nth_error_app2, Nat.sub_diag by lia. reflexivity.
    + rewrite <- Hl. apply IH; [exact Hb'|lia|exact Hst].
Qed.

Lemma trim_ge_start lt buf s e :
  line_start_ok (lt_byte lt) buf (s, e) -> s <= trim_line_terminator lt buf s e.
Proof.
  intros [Hlt Hst]. cbn [fst snd] in Hlt, Hst. unfold trim_line_terminator.
  destruct (lt_is_suffix lt (sub buf s e)); [|lia]. destruct lt as [b|]; [lia|].
  destruct (Nat.ltb_spec 0 (e - 1)); cbn [andb]; [|lia].
  destruct (nth_error buf (e - 1 - 1)) as [n|] eqn:En; cbv iota; [|lia].
  destruct (N.eq_dec n 13) as [->|Hn13].
  - destruct (Nat.eq_dec s (e - 1)) as [->|Hs]; [|lia].
    destruct Hst as [H0|Hn]; [lia|]. cbn [lt_byte] in Hn. rewrite En in Hn. discriminate.
  - assert ((match n with 13%N => true | _ => false end) = false) as Hf.
    { destruct n as [|p]; [reflexivity|]. do 4 (destruct p as [p|p|]; try reflexivity). congruence. }
    rewrite Hf. lia.
Qed.

(* the successive matches of a matcher obeying the contract are ordered; so are the recorded submatches *)
Section Ordered.
  Context {C : Type}.
  Variable at_ : nat -> option C.
  Variable span : C -> nat * nat.
  Variable hlen : nat.
  Hypothesis Hok : matcher_ok at_ span hlen.

  Lemma matches_from_ordered : forall fuel le lm l,
    matches_from at_ span hlen fuel le lm = Some l -> spans_ordered le (map span l).
  Proof.
    induction fuel as [|fuel IH]; intros le lm l H; [discriminate|]. cbn [matches_from] in H.
    destruct (Nat.ltb hlen le); [injection H as <-; exact I|].
    destruct (at_ le) as [c|] eqn:Ec; [|injection H as <-; exact I].
    destruct (Hok le c Ec) as (H1 & H2 & H3).
    destruct (span c) as [s e] eqn:Es. cbn [fst snd] in H1, H2, H3.
    destruct (Nat.eqb_spec s e) as [->|Hne].
    - destruct (opt_nat_eqb lm e).
      + apply IH in H. eapply spans_ordered_weaken; [|exact H]. lia.
      + destruct (matches_from at_ span hlen fuel (e + 1) (Some e)) as [r|] eqn:Er; [|discriminate].
        injection H as <-. cbn [map spans_ordered]. rewrite Es. cbn [fst snd].
        repeat split; [lia|lia|]. apply IH in Er. eapply spans_ordered_weaken; [|exact Er]. lia.
    - destruct (matches_from at_ span hlen fuel e (Some e)) as [r|] eqn:Er; [|discriminate].
      injection H as <-. cbn [map spans_ordered]. rewrite Es. cbn [fst snd].
      repeat split; [lia|lia|]. apply IH in Er. exact Er.
  Qed.
End Ordered.

Lemma take_while_ordered (f : nat * nat -> bool) : forall l lo,
  spans_ordered lo l -> spans_ordered lo (take_while f l).
Proof.
  induction l as [|m r IH]; intros lo H; [exact I|]. cbn [take_while].
  destruct (f m); [|exact I]. cbn [spans_ordered] in *. intuition.
Qed.

Lemma rel_ordered rs : forall l lo, spans_ordered lo l -> spans_ordered (lo - rs) (map (rel rs) l).
Proof.
  induction l as [|m r IH]; intros lo H; [exact I|]. cbn [map spans_ordered] in *.
  destruct H as (H1 & H2 & H3). unfold rel at 1 2 3. cbn [fst snd]. repeat split; [lia|lia|].
  apply IH. exact H3.
Qed.

Theorem recorded_submatches_ordered find_at env buf rs re l :
  range_ok find_at env buf re -> successive find_at env buf rs re = Some l ->
  spans_ordered 0 (submatches_of buf rs re l).
Proof.
  unfold range_ok, successive, all_matches, submatches_of. intros Hok H.
  apply (matches_from_ordered _ _ _ Hok) in H. rewrite map_id in H.
  apply (spans_ordered_weaken _ 0 (rs - rs)); [lia|]. apply rel_ordered. now apply take_while_ordered.
Qed.

Lemma block_lines_trim_ok env sk : lines_trim_ok env sk (block_lines env sk).
Proof.
  unfold lines_trim_ok, block_lines, line_spans.
  pose proof (line_spans_aux_starts (lt_byte (e_lt env)) (k_bytes sk) (k_bytes sk) [] 0 eq_refl (Nat.le_refl _)
                (or_introl eq_refl)) as H.
  cbn [length] in H. eapply Forall_impl; [|exact H]. intros [s e] Hse. unfold content_end. cbn [fst snd].
  apply trim_ge_start. exact Hse.
Qed.

Ltac spl5 := split; [|split; [|split; [|split]]].

(* ------------------------------------------------------------------ --only-matching *)
Section OnlyMatching.
  Variable cfg : stdconfig.
  Variable env : senv.
  Variable path : option bytes.
  Variable sk : sunk.

  Notation recs_on := (om_records_on cfg env path sk).

  Lemma recs_on_behind i ls le : forall pre, Forall (fun x => snd x <= ls) pre -> recs_on i ls le pre = [].
  Proof.
    induction pre as [|x pre IH]; intro H; [reflexivity|]. inversion H as [|? ? Hx Hr]; subst.
    unfold om_records_on. cbn [flat_map]. fold (recs_on i ls le pre). rewrite (IH Hr).
    unfold has_piece. destruct (Nat.ltb_spec (Nat.max ls (fst x)) (Nat.min le (snd x))); [lia|reflexivity].
  Qed.

  Lemma recs_on_ahead i ls ls' le : ls <= ls' ->
    forall l, Forall (fun x => ls' <= fst x) l -> recs_on i ls le l = recs_on i ls' le l.
  Proof.
    intros Hle. induction l as [|x l IH]; intro H; [reflexivity|]. inversion H as [|? ? Hx Hr]; subst.
    unfold om_records_on. cbn [flat_map]. fold (recs_on i ls le l). fold (recs_on i ls' le l). rewrite (IH Hr).
    unfold has_piece, piece. rewrite !Nat.max_r by lia. reflexivity.
  Qed.

  (* the inner loop over one line's content [ls, le), entered with the matches before midx behind ls *)
  Lemma om_loop_out : forall fuel pre m post ls le count w,
    k_matches sk = pre ++ m :: post ->
    Forall (fun x => snd x <= ls) pre -> spans_ordered 0 (m :: post) ->
    ls <= le -> (le - ls) + length post < fuel ->
    exists pre' m' post',
      k_matches sk = pre' ++ m' :: post' /\ Forall (fun x => snd x <= le) pre' /\
      spans_ordered 0 (m' :: post') /\
      fst (om_loop cfg env path sk fuel ls le count (length pre) w) = length pre' /\
      w_out (snd (om_loop cfg env path sk fuel ls le count (length pre) w))
      = w_out w ++ concat (recs_on count ls le (m :: post)).
  Proof.
    induction fuel as [|fuel IH]; intros pre m post ls le count w Hk Hpre Hord Hle Hf; [lia|].
    cbn [om_loop].
    assert (forall x, Forall (fun y => snd y <= ls) pre -> ls <= x -> Forall (fun y => snd y <= x) pre) as Hmono.
    { intros x H Hx. eapply Forall_impl; [|exact H]. cbn beta. intros y Hy. lia. }
    destruct (Nat.eqb_spec ls le) as [->|Hne].
    - exists pre, m, post. cbn [fst snd]. split; [exact Hk|]. split; [exact Hpre|]. split; [exact Hord|].
      split; [reflexivity|].
      assert (recs_on count le le (m :: post) = []) as ->; [|now rewrite app_nil_r].
      clear. induction (m :: post) as [|x l IHl]; [reflexivity|].
      unfold om_records_on. cbn [flat_map]. fold (recs_on count le le l). rewrite IHl.
      unfold has_piece. destruct (Nat.ltb_spec (Nat.max le (fst x)) (Nat.min le (snd x))); [lia|reflexivity].
    - assert (nth_span (k_matches sk) (length pre) = m) as Hnth.
      { unfold nth_span. rewrite Hk, app_nth2, Nat.sub_diag by lia. reflexivity. }
      rewrite Hnth.
      assert (length (k_matches sk) = length pre + S (length post)) as Hlen.
      { rewrite Hk, app_length. reflexivity. }
      rewrite Hlen. clear Hnth Hlen.
      destruct m as [ms me]. cbn [spans_ordered fst snd] in Hord. destruct Hord as (_ & Hm & Hpost).
      pose proof (spans_ordered_lower _ _ Hpost) as Hlow.
      destruct (Nat.leb_spec me ls) as [Hbehind|Hin].
      + (* the match lies behind the line position: next match, or done *)
        assert (recs_on count ls le ((ms, me) :: post) = recs_on count ls le post) as Hdrop.
        { unfold om_records_on. cbn [flat_map]. unfold has_piece. cbn [fst snd].
          destruct (Nat.ltb_spec (Nat.max ls ms) (Nat.min le me)); [lia|reflexivity]. }
        destruct (Nat.ltb_spec (length pre + 1) (length pre + S (length post))) as [Hmore|Hlast].
        * destruct post as [|m' post']; [cbn [length] in Hmore; lia|].
          destruct (IH (pre ++ [(ms, me)]) m' post' ls le count w) as (pre' & m'' & post'' & E1 & E2 & E3 & E4 & E5).
          -- now rewrite <- app_assoc.
          -- apply Forall_app. split; [exact Hpre|]. constructor; [cbn [snd]; lia|constructor].
          -- eapply spans_ordered_weaken; [|exact Hpost]. lia.
          -- exact Hle.
          -- cbn [length] in Hf. lia.
          -- rewrite app_length in E4, E5. cbn [length] in E4, E5.
             exists pre', m'', post''. rewrite Hdrop. spl5; assumption.
        * destruct post as [|m' post']; [|cbn [length] in Hlast; lia].
          exists pre, (ms, me), []. cbn [fst snd]. spl5; [| | |reflexivity|].
          -- exact Hk.
          -- apply Hmono; [exact Hpre|lia].
          -- cbn [spans_ordered fst snd]. lia.
          -- rewrite Hdrop. cbn [om_records_on flat_map concat]. now rewrite app_nil_r.
      + destruct (Nat.ltb_spec ls ms) as [Hbefore|Hinside].
        * (* text before the match: skip it *)
          destruct (IH pre (ms, me) post (Nat.min le ms) le count w) as (pre' & m'' & post'' & E1 & E2 & E3 & E4 & E5).
          -- exact Hk.
          -- apply Hmono; [exact Hpre|lia].
          -- cbn [spans_ordered fst snd]. repeat split; [lia|lia|exact Hpost].
          -- lia.
          -- lia.
          -- exists pre', m'', post''. spl5; try assumption. rewrite E5. f_equal. f_equal.
             symmetry. apply recs_on_ahead; [lia|]. constructor; [cbn [fst]; lia|].
             eapply Forall_impl; [|exact Hlow]. cbn beta. intros x Hx. cbn [snd] in Hx. lia.
        * (* inside the match: one record for its part on this line *)
          set (w1 := write_line_term env (write (sub (k_bytes sk) ls (Nat.min le me))
                       (write_prelude cfg path sk (k_off sk + ms) (option_map (fun n => n + count) (k_lnum sk))
                          (Some (ms + 1)) w))).
          destruct (IH pre (ms, me) post (Nat.min le me) le count w1) as (pre' & m'' & post'' & E1 & E2 & E3 & E4 & E5).
          -- exact Hk.
          -- apply Hmono; [exact Hpre|lia].
          -- cbn [spans_ordered fst snd]. repeat split; [lia|lia|exact Hpost].
          -- lia.
          -- lia.
          -- exists pre', m'', post''. spl5; try assumption. rewrite E5.
             assert (recs_on count (Nat.min le me) le ((ms, me) :: post) = recs_on count ls le post) as ->.
             { unfold om_records_on at 1. cbn [flat_map]. unfold has_piece at 1. cbn [fst snd].
               destruct (Nat.ltb_spec (Nat.max (Nat.min le me) ms) (Nat.min le me)); [lia|]. cbn [app].
               symmetry. apply recs_on_ahead; [lia|].
               eapply Forall_impl; [|exact Hlow]. cbn beta. intros x Hx. cbn [snd] in Hx. lia. }
             unfold om_records_on at 2. cbn [flat_map]. unfold has_piece at 1, piece. cbn [fst snd].
             destruct (Nat.ltb_spec (Nat.max ls ms) (Nat.min le me)); [|lia].
             cbn [app concat]. unfold w1, write_line_term, lt. cbn [write w_out].
             rewrite write_prelude_layout. unfold om_record. cbn [fst snd].
             rewrite (Nat.max_l ls ms) by lia. now rewrite <- !app_assoc.
  Qed.

  Lemma om_outer_out : forall spans lo count pre m post w,
    k_matches sk = pre ++ m :: post ->
    Forall (fun x => snd x <= lo) pre -> spans_ordered 0 (m :: post) ->
    spans_ordered lo spans -> lines_trim_ok env sk spans ->
    w_out (sink_slow_ml_om_loop cfg env path sk spans count (length pre) w)
    = w_out w ++ concat (om_block_records cfg env path sk spans count).
  Proof.
    induction spans as [|[s e] r IH]; intros lo count pre m post w Hk Hpre Hord Hsp Htrim;
      cbn [sink_slow_ml_om_loop om_block_records].
    - now rewrite app_nil_r.
    - cbn [spans_ordered fst snd] in Hsp. destruct Hsp as (Hlo & Hse & Hr).
      inversion Htrim as [|? ? Hs Htr]; subst. unfold content_end in Hs. cbn [fst snd] in Hs.
      unfold lt. unfold content_end at 1. cbn [fst snd].
      set (e' := trim_line_terminator (e_lt env) (k_bytes sk) s e) in *.
      pose proof (trim_le (e_lt env) (k_bytes sk) s e) as He'. fold e' in He'.
      destruct (om_loop_out (e' - s + length (k_matches sk) + 1) pre m post s e' count w)
        as (pre' & m' & post' & E1 & E2 & E3 & E4 & E5).
      + exact Hk.
      + eapply Forall_impl; [|exact Hpre]. cbn beta. intros x Hx. lia.
      + exact Hord.
      + exact Hs.
      + rewrite Hk, app_length. cbn [length]. lia.
      + destruct (om_loop cfg env path sk _ s e' count (length pre) w) as [midx w'] eqn:El.
        cbn [fst snd] in E4, E5. subst midx.
        rewrite (IH e (S count) pre' m' post' w' E1); try assumption.
        * rewrite E5, concat_app, app_assoc. f_equal. f_equal. f_equal.
          rewrite Hk. unfold om_records_on. rewrite flat_map_app.
          fold (om_records_on cfg env path sk count s e' pre).
          rewrite recs_on_behind; [reflexivity|].
          eapply Forall_impl; [|exact Hpre]. cbn beta. intros x Hx. lia.
        * eapply Forall_impl; [|exact E2]. cbn beta. intros x Hx. lia.
  Qed.

  Theorem sink_slow_multi_line_only_matching_layout w :
    st_only_matching cfg = true -> k_matches sk <> [] -> spans_ordered 0 (k_matches sk) ->
    w_out (sink_slow_multi_line cfg env path sk w)
    = w_out w ++ concat (om_block_records cfg env path sk (block_lines env sk) 0).
  Proof.
    intros H1 Hne Hord. pose proof (block_lines_trim_ok env sk) as Htrim. unfold sink_slow_multi_line. rewrite H1. unfold lt.
    destruct (k_matches sk) as [|m post] eqn:Ek; [congruence|].
    apply (om_outer_out _ 0 0 [] m post w); try assumption; [constructor|apply line_spans_ordered].
  Qed.

  (* ---- counting the records ---- *)
  Lemma list_sum_cons a l : list_sum (a :: l) = a + list_sum l.
  Proof. reflexivity. Qed.
  Lemma list_sum_add {A} (f g : A -> nat) l :
    list_sum (map (fun x => f x + g x) l) = list_sum (map f l) + list_sum (map g l).
  Proof. induction l as [|x l IH]; [reflexivity|]. change (f x + g x + list_sum (map (fun x => f x + g x) l) = (f x + list_sum (map f l)) + (g x + list_sum (map g l))). lia. Qed.

  Lemma length_recs_on i s e' : forall ms,
    length (recs_on i s e' ms) = list_sum (map (fun m => if has_piece s e' m then 1 else 0) ms).
  Proof.
    induction ms as [|m ms IH]; [reflexivity|]. unfold om_records_on. cbn [flat_map map]. rewrite ?list_sum_cons.
    fold (recs_on i s e' ms). rewrite app_length, IH. destruct (has_piece s e' m); reflexivity.
  Qed.

  Theorem om_block_records_count : forall lines i,
    length (om_block_records cfg env path sk lines i)
    = list_sum (map (pieces_of env sk lines) (k_matches sk)).
  Proof.
    induction lines as [|l r IH]; intro i; cbn [om_block_records].
    - unfold pieces_of. cbn [filter length]. induction (k_matches sk) as [|m ms IHm]; [reflexivity|exact IHm].
    - rewrite app_length, IH, length_recs_on, <- list_sum_add. f_equal. apply map_ext. intro m.
      unfold pieces_of. cbn [filter]. destruct (has_piece (fst l) (content_end env sk l) m); reflexivity.
  Qed.

  Corollary om_block_records_one_each lines i :
    Forall (fun m => pieces_of env sk lines m = 1) (k_matches sk) ->
    length (om_block_records cfg env path sk lines i) = length (k_matches sk).
  Proof.
    intro H. rewrite om_block_records_count. induction (k_matches sk) as [|m ms IH]; [reflexivity|].
    inversion H as [|? ? Hm Hr]; subst. cbn [map length]. rewrite list_sum_cons. rewrite Hm, (IH Hr). reflexivity.
  Qed.

  (* a record never appears for nothing: at least one record per submatch outside the class *)
  Corollary om_block_records_at_least lines i :
    Forall (fun m => pieces_of env sk lines m <> 0) (k_matches sk) ->
    length (k_matches sk) <= length (om_block_records cfg env path sk lines i).
  Proof.
    intro H. rewrite om_block_records_count. induction (k_matches sk) as [|m ms IH]; [reflexivity|].
    inversion H as [|? ? Hm Hr]; subst. cbn [map length]. rewrite list_sum_cons. specialize (IH Hr). lia.
  Qed.

  (* where every record comes from *)
  Lemma in_recs_on i s e' rec : forall ms, In rec (recs_on i s e' ms) ->
    exists m, In m ms /\ has_piece s e' m = true /\ rec = om_record cfg env path sk i m (piece s e' m).
  Proof.
    intros ms H. unfold om_records_on in H. apply in_flat_map in H as (m & Hm & Hin).
    exists m. destruct (has_piece s e' m); [|destruct Hin]. destruct Hin as [<-|[]]. auto.
  Qed.

  Theorem om_block_record_origin rec : forall lines i0,
    In rec (om_block_records cfg env path sk lines i0) ->
    exists i line m,
      nth_error lines i = Some line /\ In m (k_matches sk) /\
      let a := Nat.max (fst line) (fst m) in
      let b := Nat.min (content_end env sk line) (snd m) in
      a < b /\
      rec = prelude_spec cfg path (separator_field cfg sk) (k_off sk + fst m)
                         (option_map (fun n => n + (i0 + i)) (k_lnum sk)) (Some (fst m + 1))
            ++ sub (k_bytes sk) a b ++ lt_bytes (e_lt env).
  Proof.
    induction lines as [|l r IH]; intros i0 H; [destruct H|]. cbn [om_block_records] in H.
    apply in_app_or in H as [H|H].
    - apply in_recs_on in H as (m & Hm & Hp & ->). exists 0, l, m. cbn [nth_error].
      repeat split; [exact Hm| |].
      + unfold has_piece in Hp. now apply Nat.ltb_lt in Hp.
      + unfold om_record, piece. cbn [fst snd]. now rewrite Nat.add_0_r.
    - apply IH in H as (i & line & m & E1 & E2 & E3). cbn zeta in E3. destruct E3 as [E3 E4].
      exists (S i), line, m. cbn [nth_error]. cbn zeta.
      split; [exact E1|]. split; [exact E2|]. split; [exact E3|]. rewrite E4. replace (i0 + S i) with (S i0 + i) by lia. reflexivity.
  Qed.
End OnlyMatching.

(* ------------------------------------------------------------------ per match *)
Section PerMatch.
  Variable cfg : stdconfig.
  Variable env : senv.
  Variable path : option bytes.
  Variable sk : sunk.

  (* the inner loop writes exactly the line's content, whatever the match is *)
  Lemma pm_inner_out ms me : forall fuel ls le w,
    ls <= le -> le - ls < fuel ->
    w_out (pm_inner sk fuel ms me ls le w) = w_out w ++ sub (k_bytes sk) ls le.
  Proof.
    induction fuel as [|fuel IH]; intros ls le w Hle Hf; [lia|]. cbn [pm_inner].
    destruct (Nat.eqb_spec ls le) as [->|Hne]; [now rewrite sub_empty, app_nil_r|].
    destruct (Nat.leb_spec me ls); [reflexivity|].
    destruct (Nat.ltb_spec ls ms).
    - rewrite IH by lia. cbn [write w_out]. rewrite <- app_assoc, sub_split by lia. reflexivity.
    - rewrite IH by lia. cbn [write w_out]. rewrite <- app_assoc, sub_split by lia. reflexivity.
  Qed.

  Lemma pm_no_more m : forall lines lo i, spans_ordered lo lines -> snd m <= lo ->
    pm_match_records cfg env path sk m lines i = [].
  Proof.
    induction lines as [|l r IH]; intros lo i Hord Hlo; [reflexivity|]. cbn [pm_match_records].
    cbn [spans_ordered] in Hord. destruct Hord as (H1 & H2 & H3).
    rewrite (IH (snd l) (S i) H3) by lia. unfold touches.
    destruct (Nat.ltb_spec (fst l) (snd m)); [lia|reflexivity].
  Qed.

  Lemma pm_lines_out m : forall lines lo count w,
    spans_ordered lo lines -> lines_trim_ok env sk lines ->
    w_out (pm_lines cfg env path sk (fst m) (snd m) lines count w)
    = w_out w ++ concat (let rs := pm_match_records cfg env path sk m lines count in
                         if st_per_match_one_line cfg then firstn 1 rs else rs).
  Proof.
    induction lines as [|[s e] r IH]; intros lo count w Hord Htrim; cbn [pm_lines pm_match_records].
    - destruct (st_per_match_one_line cfg); cbn [firstn concat]; now rewrite app_nil_r.
    - cbn [spans_ordered fst snd] in Hord. destruct Hord as (H1 & H2 & H3).
      inversion Htrim as [|? ? Hs Htr]; subst. unfold content_end in Hs. cbn [fst snd] in Hs.
      unfold touches. cbn [fst snd].
      destruct (Nat.leb_spec (snd m) s) as [Hbreak|Hgo].
      + destruct (Nat.ltb_spec s (snd m)); [lia|]. cbn [andb app].
        rewrite (pm_no_more m r e (S count) H3) by lia.
        destruct (st_per_match_one_line cfg); cbn [firstn concat]; now rewrite app_nil_r.
      + destruct (Nat.ltb_spec s (snd m)); [|lia]. cbn [andb].
        destruct (Nat.leb_spec e (fst m)) as [Hcont|Hhit].
        * destruct (Nat.ltb_spec (fst m) e); [lia|]. cbn [app]. apply (IH e); assumption.
        * destruct (Nat.ltb_spec (fst m) e); [|lia]. cbn [app].
          pose proof (trim_le (e_lt env) (k_bytes sk) s e) as He'.
          assert (forall w0, w_out (write_line_term env
                     (pm_inner sk (trim_line_terminator (lt env) (k_bytes sk) s e - s + 3) (fst m) (snd m) s
                        (trim_line_terminator (lt env) (k_bytes sk) s e)
                        (write_prelude cfg path sk (k_off sk + s) (option_map (fun n => n + count) (k_lnum sk))
                           (Some (fst m - s + 1)) w0)))
                  = w_out w0 ++ pm_record cfg env path sk count (s, e) m) as Hrec.
          { intro w0. unfold write_line_term, lt. cbn [write w_out].
            rewrite pm_inner_out by lia. rewrite write_prelude_layout. unfold pm_record, content_end.
            cbn [fst snd]. now rewrite <- !app_assoc. }
          destruct (st_per_match_one_line cfg).
          -- cbn [firstn concat]. rewrite Hrec. now rewrite app_nil_r.
          -- rewrite (IH e (S count) _ H3 Htr). rewrite Hrec. cbn [concat]. now rewrite <- app_assoc.
  Qed.

  Lemma pm_fold_out lines : spans_ordered 0 lines -> lines_trim_ok env sk lines ->
    forall ms w,
    w_out (fold_left (fun w m => pm_lines cfg env path sk (fst m) (snd m) lines 0 w) ms w)
    = w_out w ++ concat (flat_map (fun m => let rs := pm_match_records cfg env path sk m lines 0 in
                                            if st_per_match_one_line cfg then firstn 1 rs else rs) ms).
  Proof.
    intros Hord Htrim. induction ms as [|m ms IH]; intro w; cbn [fold_left flat_map]; [now rewrite app_nil_r|].
    rewrite IH, (pm_lines_out m lines 0 0 w Hord Htrim), concat_app. now rewrite <- app_assoc.
  Qed.

  Theorem sink_slow_multi_per_match_layout w :
    st_only_matching cfg = false -> st_per_match cfg = true ->
    w_out (sink_slow_multi_line cfg env path sk w) = w_out w ++ concat (pm_block_records cfg env path sk).
  Proof.
    intros H1 H2. pose proof (block_lines_trim_ok env sk) as Htrim. unfold sink_slow_multi_line, sink_slow_multi_per_match. rewrite H1, H2. unfold lt.
    apply pm_fold_out; [apply line_spans_ordered|exact Htrim].
  Qed.

  (* counting: without per_match_one_line one record per touched line of every submatch; with it,
     one record for every submatch that touches a line at all *)
  Lemma pm_match_records_length m : forall lines i,
    length (pm_match_records cfg env path sk m lines i) = lines_touched lines m.
  Proof.
    induction lines as [|l r IH]; intro i; [reflexivity|]. cbn [pm_match_records]. unfold lines_touched.
    cbn [filter]. rewrite app_length, IH. destruct (touches l m); reflexivity.
  Qed.

  Theorem pm_block_records_count :
    length (pm_block_records cfg env path sk)
    = list_sum (map (fun m => let n := lines_touched (block_lines env sk) m in
                              if st_per_match_one_line cfg then Nat.min 1 n else n) (k_matches sk)).
  Proof.
    unfold pm_block_records. induction (k_matches sk) as [|m ms IH]; [reflexivity|].
    cbn [flat_map map]. rewrite ?list_sum_cons. rewrite app_length, IH. f_equal.
    destruct (st_per_match_one_line cfg).
    - rewrite firstn_length, pm_match_records_length. reflexivity.
    - apply pm_match_records_length.
  Qed.

  Corollary pm_block_records_one_each :
    st_per_match_one_line cfg = true ->
    Forall (fun m => lines_touched (block_lines env sk) m <> 0) (k_matches sk) ->
    length (pm_block_records cfg env path sk) = length (k_matches sk).
  Proof.
    intros H1 H. rewrite pm_block_records_count, H1. induction (k_matches sk) as [|m ms IH]; [reflexivity|].
    inversion H as [|? ? Hm Hr]; subst. specialize (IH Hr). cbn [map length] in IH |- *.
    rewrite list_sum_cons, IH. lia.
  Qed.

  Theorem pm_record_origin rec m : forall lines i0,
    In rec (pm_match_records cfg env path sk m lines i0) ->
    exists i line, nth_error lines i = Some line /\ fst line < snd m /\ fst m < snd line /\
      rec = prelude_spec cfg path (separator_field cfg sk) (k_off sk + fst line)
                         (option_map (fun n => n + (i0 + i)) (k_lnum sk)) (Some (fst m - fst line + 1))
            ++ sub (k_bytes sk) (fst line) (content_end env sk line) ++ lt_bytes (e_lt env).
  Proof.
    induction lines as [|l r IH]; intros i0 H; [destruct H|]. cbn [pm_match_records] in H.
    apply in_app_or in H as [H|H].
    - unfold touches in H. destruct (Nat.ltb_spec (fst l) (snd m)); [|destruct H].
      destruct (Nat.ltb_spec (fst m) (snd l)); [|destruct H]. destruct H as [<-|[]].
      exists 0, l. cbn [nth_error]. repeat split; [assumption|assumption|].
      unfold pm_record. now rewrite Nat.add_0_r.
    - apply IH in H as (i & line & E1 & E2 & E3 & E4). exists (S i), line. cbn [nth_error].
      split; [exact E1|]. split; [exact E2|]. split; [exact E3|]. rewrite E4. replace (i0 + S i) with (S i0 + i) by lia. reflexivity.
  Qed.
End PerMatch.

(* ------------------------------------------------------------------ one Matched event of a multi-line search *)
Section Event.
  Variable find_at : bytes -> nat -> option (nat * nat).
  Variable cfg : stdconfig.
  Variable env : senv.
  Variable path : option bytes.

  (* the Sunk that StandardSink::matched builds for the event, given the recorded spans *)
  Definition sunk_of (m : sink_match) (subs : list (nat * nat)) : sunk :=
    mkSunk (m_bytes m) (m_off m) (m_lnum m) None subs.

  Theorem only_matching_multi_line_event m l w :
    e_multi env = true -> st_only_matching cfg = true ->
    range_ok find_at env (m_buf m) (m_re m) ->
    successive find_at env (m_buf m) (m_rs m) (m_re m) = Some l ->
    let subs := submatches_of (m_buf m) (m_rs m) (m_re m) l in
    let sk := sunk_of m subs in
    let recs := om_block_records cfg env path sk (block_lines env sk) 0 in
    subs <> [] ->
    record_matches find_at cfg env (m_buf m) (m_rs m) (m_re m) = Some subs /\
    w_out (impl_sink cfg env path sk w) = w_out (write_search_prelude cfg env path w) ++ concat recs /\
    length recs = list_sum (map (pieces_of env sk (block_lines env sk)) subs) /\
    (Forall (fun x => pieces_of env sk (block_lines env sk) x = 1) subs -> length recs = nsub find_at env m) /\
    (Forall (fun x => ~ OnlyTerminatorsOrEmpty env sk x) subs -> nsub find_at env m <= length recs).
  Proof.
    intros Hmulti Hom Hok Hl subs sk recs Hne.
    assert (needs_match_granularity cfg = true) as Hg.
    { unfold needs_match_granularity. rewrite Hom. now rewrite !Bool.orb_true_r. }
    assert (nsub find_at env m = length subs) as Hn by (unfold nsub; now rewrite Hl).
    split; [now apply record_matches_eq|]. split; [|split; [|split]].
    - unfold impl_sink, is_context. cbn [k_matches k_ctx sk sunk_of is_some negb]. rewrite Hmulti. cbn [andb].
      destruct subs as [|x r] eqn:Es; [congruence|]. cbn [is_empty_list].
      apply sink_slow_multi_line_only_matching_layout; [exact Hom|subst sk; cbn [k_matches sunk_of]; discriminate|].
      subst sk. cbn [k_matches sunk_of]. rewrite <- Es. now apply (recorded_submatches_ordered find_at env).
    - apply (om_block_records_count cfg env path sk).
    - intro H. rewrite Hn. apply (om_block_records_one_each cfg env path sk). exact H.
    - intro H. rewrite Hn. apply (om_block_records_at_least cfg env path sk). exact H.
  Qed.

  Theorem per_match_multi_line_event m l w :
    e_multi env = true -> st_only_matching cfg = false -> st_per_match cfg = true ->
    successive find_at env (m_buf m) (m_rs m) (m_re m) = Some l ->
    let subs := submatches_of (m_buf m) (m_rs m) (m_re m) l in
    let sk := sunk_of m subs in
    let recs := pm_block_records cfg env path sk in
    subs <> [] ->
    record_matches find_at cfg env (m_buf m) (m_rs m) (m_re m) = Some subs /\
    w_out (impl_sink cfg env path sk w) = w_out (write_search_prelude cfg env path w) ++ concat recs /\
    length recs = list_sum (map (fun x => let n := lines_touched (block_lines env sk) x in
                                          if st_per_match_one_line cfg then Nat.min 1 n else n) subs) /\
    (st_per_match_one_line cfg = true -> Forall (fun x => ~ TouchesNoLine env sk x) subs ->
     length recs = nsub find_at env m).
  Proof.
    intros Hmulti Hom Hpm Hl subs sk recs Hne.
    assert (needs_match_granularity cfg = true) as Hg.
    { unfold needs_match_granularity. rewrite Hpm. now rewrite !Bool.orb_true_r. }
    assert (nsub find_at env m = length subs) as Hn by (unfold nsub; now rewrite Hl).
    split; [now apply record_matches_eq|]. split; [|split].
    - unfold impl_sink, is_context. cbn [k_matches k_ctx sk sunk_of is_some negb]. rewrite Hmulti. cbn [andb].
      destruct subs as [|x r] eqn:Es; [congruence|]. cbn [is_empty_list].
      apply sink_slow_multi_per_match_layout; assumption.
    - apply (pm_block_records_count cfg env path sk).
    - intros H1 H. rewrite Hn. apply (pm_block_records_one_each cfg env path sk); assumption.
  Qed.
End Event.

(* the statements as the property files quote them *)
Lemma only_matching_multi_line_records_proof cfg env path sk w :
  st_only_matching cfg = true -> k_matches sk <> [] -> spans_ordered 0 (k_matches sk) ->
  w_out (sink_slow_multi_line cfg env path sk w)
  = w_out w ++ concat (om_block_records cfg env path sk (block_lines env sk) 0) /\
  length (om_block_records cfg env path sk (block_lines env sk) 0)
  = list_sum (map (pieces_of env sk (block_lines env sk)) (k_matches sk)).
Proof.
  intros H1 H2 H3. split; [now apply sink_slow_multi_line_only_matching_layout|apply om_block_records_count].
Qed.

Lemma per_match_multi_line_records_proof cfg env path sk w :
  st_only_matching cfg = false -> st_per_match cfg = true ->
  w_out (sink_slow_multi_line cfg env path sk w) = w_out w ++ concat (pm_block_records cfg env path sk) /\
  length (pm_block_records cfg env path sk)
  = list_sum (map (fun m => let n := lines_touched (block_lines env sk) m in
                            if st_per_match_one_line cfg then Nat.min 1 n else n) (k_matches sk)).
Proof.
  intros H1 H2. split; [now apply sink_slow_multi_per_match_layout|apply pm_block_records_count].
Qed.

Lemma per_match_multi_line_record_origin_proof cfg env path sk rec :
  In rec (pm_block_records cfg env path sk) ->
  exists m i line, In m (k_matches sk) /\ nth_error (block_lines env sk) i = Some line /\
    fst line < snd m /\ fst m < snd line /\
    rec = prelude_spec cfg path (separator_field cfg sk) (k_off sk + fst line)
                       (option_map (fun n => n + i) (k_lnum sk)) (Some (fst m - fst line + 1))
          ++ sub (k_bytes sk) (fst line) (content_end env sk line) ++ lt_bytes (e_lt env).
Proof.
  unfold pm_block_records. intro H. apply in_flat_map in H as (m & Hm & Hin). exists m.
  assert (In rec (pm_match_records cfg env path sk m (block_lines env sk) 0)) as Hin'.
  { cbn zeta in Hin. destruct (st_per_match_one_line cfg); [|exact Hin].
    destruct (pm_match_records cfg env path sk m (block_lines env sk) 0) as [|a t]; [destruct Hin|].
    cbn [firstn] in Hin. destruct Hin as [<-|[]]. left. reflexivity. }
  apply pm_record_origin in Hin' as (i & line & E1 & E2 & E3 & E4). exists i, line. cbn [Nat.add] in E4. auto.
Qed.

Lemma only_matching_multi_line_record_origin_proof cfg env path sk rec :
  In rec (om_block_records cfg env path sk (block_lines env sk) 0) ->
  exists i line m,
    nth_error (block_lines env sk) i = Some line /\ In m (k_matches sk) /\
    let a := Nat.max (fst line) (fst m) in
    let b := Nat.min (content_end env sk line) (snd m) in
    a < b /\
    rec = prelude_spec cfg path (separator_field cfg sk) (k_off sk + fst m)
                       (option_map (fun n => n + i) (k_lnum sk)) (Some (fst m + 1))
          ++ sub (k_bytes sk) a b ++ lt_bytes (e_lt env).
Proof. intro H. apply om_block_record_origin in H. exact H. Qed.

(* ------------------------------------------------------------------ who is in the two classes *)
(* the lines of a block cover it: every position of the block lies on a line *)
Lemma line_spans_aux_cover ltb : forall l start pos p,
  start <= pos -> start <= p < pos + length l ->
  exists se, In se (line_spans_aux ltb l start pos) /\ fst se <= p < snd se.
Proof.
  induction l as [|b r IH]; intros start pos p Hsp Hp; cbn [line_spans_aux length] in *.
  - destruct (Nat.ltb_spec start pos); [|lia]. exists (start, pos). split; [left; reflexivity|cbn [fst snd]; lia].
  - destruct (b =? ltb)%N.
    + destruct (Nat.lt_ge_cases p (S pos)) as [Hlt|Hge].
      * exists (start, S pos). split; [left; reflexivity|cbn [fst snd]; lia].
      * destruct (IH (S pos) (S pos) p) as (se & Hin & Hse); [lia|lia|]. exists se. split; [right; exact Hin|exact Hse].
    + apply IH; lia.
Qed.

Lemma filter_nonempty {A} (f : A -> bool) l x : In x l -> f x = true -> length (filter f l) <> 0.
Proof.
  intros Hin Hf. assert (In x (filter f l)) as H by (apply filter_In; auto).
  destruct (filter f l); [destruct H|discriminate].
Qed.

(* a non-empty submatch that starts inside the block touches a line: only EMPTY submatches are in the
   class TouchesNoLine (MultiLinePerMatchDropsEmptyMatchAtLineStart) *)
Theorem nonempty_submatch_touches_a_line env sk m :
  fst m < snd m -> fst m < length (k_bytes sk) -> ~ TouchesNoLine env sk m.
Proof.
  intros Hne Hin. unfold TouchesNoLine, lines_touched, block_lines, line_spans.
  destruct (line_spans_aux_cover (lt_byte (e_lt env)) (k_bytes sk) 0 0 (fst m)) as (se & Hse & Hp); [lia|lia|].
  apply (filter_nonempty _ _ se Hse). unfold touches.
  destruct (Nat.ltb_spec (fst se) (snd m)); [|lia]. destruct (Nat.ltb_spec (fst m) (snd se)); [reflexivity|lia].
Qed.

(* an empty submatch never has a byte on a line's content: it is always in the class
   OnlyTerminatorsOrEmpty (MultiLineOnlyMatchingDropsEmptyMatches) *)
Theorem empty_submatch_has_no_piece env sk m : snd m <= fst m -> OnlyTerminatorsOrEmpty env sk m.
Proof.
  intro He. unfold OnlyTerminatorsOrEmpty, pieces_of. induction (block_lines env sk) as [|l r IH]; [reflexivity|].
  cbn [filter]. unfold has_piece at 1.
  destruct (Nat.ltb_spec (Nat.max (fst l) (fst m)) (Nat.min (content_end env sk l) (snd m))); [lia|exact IH].
Qed.

(* ------------------------------------------------------------------ a plain submatch has exactly one piece *)
Lemma nth_error_skipn_add {A} (l : list A) : forall s i, nth_error (skipn s l) i = nth_error l (s + i).
Proof.
  induction l as [|x l IH]; intros [|s] i; cbn [skipn Nat.add]; try reflexivity.
  - now destruct i.
  - cbn [nth_error]. apply IH.
Qed.
Lemma nth_error_firstn_lt {A} (l : list A) : forall n i, i < n -> nth_error (firstn n l) i = nth_error l i.
Proof.
  induction l as [|x l IH]; intros n i H; [now rewrite firstn_nil|].
  destruct n; [lia|]. destruct i; cbn [firstn nth_error]; [reflexivity|apply IH; lia].
Qed.

Lemma suffix_last lt buf s e :
  e <= length buf -> lt_is_suffix lt (sub buf s e) = true -> nth_error buf (e - 1) = Some (lt_byte lt).
Proof.
  intros He H. unfold lt_is_suffix in H. destruct (rev (sub buf s e)) as [|b r] eqn:Er; [discriminate|].
  apply N.eqb_eq in H. subst b.
  assert (sub buf s e = rev r ++ [lt_byte lt]) as Hs.
  { rewrite <- (rev_involutive (sub buf s e)), Er. reflexivity. }
  assert (length (sub buf s e) = e - s) as Hl.
  { unfold sub. rewrite firstn_length, skipn_length. lia. }
  assert (length (rev r) + 1 = e - s) as Hl2 by (rewrite <- Hl, Hs, app_length; reflexivity).
  assert (nth_error (sub buf s e) (length (rev r)) = Some (lt_byte lt)) as Hn.
  { rewrite Hs, nth_error_app2, Nat.sub_diag by lia. reflexivity. }
  unfold sub in Hn. rewrite nth_error_firstn_lt, nth_error_skipn_add in Hn by lia.
  rewrite <- Hn. f_equal. lia.
Qed.

(* what LineStep guarantees about every line of a block *)
Definition line_ok (ltb : byte) (buf : bytes) (se : nat * nat) : Prop :=
  fst se < snd se <= length buf /\
  (forall p, fst se <= p < snd se - 1 -> nth_error buf p <> Some ltb) /\
  (snd se = length buf \/ nth_error buf (snd se - 1) = Some ltb).

Lemma line_spans_aux_inv ltb buf : forall l pre start,
  buf = pre ++ l -> start <= length pre ->
  (forall p, start <= p < length pre -> nth_error buf p <> Some ltb) ->
  Forall (line_ok ltb buf) (line_spans_aux ltb l start (length pre)).
Proof.
  induction l as [|b r IH]; intros pre start Hb Hle Hno; cbn [line_spans_aux].
  - assert (length buf = length pre) as Hlen by (rewrite Hb, app_nil_r; reflexivity).
    destruct (Nat.ltb_spec start (length pre)); constructor; [|constructor].
    unfold line_ok. cbn [fst snd]. repeat split; [lia|lia| |left; lia].
    intros p Hp. apply Hno. lia.
  - assert (buf = (pre ++ [b]) ++ r) as Hb' by (now rewrite <- app_assoc).
    assert (length (pre ++ [b]) = S (length pre)) as Hl by (rewrite app_length; cbn [length]; lia).
    assert (nth_error buf (length pre) = Some b) as Hnb.
    { rewrite Hb, nth_error_app2, Nat.sub_diag by lia. reflexivity. }
    assert (length buf = length pre + S (length r)) as Hlen by (rewrite Hb, app_length; reflexivity).
    destruct (N.eqb_spec b ltb) as [->|Hne].
    + constructor.
      * unfold line_ok. cbn [fst snd]. repeat split; [lia|lia| |right].
        -- intros p Hp. apply Hno. lia.
        -- cbn [Nat.sub]. rewrite Nat.sub_0_r. exact Hnb.
      * rewrite <- Hl. apply IH; [exact Hb'|lia|]. intros p Hp. lia.
    + rewrite <- Hl. apply IH; [exact Hb'|lia|]. intros p Hp. rewrite Hl in Hp.
      destruct (Nat.eq_dec p (length pre)) as [->|Hpp]; [rewrite Hnb; congruence|apply Hno; lia].
Qed.

Lemma block_lines_ok env sk : Forall (line_ok (lt_byte (e_lt env)) (k_bytes sk)) (block_lines env sk).
Proof.
  unfold block_lines, line_spans.
  apply (line_spans_aux_inv (lt_byte (e_lt env)) (k_bytes sk) (k_bytes sk) [] 0 eq_refl (Nat.le_refl _)).
  intros p Hp. cbn [length] in Hp. lia.
Qed.

Section OnePiece.
  Variable env : senv.
  Variable sk : sunk.
  Variable m : nat * nat.
  Hypothesis Hne : fst m < snd m.
  Hypothesis Hin : snd m <= length (k_bytes sk).
  (* no byte of the submatch is the terminator byte; under --crlf its first byte is not a CR either *)
  Hypothesis Hplain : forall p, fst m <= p < snd m -> nth_error (k_bytes sk) p <> Some (lt_byte (e_lt env)).
  Hypothesis Hcr : e_lt env = LTCrlf -> nth_error (k_bytes sk) (fst m) <> Some 13%N.

  Lemma no_piece_behind : forall r, Forall (fun l => snd m <= fst l) r ->
    length (filter (fun l => has_piece (fst l) (content_end env sk l) m) r) = 0.
  Proof.
    induction r as [|l r IH]; intro H; [reflexivity|]. inversion H as [|? ? Hl Hr]; subst. cbn [filter].
    unfold has_piece at 1.
    destruct (Nat.ltb_spec (Nat.max (fst l) (fst m)) (Nat.min (content_end env sk l) (snd m))); [lia|now apply IH].
  Qed.

  Lemma pieces_unique s e : forall lines lo,
    spans_ordered lo lines -> In (s, e) lines -> s <= fst m -> snd m <= e ->
    has_piece s (content_end env sk (s, e)) m = true -> pieces_of env sk lines m = 1.
  Proof.
    induction lines as [|l r IH]; intros lo Hord Hi Hs He Hp; [destruct Hi|].
    cbn [spans_ordered] in Hord. destruct Hord as (H1 & H2 & H3). unfold pieces_of. cbn [filter].
    destruct Hi as [->|Hi].
    - cbn [fst snd] in *. rewrite Hp. cbn [length]. f_equal. apply no_piece_behind.
      apply spans_ordered_lower in H3. eapply Forall_impl; [|exact H3]. cbn beta. intros x Hx. lia.
    - assert (snd l <= s) as Hls.
      { apply spans_ordered_lower in H3. rewrite Forall_forall in H3. apply (H3 _ Hi). }
      unfold has_piece at 1. pose proof (trim_le (e_lt env) (k_bytes sk) (fst l) (snd l)) as Ht.
      fold (content_end env sk l) in Ht.
      destruct (Nat.ltb_spec (Nat.max (fst l) (fst m)) (Nat.min (content_end env sk l) (snd m))); [lia|].
      apply (IH (snd l)); assumption.
  Qed.

  Theorem plain_submatch_has_one_piece : pieces_of env sk (block_lines env sk) m = 1.
  Proof.
    destruct (line_spans_aux_cover (lt_byte (e_lt env)) (k_bytes sk) 0 0 (fst m)) as ([s e] & Hse & Hp); [lia|lia|].
    cbn [fst snd] in Hp. fold (line_spans (lt_byte (e_lt env)) (k_bytes sk)) in Hse. fold (block_lines env sk) in Hse.
    pose proof (block_lines_ok env sk) as Hok. rewrite Forall_forall in Hok.
    destruct (Hok _ Hse) as ((Hlt & Hlen) & Hno & Hend). cbn [fst snd] in Hlt, Hlen, Hno, Hend.
    assert (snd m <= e) as Hme.
    { destruct (Nat.le_gt_cases (snd m) e) as [|Hgt]; [assumption|]. exfalso.
      destruct Hend as [Hend|Hend]; [lia|]. apply (Hplain (e - 1)); [lia|exact Hend]. }
    apply (pieces_unique s e (block_lines env sk) 0); [apply line_spans_ordered|exact Hse|lia|exact Hme|].
    unfold has_piece, content_end. cbn [fst snd]. apply Nat.ltb_lt.
    assert (fst m < trim_line_terminator (e_lt env) (k_bytes sk) s e) as Htrim; [|lia].
    unfold trim_line_terminator. destruct (lt_is_suffix (e_lt env) (sub (k_bytes sk) s e)) eqn:Esuf; [|lia].
    apply suffix_last in Esuf; [|exact Hlen].
    assert (fst m <> e - 1) as Hn1 by (intros Heq; apply (Hplain (e - 1)); [lia|exact Esuf]).
    destruct (e_lt env) as [b|] eqn:Elt; [lia|].
    destruct (Nat.ltb_spec 0 (e - 1)); cbn [andb]; [|lia].
    destruct (nth_error (k_bytes sk) (e - 1 - 1)) as [n|] eqn:En; cbv iota; [|lia].
    destruct (N.eq_dec n 13) as [->|Hn13].
    - assert (fst m <> e - 1 - 1) as Hn2 by (intros Heq; rewrite Heq in Hcr; apply Hcr; [reflexivity|exact En]).
      lia.
    - assert ((match n with 13%N => true | _ => false end) = false) as Hf.
      { destruct n as [|p]; [reflexivity|]. do 4 (destruct p as [p|p|]; try reflexivity). congruence. }
      rewrite Hf. lia.
  Qed.
End OnePiece.

(* all submatches plain (non-empty, inside the block, no terminator byte, not starting with a CR under
   --crlf): the number of multi-line -o records of the event is its number of submatches *)
Theorem only_matching_multi_line_plain_event find_at cfg env path m l :
  e_multi env = true -> st_only_matching cfg = true ->
  range_ok find_at env (m_buf m) (m_re m) ->
  successive find_at env (m_buf m) (m_rs m) (m_re m) = Some l ->
  let subs := submatches_of (m_buf m) (m_rs m) (m_re m) l in
  let sk := sunk_of m subs in
  subs <> [] -> Forall (plain_submatch env (m_bytes m)) subs ->
  length (om_block_records cfg env path sk (block_lines env sk) 0) = nsub find_at env m.
Proof.
  intros Hmulti Hom Hok Hl subs sk Hne Hplain.
  destruct (only_matching_multi_line_event find_at cfg env path m l w_new Hmulti Hom Hok Hl Hne)
    as (_ & _ & _ & H & _).
  apply H. eapply Forall_impl; [|exact Hplain]. intros x (H1 & H2 & H3 & H4).
  apply plain_submatch_has_one_piece; assumption.
Qed.
