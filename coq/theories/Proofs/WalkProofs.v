(* Proofs/WalkProofs.v — lemmas about Model/Walk.v (property C06). *)
From RG Require Import Base.Bytes Model.Walk.
From Coq Require Import Permutation.

Section SkipEq.
  Variable fs : fsys.
  Variable max_filesize : option N.
  Variable has_filter : bool.
  Variable filter : dent -> bool.
  Variable should_skip : igstack -> dent -> bool.

  (* the two skip decisions are the same boolean function (below the roots) *)
  Lemma skip_serial_eq_skip_parallel_proof ig e :
    0 < de_depth e ->
    skip_entry_with fs max_filesize has_filter filter should_skip true ig e
    = par_skip fs max_filesize has_filter filter should_skip ig e.
  Proof.
    intro H. unfold skip_entry_with, par_skip.
    destruct (Nat.eqb (de_depth e) 0) eqn:E; [apply Nat.eqb_eq in E; lia|].
    destruct (should_skip ig e); [reflexivity|].
    destruct max_filesize as [m|]; destruct (de_is_dir e); cbn [negb];
      try destruct (skip_filesize fs m e); destruct has_filter; try destruct (filter e); reflexivity.
  Qed.

  (* roots are exempt in the serial walker; the parallel walker never runs the check on them *)
  Lemma skip_serial_root ig e d5 :
    de_depth e = 0 -> skip_entry_with fs max_filesize has_filter filter should_skip d5 ig e = false.
  Proof. intro H. unfold skip_entry_with. rewrite H. reflexivity. Qed.
End SkipEq.

