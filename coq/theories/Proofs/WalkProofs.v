(* Proofs/WalkProofs.v — lemmas about Model/Walk.v (property C06). *)
From RG Require Import Base.Bytes Model.Walk.
From Coq Require Import Permutation.

Section SkipEq.
  Variable fs : fsys.
  Variable max_filesize : option N.
  Variable has_filter : bool.
  Variable filter : dent -> bool.
  Variable should_skip : igstack -> dent -> bool.

  (* the two skip decisions are the same boolean function (below the roots) *)
  Lemma skip_serial_eq_skip_parallel_proof ig e :
    0 < de_depth e ->
    skip_entry_with fs max_filesize has_filter filter should_skip true ig e
    = par_skip fs max_filesize has_filter filter should_skip ig e.
  Proof.
    intro H. unfold skip_entry_with, par_skip.
    destruct (Nat.eqb (de_depth e) 0) eqn:E; [apply Nat.eqb_eq in E; lia|].
    destruct (should_skip ig e); [reflexivity|].
    destruct max_filesize as [m|]; destruct (de_is_dir e); cbn [negb];
      try destruct (skip_filesize fs m e); destruct has_filter; try destruct (filter e); reflexivity.
  Qed.

  (* roots are exempt in the serial walker; the parallel walker never runs the check on them *)
  Lemma skip_serial_root ig e d5 :
    de_depth e = 0 -> skip_entry_with fs max_filesize has_filter filter should_skip d5 ig e = false.
  Proof. intro H. unfold skip_entry_with. rewrite H. reflexivity. Qed.
End SkipEq.


(* ---------------------------------------------------------------- the worklist visits the descent tree *)
Lemma Forall2_rev' {A B} (R : A -> B -> Prop) l1 l2 : Forall2 R l1 l2 -> Forall2 R (rev l1) (rev l2).
Proof.
  induction 1 as [|x y l1 l2 Hxy H IH]; cbn [rev]; [constructor|].
  apply Forall2_app; [exact IH|constructor; [exact Hxy|constructor]].
Qed.

Lemma perm_concat_rev {A} (l : list (list A)) : Permutation (concat (rev l)) (concat l).
Proof.
  induction l as [|x r IH]; cbn [rev concat]; [constructor|].
  rewrite concat_app. cbn [concat]. rewrite app_nil_r.
  eapply Permutation_trans; [apply Permutation_app_comm|]. apply Permutation_app_head. exact IH.
Qed.

Section Worklist.
  Variable fs : fsys.
  Variable max_depth : option nat.
  Variable max_filesize : option N.
  Variable follow_links : bool.
  Variable has_filter : bool.
  Variable filter : dent -> bool.
  Variable should_skip : igstack -> dent -> bool.

  Let step := run_one fs max_depth max_filesize follow_links has_filter filter should_skip.

  (* the descent tree below a work item: its own outputs (the entry itself, loop and I/O errors met
     while listing it), then the descent of every work item it generates.  Inductive = least: only
     finite descents have a derivation. *)
  Inductive descent : work -> list out -> Prop :=
  | Descent w os ws each :
      step w = (os, ws) -> Forall2 descent ws each -> descent w (os ++ concat each).

  Lemma par_loop_descent fuel : forall stack acc outs,
    par_loop fs max_depth max_filesize follow_links has_filter filter should_skip fuel stack acc = Some outs ->
    exists each, Forall2 descent stack each /\ Permutation outs (acc ++ concat each).
  Proof.
    induction fuel as [|fuel IH]; intros stack acc outs H.
    - destruct stack as [|w rest]; cbn [par_loop] in H; [|discriminate].
      injection H as <-. exists []. split; [constructor|]. cbn [concat]. rewrite app_nil_r. apply Permutation_refl.
    - destruct stack as [|w rest]; cbn [par_loop] in H.
      + injection H as <-. exists []. split; [constructor|]. cbn [concat]. rewrite app_nil_r. apply Permutation_refl.
      + fold step in H. destruct (step w) as [os ws] eqn:ES.
        destruct (IH _ _ _ H) as (each & HF & HP).
        apply Forall2_app_inv_l in HF as (e1 & e2 & H1 & H2 & ->).
        apply Forall2_rev' in H1. rewrite rev_involutive in H1.
        exists ((os ++ concat (rev e1)) :: e2). split.
        * constructor; [|exact H2]. econstructor; [exact ES|exact H1].
        * eapply Permutation_trans; [exact HP|].
          rewrite concat_app. cbn [concat]. rewrite <- !app_assoc.
          apply Permutation_app_head. apply Permutation_app_head.
          apply Permutation_app_tail. apply Permutation_sym. apply perm_concat_rev.
  Qed.

  (* roots: WalkParallel::visit's messages, then the workers *)
  Lemma par_walk_descent same_fs fuel roots outs :
    par_walk fs max_depth max_filesize follow_links same_fs has_filter filter should_skip fuel roots = Some outs ->
    exists each,
      Forall2 descent (rev (flat_map snd (map (par_root fs same_fs) roots))) each /\
      Permutation outs (flat_map fst (map (par_root fs same_fs) roots) ++ concat each).
  Proof. unfold par_walk. apply par_loop_descent. Qed.

  (* a symlink to a directory that is already among the ancestors is reported, never descended *)
  Lemma loop_never_extended_proof ig dir depth ent c :
    generate_work fs max_filesize follow_links has_filter filter should_skip ig dir depth ent = GWork c ->
    de_follow c = true -> de_is_dir c = true ->
    existsb (fun a => same_handle fs (de_ino c) (snd a)) ig = false.
  Proof.
    unfold generate_work, gw_follow. intros H HF HD.
    destruct (follow_links && de_is_symlink (from_entry fs dir depth ent)) eqn:E1.
    - destruct (from_path fs (de_path (from_entry fs dir depth ent)) depth (de_ino (from_entry fs dir depth ent)) true)
        as [e1|] eqn:E2; [|discriminate].
      destruct (de_is_dir e1 && check_symlink_loop fs ig (de_ino e1)) eqn:E3; [discriminate|].
      destruct (par_skip fs max_filesize has_filter filter should_skip ig e1); [discriminate|].
      injection H as <-. rewrite HD in E3. cbn [andb] in E3. exact E3.
    - destruct (par_skip fs max_filesize has_filter filter should_skip ig (from_entry fs dir depth ent)); [discriminate|].
      injection H as <-. cbn [from_entry de_follow] in HF. discriminate.
  Qed.

  (* and it is reported: the same situation yields the Loop error *)
  Lemma loop_reported_proof ig dir depth ent e1 :
    follow_links = true -> de_is_symlink (from_entry fs dir depth ent) = true ->
    from_path fs (de_path (from_entry fs dir depth ent)) depth (snd ent) true = Some e1 ->
    de_is_dir e1 = true -> existsb (fun a => same_handle fs (de_ino e1) (snd a)) ig = true ->
    generate_work fs max_filesize follow_links has_filter filter should_skip ig dir depth ent = GOut (OLoop (de_path e1)).
  Proof.
    intros HF HS HP HD HL. unfold generate_work, gw_follow. rewrite HF, HS. cbn [andb from_entry de_ino] in *. rewrite HP, HD.
    unfold check_symlink_loop. rewrite HL. reflexivity.
  Qed.
End Worklist.
