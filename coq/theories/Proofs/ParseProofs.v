(* Proofs/ParseProofs.v — C09: reading back what the standard printer and the JSON printer wrote *)
From RG Require Import Base.Bytes Base.BytesFacts Model.MatchIter Model.Replace Model.Sink Model.Standard
  Model.Json Spec.PrinterSpec Spec.ParseSpec Proofs.PrinterProofs.

Definition stops {A} (f : A -> bool) (b : list A) : Prop :=
  match b with [] => True | x :: _ => f x = false end.

Lemma tw_app {A} (f : A -> bool) a b : forallb f a = true -> stops f b ->
  take_while f (a ++ b) = a /\ drop_while f (a ++ b) = b.
Proof.
  induction a as [|x a IH]; intros Ha Hb.
  - cbn [app]. destruct b as [|y b]; [auto|]. cbn in Hb |- *. now rewrite Hb.
  - cbn [forallb] in Ha. apply andb_true_iff in Ha as [Hx Ha]. cbn [app take_while drop_while]. rewrite Hx.
    destruct (IH Ha Hb) as [-> ->]. auto.
Qed.

Lemma is_prefix_app pre x : is_prefix_of pre (pre ++ x) = true.
Proof. induction pre as [|a pre IH]; [reflexivity|]. cbn [app is_prefix_of]. now rewrite N.eqb_refl. Qed.

Lemma strip_prefix_app pre x : strip_prefix pre (pre ++ x) = Some x.
Proof.
  unfold strip_prefix. rewrite is_prefix_app. f_equal.
  induction pre as [|a pre IH]; [reflexivity|exact IH].
Qed.

Lemma sep_stops sepf x : sep_ok sepf -> stops is_digit (sepf ++ x).
Proof. destruct sepf as [|a r]; [intros []|]. intro H. exact H. Qed.

Lemma parse_num_ok sepf n x : sep_ok sepf -> (n < 2 ^ 64)%N ->
  parse_num sepf (decimal_formatter n ++ sepf ++ x) = Some (n, x).
Proof.
  intros Hs Hn. unfold parse_num.
  destruct (decimal_formatter_digits_proof n) as [Hd Hne].
  destruct (tw_app is_digit (decimal_formatter n) (sepf ++ x) Hd (sep_stops sepf x Hs)) as [-> ->].
  rewrite strip_prefix_app. pose proof (decimal_formatter_correct_proof n Hn) as Hv.
  destruct (decimal_formatter n) as [|d ds]; [congruence|]. now rewrite Hv.
Qed.

Definition small (n : option nat) : Prop :=
  match n with Some n => (N.of_nat n < 2 ^ 64)%N | None => True end.

Lemma parse_field_ok sepf present n x : sep_ok sepf -> small n ->
  parse_opt_num (present && is_some n) sepf (num_field sepf present n ++ x)
  = Some (if present then option_map N.of_nat n else None, x).
Proof.
  intros Hs Hn. unfold parse_opt_num, num_field. destruct present; [|reflexivity].
  destruct n as [n|]; cbn [andb is_some option_map]; [|reflexivity].
  unfold dec. rewrite <- app_assoc. now rewrite parse_num_ok.
Qed.

Lemma path_end_starts cfg sepf x : sep_ok sepf ->
  stops (fun y => negb (y =? path_delim cfg sepf)%N) (path_end cfg sepf ++ x).
Proof.
  intro Hsep. unfold path_end, path_delim. destruct (st_path_term cfg) as [t|].
  - cbn. now rewrite N.eqb_refl.
  - destruct sepf as [|a r]; [destruct Hsep|]. cbn. now rewrite N.eqb_refl.
Qed.

Section RoundTrip.
  Variable cfg : stdconfig.
  Variable path : option bytes.
  Variable sepf : bytes.
  Hypothesis Hsep : sep_ok sepf.
  (* the byte that ends the path does not occur in it *)
  Hypothesis Hpath : forall p, path = Some p ->
    forallb (fun x => negb (x =? path_delim cfg sepf)%N) p = true.

  Definition shown_path : option bytes := if st_heading cfg then None else path.

  Theorem prelude_roundtrip off lnum col text :
    small lnum -> small col -> small (Some off) ->
    parse_line cfg sepf (is_some path) (is_some lnum) (is_some col)
               (prelude_spec cfg path sepf off lnum col ++ text)
    = Some (shown_path, option_map N.of_nat lnum,
            (if st_column cfg then option_map N.of_nat col else None),
            (if st_byte_offset cfg then Some (N.of_nat off) else None), text).
  Proof.
    intros H1 H2 H3. unfold parse_line, prelude_spec, shown_path.
    assert (forall rest,
      (if is_some path && negb (st_heading cfg)
       then match strip_prefix (path_end cfg sepf)
                    (drop_while (fun x => negb (x =? path_delim cfg sepf)%N) (path_field cfg path sepf ++ rest)) with
            | Some r => Some (Some (take_while (fun x => negb (x =? path_delim cfg sepf)%N) (path_field cfg path sepf ++ rest)), r)
            | None => None
            end
       else Some (None, path_field cfg path sepf ++ rest))
      = Some (if st_heading cfg then None else path, rest)) as Hp.
    { intro rest. unfold path_field. destruct (st_heading cfg); destruct path as [p|]; cbn [is_some andb negb app]; try reflexivity.
      fold (path_end cfg sepf). rewrite <- app_assoc.
      destruct (tw_app _ p (path_end cfg sepf ++ rest) (Hpath p eq_refl) (path_end_starts cfg sepf rest Hsep)) as [-> ->].
      now rewrite strip_prefix_app. }
    rewrite <- !app_assoc. rewrite Hp.
    pose proof (parse_field_ok sepf true lnum) as F1. cbn [andb] in F1. rewrite F1 by assumption.
    rewrite parse_field_ok by assumption.
    pose proof (parse_field_ok sepf (st_byte_offset cfg) (Some off)) as F3. cbn [is_some] in F3.
    rewrite andb_true_r in F3. rewrite F3 by assumption.
    cbn [option_map]. reflexivity.
  Qed.
End RoundTrip.

(* the whole record of a line-oriented report (the searcher is line oriented, or this is a context line) *)
Theorem standard_line_roundtrip_proof cfg env path sk w :
  let sepf := separator_field cfg sk in
  let col := if is_empty_list (k_matches sk) then None else Some (fst (nth_span (k_matches sk) 0) + 1) in
  (e_multi env && negb (is_context sk)) = false ->
  st_only_matching cfg = false -> st_per_match cfg = false ->
  sep_ok sepf ->
  (forall p, path = Some p -> forallb (fun x => negb (x =? path_delim cfg sepf)%N) p = true) ->
  small (k_lnum sk) -> small col -> small (Some (k_off sk)) ->
  exists rec,
    w_out (impl_sink cfg env path sk w) = w_out (write_search_prelude cfg env path w) ++ rec /\
    parse_line cfg sepf (is_some path) (is_some (k_lnum sk)) (is_some col) rec
    = Some (shown_path cfg path, option_map N.of_nat (k_lnum sk),
            (if st_column cfg then option_map N.of_nat col else None),
            (if st_byte_offset cfg then Some (N.of_nat (k_off sk)) else None),
            terminated (e_lt env) (k_bytes sk)).
Proof.
  intros sepf col Hml Hom Hpm Hsep Hpath H1 H2 H3. unfold impl_sink. rewrite Hml. subst col.
  destruct (is_empty_list (k_matches sk)).
  - eexists. split; [apply sink_fast_layout|]. now apply prelude_roundtrip.
  - eexists. split; [apply sink_slow_layout; assumption|]. now apply prelude_roundtrip.
Qed.

(* ------------------------------------------------------------------ JSON Data and messages *)
Theorem data_roundtrip_proof b : Forall (fun x => (x < 256)%N) b -> data_decode (data_from_bytes b) = Some b.
Proof.
  intro H. unfold data_from_bytes. destruct (utf8_valid b); [reflexivity|]. cbn [data_decode].
  now apply base64_roundtrip_proof.
Qed.

Lemma in_firstn {A} (x : A) : forall n l, In x (firstn n l) -> In x l.
Proof.
  induction n as [|n IH]; intros l H; [destruct H|]. destruct l as [|y l]; [destruct H|].
  cbn [firstn] in H. destruct H as [H|H]; [now left|right; now apply IH].
Qed.
Lemma in_skipn {A} (x : A) : forall n l, In x (skipn n l) -> In x l.
Proof.
  induction n as [|n IH]; intros l H; [exact H|]. destruct l as [|y l]; [destruct H|].
  right. now apply IH.
Qed.
Lemma Forall_sub {A} (P : A -> Prop) l i j : Forall P l -> Forall P (sub l i j).
Proof.
  intro H. unfold sub. apply Forall_forall. intros x Hx. rewrite Forall_forall in H. apply H.
  eapply in_skipn, in_firstn, Hx.
Qed.

Lemma subs_roundtrip lines ms : Forall (fun x => (x < 256)%N) lines ->
  all_some (map sub_decode (submatches_new lines ms))
  = Some (map (fun m => (fst m, snd m, sub lines (fst m) (snd m))) ms).
Proof.
  intro H. induction ms as [|m ms IH]; [reflexivity|].
  cbn [submatches_new map all_some] in *. unfold sub_decode at 1. cbn [j_m j_start j_end].
  rewrite data_roundtrip_proof by now apply Forall_sub. cbn [option_map].
  unfold submatches_new in IH. rewrite IH. reflexivity.
Qed.
