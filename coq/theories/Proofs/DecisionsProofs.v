(* Proofs/DecisionsProofs.v — the decision expressions regenerated from the source text (Gen/DecisionsCli.v)
   are extensionally equal to the hand-written copies (Model/CliExpected.v), and the facts about them
   that the property theorems use.  An edit of one of the Rust expressions that changes its meaning makes
   one of these proofs fail at the next check. *)
From RG Require Import Base.Bytes Model.CliTypes Model.CliExpected Gen.DecisionsCli.
Local Open Scope bool_scope.

Ltac dbool := repeat match goal with b : bool |- _ => destruct b end.

Lemma exit_code_eq : forall m q e, exit_code m q e = exit_code_expected m q e.
Proof. intros; dbool; reflexivity. Qed.

Lemma choose_driver_eq : forall m mp t, choose_driver m mp t = choose_driver_expected m mp t.
Proof.
  intros m mp t. unfold choose_driver, choose_driver_expected.
  destruct m as [sm| | |]; destruct mp; destruct (t =? 1)%N; reflexivity.
Qed.

Lemma threads_eq : forall a b lt av, threads a b lt av = threads_expected a b lt av.
Proof. intros a b lt av. unfold threads, threads_expected. destruct a, b, lt; reflexivity. Qed.

Lemma quit_after_match_eq : forall a b, quit_after_match a b = quit_after_match_expected a b.
Proof. intros; dbool; reflexivity. Qed.

Lemma stats_is_some_eq : forall m ls, stats_is_some m ls = stats_is_some_expected m ls.
Proof. intros m ls. destruct m as [sm| | |]; try destruct sm; destruct ls; reflexivity. Qed.

Lemma matches_possible_eq : forall a b, matches_possible a b = matches_possible_expected a b.
Proof. intros; dbool; reflexivity. Qed.

Lemma walk_sorted_by_name_eq : forall s, walk_sorted_by_name s = walk_sorted_by_name_expected s.
Proof. intros [[r k]|]; [destruct r, k|]; reflexivity. Qed.

Lemma sort_is_identity_eq : forall s, sort_is_identity s = sort_is_identity_expected s.
Proof. intros [[r k]|]; [destruct r, k|]; reflexivity. Qed.

Lemma binary_detection_eq : forall b nd, binary_detection b nd = binary_detection_expected b nd.
Proof. intros b nd; destruct b, nd; reflexivity. Qed.

Lemma file_separator_eq : forall m h c, file_separator m h c = file_separator_expected m h c.
Proof.
  intros m h c. unfold file_separator, file_separator_expected.
  destruct m as [sm| | |]; try destruct sm; destruct h; try reflexivity;
    destruct c as [|[b a]]; try reflexivity.
Qed.

Lemma printer_owns_separator_eq : forall t, printer_owns_separator t = printer_owns_separator_expected t.
Proof. intros t. unfold printer_owns_separator, printer_owns_separator_expected. destruct (t =? 1)%N; reflexivity. Qed.

Lemma select_binary_eq : forall e x i, select_binary e x i = select_binary_expected e x i.
Proof. intros; reflexivity. Qed.

Lemma should_preprocess_eq : forall a b c, should_preprocess a b c = should_preprocess_expected a b c.
Proof. intros; dbool; reflexivity. Qed.

Lemma should_decompress_eq : forall a b, should_decompress a b = should_decompress_expected a b.
Proof. intros; dbool; reflexivity. Qed.

Lemma select_strategy_eq : forall a b c, select_strategy a b c = select_strategy_expected a b c.
Proof. intros; dbool; reflexivity. Qed.

Lemma close_is_error_eq : forall so ws eof se, close_is_error so ws eof se = close_is_error_expected so ws eof se.
Proof. intros; dbool; reflexivity. Qed.

(* ---- facts used by the property theorems ---- *)

(* the status table of property C15, about the GENERATED expression *)
Lemma status_table_proof : forall matched quiet errored : bool,
  (exit_code matched quiet errored = 0%N <-> matched = true /\ (quiet = true \/ errored = false)) /\
  (exit_code matched quiet errored = 2%N <-> errored = true /\ ~ (matched = true /\ quiet = true)) /\
  (exit_code matched quiet errored = 1%N <-> matched = false /\ errored = false).
Proof.
  intros m q e; destruct m, q, e; vm_compute; repeat split; intros; try discriminate; try tauto;
    repeat match goal with
           | H : _ /\ _ |- _ => destruct H
           | H : _ \/ _ |- _ => destruct H
           | H : ~ _ |- _ => try (exfalso; apply H; split; reflexivity)
           end; try discriminate; try reflexivity.
Qed.

Lemma exit_code_range : forall m q e, exit_code m q e = 0%N \/ exit_code m q e = 1%N \/ exit_code m q e = 2%N.
Proof. intros m q e; destruct m, q, e; vm_compute; auto. Qed.

(* sorting forces one thread, whatever -j says and however many cores there are *)
Lemma sort_forces_one_thread_proof : forall one_file lt avail, threads true one_file lt avail = 1%N.
Proof. intros; rewrite threads_eq; reflexivity. Qed.

Lemma one_file_forces_one_thread : forall sorted lt avail, threads sorted true lt avail = 1%N.
Proof. intros; rewrite threads_eq; destruct sorted; reflexivity. Qed.

Lemma threads_explicit : forall n avail, threads false false (Some n) avail = n.
Proof. intros; rewrite threads_eq; reflexivity. Qed.

Lemma threads_default_bound : forall avail, (threads false false None avail <= 12)%N.
Proof. intros; rewrite threads_eq; cbn. apply N.le_min_r. Qed.

(* quit_after_match implies quiet (and no statistics) *)
Lemma quit_implies_quiet : forall sn q, quit_after_match sn q = true -> q = true /\ sn = true.
Proof. intros sn q; destruct sn, q; vm_compute; intuition congruence. Qed.

(* HiArgs::sort leaves the order to the walker exactly when the walker was told to sort by file name *)
Lemma sort_identity_iff_walk_sorted : forall s : sort_mode,
  sort_is_identity (Some s) = walk_sorted_by_name (Some s).
Proof. intros [r k]; destruct r, k; reflexivity. Qed.

Lemma no_sort_is_identity : sort_is_identity None = true /\ walk_sorted_by_name None = false.
Proof. split; reflexivity. Qed.

(* a driver is parallel only if threads <> 1 *)
Lemma driver_serial_iff : forall m mp t,
  (choose_driver m mp t = DSearch \/ choose_driver m mp t = DFiles) -> t = 1%N.
Proof.
  intros m mp t. rewrite choose_driver_eq. unfold choose_driver_expected.
  destruct m as [sm| | |]; destruct mp; destruct (N.eqb_spec t 1); intros [H|H]; try discriminate; auto.
Qed.

Lemma driver_parallel_iff : forall m mp t,
  (choose_driver m mp t = DSearchParallel \/ choose_driver m mp t = DFilesParallel) -> t <> 1%N.
Proof.
  intros m mp t. rewrite choose_driver_eq. unfold choose_driver_expected.
  destruct m as [sm| | |]; destruct mp; destruct (N.eqb_spec t 1); intros [H|H]; try discriminate; auto.
Qed.

(* the separator has exactly one owner: the printer when threads = 1, the buffer writer otherwise *)
Lemma separator_owner : forall t, printer_owns_separator t = (t =? 1)%N.
Proof. intros; rewrite printer_owns_separator_eq; reflexivity. Qed.
