(* Proofs/GlobSetProofs.v — GlobSet::matches returns exactly the indices (ascending, no duplicates) of
   the globs whose own strategy answers true; with strategy_eq_regex: of the globs that match. *)
From RG Require Import Base.Bytes Base.BytesFacts Model.Glob Model.GlobSet Spec.GlobSem
  Spec.GlobSetSem
  Proofs.GlobSemProofs Proofs.GlobPathProofs Proofs.GlobStrategyProofs Proofs.SortDedupProofs.

Ltac tt := intuition (subst; auto; try discriminate; try congruence).

(* ---------------- hash map ---------------- *)
Definition hits {V} (m : hmap V) (key : bytes) : list V :=
  match hm_get m key with Some h => h | None => [] end.

Lemma bytes_eqb_trans_l a b c : bytes_eqb a b = true -> bytes_eqb a c = bytes_eqb b c.
Proof. intro H. apply bytes_eqb_eq in H. now subst. Qed.

Lemma hits_push {V} (m : hmap V) k x key (j : V) :
  In j (hits (hm_push m k x) key) <-> In j (hits m key) \/ (j = x /\ bytes_eqb k key = true).
Proof.
  unfold hits. induction m as [|[k' v] r IH]; cbn [hm_push hm_get].
  - destruct (bytes_eqb k key); cbn; tt.
  - destruct (bytes_eqb k' k) eqn:E; cbn [hm_get].
    + rewrite <- (bytes_eqb_trans_l _ _ key E). destruct (bytes_eqb k' key).
      * rewrite in_app_iff. cbn. tt.
      * tt.
    + destruct (bytes_eqb k' key) eqn:E2.
      * assert (bytes_eqb k key = false) as ->.
        { destruct (bytes_eqb k key) eqn:E3; [|reflexivity]. apply bytes_eqb_eq in E2, E3. subst.
          now rewrite bytes_eqb_refl in E. }
        tt.
      * exact IH.
Qed.

Lemma hm_has_hits {V} (m : hmap V) key : hm_has m key = true <-> hm_get m key <> None.
Proof. unfold hm_has. destruct (hm_get m key); split; congruence. Qed.

(* ---------------- selecting from a multi table ---------------- *)
Definition multi_sel {L} (m : multi L) (pred : L -> bool) (x : nat) : Prop :=
  exists j lit, nth_error (m_literals m) j = Some lit /\ x = nth j (m_map m) 0 /\ pred lit = true.

Lemma multi_sel_add {L} (m : multi L) (a : L) (i lg : nat) pred x :
  length (m_literals m) = length (m_map m) ->
  multi_sel (mk_multi (m_literals m ++ [a]) (m_map m ++ [i]) lg) pred x <->
  multi_sel m pred x \/ (x = i /\ pred a = true).
Proof.
  intro Hlen. unfold multi_sel. cbn [m_literals m_map]. split.
  - intros (j & lit & Hn & -> & Hp).
    destruct (Nat.lt_ge_cases j (length (m_literals m))) as [Hj|Hj].
    + left. exists j, lit. rewrite nth_error_app1 in Hn by assumption.
      rewrite app_nth1 by lia. auto.
    + right. rewrite nth_error_app2 in Hn by assumption.
      destruct (j - length (m_literals m)) eqn:Ed; cbn in Hn; [|destruct n; discriminate].
      injection Hn as <-. assert (j = length (m_map m)) as -> by lia.
      rewrite app_nth2, Nat.sub_diag by lia. auto.
  - intros [(j & lit & Hn & -> & Hp)|[-> Hp]].
    + assert (Hj : j < length (m_literals m)) by (apply nth_error_Some; congruence).
      exists j, lit. rewrite nth_error_app1, app_nth1 by lia. auto.
    + exists (length (m_literals m)), a. rewrite nth_error_app2, Nat.sub_diag by lia.
      rewrite Hlen, app_nth2, Nat.sub_diag by lia. auto.
Qed.

Lemma enum_from_in {A} (l : list A) : forall s j x,
  In (j, x) (enum_from s l) <-> exists d, j = s + d /\ nth_error l d = Some x.
Proof.
  induction l as [|a l IH]; intros s j x; cbn [enum_from In].
  - split; [tauto|]. intros (d & _ & H). destruct d; discriminate.
  - rewrite IH. split.
    + intros [H|(d & -> & H)]; [injection H as <- <-; exists 0; split; [lia|reflexivity]|].
      exists (S d). split; [lia|assumption].
    + intros (d & -> & H). destruct d as [|d]; cbn in H.
      * left. injection H as ->. f_equal. lia.
      * right. exists d. split; [lia|assumption].
Qed.

(* ---------------- aho-corasick model ---------------- *)
Lemma ac_at_in lits st hay j s e :
  In (j, s, e) (ac_at lits st hay) <->
  exists lit, nth_error lits j = Some lit /\ s = st /\ e = st + length lit /\ is_prefix_of lit hay = true.
Proof.
  unfold ac_at. rewrite in_flat_map. split.
  - intros ([j' lit] & Hin & H). apply enum_from_in in Hin as (d & -> & Hn). cbn [fst snd] in H.
    destruct (is_prefix_of lit hay) eqn:E; [|contradiction]. destruct H as [H|[]].
    injection H as <- <- <-. exists lit. auto.
  - intros (lit & Hn & -> & -> & Hp). exists (j, lit). split.
    + apply enum_from_in. exists j. auto.
    + cbn [fst snd]. rewrite Hp. now left.
Qed.

Lemma ac_from_in lits hay : forall st j s e,
  In (j, s, e) (ac_from lits st hay) <->
  exists lit d, nth_error lits j = Some lit /\ s = st + d /\ d <= length hay /\ e = s + length lit /\
                is_prefix_of lit (skipn d hay) = true.
Proof.
  induction hay as [|b hay IH]; intros st j s e; cbn [ac_from]; rewrite in_app_iff, ac_at_in.
  - split.
    + intros [(lit & Hn & -> & -> & Hp)|[]]. exists lit, 0. rewrite Nat.add_0_r. cbn. auto.
    + intros (lit & d & Hn & -> & Hd & -> & Hp). cbn in Hd. assert (d = 0) as -> by lia.
      left. exists lit. rewrite Nat.add_0_r in *. auto.
  - rewrite IH. split.
    + intros [(lit & Hn & -> & -> & Hp)|(lit & d & Hn & -> & Hd & -> & Hp)].
      * exists lit, 0. rewrite Nat.add_0_r. cbn. repeat split; auto. lia.
      * exists lit, (S d). cbn [length skipn]. repeat split; auto; lia.
    + intros (lit & d & Hn & -> & Hd & -> & Hp). destruct d as [|d].
      * left. exists lit. rewrite Nat.add_0_r in *. auto.
      * right. exists lit, d. cbn [length skipn] in *. repeat split; auto; lia.
Qed.

Lemma is_prefix_firstn lit n p :
  length lit <= n -> is_prefix_of lit (firstn n p) = is_prefix_of lit p.
Proof.
  revert n p; induction lit as [|c lit IH]; intros n p H; [reflexivity|].
  cbn in H. destruct n as [|n]; [lia|]. destruct p as [|b p]; [reflexivity|].
  cbn. rewrite IH by lia. reflexivity.
Qed.

Lemma is_suffix_skipn lit n p :
  length lit <= length p - n -> is_suffix_of lit (skipn n p) = is_suffix_of lit p.
Proof.
  intro H. apply bool_eq_iff. rewrite !is_suffix_of_iff. split.
  - intros (z & Hz). exists (firstn n p ++ z). rewrite <- app_assoc, <- Hz. symmetry. apply firstn_skipn.
  - intros (z & ->). rewrite app_length in H. exists (skipn n z).
    destruct lit as [|b lit]; [now rewrite !app_nil_r|]. cbn [length] in H.
    rewrite skipn_app. replace (n - length z) with 0 by lia. reflexivity.
Qed.

Definition multi_ok (m : multi bytes) : Prop :=
  length (m_literals m) = length (m_map m) /\ Forall (fun l => length l <= m_longest m) (m_literals m).

Lemma multi_add_ok m i lit : multi_ok m -> multi_ok (multi_add m i lit).
Proof.
  intros [H1 H2]. unfold multi_ok, multi_add. cbn [m_literals m_map m_longest]. split.
  - rewrite !app_length. cbn. lia.
  - apply Forall_app. split.
    + eapply Forall_impl; [|exact H2]. intros l Hl. cbn beta in Hl.
      destruct (Nat.ltb (m_longest m) (length lit)) eqn:E; [apply Nat.ltb_lt in E|]; lia.
    + constructor; [|constructor].
      destruct (Nat.ltb (m_longest m) (length lit)) eqn:E; [lia|apply Nat.ltb_ge in E; lia].
Qed.

Lemma multi_sel_multi_add m i lit pred x :
  length (m_literals m) = length (m_map m) ->
  multi_sel (multi_add m i lit) pred x <-> multi_sel m pred x \/ (x = i /\ pred lit = true).
Proof. intro H. unfold multi_add. now apply multi_sel_add. Qed.

Lemma multi_sel_multi_add_re m i g pred x :
  length (m_literals m) = length (m_map m) ->
  multi_sel (multi_add_re m i g) pred x <-> multi_sel m pred x \/ (x = i /\ pred g = true).
Proof. intro H. unfold multi_add_re. now apply multi_sel_add. Qed.

Section SetProofs.
Variable re : glob -> bytes -> bool.
Variable p : bytes.
Let c := candidate_new p.

Lemma prefix_matches_in s x :
  multi_ok (gs_prefixes s) ->
  In x (prefix_matches s c) <-> multi_sel (gs_prefixes s) (fun lit => is_prefix_of lit p) x.
Proof.
  intros [_ Hlong]. unfold prefix_matches, ac_overlapping, multi_sel. rewrite in_flat_map. split.
  - intros ([[j st] en] & Hin & H). apply ac_from_in in Hin as (lit & d & Hn & -> & Hd & -> & Hp).
    destruct (Nat.eqb (0 + d) 0) eqn:E; [|contradiction]. apply Nat.eqb_eq in E. cbn in E. subst d.
    destruct H as [<-|[]]. exists j, lit. repeat split; auto. cbn [skipn] in Hp.
    unfold path_prefix in Hp. cbn [c_path c candidate_new candidate_with] in Hp.
    destruct (Nat.leb (length p) _); [assumption|].
    rewrite is_prefix_firstn in Hp; [assumption|].
    rewrite Forall_forall in Hlong. apply Hlong. eapply nth_error_In; eassumption.
  - intros (j & lit & Hn & -> & Hp). exists (j, 0, 0 + length lit). split.
    + apply ac_from_in. exists lit, 0. repeat split; auto; [lia|]. cbn [skipn].
      unfold path_prefix. cbn [c_path c candidate_new candidate_with].
      destruct (Nat.leb (length p) _); [assumption|]. rewrite is_prefix_firstn; [assumption|].
      rewrite Forall_forall in Hlong. apply Hlong. eapply nth_error_In; eassumption.
    + cbn. now left.
Qed.

Lemma prefix_at_end lit q d :
  d <= length q -> (is_prefix_of lit (skipn d q) = true /\ d + length lit = length q) <->
                   (q = firstn d q ++ lit).
Proof.
  intro Hd. split.
  - intros [Hp Hl]. apply is_prefix_of_iff in Hp as (y & Hy).
    assert (length (skipn d q) = length lit + length y) by (rewrite Hy, app_length; reflexivity).
    rewrite skipn_length in H. assert (y = []) as -> by (destruct y; [reflexivity|cbn in H; lia]).
    rewrite app_nil_r in Hy. rewrite <- Hy. symmetry. apply firstn_skipn.
  - intro H. assert (Hs : skipn d q = lit).
    { rewrite H at 1. rewrite skipn_app, firstn_length_le, Nat.sub_diag by assumption.
      rewrite skipn_all2 by (rewrite firstn_length_le; lia). reflexivity. }
    split.
    + rewrite Hs. apply is_prefix_of_iff. exists []. now rewrite app_nil_r.
    + rewrite <- Hs, skipn_length. lia.
Qed.

Lemma suffix_matches_in s x :
  multi_ok (gs_suffixes s) ->
  In x (suffix_matches s c) <-> multi_sel (gs_suffixes s) (fun lit => is_suffix_of lit p) x.
Proof.
  intros [_ Hlong]. unfold suffix_matches, ac_overlapping, multi_sel. rewrite in_flat_map.
  set (q := path_suffix c (m_longest (gs_suffixes s))).
  assert (Hq : forall lit, In lit (m_literals (gs_suffixes s)) -> is_suffix_of lit q = is_suffix_of lit p).
  { intros lit Hin. rewrite Forall_forall in Hlong. specialize (Hlong _ Hin). unfold q, path_suffix.
    cbn [c_path c candidate_new candidate_with]. destruct (Nat.leb (length p) _) eqn:E; [reflexivity|].
    apply Nat.leb_gt in E. apply is_suffix_skipn. lia. }
  split.
  - intros ([[j st] en] & Hin & H). apply ac_from_in in Hin as (lit & d & Hn & -> & Hd & -> & Hp).
    destruct (Nat.eqb (0 + d + length lit) (length q)) eqn:E; [|contradiction]. apply Nat.eqb_eq in E.
    destruct H as [<-|[]]. exists j, lit. repeat split; auto.
    rewrite <- Hq by (eapply nth_error_In; eassumption).
    apply is_suffix_of_iff. exists (firstn d q). apply prefix_at_end; [assumption|]. split; [assumption|lia].
  - intros (j & lit & Hn & -> & Hp). rewrite <- Hq in Hp by (eapply nth_error_In; eassumption).
    apply is_suffix_of_iff in Hp as (z & Hz).
    assert (Hd : length z <= length q) by (rewrite Hz, app_length; lia).
    assert (Hf : firstn (length z) q = z) by (rewrite Hz, firstn_app, Nat.sub_diag, firstn_all; cbn; apply app_nil_r).
    exists (j, 0 + length z, 0 + length z + length lit). split.
    + apply ac_from_in. exists lit, (length z). repeat split; auto.
      apply (prefix_at_end lit q (length z) Hd). now rewrite Hf.
    + assert (E : 0 + length z + length lit = length q) by (rewrite Hz, app_length; reflexivity).
      rewrite E, Nat.eqb_refl. now left.
Qed.

Lemma regexes_matches_in s x :
  In x (regexes_matches re s c) <-> multi_sel (gs_regexes s) (fun g => re g p) x.
Proof.
  unfold regexes_matches, multi_sel. rewrite in_flat_map. split.
  - intros ([j g] & Hin & H). apply enum_from_in in Hin as (d & -> & Hn). cbn [fst snd] in H.
    cbn [c_path c candidate_new candidate_with] in H. destruct (re g p) eqn:E; [|contradiction].
    destruct H as [<-|[]]. exists d, g. auto.
  - intros (j & g & Hn & -> & Hp). exists (j, g). split.
    + apply enum_from_in. exists j. auto.
    + cbn [fst snd c_path c candidate_new candidate_with]. rewrite Hp. now left.
Qed.

Definition all_hits (s : globset) : list nat :=
  exts_matches s c ++ base_lits_matches s c ++ lits_matches s c ++ suffix_matches s c ++
  prefix_matches s c ++ required_exts_matches re s c ++ regexes_matches re s c.

Definition set_ok (s : globset) : Prop :=
  multi_ok (gs_suffixes s) /\ multi_ok (gs_prefixes s) /\
  length (m_literals (gs_regexes s)) = length (m_map (gs_regexes s)).

Definition sm (g : glob) : bool :=
  strategy_match (strategy_new (g_opts g) (g_tokens g)) c (re g).

Lemma all_hits_in s x :
  In x (all_hits s) <->
  In x (exts_matches s c) \/ In x (base_lits_matches s c) \/ In x (lits_matches s c) \/
  In x (suffix_matches s c) \/ In x (prefix_matches s c) \/ In x (required_exts_matches re s c) \/
  In x (regexes_matches re s c).
Proof. unfold all_hits. rewrite !in_app_iff. tauto. Qed.

(* inversion of MatchStrategy::new: the literal of each table is not empty where the table guards on it *)
Lemma strategy_new_inv o ts :
  match strategy_new o ts with
  | SBasenameLiteral l => l <> []
  | SExtension e => e <> []
  | SRequiredExtension e => e <> []
  | _ => True
  end.
Proof.
  unfold strategy_new.
  destruct (basename_literal o ts) eqn:E1; [apply basename_literal_shape in E1; tauto|].
  destruct (literal o ts); [exact I|].
  destruct (ext o ts) eqn:E3; [apply ext_shape in E3 as (_ & cs & -> & _); discriminate|].
  destruct (prefix o ts); [exact I|].
  destruct (suffix o ts) as [[? ?]|]; [exact I|].
  destruct (required_ext o ts) eqn:E6; [apply required_ext_shape in E6 as (_ & pre & cs & -> & _); discriminate|].
  exact I.
Qed.

Lemma required_in (m : hmap (nat * glob)) key x :
  In x match hm_get m key with
       | Some regexes => flat_map (fun ig : nat * glob => if re (snd ig) (c_path c) then [fst ig] else []) regexes
       | None => []
       end <->
  exists g, In (x, g) (hits m key) /\ re g p = true.
Proof.
  unfold hits. destruct (hm_get m key) as [l|]; [|split; [intros []|intros (g & [] & _)]].
  rewrite in_flat_map. cbn [c_path c candidate_new candidate_with]. split.
  - intros ([i g] & Hin & H). cbn [fst snd] in H. destruct (re g p) eqn:E; [|contradiction].
    destruct H as [<-|[]]. eauto.
  - intros (g & Hin & Hr). exists (x, g). split; [assumption|]. cbn [fst snd]. rewrite Hr. now left.
Qed.

Lemma add_glob_step s i g x :
  set_ok s ->
  set_ok (add_glob s i g) /\
  (In x (all_hits (add_glob s i g)) <-> In x (all_hits s) \/ (x = i /\ sm g = true)).
Proof.
  intros (Hs & Hp & Hr). unfold add_glob, sm. pose proof (strategy_new_inv (g_opts g) (g_tokens g)) as Hinv.
  destruct (strategy_new (g_opts g) (g_tokens g)) as [lit|lit|e|pre|suf comp|e|] eqn:Est;
    (split; [unfold set_ok; cbn [gs_suffixes gs_prefixes gs_regexes]; repeat split;
             try assumption; try (apply multi_add_ok; assumption); try apply Hs; try apply Hp;
             try (cbn [multi_add_re m_literals m_map]; rewrite !app_length; cbn; lia)|]);
    rewrite !all_hits_in; cbn [strategy_match].
  - (* Literal *)
    unfold exts_matches, base_lits_matches, lits_matches, suffix_matches, prefix_matches,
      required_exts_matches, regexes_matches. cbn [gs_exts gs_base_lits gs_lits gs_suffixes gs_prefixes gs_required_exts gs_regexes].
    fold (hits (hm_push (gs_lits s) lit i) (c_path c)). fold (hits (gs_lits s) (c_path c)).
    rewrite hits_push. tauto.
  - (* BasenameLiteral *)
    unfold exts_matches, base_lits_matches, lits_matches, suffix_matches, prefix_matches,
      required_exts_matches, regexes_matches. cbn [gs_exts gs_base_lits gs_lits gs_suffixes gs_prefixes gs_required_exts gs_regexes].
    destruct (c_basename c) as [|b0 bn] eqn:Eb.
    + assert (bytes_eqb lit [] = false) as -> by (destruct lit; [congruence|reflexivity]). tt.
    + fold (hits (hm_push (gs_base_lits s) lit i) (b0 :: bn)). fold (hits (gs_base_lits s) (b0 :: bn)).
      rewrite hits_push. tauto.
  - (* Extension *)
    unfold exts_matches, base_lits_matches, lits_matches, suffix_matches, prefix_matches,
      required_exts_matches, regexes_matches. cbn [gs_exts gs_base_lits gs_lits gs_suffixes gs_prefixes gs_required_exts gs_regexes].
    destruct (c_ext c) as [|b0 bn] eqn:Eb.
    + assert (bytes_eqb e [] = false) as -> by (destruct e; [congruence|reflexivity]). tt.
    + fold (hits (hm_push (gs_exts s) e i) (b0 :: bn)). fold (hits (gs_exts s) (b0 :: bn)).
      rewrite hits_push. tauto.
  - (* Prefix *)
    rewrite !prefix_matches_in by (try assumption; cbn [gs_prefixes]; apply multi_add_ok; assumption).
    cbn [gs_prefixes]. rewrite multi_sel_multi_add by apply Hp.
    unfold exts_matches, base_lits_matches, lits_matches, suffix_matches,
      required_exts_matches, regexes_matches. cbn [gs_exts gs_base_lits gs_lits gs_suffixes gs_prefixes gs_required_exts gs_regexes].
    cbn [c_path c candidate_new candidate_with]. tauto.
  - (* Suffix *)
    rewrite !suffix_matches_in by (try assumption; cbn [gs_suffixes]; apply multi_add_ok; assumption).
    cbn [gs_suffixes]. rewrite multi_sel_multi_add by apply Hs.
    unfold exts_matches, base_lits_matches, lits_matches, prefix_matches,
      required_exts_matches, regexes_matches. cbn [gs_exts gs_base_lits gs_lits gs_suffixes gs_prefixes gs_required_exts gs_regexes].
    cbn [c_path c candidate_new candidate_with].
    fold (hits (gs_lits s) p).
    destruct comp; cbn [andb].
    + fold (hits (hm_push (gs_lits s) (skipn 1 suf) i) p). rewrite hits_push.
      rewrite (bytes_eqb_sym p). destruct (bytes_eqb (skipn 1 suf) p); destruct (is_suffix_of suf p); intuition; discriminate.
    + tauto.
  - (* RequiredExtension *)
    unfold exts_matches, base_lits_matches, lits_matches, suffix_matches, prefix_matches,
      required_exts_matches, regexes_matches. cbn [gs_exts gs_base_lits gs_lits gs_suffixes gs_prefixes gs_required_exts gs_regexes].
    destruct (c_ext c) as [|b0 bn] eqn:Eb.
    + assert (bytes_eqb [] e = false) as -> by (destruct e; [congruence|reflexivity]). cbn [andb]. tt.
    + rewrite !required_in. cbn [c_path c candidate_new candidate_with].
      rewrite (bytes_eqb_sym (b0 :: bn)). split.
      * intros [H|[H|[H|[H|[H|[H|H]]]]]]; try tauto.
        destruct H as (g' & Hin & Hre). apply hits_push in Hin as [Hin|[Heq Hk]].
        -- left. right. right. right. right. right. left. eauto.
        -- injection Heq as -> ->. right. split; [reflexivity|]. now rewrite Hk, Hre.
      * intros [[H|[H|[H|[H|[H|[H|H]]]]]]|[-> H]]; try tauto.
        -- destruct H as (g' & Hin & Hre). right. right. right. right. right. left. exists g'.
           split; [|assumption]. apply hits_push. now left.
        -- apply andb_true_iff in H as [Hk Hre]. right. right. right. right. right. left. exists g.
           split; [|assumption]. apply hits_push. right. auto.
  - (* Regex *)
    rewrite !regexes_matches_in. cbn [gs_regexes]. rewrite multi_sel_multi_add_re by apply Hr.
    unfold exts_matches, base_lits_matches, lits_matches, suffix_matches, prefix_matches,
      required_exts_matches. cbn [gs_exts gs_base_lits gs_lits gs_suffixes gs_prefixes gs_required_exts gs_regexes].
    cbn [c_path c candidate_new candidate_with]. tauto.
Qed.

Lemma add_globs_spec gs : forall s i x,
  set_ok s ->
  set_ok (add_globs s i gs) /\
  (In x (all_hits (add_globs s i gs)) <->
   In x (all_hits s) \/ exists d g, nth_error gs d = Some g /\ x = i + d /\ sm g = true).
Proof.
  induction gs as [|g gs IH]; intros s i x Hok; cbn [add_globs].
  - split; [assumption|]. split; [tauto|]. intros [H|(d & g & Hn & _)]; [assumption|]. destruct d; discriminate.
  - destruct (add_glob_step s i g x Hok) as [Hok' Hstep].
    destruct (IH (add_glob s i g) (S i) x Hok') as [Hok'' Hrec]. split; [assumption|].
    rewrite Hrec, Hstep. split.
    + intros [[H|[-> H]]|(d & g' & Hn & -> & H)]; [tauto| |].
      * right. exists 0, g. rewrite Nat.add_0_r. auto.
      * right. exists (S d), g'. repeat split; auto. lia.
    + intros [H|(d & g' & Hn & -> & H)]; [tauto|]. destruct d as [|d]; cbn in Hn.
      * injection Hn as ->. left. right. rewrite Nat.add_0_r. auto.
      * right. exists d, g'. repeat split; auto. lia.
Qed.

Lemma empty_ok : set_ok empty_set.
Proof. unfold set_ok, multi_ok, empty_set. cbn. repeat split; constructor. Qed.

Lemma all_hits_empty x : ~ In x (all_hits empty_set).
Proof.
  rewrite all_hits_in. rewrite prefix_matches_in, suffix_matches_in, regexes_matches_in by apply empty_ok.
  unfold exts_matches, base_lits_matches, lits_matches, required_exts_matches, multi_sel, empty_set.
  cbn [gs_exts gs_base_lits gs_lits gs_required_exts gs_suffixes gs_prefixes gs_regexes hm_get m_literals].
  assert (Hnil : forall A j0 (a0 : A), nth_error (@nil A) j0 = Some a0 -> False)
    by (intros A j0 a0; destruct j0; discriminate).
  destruct (c_basename c) as [|bb bl]; destruct (c_ext c) as [|eb el]; cbn;
    intros [[]|[[]|[[]|[(j & l0 & H & _)|[(j & l0 & H & _)|[[]|(j & l0 & H & _)]]]]]]; eapply Hnil; eassumption.
Qed.

Theorem set_matches_spec gs :
  set_matches re gs p = filter (fun i => sm (nth i gs dflt_glob)) (seq 0 (length gs)).
Proof.
  unfold set_matches, set_matches_candidate, build_set. destruct gs as [|g0 gs']; [reflexivity|].
  set (gs := g0 :: gs'). cbn [gs_len]. replace (Nat.eqb (length gs) 0) with false by reflexivity.
  set (s := add_globs empty_set 0 gs).
  change (sort_dedup _) with (sort_dedup (all_hits s)).
  - assert (Hin : forall x, In x (all_hits s) <-> x < length gs /\ sm (nth x gs dflt_glob) = true).
    { intro x. destruct (add_globs_spec gs empty_set 0 x empty_ok) as [_ H]. fold s in H. rewrite H. split.
      - intros [F|(d & g & Hn & -> & Hs)]; [now apply all_hits_empty in F|]. cbn [Nat.add].
        split; [apply nth_error_Some; congruence|]. now rewrite (nth_error_nth _ _ _ Hn).
      - intros [Hx Hs]. right. exists x, (nth x gs dflt_glob). repeat split; auto. now apply nth_error_nth'. }
    rewrite (sort_dedup_filter _ (length gs)) by (intros j Hj; now apply Hin in Hj).
    apply filter_ext_in. intros i Hi. apply in_seq in Hi. apply bool_eq_iff. rewrite existsb_exists. split.
    + intros (y & Hy & E). apply Nat.eqb_eq in E. subst y. now apply Hin in Hy.
    + intro Hs. exists i. split; [|apply Nat.eqb_refl]. apply Hin. split; [lia|assumption].
Qed.
End SetProofs.

(* instantiated with the regex meaning: GlobSet::matches = ascending indices of the matching globs *)
Theorem set_eq_members_proof gs p :
  set_matches re_spec gs p =
  filter (fun i => tmatch (g_opts (nth i gs dflt_glob)) (g_tokens (nth i gs dflt_glob)) p) (seq 0 (length gs)).
Proof.
  rewrite set_matches_spec. apply filter_ext. intro i. unfold sm, re_spec.
  apply strategy_eq_regex_proof.
Qed.
