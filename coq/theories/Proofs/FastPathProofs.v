(* Proofs/FastPathProofs.v — the fast (candidate based) line path of SliceByLine simulates the grep
   reference, under the contract of find_by_line_fast ("the line found is the first line of the
   rest of the buffer that the pattern matches"). *)
From RG Require Import Base.Bytes Base.BytesFacts Model.Lines Model.SearcherCore Model.Glue
  Spec.GrepSpec Proofs.LinesProofs Proofs.CoreSinkProofs Proofs.SlowPathProofs Proofs.PrefixLaw Proofs.PrefixCore.

Lemma nth_error_firstn_lt {A} : forall n (l : list A) k, k < n -> nth_error (firstn n l) k = nth_error l k.
Proof.
  induction n as [|n IH]; intros l k H; [lia|]. destruct l as [|x l]; [destruct k; reflexivity|].
  destruct k as [|k]; [reflexivity|]. cbn. apply IH. lia.
Qed.

Lemma nth_error_skipn {A} : forall a (l : list A) k, nth_error (skipn a l) k = nth_error l (a + k).
Proof.
  induction a as [|a IH]; intros l k; [reflexivity|]. destruct l as [|x l]; [destruct k; reflexivity|]. cbn. apply IH.
Qed.

Lemma nth_error_sub {A} (l : list A) a b k : a + k < b -> nth_error (sub l a b) k = nth_error l (a + k).
Proof. intro H. unfold sub. rewrite nth_error_firstn_lt by lia. apply nth_error_skipn. Qed.

Section Fast.
  Variable cfg : config.
  Variable M : matcher.
  Hypothesis Hbin : c_binary cfg = BNone.
  Variable s : bytes.
  Variable A base : nat.        (* the buffer is a window of a stream: see Proofs/SlowPathProofs.v *)
  Variable bflag : bool.
  Notation ltb := (lt_byte (c_lt cfg)).
  Notation K := (fun _ : nat => Continue).
  Notation gstep := (g_step cfg (m_is_match M)).

  Definition pmatch (l : bytes) : bool := m_is_match M (without_terminator (c_lt cfg) l).

  (* p is a line start: the beginning of the buffer or right after a terminator *)
  Definition bnd (p : nat) : Prop := p = 0 \/ nth_error s (p - 1) = Some ltb.

  Lemma bnd_next q l : next_line cfg s q l -> terminated ltb l -> bnd (q + length l).
  Proof.
    intros (Hsub & Hb & _) (body & -> & Hbody). right.
    assert (Hn : nth_error (sub s q (q + length (body ++ [ltb]))) (length body) = Some ltb).
    { rewrite Hsub. rewrite nth_error_app2 by lia. replace (length body - length body) with 0 by lia. reflexivity. }
    rewrite nth_error_sub in Hn by (rewrite app_length; cbn; lia). rewrite <- Hn. f_equal. rewrite app_length. cbn. lia.
  Qed.

  Lemma bnd_seq : forall pre p, lines_seq cfg s pre p -> Forall (terminated ltb) pre -> pre <> [] ->
    bnd (p + length (concat pre)).
  Proof.
    induction pre as [|x r IH]; intros p Hs Ht Hne; [congruence|].
    destruct Hs as (Hnl & _ & Hr). inversion Ht as [|? ? Hx Hr']; subst.
    cbn [concat]. rewrite app_length, Nat.add_assoc.
    destruct r as [|y r'].
    - cbn [concat length]. rewrite Nat.add_0_r. apply bnd_next; assumption.
    - apply IH; [exact Hr|exact Hr'|discriminate].
  Qed.

  (* the contract of find_by_line_fast on a buffer of whole lines, searched from a line start *)
  Definition find_spec : Prop :=
    forall c ls p, pos c = p -> lines_at cfg s ls p -> bnd p ->
      match find_by_line_fast cfg M c s with
      | None => False
      | Some None => Forall (fun l => pmatch l = false) ls
      | Some (Some (q, e)) =>
        exists pre l post, ls = pre ++ l :: post /\ Forall (fun l => pmatch l = false) pre /\ pmatch l = true /\
                           q = p + length (concat pre) /\ e = q + length l
      end.

  Lemma lines_at_split : forall pre l post p, lines_at cfg s (pre ++ l :: post) p ->
    lines_seq cfg s pre p /\ Forall (terminated ltb) pre /\ next_line cfg s (p + length (concat pre)) l /\
    (post <> [] -> terminated ltb l) /\ lines_at cfg s post (p + length (concat pre) + length l).
  Proof.
    induction pre as [|x r IH]; intros l post p H.
    - cbn [app concat length] in *. rewrite Nat.add_0_r. destruct H as (H1 & H2 & H3).
      split; [exact I|]. split; [constructor|]. split; [exact H1|]. split; [exact H2|exact H3].
    - cbn [app] in H. destruct H as (H1 & H2 & H3).
      assert (Ht : terminated ltb x) by (apply H2; destruct r; discriminate).
      destruct (IH l post (p + length x) H3) as (I1 & I2 & I3 & I4 & I5).
      cbn [concat]. rewrite app_length, Nat.add_assoc.
      split; [split; [exact H1|split; [intros _; exact Ht|exact I1]]|].
      split; [constructor; assumption|]. split; [exact I3|]. split; [exact I4|exact I5].
  Qed.

  Lemma lines_at_total : forall ls p, lines_at cfg s ls p -> p + length (concat ls) = length s.
  Proof.
    induction ls as [|l r IH]; intros p H; cbn [lines_at concat length] in *; [lia|].
    destruct H as (_ & _ & H). rewrite app_length. specialize (IH _ H). lia.
  Qed.

  Lemma lines_at_seq : forall ls p, lines_at cfg s ls p -> lines_seq cfg s ls p.
  Proof.
    induction ls as [|l r IH]; intros p H; [exact I|].
    destruct H as (H1 & H2 & H3). split; [exact H1|]. split; [exact H2|]. apply IH. exact H3.
  Qed.

  Lemma set_has_matched_id c : has_matched c = true -> set_has_matched c = c.
  Proof. destruct c; cbn. intros ->. reflexivity. Qed.

  Lemma lines_count : forall ls p, lines_at cfg s ls p -> length ls <= length s - p.
  Proof.
    induction ls as [|l r IH]; intros p H; [cbn; lia|].
    destruct H as ((Hsub & Hb & Hshape) & _ & Hr). specialize (IH _ Hr).
    assert (1 <= length l).
    { destruct Hshape as [Ht|[[Hne _] _]]; [now apply (terminated_length ltb)|destruct l; [congruence|cbn; lia]]. }
    cbn [length]. lia.
  Qed.

  Hypothesis Hfind : find_spec.
  Hypothesis Hnoinv : c_invert cfg = false.
  Hypothesis Hnopt : c_passthru cfg = false.

  Notation kslow := (fun c => match_by_line_slow cfg M K bflag c s).

  Lemma nonsuccess_of_pmatch l : pmatch l = false -> nonsuccess cfg M l.
  Proof. unfold nonsuccess, pmatch. intros ->. rewrite Hnoinv. reflexivity. Qed.

  Lemma fold_app {X Y} (f : X -> Y -> X) l1 l2 a : fold_left f (l1 ++ l2) a = fold_left f l2 (fold_left f l1 a).
  Proof. apply fold_left_app. Qed.

  (* no after-context is owed over an empty range *)
  Lemma after_ctx_empty c g p : R0 cfg s A base c g -> g_off g = A + p ->
    after_context_by_line cfg K bflag c s p = OK true c.
  Proof.
    intros HR Hoff. pose proof HR as [Rabs Rbin Rlog Rafter Rsunk Rlaid Rllv Rllc Rln Rlnum Rap Rale].
    unfold after_context_by_line.
    destruct (Nat.eqb_spec (after_context_left c) 0) as [E0|E0]; [reflexivity|].
    assert (Hllv : last_line_visited c = p).
    { assert (1 <= g_after g) by lia. rewrite (Rap H) in Rllv. cbn in Rllv. lia. }
    cbn [after_loop]. unfold ltb_. rewrite line_step_end by lia. reflexivity.
  Qed.

  (* the scan position is at the end of the buffer: nothing happens *)
  Lemma at_end_post c g : R cfg s A base c g -> g_off g = A + length s -> g_stopped g = false ->
    mbl_post cfg s A base [] true (set_pos c (length s)) g.
  Proof.
    intros HR Hoff Hns. pose proof (R_tailok cfg s A base c g HR) as Htl.
    destruct HR as (Rpos & Rmatched & HR0).
    pose proof HR0 as [Rabs Rbin Rlog Rafter Rsunk Rlaid Rllv Rllc Rln Rlnum Rap Rale].
    unfold mbl_post, Rfin. cbn [pos log bin_off set_pos].
    split; [auto|]. split.
    { intros _. split; [exact Hoff|]. split; [exact Hns|]. unfold tailok in *.
      cbn [after_context_left last_line_visited pos set_pos]. assert (pos c = length s) by lia.
      destruct Htl as (Hl1 & Hl2). split; [lia|]. destruct Hl2; [left; assumption|right; congruence]. }
    split; [discriminate|]. intros _ _. split; [cbn [pos set_pos]; lia|]. split; [exact Rmatched|].
    apply R0_set_pos. exact HR0.
  Qed.

  (* the fast loop over all the remaining lines *)
  Lemma fast_lines : forall fuel ls c g p,
    lines_at cfg s ls p -> (ls <> [] -> bnd p) -> R cfg s A base c g -> g_off g = A + p -> g_stopped g = false ->
    length ls < fuel ->
    let gf := fold_left gstep ls g in
    exists b c', fast_then cfg M bflag K kslow fuel c s = OK b c' /\ mbl_post cfg s A base ls b c' gf.
  Proof.
    induction fuel as [|f IH]; intros ls c g p Hat Hbnd HR Hoff Hns Hf gf; [lia|].
    pose proof HR as (Rpos & Rmatched & HR0).
    assert (Hpc : pos c = p) by lia.
    pose proof (lines_at_total ls p Hat) as Htot.
    pose proof (lines_count ls p Hat) as Hcnt.
    cbn [fast_then].
    (* finishing: the after-context still owed, then pos := len *)
    assert (Hfinish : Forall (fun l => pmatch l = false) ls ->
              c_stop_on_nonmatch cfg && g_matched g = false ->
              exists c', andthen (after_context_by_line cfg K bflag c s (length s))
                                 (fun c0 => OK true (set_pos c0 (length s))) = OK true c' /\
                         mbl_post cfg s A base ls true c' gf).
    { intros Hall Hstop.
      destruct (nonmatch_run cfg M Hbin s A base bflag ls c g p HR0 Hoff Hns Hnopt Hstop (lines_at_seq ls p Hat))
        as (c1 & Hrun & [P1 P2 P3 P4 P5 P5t P6 P7 P8]).
      { eapply Forall_impl; [|exact Hall]. intros l. apply nonsuccess_of_pmatch. }
      rewrite Htot in Hrun, P5, P5t. rewrite Hrun. cbn [andthen].
      exists (set_pos c1 (length s)). split; [reflexivity|].
      fold gf in P3, P5, P6, P7, P8.
      unfold mbl_post. split. { unfold Rfin. cbn [pos log bin_off set_pos]. rewrite P5. auto. }
      split. { intros _. split; [exact P5|]. split; [exact P6|]. unfold tailok.
               cbn [after_context_left last_line_visited pos set_pos]. exact P5t. }
      split; [discriminate|].
      intros _ Hterm. split; [cbn [pos set_pos]; rewrite P5; reflexivity|].
      split; [cbn [has_matched set_pos]; congruence|]. apply R0_set_pos. exact (P8 Hterm). }
    destruct (Nat.leb_spec (length s) (pos c)) as [Hend|Hmore].
    { (* nothing left *)
      assert (ls = []) by (destruct ls; [reflexivity|cbn in Hcnt; lia]). subst ls.
      cbn [concat length] in Htot. assert (Hp : p = length s) by lia.
      rewrite (after_ctx_empty c g (length s) HR0) by lia. cbn [andthen].
      exists true, (set_pos c (length s)). split; [reflexivity|]. unfold gf. cbn [fold_left].
      apply at_end_post; [exact HR|lia|exact Hns]. }
    destruct (c_stop_on_nonmatch cfg && has_matched c) eqn:Estop.
    { (* switch to the slow path *)
      unfold match_by_line_slow. rewrite Hpc.
      apply (slow_loop_lines cfg M Hbin s A base bflag ls c g p (S (length s))); auto. lia. }
    rewrite Hnoinv.
    assert (Hstopg : c_stop_on_nonmatch cfg && g_matched g = false) by (rewrite <- Rmatched; exact Estop).
    assert (Hlsne : ls <> []) by (intro E; subst ls; cbn in Htot; lia).
    pose proof (Hfind c ls p Hpc Hat (Hbnd Hlsne)) as Hf'.
    destruct (find_by_line_fast cfg M c s) as [[[q e]|]|]; [| |contradiction].
    2:{ destruct (Hfinish Hf' Hstopg) as (c' & Hrun & Hpost).
        exists true, c'. auto. }
    destruct Hf' as (pre & l & post & Hls & Hpre & Hl & Hq & He).
    subst ls.
    destruct (lines_at_split pre l post p Hat) as (Hseq & Hterm & Hnl & Hlterm & Hpost).
    rewrite <- Hq in Hnl, Hpost.
    (* the lines before the match *)
    set (c1 := set_has_matched c).
    assert (HR1 : R0 cfg s A base c1 g) by (apply R0_set_has_matched; exact HR0).
    destruct (nonmatch_run cfg M Hbin s A base bflag pre c1 g p HR1 Hoff Hns Hnopt Hstopg Hseq)
      as (c2 & Hrun2 & [P1 P2 P3 P4 P5 P5t P6 P7 P8]).
    { eapply Forall_impl; [|exact Hpre]. intros x. apply nonsuccess_of_pmatch. }
    rewrite <- Hq in Hrun2, P5.
    set (gk := fold_left gstep pre g) in *.
    pose proof (P8 Hterm) as HR2.
    (* the match *)
    destruct (matched_step cfg Hbin s A base bflag c2 gk q l HR2 P5 P6 Hnl) as (c3 & Hrun3 & H3bin & Hc4).
    cbn zeta in Hc4. destruct Hc4 as (Hp4 & Hlog4 & Hbin4 & Hm4 & Hllv4 & HR4).
    assert (Hc2m : set_has_matched c2 = c2) by (apply set_has_matched_id; rewrite P2; reflexivity).
    rewrite Hc2m in Hrun3.
    set (c4 := CoreSinkProofs.post_matched cfg c3 s q (q + length l)) in *.
    assert (Hgl : gstep gk l = g_step_s cfg gk l true).
    { unfold g_step. fold (pmatch l). rewrite Hl, Hnoinv. reflexivity. }
    assert (Hgf : gf = fold_left gstep post (g_step_s cfg gk l true)).
    { unfold gf. rewrite fold_app. cbn [fold_left]. fold gk. now rewrite Hgl. }
    set (g' := g_step_s cfg gk l true) in *.
    assert (Hst' : g_stopped g' = false) by (unfold g', g_step_s; rewrite P6; reflexivity).
    assert (Hoff' : g_off g' = A + (q + length l)) by (unfold g', g_step_s; rewrite P6, P5; cbn [g_off]; lia).
    assert (Hgm' : g_matched g' = true) by (unfold g', g_step_s; rewrite P6; reflexivity).
    (* what the code does with the match *)
    assert (Hkk : andthen (sink_matched cfg K bflag (set_pos c3 e) s q e)
                          (fun c0 => fast_then cfg M bflag K kslow f c0 s)
                  = fast_then cfg M bflag K kslow f (set_pos c4 e) s).
    { rewrite (sink_matched_K cfg Hbin) by exact H3bin. cbn [andthen]. subst e.
      unfold c4. now rewrite post_matched_set_pos. }
    assert (Hstep : (if Nat.ltb 0 (max_context cfg)
                     then andthen (after_context_by_line cfg K bflag c1 s q)
                            (fun c0 => andthen (before_context_by_line cfg K bflag c0 s q)
                               (fun c5 => andthen (sink_matched cfg K bflag (set_pos c5 e) s q e)
                                            (fun c6 => fast_then cfg M bflag K kslow f c6 s)))
                     else andthen (sink_matched cfg K bflag (set_pos c1 e) s q e)
                            (fun c6 => fast_then cfg M bflag K kslow f c6 s))
                    = fast_then cfg M bflag K kslow f (set_pos c4 e) s).
    { destruct (Nat.ltb_spec 0 (max_context cfg)) as [Hmc|Hmc].
      - rewrite Hrun2. cbn [andthen]. rewrite Hrun3. cbn [andthen]. exact Hkk.
      - (* no context configured: both calls would have been no-ops *)
        assert (Ha0 : c_after cfg = 0 /\ c_before cfg = 0) by (unfold max_context in Hmc; lia).
        destruct Ha0 as [Ha0 Hb0].
        pose proof HR1 as [Rabs Rbin Rlog Rafter Rsunk Rlaid Rllv Rllc Rln Rlnum Rap Rale].
        assert (Hacl : after_context_left c1 = 0) by lia.
        assert (Hc21 : c2 = c1).
        { unfold after_context_by_line in Hrun2. rewrite Hacl in Hrun2. cbn in Hrun2. congruence. }
        assert (Hc32 : c3 = c2).
        { unfold before_context_by_line in Hrun3. rewrite Hb0 in Hrun3. cbn in Hrun3. congruence. }
        rewrite <- Hc21, <- Hc32. exact Hkk. }
    cbn zeta. fold c1. rewrite Hstep.
    (* continue with the lines after the match *)
    destruct post as [|l2 post2].
    - (* that was the last line *)
      cbn [lines_at] in Hpost. cbn [fold_left] in Hgf.
      destruct f as [|f']; [rewrite app_length in Hf; cbn in Hf; lia|].
      cbn [fast_then]. cbn [pos set_pos].
      destruct (Nat.leb_spec (length s) e) as [_|Hlt]; [|lia].
      assert (Hend : after_context_by_line cfg K bflag (set_pos c4 e) s (length s) = OK true (set_pos c4 e)).
      { unfold after_context_by_line. destruct (Nat.eqb (after_context_left (set_pos c4 e)) 0); [reflexivity|].
        cbn [after_loop last_line_visited set_pos]. unfold ltb_. rewrite line_step_end by lia. reflexivity. }
      rewrite Hend. cbn [andthen].
      exists true, (set_pos (set_pos c4 e) (length s)). split; [reflexivity|]. rewrite Hgf.
      unfold mbl_post. split. { unfold Rfin. cbn [pos log bin_off set_pos]. rewrite Hoff'. split; [lia|auto]. }
      split. { intros _. split; [rewrite Hoff'; lia|]. split; [exact Hst'|].
               unfold tailok. cbn [last_line_visited pos set_pos]. split; [lia|right; lia]. }
      split; [discriminate|].
      intros _ Hall. apply Forall_app in Hall as [_ Hall]. inversion Hall as [|? ? Htl _]; subst.
      split; [cbn [pos set_pos]; rewrite Hoff'; lia|]. split; [cbn [has_matched set_pos]; congruence|].
      apply R0_set_pos, R0_set_pos. exact (HR4 Htl).
    - assert (HR' : R cfg s A base (set_pos c4 e) g').
      { split; [cbn [pos set_pos]; rewrite Hoff'; now subst e|]. split; [cbn; rewrite Hgm'; exact Hm4|].
        apply R0_set_pos. apply HR4. apply Hlterm. discriminate. }
      rewrite Hgf.
      destruct (IH (l2 :: post2) (set_pos c4 e) g' e) as (b & c'' & Hrun' & Hpost'); auto.
      + now subst e.
      + intros _. subst e. apply bnd_next; [exact Hnl|apply Hlterm; discriminate].
      + subst e. exact Hoff'.
      + rewrite app_length in Hf. cbn in Hf |- *. lia.
      + exists b, c''. split; [exact Hrun'|].
        eapply mbl_post_weaken; [|exact Hpost'].
        intro Hall. apply Forall_app in Hall as [_ Hall]. inversion Hall; assumption.
  Qed.
End Fast.

(* ---------------------------------------------------------------------------------------------
   The inverted fast path.  It is lazier than the reference: a line the pattern matches (a
   non-result under inversion) is stepped over without emitting the after-context it may be owed;
   that context is emitted at the next call of after_context_by_line.  The loop invariant
   therefore carries a list [lag] of such lines between the reference state and the position. *)
Section FastInv.
  Variable cfg : config.
  Variable M : matcher.
  Hypothesis Hbin : c_binary cfg = BNone.
  Variable s : bytes.
  Variable A base : nat.
  Variable bflag : bool.
  Notation ltb := (lt_byte (c_lt cfg)).
  Notation K := (fun _ : nat => Continue).
  Notation gstep := (g_step cfg (m_is_match M)).
  Hypothesis Hfind : find_spec cfg M s.
  Hypothesis Hinv : c_invert cfg = true.
  Hypothesis Hnopt : c_passthru cfg = false.
  Notation kslow := (fun c => match_by_line_slow cfg M K bflag c s).
  Notation pm := (pmatch cfg M).

  Lemma nonsuccess_of_pmatch_inv l : pm l = true -> nonsuccess cfg M l.
  Proof. unfold nonsuccess, pmatch. intros ->. rewrite Hinv. reflexivity. Qed.

  Lemma gstep_success l g : pm l = false -> gstep g l = g_step_s cfg g l true.
  Proof. intro H. unfold g_step. fold (pm l). rewrite H, Hinv. reflexivity. Qed.

  Lemma lines_at_app : forall a b p, lines_at cfg s (a ++ b) p ->
    lines_seq cfg s a p /\ (b <> [] -> Forall (terminated ltb) a) /\ lines_at cfg s b (p + length (concat a)).
  Proof.
    induction a as [|x r IH]; intros b p H.
    - cbn [app concat length] in *. rewrite Nat.add_0_r. split; [exact I|]. split; [constructor|exact H].
    - cbn [app] in H. destruct H as (H1 & H2 & H3).
      destruct (IH b (p + length x) H3) as (I1 & I2 & I3).
      cbn [concat]. rewrite app_length, Nat.add_assoc.
      split; [split; [exact H1|split; [|exact I1]]|split; [|exact I3]].
      + intro Hr. apply H2. destruct r; [congruence|discriminate].
      + intro Hb. constructor; [|exact (I2 Hb)]. apply H2. destruct r; [exact Hb|discriminate].
  Qed.

  Lemma before_noop c g p : R0 cfg s A base c g -> g_pend g = [] -> g_off g = A + p ->
    before_context_by_line cfg K bflag c s p = OK true c.
  Proof.
    intros HR Hp Hoff. destruct HR as [Rabs Rbin Rlog Rafter Rsunk Rlaid Rllv Rllc Rln Rlnum Rap Rale].
    rewrite Hp in Rllv. cbn in Rllv.
    unfold before_context_by_line. destruct (Nat.eqb (c_before cfg) 0); [reflexivity|].
    destruct (Nat.leb_spec p (last_line_visited c)); [reflexivity|lia].
  Qed.

  Record mrun_post (c c' : core) (gk : gstate) (q : nat) (xs : list bytes) : Prop := {
    mp_pos : pos c' = pos c;
    mp_matched : has_matched c' = true;
    mp_log : log c' = g_out gk ++ [EBegin];
    mp_bin : bin_off c' = None;
    mp_off : g_off gk = A + q;
    mp_ns : g_stopped gk = false;
    mp_gm : xs <> [] -> g_matched gk = true;
    mp_pend : xs <> [] -> g_pend gk = [];
    mp_llv : xs <> [] -> last_line_visited c' = q;
    mp_R0 : Forall (terminated ltb) xs -> R0 cfg s A base c' gk;
  }.

  (* a run of result lines, delivered one by one (before-context already handled) *)
  Lemma matched_loop_run : forall xs fuel c g p,
    R0 cfg s A base c g -> g_off g = A + p -> g_stopped g = false -> has_matched c = true -> g_pend g = [] ->
    lines_seq cfg s xs p -> Forall (fun l => pm l = false) xs -> length xs < fuel ->
    exists c', matched_loop cfg K bflag fuel c s p (p + length (concat xs)) = OK true c' /\
               mrun_post c c' (fold_left gstep xs g) (p + length (concat xs)) xs.
  Proof.
    induction xs as [|x r IH]; intros fuel c g p HR Hoff Hns Hm Hpend Hseq Hall Hf.
    - destruct fuel as [|f]; [cbn in Hf; lia|]. cbn [matched_loop concat length fold_left].
      rewrite Nat.add_0_r. unfold ltb_. rewrite line_step_end by lia.
      exists c. split; [reflexivity|]. pose proof HR as []. constructor; auto; congruence.
    - destruct fuel as [|f]; [cbn in Hf; lia|].
      destruct Hseq as (Hnl & Hterm & Hrest). inversion Hall as [|? ? Hx Hr].
      pose proof (lines_seq_bound cfg s (x :: r) p (conj Hnl (conj Hterm Hrest)) ltac:(discriminate)) as Hbound.
      cbn [matched_loop concat fold_left] in *. rewrite app_length in *. rewrite Nat.add_assoc.
      unfold ltb_. rewrite (line_step_seq cfg s p x) by (auto; lia).
      destruct (matched_step cfg Hbin s A base bflag c g p x HR Hoff Hns Hnl) as (c2 & Hrun & H2bin & Hc3).
      rewrite (set_has_matched_id c Hm) in Hrun.
      rewrite (before_noop c g p HR Hpend Hoff) in Hrun. injection Hrun as <-.
      cbn zeta in Hc3. destruct Hc3 as (Hp3 & Hlog3 & Hbin3 & Hm3 & Hllv3 & HR3).
      rewrite (sink_matched_K cfg Hbin) by exact H2bin. cbn [andthen].
      rewrite (gstep_success x g Hx).
      set (c3 := CoreSinkProofs.post_matched cfg c s p (p + length x)) in *.
      set (g' := g_step_s cfg g x true) in *.
      assert (Hst' : g_stopped g' = false) by (unfold g', g_step_s; rewrite Hns; reflexivity).
      assert (Hoff' : g_off g' = A + (p + length x)) by (unfold g', g_step_s; rewrite Hns, Hoff; cbn [g_off]; lia).
      assert (Hgm' : g_matched g' = true) by (unfold g', g_step_s; rewrite Hns; reflexivity).
      assert (Hgp' : g_pend g' = []) by (unfold g', g_step_s; rewrite Hns; reflexivity).
      destruct r as [|x2 r2].
      + cbn [fold_left concat length]. rewrite Nat.add_0_r.
        destruct f as [|f']; [cbn in Hf; lia|]. cbn [matched_loop]. unfold ltb_. rewrite line_step_end by lia.
        exists c3. split; [reflexivity|].
        constructor; auto. intro Hall'. inversion Hall'. auto.
      + assert (Ht : terminated ltb x) by (apply Hterm; discriminate).
        destruct (IH f c3 g' (p + length x) (HR3 Ht) Hoff' Hst' Hm3 Hgp' Hrest Hr ltac:(cbn in Hf |- *; lia))
          as (c' & Hrun' & [Q1 Q2 Q3 Q4 Q5 Q6 Q7 Q8 Q9 Q10]).
        exists c'. split; [exact Hrun'|].
        constructor; auto; try congruence.
        * intros _. apply Q7. discriminate.
        * intros _. apply Q8. discriminate.
        * intros _. apply Q9. discriminate.
        * intro Hall'. inversion Hall'. auto.
  Qed.

  Notation after_ctx_empty := (after_ctx_empty cfg s A base bflag).

  (* one non-empty range of result lines: catch up on the lagging lines, before-context, the lines *)
  Lemma invert_range xs c g0 lag p0 p :
    R0 cfg s A base c g0 -> g_off g0 = A + p0 -> g_stopped g0 = false -> c_stop_on_nonmatch cfg && g_matched g0 = false ->
    has_matched c = true ->
    lines_seq cfg s lag p0 -> Forall (terminated ltb) lag -> Forall (fun l => pm l = true) lag ->
    p = p0 + length (concat lag) ->
    xs <> [] -> lines_seq cfg s xs p -> Forall (fun l => pm l = false) xs ->
    exists c',
      andthen (after_context_by_line cfg K bflag c s p) (fun c =>
      andthen (before_context_by_line cfg K bflag c s p) (fun c =>
      matched_loop cfg K bflag (S (length s)) c s p (p + length (concat xs)))) = OK true c' /\
      mrun_post c c' (fold_left gstep xs (fold_left gstep lag g0)) (p + length (concat xs)) xs.
  Proof.
    intros HR Hoff0 Hns Hstop Hm Hlag Hlagt Hlagp Hp Hne Hseq Hall.
    destruct (nonmatch_run cfg M Hbin s A base bflag lag c g0 p0 HR Hoff0 Hns Hnopt Hstop Hlag)
      as (c2 & Hrun2 & [P1 P2 P3 P4 P5 P5t P6 P7 P8]).
    { eapply Forall_impl; [|exact Hlagp]. intro l. apply nonsuccess_of_pmatch_inv. }
    rewrite <- Hp in Hrun2, P5. rewrite Hrun2. cbn [andthen].
    set (gk := fold_left gstep lag g0) in *.
    pose proof (P8 Hlagt) as HR2.
    destruct xs as [|x r]; [congruence|].
    destruct Hseq as (Hnl & Hterm & Hrest). inversion Hall as [|? ? Hx Hr].
    pose proof (lines_seq_bound cfg s (x :: r) p (conj Hnl (conj Hterm Hrest)) ltac:(discriminate)) as Hbound.
    assert (Hm2 : has_matched c2 = true) by congruence.
    destruct (matched_step cfg Hbin s A base bflag c2 gk p x HR2 P5 P6 Hnl) as (c3 & Hrun3 & H3bin & Hc4).
    rewrite (set_has_matched_id c2 Hm2) in Hrun3. rewrite Hrun3. cbn [andthen].
    cbn zeta in Hc4. destruct Hc4 as (Hp4 & Hlog4 & Hbin4 & Hm4 & Hllv4 & HR4).
    cbn [matched_loop concat fold_left] in *. rewrite app_length in *. rewrite Nat.add_assoc.
    unfold ltb_. rewrite (line_step_seq cfg s p x) by (auto; lia).
    rewrite (sink_matched_K cfg Hbin) by exact H3bin. cbn [andthen].
    rewrite (gstep_success x gk Hx).
    set (c4 := CoreSinkProofs.post_matched cfg c3 s p (p + length x)) in *.
    set (g' := g_step_s cfg gk x true) in *.
    assert (Hst' : g_stopped g' = false) by (unfold g', g_step_s; rewrite P6; reflexivity).
    assert (Hoff' : g_off g' = A + (p + length x)) by (unfold g', g_step_s; rewrite P6, P5; cbn [g_off]; lia).
    assert (Hgm' : g_matched g' = true) by (unfold g', g_step_s; rewrite P6; reflexivity).
    assert (Hgp' : g_pend g' = []) by (unfold g', g_step_s; rewrite P6; reflexivity).
    assert (Hpos4 : pos c4 = pos c) by congruence.
    destruct r as [|x2 r2].
    - cbn [fold_left concat length]. rewrite Nat.add_0_r.
      assert (Hs1 : 1 <= length s).
      { destruct Hnl as (_ & Hb & [Ht|[[Hne' _] _]]);
          [apply (terminated_length ltb) in Ht; lia|destruct x; [congruence|cbn in Hb; lia]]. }
      destruct (length s) as [|n] eqn:En; [lia|]. cbn [matched_loop]. unfold ltb_. rewrite line_step_end by lia.
      exists c4. split; [reflexivity|].
      constructor; auto. intro Hall'. inversion Hall'. auto.
    - assert (Ht : terminated ltb x) by (apply Hterm; discriminate).
      assert (Hfuel : length (x2 :: r2) < length s).
      { pose proof (lines_seq_bound cfg s (x2 :: r2) (p + length x) Hrest ltac:(discriminate)).
        assert (length (x2 :: r2) <= length (concat (x2 :: r2))).
        { clear -Hrest. revert Hrest. generalize (p + length x) as q. generalize (x2 :: r2) as ls.
          induction ls as [|y ys IH]; intros q H; [cbn; lia|].
          destruct H as ((Hsub & Hb & Hshape) & _ & Hr). cbn [concat length]. rewrite app_length.
          specialize (IH _ Hr).
          assert (1 <= length y).
          { destruct Hshape as [Ht|[[Hne _] _]]; [now apply (terminated_length ltb)|destruct y; [congruence|cbn; lia]]. }
          lia. }
        pose proof (terminated_length ltb x Ht). lia. }
      destruct (matched_loop_run (x2 :: r2) (length s) c4 g' (p + length x) (HR4 Ht) Hoff' Hst' Hm4 Hgp' Hrest Hr Hfuel)
        as (c' & Hrun' & [Q1 Q2 Q3 Q4 Q5 Q6 Q7 Q8 Q9 Q10]).
      exists c'. split; [exact Hrun'|].
      constructor; auto; try congruence.
      + intros _. apply Q7. discriminate.
      + intros _. apply Q8. discriminate.
      + intros _. apply Q9. discriminate.
      + intro Hall'. inversion Hall'. auto.
  Qed.

  Lemma fold_app' {X Y} (f : X -> Y -> X) l1 l2 a : fold_left f (l1 ++ l2) a = fold_left f l2 (fold_left f l1 a).
  Proof. apply fold_left_app. Qed.

  (* the inverted fast loop over all the remaining lines, with lagging lines behind the position *)
  Lemma inv_lines : forall fuel ls c g0 lag p0,
    R0 cfg s A base c g0 -> has_matched c = g_matched g0 -> g_stopped g0 = false -> g_off g0 = A + p0 ->
    lines_at cfg s (lag ++ ls) p0 -> Forall (fun l => pm l = true) lag ->
    pos c = p0 + length (concat lag) -> (ls <> [] -> bnd cfg s (pos c)) ->
    (c_stop_on_nonmatch cfg && g_matched g0 = true -> lag = []) ->
    length ls < fuel ->
    let gf := fold_left gstep ls (fold_left gstep lag g0) in
    exists b c', fast_then cfg M bflag K kslow fuel c s = OK b c' /\ mbl_post cfg s A base (lag ++ ls) b c' gf.
  Proof.
    induction fuel as [|f IH]; intros ls c g0 lag p0 HR0 Rmatched Hns Hoff0 Hat Hlagp Hpos Hbnd Hstoplag Hf gf; [lia|].
    destruct (lines_at_app lag ls p0 Hat) as (Hlagseq & Hlagterm & Hatls).
    rewrite <- Hpos in Hatls.
    remember (pos c) as p eqn:Ep.
    pose proof (lines_at_total cfg s ls p Hatls) as Htot.
    pose proof (lines_count cfg s ls p Hatls) as Hcnt.
    set (gk := fold_left gstep lag g0) in *.
    cbn [fast_then]. rewrite <- ?Ep.
    assert (Hnonlag : Forall (nonsuccess cfg M) lag).
    { eapply Forall_impl; [|exact Hlagp]. intro l. apply nonsuccess_of_pmatch_inv. }
    (* catching up at the very end *)
    assert (Hfinish : ls = [] ->
              exists c', andthen (after_context_by_line cfg K bflag c s (length s))
                                 (fun c0 => OK true (set_pos c0 (length s))) = OK true c' /\
                         mbl_post cfg s A base (lag ++ ls) true c' gf).
    { intros ->. unfold gf. cbn [fold_left]. cbn [concat length] in Htot. rewrite Nat.add_0_r in Htot.
      rewrite app_nil_r.
      destruct (c_stop_on_nonmatch cfg && g_matched g0) eqn:Est.
      - pose proof (Hstoplag eq_refl) as Hl0. subst lag. cbn [concat length] in Hpos.
        rewrite (after_ctx_empty c g0 (length s) HR0) by lia. cbn [andthen].
        exists (set_pos c (length s)). split; [reflexivity|].
        unfold gk. cbn [fold_left].
        apply (at_end_post cfg s A base); [|lia|exact Hns].
        split; [lia|]. split; [exact Rmatched|exact HR0].
      - destruct (nonmatch_run cfg M Hbin s A base bflag lag c g0 p0 HR0 Hoff0 Hns Hnopt Est Hlagseq Hnonlag)
          as (c1 & Hrun & [P1 P2 P3 P4 P5 P5t P6 P7 P8]).
        rewrite <- Hpos, Htot in Hrun, P5, P5t. rewrite Hrun. cbn [andthen].
        exists (set_pos c1 (length s)). split; [reflexivity|]. fold gk in P3, P5, P6, P7, P8.
        unfold mbl_post. split. { unfold Rfin. cbn [pos log bin_off set_pos]. rewrite P5. auto. }
        split. { intros _. split; [exact P5|]. split; [exact P6|]. unfold tailok.
                 cbn [after_context_left last_line_visited pos set_pos]. exact P5t. }
        split; [discriminate|].
        intros _ Hterm. split; [cbn [pos set_pos]; rewrite P5; reflexivity|].
        split; [cbn [has_matched set_pos]; congruence|]. apply R0_set_pos. exact (P8 Hterm). }
    destruct (Nat.leb_spec (length s) p) as [Hend|Hmore].
    { assert (ls = []) by (destruct ls; [reflexivity|cbn in Hcnt; lia]).
      destruct (Hfinish H) as (c' & Hrun & Hpost). exists true, c'. auto. }
    destruct (c_stop_on_nonmatch cfg && has_matched c) eqn:Estop.
    { (* switch to the slow path: no line lags *)
      rewrite Rmatched in Estop. pose proof (Hstoplag Estop) as Hl0. subst lag. cbn [concat length] in Hpos. cbn [app] in Hat |- *.
      unfold match_by_line_slow. rewrite <- Ep.
      assert (Hp0 : p = p0) by lia.
      unfold gf, gk. cbn [fold_left].
      apply (slow_loop_lines cfg M Hbin s A base bflag ls c g0 p (S (length s))); auto.
      - split; [rewrite <- Ep; lia|]. split; [rewrite Rmatched; reflexivity|exact HR0].
      - lia.
      - lia. }
    rewrite Hinv.
    assert (Hstopg : c_stop_on_nonmatch cfg && g_matched g0 = false) by (rewrite <- Rmatched; exact Estop).
    assert (Hlsne : ls <> []) by (intro E; subst ls; cbn in Htot; lia).
    pose proof (Hbnd Hlsne) as Hbp. rewrite <- ?Ep in Hbp.
    pose proof (Hfind c ls p (eq_sym Ep) Hatls Hbp) as Hf'.
    unfold match_by_line_fast_invert.
    destruct (find_by_line_fast cfg M c s) as [[[q e]|]|]; [| |contradiction].
    - (* a line the pattern matches was found *)
      destruct Hf' as (pre & l & post & Hls & Hpre & Hl & Hq & He). subst ls.
      destruct (lines_at_split cfg s pre l post p Hatls) as (Hseq & Hterm & Hnl & Hlterm & Hpost).
      rewrite <- Hq in Hnl, Hpost.
      assert (Hlagt : Forall (terminated ltb) lag) by (apply Hlagterm; destruct pre; discriminate).
      destruct pre as [|x r].
      + (* empty range: the line is stepped over and lags *)
        cbn [concat length] in Hq. rewrite Nat.add_0_r in Hq. subst q.
        rewrite <- Ep. rewrite Nat.leb_refl. cbn [negb]. rewrite andb_false_r. cbn [andthen app] in *.
        assert (Hgf : gf = fold_left gstep post (fold_left gstep (lag ++ [l]) g0)).
        { unfold gf. rewrite fold_app'. cbn [fold_left]. reflexivity. }
        rewrite Hgf.
        destruct (IH post (set_pos c e) g0 (lag ++ [l]) p0) as (b & c'' & Hrun' & Hpost'); auto.
        * apply R0_set_pos. exact HR0.
        * rewrite <- app_assoc. exact Hat.
        * apply Forall_app. split; [exact Hlagp|]. constructor; [exact Hl|constructor].
        * cbn [pos set_pos]. rewrite concat_app, app_length. cbn [concat length]. rewrite app_nil_r.
          lia.
        * intro Hpne. cbn [pos set_pos]. subst e. apply (bnd_next cfg s); [exact Hnl|apply Hlterm; exact Hpne].
        * intro H. rewrite H in Hstopg. discriminate.
        * cbn in Hf. lia.
        * exists b, c''. split; [exact Hrun'|]. rewrite <- app_assoc in Hpost'. exact Hpost'.
      + (* a non-empty range of result lines *)
        assert (Hqgt : p < q).
        { destruct Hseq as ((_ & _ & Hshape) & _ & _). subst q. cbn [concat]. rewrite app_length.
          destruct Hshape as [Ht|[[Hne _] _]]; [apply (terminated_length ltb) in Ht; lia|destruct x; [congruence|cbn; lia]]. }
        rewrite <- Ep. destruct (Nat.leb_spec q p) as [|_]; [lia|]. cbn [negb]. rewrite andb_true_r.
        set (c1 := if c_stop_on_nonmatch cfg then set_pos c q else set_pos c e).
        destruct (Nat.leb_spec q p) as [|_]; [lia|].
        assert (HR1 : R0 cfg s A base (set_has_matched c1) g0).
        { apply R0_set_has_matched. unfold c1. destruct (c_stop_on_nonmatch cfg); apply R0_set_pos; exact HR0. }
        destruct (invert_range (x :: r) (set_has_matched c1) g0 lag p0 p HR1 Hoff0 Hns Hstopg eq_refl Hlagseq Hlagt Hlagp
                    ltac:(lia) ltac:(discriminate) Hseq Hpre)
          as (c' & Hrun & [Q1 Q2 Q3 Q4 Q5 Q6 Q7 Q8 Q9 Q10]).
        rewrite <- Hq in Hrun, Q5, Q9. rewrite Hrun. cbn [andthen].
        set (gn := fold_left gstep (x :: r) gk) in *.
        pose proof (Q10 Hterm) as HRn.
        assert (Q5' : g_off gn = A + q) by exact Q5.
        assert (Hgf : gf = fold_left gstep (l :: post) gn).
        { unfold gf, gn. rewrite fold_app'. reflexivity. }
        destruct (c_stop_on_nonmatch cfg) eqn:Ecs.
        * (* the search must stop at l: it is left to the slow path *)
          rewrite Hgf.
          destruct (IH (l :: post) c' gn [] q) as (b & c'' & Hrun' & Hpost'); auto.
          -- rewrite Q2. symmetry. apply Q7. discriminate.
          -- cbn [app]. split; [exact Hnl|]. split; [exact Hlterm|exact Hpost].
          -- cbn [concat length]. rewrite Q1. unfold c1. rewrite ?Ecs. cbn [pos set_has_matched set_pos]. lia.
          -- intros _. rewrite Q1. unfold c1. rewrite ?Ecs. cbn [pos set_has_matched set_pos]. rewrite Hq.
             apply (bnd_seq cfg s); [exact Hseq|exact Hterm|discriminate].
          -- rewrite app_length in Hf. cbn in Hf |- *. lia.
          -- exists b, c''. split; [exact Hrun'|].
             eapply mbl_post_weaken; [|exact Hpost'].
             intro Hall. apply Forall_app in Hall as [_ Hall]. apply Forall_app in Hall as [_ Hall]. exact Hall.
        * assert (Hgf2 : gf = fold_left gstep post (fold_left gstep [l] gn)).
          { rewrite Hgf. reflexivity. }
          rewrite Hgf2.
          destruct (IH post c' gn [l] q) as (b & c'' & Hrun' & Hpost'); auto.
          -- rewrite Q2. symmetry. apply Q7. discriminate.
          -- cbn [app]. split; [exact Hnl|]. split; [exact Hlterm|exact Hpost].
          -- cbn [concat length]. rewrite app_nil_r. rewrite Q1. unfold c1. rewrite ?Ecs. cbn [pos set_has_matched set_pos]. lia.
          -- intro Hpne. rewrite Q1. unfold c1. rewrite ?Ecs. cbn [pos set_has_matched set_pos]. subst e.
             apply (bnd_next cfg s); [exact Hnl|apply Hlterm; exact Hpne].
          -- cbn [andb]. discriminate.
          -- rewrite app_length in Hf. cbn in Hf |- *. lia.
          -- exists b, c''. split; [exact Hrun'|].
             eapply mbl_post_weaken; [|exact Hpost'].
             intro Hall. apply Forall_app in Hall as [_ Hall]. apply Forall_app in Hall as [_ Hall]. exact Hall.
    - (* no further line matches the pattern: all the remaining lines are results *)
      destruct ls as [|x r]; [cbn in Htot; lia|].
      rewrite <- Ep. destruct (Nat.leb_spec (length s) p) as [|_]; [lia|].
      assert (HR1 : R0 cfg s A base (set_has_matched (set_pos c (length s))) g0).
      { apply R0_set_has_matched. apply R0_set_pos. exact HR0. }
      assert (Hlagt : Forall (terminated ltb) lag) by (apply Hlagterm; discriminate).
      destruct (invert_range (x :: r) (set_has_matched (set_pos c (length s))) g0 lag p0 p HR1 Hoff0 Hns Hstopg eq_refl
                  Hlagseq Hlagt Hlagp ltac:(lia) ltac:(discriminate) (lines_at_seq cfg s _ _ Hatls) Hf')
        as (c' & Hrun & [Q1 Q2 Q3 Q4 Q5 Q6 Q7 Q8 Q9 Q10]).
      rewrite Htot in Hrun, Q5, Q9. rewrite Hrun. cbn [andthen].
      fold gf in Q3, Q5, Q6, Q7, Q8.
      destruct f as [|f']; [cbn in Hf; lia|]. cbn [fast_then].
      rewrite Q1. cbn [pos set_has_matched set_pos]. rewrite Nat.leb_refl.
      assert (Hend : after_context_by_line cfg K bflag c' s (length s) = OK true c').
      { unfold after_context_by_line. destruct (Nat.eqb (after_context_left c') 0); [reflexivity|].
        cbn [after_loop]. rewrite (Q9 ltac:(discriminate)). unfold ltb_. rewrite line_step_end by lia. reflexivity. }
      rewrite Hend. cbn [andthen].
      assert (Q5' : g_off gf = A + length s) by exact Q5.
      assert (Q3' : log c' = g_out gf ++ [EBegin]) by exact Q3.
      exists true, (set_pos c' (length s)). split; [reflexivity|].
      unfold mbl_post. split. { unfold Rfin. cbn [pos log bin_off set_pos]. rewrite Q5'. auto. }
      split. { intros _. split; [exact Q5'|]. split; [exact Q6|].
               unfold tailok. cbn [last_line_visited pos set_pos]. rewrite (Q9 ltac:(discriminate)). split; [lia|right; reflexivity]. }
      split; [discriminate|].
      intros _ Hall. apply Forall_app in Hall as [_ Hall].
      split; [cbn [pos set_pos]; rewrite Q5'; reflexivity|].
      split; [cbn [has_matched set_pos]; rewrite Q2; symmetry; apply Q7; discriminate|].
      apply R0_set_pos. fold gf in Q10. exact (Q10 Hall).
  Qed.
End FastInv.


(* ---------------------------------------------------------------------------------------------
   One call of match_by_line, whichever path is_line_by_line_fast selects, on a buffer that is a
   window of a stream: from a state related to the reference state g, over all the lines ls that
   the buffer holds from the scan position on. *)
Section MBL.
  Variable cfg : config.
  Variable M : matcher.
  Hypothesis Hbin : c_binary cfg = BNone.
  Variable s : bytes.
  Variable A base : nat.
  Variable bflag : bool.
  Notation ltb := (lt_byte (c_lt cfg)).
  Notation K := (fun _ : nat => Continue).
  Notation gstep := (g_step cfg (m_is_match M)).
  (* the contract of find_by_line_fast is only needed if the fast path can be taken at all *)
  Hypothesis Hfind : (exists c, is_line_by_line_fast cfg M c = true) -> find_spec cfg M s.

  Lemma match_by_line_sim c g ls :
    R cfg s A base c g -> g_stopped g = false -> lines_at cfg s ls (pos c) -> (ls <> [] -> bnd cfg s (pos c)) ->
    exists b c', match_by_line cfg M K bflag c s = OK b c' /\
                 mbl_post cfg s A base ls b c' (fold_left gstep ls g).
  Proof.
    intros HR Hns Hat Hbnd.
    pose proof HR as (Rpos & Rmatched & HR0).
    assert (Hoff : g_off g = A + pos c) by lia.
    pose proof (lines_count cfg s ls (pos c) Hat) as Hcnt.
    unfold match_by_line.
    destruct (is_line_by_line_fast cfg M c) eqn:Efast.
    - assert (Hnopt : c_passthru cfg = false).
      { unfold is_line_by_line_fast in Efast. destruct (c_passthru cfg); [discriminate|reflexivity]. }
      pose proof (Hfind (ex_intro _ c Efast)) as Hfind'.
      unfold match_by_line_fast.
      pose proof (conv_fast_loop cfg M bflag K (fun c => match_by_line_slow cfg M K bflag c s) s
                    (S (S (length s))) c) as Hconv.
      assert (Hex : exists b c', fast_then cfg M bflag K (fun c => match_by_line_slow cfg M K bflag c s)
                                   (S (S (length s))) c s = OK b c' /\
                                 mbl_post cfg s A base ls b c' (fold_left gstep ls g)).
      { destruct (c_invert cfg) eqn:Einv.
        - exact (inv_lines cfg M Hbin s A base bflag Hfind' Einv Hnopt (S (S (length s))) ls c g [] (pos c)
                   HR0 Rmatched Hns Hoff Hat (Forall_nil _) ltac:(cbn; lia) Hbnd (fun _ => eq_refl) ltac:(lia)).
        - exact (fast_lines cfg M Hbin s A base bflag Hfind' Einv Hnopt (S (S (length s))) ls c g (pos c)
                   Hat Hbnd HR Hoff Hns ltac:(lia)). }
      destruct Hex as (b & c' & Hrun & Hpost).
      rewrite Hrun in Hconv.
      exists b, c'. split; [|exact Hpost].
      destruct (fast_loop cfg M K bflag (S (S (length s))) c s) as [[| |] c1|c1|]; cbn [conv] in Hconv;
        try discriminate; try (injection Hconv as -> ->; reflexivity).
      exact Hconv.
    - unfold match_by_line_slow.
      exact (slow_loop_lines cfg M Hbin s A base bflag ls c g (pos c) (S (length s)) Hat HR Hoff Hns ltac:(lia)).
  Qed.
End MBL.

(* ------------------------------------------------------------------ SliceByLine::run: the buffer is
   the whole input *)
Section Slice.
  Variable cfg : config.
  Variable M : matcher.
  Hypothesis Hbin : c_binary cfg = BNone.
  Variable s : bytes.
  Notation ltb := (lt_byte (c_lt cfg)).
  Notation K := (fun _ : nat => Continue).
  Notation gstep := (g_step cfg (m_is_match M)).

  Lemma slice_run_assembly :
    let c0 := set_log (core_new cfg) [EBegin] in
    let gf := fold_left gstep (split_lines ltb s) g_init in
    (s <> [] -> exists b c', match_by_line cfg M K true c0 s = OK b c' /\ Rfin 0 c' gf /\ (b = true -> g_off gf = length s)) ->
    slice_by_line_run cfg M K s = RunOk (grep_ref cfg (m_is_match M) s).
  Proof.
    intros c0 gf Hmbl.
    unfold slice_by_line_run. rewrite emit_K.
    change (log (core_new cfg)) with (@nil event). fold c0.
    rewrite (detect_binary_K cfg Hbin) by reflexivity.
    unfold grep_ref, g_run. fold gf.
    assert (Hfinish : forall c1, pos c1 = g_off gf -> log c1 = g_out gf ++ [EBegin] -> bin_off c1 = None ->
              finish K c1 (byte_count c1) = RunOk (EBegin :: rev (g_out gf) ++ [EFinish (g_off gf) None])).
    { intros c1 H1 H2 H3. unfold finish, byte_count. rewrite H3, H1, H2.
      cbn [rev]. rewrite rev_app_distr. cbn [rev app]. reflexivity. }
    cbn [slice_loop].
    destruct (Nat.leb_spec (length s) (pos c0)) as [Hle|Hgt].
    - cbn [c0 pos set_log core_new] in Hle.
      assert (Hs0 : s = []) by (destruct s; [reflexivity|cbn in Hle; lia]).
      unfold gf. rewrite Hs0. cbn. reflexivity.
    - destruct Hmbl as (b & c' & Hrun & (Fpos & Flog & Fbin) & Hb).
      { intro E. rewrite E in Hgt. cbn in Hgt. lia. }
      cbn [Nat.add] in Fpos.
      rewrite Hrun. destruct b.
      + cbn [slice_loop].
        destruct (Nat.leb_spec (length s) (pos c')) as [_|Hlt]; [|rewrite Fpos, (Hb eq_refl) in Hlt; lia].
        apply Hfinish; auto.
      + apply Hfinish; auto.
  Qed.

  Hypothesis Hfind : find_spec cfg M s.

  Theorem slice_eq_ref_any_proof :
    slice_by_line_run cfg M K s = RunOk (grep_ref cfg (m_is_match M) s).
  Proof.
    apply slice_run_assembly. intros Hne.
    set (c0 := set_log (core_new cfg) [EBegin]).
    pose proof (R_init cfg s) as HR0. fold c0 in HR0.
    pose proof (lines_at_shape cfg s _ (split_lines_shape ltb s) 0 ltac:(lia)
                  ltac:(rewrite split_lines_concat; reflexivity)) as Hat.
    destruct (match_by_line_sim cfg M Hbin s 0 0 true (fun _ => Hfind) c0 g_init (split_lines ltb s) HR0 eq_refl Hat
                (fun _ => or_introl eq_refl)) as (b & c' & Hrun & Hfin & Htrue & _).
    exists b, c'. split; [exact Hrun|]. split; [exact Hfin|].
    intro Hb. destruct (Htrue Hb) as (Ho & _). exact Ho.
  Qed.
End Slice.

(* every configuration: passthru forces the slow path; otherwise the fast or the slow path *)
Theorem slice_eq_ref_proof :
  forall (cfg : config) (M : matcher), c_binary cfg = BNone ->
  forall s : bytes, find_spec cfg M s ->
  slice_by_line_run cfg M (fun _ => Continue) s = RunOk (grep_ref cfg (m_is_match M) s).
Proof. exact slice_eq_ref_any_proof. Qed.
