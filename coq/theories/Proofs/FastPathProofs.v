(* Proofs/FastPathProofs.v — the fast (candidate based) line path of SliceByLine simulates the grep
   reference, under the contract of find_by_line_fast ("the line found is the first line of the
   rest of the buffer that the pattern matches"). *)
From RG Require Import Base.Bytes Base.BytesFacts Model.Lines Model.SearcherCore Model.Glue
  Spec.GrepSpec Proofs.LinesProofs Proofs.CoreSinkProofs Proofs.SlowPathProofs Proofs.PrefixLaw Proofs.PrefixCore.

Section Fast.
  Variable cfg : config.
  Variable M : matcher.
  Hypothesis Hbin : c_binary cfg = BNone.
  Variable s : bytes.
  Notation ltb := (lt_byte (c_lt cfg)).
  Notation K := (fun _ : nat => Continue).
  Notation gstep := (g_step cfg (m_is_match M)).

  Definition pmatch (l : bytes) : bool := m_is_match M (without_terminator (c_lt cfg) l).

  (* the contract of find_by_line_fast on a buffer of whole lines *)
  Definition find_spec : Prop :=
    forall c ls p, pos c = p -> lines_at cfg s ls p ->
      match find_by_line_fast cfg M c s with
      | None => False
      | Some None => Forall (fun l => pmatch l = false) ls
      | Some (Some (q, e)) =>
        exists pre l post, ls = pre ++ l :: post /\ Forall (fun l => pmatch l = false) pre /\ pmatch l = true /\
                           q = p + length (concat pre) /\ e = q + length l
      end.

  Lemma lines_at_split : forall pre l post p, lines_at cfg s (pre ++ l :: post) p ->
    lines_seq cfg s pre p /\ Forall (terminated ltb) pre /\ next_line cfg s (p + length (concat pre)) l /\
    (post <> [] -> terminated ltb l) /\ lines_at cfg s post (p + length (concat pre) + length l).
  Proof.
    induction pre as [|x r IH]; intros l post p H.
    - cbn [app concat length] in *. rewrite Nat.add_0_r. destruct H as (H1 & H2 & H3).
      split; [exact I|]. split; [constructor|]. split; [exact H1|]. split; [exact H2|exact H3].
    - cbn [app] in H. destruct H as (H1 & H2 & H3).
      assert (Ht : terminated ltb x) by (apply H2; destruct r; discriminate).
      destruct (IH l post (p + length x) H3) as (I1 & I2 & I3 & I4 & I5).
      cbn [concat]. rewrite app_length, Nat.add_assoc.
      split; [split; [exact H1|split; [intros _; exact Ht|exact I1]]|].
      split; [constructor; assumption|]. split; [exact I3|]. split; [exact I4|exact I5].
  Qed.

  Lemma lines_at_total : forall ls p, lines_at cfg s ls p -> p + length (concat ls) = length s.
  Proof.
    induction ls as [|l r IH]; intros p H; cbn [lines_at concat length] in *; [lia|].
    destruct H as (_ & _ & H). rewrite app_length. specialize (IH _ H). lia.
  Qed.

  Lemma lines_at_seq : forall ls p, lines_at cfg s ls p -> lines_seq cfg s ls p.
  Proof.
    induction ls as [|l r IH]; intros p H; [exact I|].
    destruct H as (H1 & H2 & H3). split; [exact H1|]. split; [exact H2|]. apply IH. exact H3.
  Qed.

  Lemma set_has_matched_id c : has_matched c = true -> set_has_matched c = c.
  Proof. destruct c; cbn. intros ->. reflexivity. Qed.

  Lemma lines_count : forall ls p, lines_at cfg s ls p -> length ls <= length s - p.
  Proof.
    induction ls as [|l r IH]; intros p H; [cbn; lia|].
    destruct H as ((Hsub & Hb & Hshape) & _ & Hr). specialize (IH _ Hr).
    assert (1 <= length l).
    { destruct Hshape as [Ht|[[Hne _] _]]; [now apply (terminated_length ltb)|destruct l; [congruence|cbn; lia]]. }
    cbn [length]. lia.
  Qed.

  Hypothesis Hfind : find_spec.
  Hypothesis Hnoinv : c_invert cfg = false.
  Hypothesis Hnopt : c_passthru cfg = false.

  Notation kslow := (fun c => match_by_line_slow cfg M K true c s).

  Lemma nonsuccess_of_pmatch l : pmatch l = false -> nonsuccess cfg M l.
  Proof. unfold nonsuccess, pmatch. intros ->. rewrite Hnoinv. reflexivity. Qed.

  Lemma fold_app {A B} (f : A -> B -> A) l1 l2 a : fold_left f (l1 ++ l2) a = fold_left f l2 (fold_left f l1 a).
  Proof. apply fold_left_app. Qed.

  (* the fast loop over all the remaining lines *)
  Lemma fast_lines : forall fuel ls c g p,
    lines_at cfg s ls p -> R cfg s c g -> g_off g = p -> g_stopped g = false -> length ls < fuel ->
    let gf := fold_left gstep ls g in
    exists b c', fast_then cfg M true K kslow fuel c s = OK b c' /\ Rfin c' gf /\ (b = true -> g_off gf = length s).
  Proof.
    induction fuel as [|f IH]; intros ls c g p Hat HR Hoff Hns Hf gf; [lia|].
    destruct HR as (Rpos & Rmatched & HR0).
    pose proof (lines_at_total ls p Hat) as Htot.
    pose proof (lines_count ls p Hat) as Hcnt.
    cbn [fast_then].
    (* finishing: the after-context still owed, then pos := len *)
    assert (Hfinish : Forall (fun l => pmatch l = false) ls ->
              c_stop_on_nonmatch cfg && g_matched g = false ->
              exists c', andthen (after_context_by_line cfg K true c s (length s))
                                 (fun c0 => OK true (set_pos c0 (length s))) = OK true c' /\
                         Rfin c' gf /\ g_off gf = length s).
    { intros Hall Hstop.
      destruct (nonmatch_run cfg M Hbin s ls c g p HR0 Hoff Hns Hnopt Hstop (lines_at_seq ls p Hat))
        as (c1 & Hrun & [P1 P2 P3 P4 P5 P6 P7 P8]).
      { eapply Forall_impl; [|exact Hall]. intros l. apply nonsuccess_of_pmatch. }
      rewrite Htot in Hrun, P5. rewrite Hrun. cbn [andthen].
      exists (set_pos c1 (length s)). split; [reflexivity|]. split; [|exact P5].
      unfold Rfin. cbn [pos log bin_off set_pos]. fold gf in P3, P5. rewrite P5. auto. }
    destruct (Nat.leb_spec (length s) (pos c)) as [Hend|Hmore].
    { (* nothing left *)
      assert (ls = []) by (destruct ls; [reflexivity|cbn in Hcnt; lia]). subst ls.
      destruct (c_stop_on_nonmatch cfg && g_matched g) eqn:Est.
      - (* no line left: after_context over an empty range *)
        pose proof HR0 as [Rabs Rbin Rlog Rafter Rsunk Rlaid Rllv Rllc Rln Rlnum Rap Rale].
        unfold after_context_by_line.
        destruct (Nat.eqb_spec (after_context_left c) 0) as [E0|E0].
        + cbn [andthen]. exists true, (set_pos c (length s)). split; [reflexivity|].
          unfold gf. cbn [fold_left]. split; [|intros _; lia].
          unfold Rfin. cbn [pos log bin_off set_pos]. repeat split; auto. lia.
        + assert (Hllv : last_line_visited c = p).
          { assert (1 <= g_after g) by lia. rewrite (Rap H) in Rllv. cbn in Rllv. lia. }
          cbn [after_loop]. unfold ltb_. rewrite line_step_end by lia. cbn [andthen].
          exists true, (set_pos c (length s)). split; [reflexivity|].
          unfold gf. cbn [fold_left]. split; [|intros _; lia].
          unfold Rfin. cbn [pos log bin_off set_pos]. repeat split; auto. lia.
      - destruct (Hfinish (Forall_nil _) eq_refl) as (c' & Hrun & Hfin & Hoffgf).
        exists true, c'. auto. }
    destruct (c_stop_on_nonmatch cfg && has_matched c) eqn:Estop.
    { (* switch to the slow path *)
      unfold match_by_line_slow. rewrite Rpos, Hoff.
      apply (slow_loop_lines cfg M Hbin s ls c g p (S (length s))); auto.
      - split; [congruence|]. split; assumption.
      - lia. }
    rewrite Hnoinv.
    assert (Hstopg : c_stop_on_nonmatch cfg && g_matched g = false) by (rewrite <- Rmatched; exact Estop).
    pose proof (Hfind c ls p (eq_trans Rpos Hoff) Hat) as Hf'.
    destruct (find_by_line_fast cfg M c s) as [[[q e]|]|]; [| |contradiction].
    2:{ destruct (Hfinish Hf' Hstopg) as (c' & Hrun & Hfin & Hoffgf).
        exists true, c'. auto. }
    destruct Hf' as (pre & l & post & Hls & Hpre & Hl & Hq & He).
    subst ls.
    destruct (lines_at_split pre l post p Hat) as (Hseq & Hterm & Hnl & Hlterm & Hpost).
    rewrite <- Hq in Hnl, Hpost.
    (* the lines before the match *)
    set (c1 := set_has_matched c).
    assert (HR1 : R0 cfg s c1 g) by (apply R0_set_has_matched; exact HR0).
    destruct (nonmatch_run cfg M Hbin s pre c1 g p HR1 Hoff Hns Hnopt Hstopg Hseq)
      as (c2 & Hrun2 & [P1 P2 P3 P4 P5 P6 P7 P8]).
    { eapply Forall_impl; [|exact Hpre]. intros x. apply nonsuccess_of_pmatch. }
    rewrite <- Hq in Hrun2, P5.
    set (gk := fold_left gstep pre g) in *.
    pose proof (P8 Hterm) as HR2.
    (* the match *)
    destruct (matched_step cfg Hbin s c2 gk q l HR2 P5 P6 Hnl) as (c3 & Hrun3 & H3bin & Hc4).
    cbn zeta in Hc4. destruct Hc4 as (Hp4 & Hlog4 & Hbin4 & Hm4 & Hllv4 & HR4).
    assert (Hc2m : set_has_matched c2 = c2) by (apply set_has_matched_id; rewrite P2; reflexivity).
    rewrite Hc2m in Hrun3.
    set (c4 := CoreSinkProofs.post_matched cfg c3 s q (q + length l)) in *.
    assert (Hgl : gstep gk l = g_step_s cfg gk l true).
    { unfold g_step. fold (pmatch l). rewrite Hl, Hnoinv. reflexivity. }
    assert (Hgf : gf = fold_left gstep post (g_step_s cfg gk l true)).
    { unfold gf. rewrite fold_app. cbn [fold_left]. fold gk. now rewrite Hgl. }
    set (g' := g_step_s cfg gk l true) in *.
    assert (Hst' : g_stopped g' = false) by (unfold g', g_step_s; rewrite P6; reflexivity).
    assert (Hoff' : g_off g' = q + length l) by (unfold g', g_step_s; rewrite P6, P5; reflexivity).
    assert (Hgm' : g_matched g' = true) by (unfold g', g_step_s; rewrite P6; reflexivity).
    (* what the code does with the match *)
    assert (Hkk : andthen (sink_matched cfg K true (set_pos c3 e) s q e)
                          (fun c0 => fast_then cfg M true K kslow f c0 s)
                  = fast_then cfg M true K kslow f (set_pos c4 e) s).
    { rewrite (sink_matched_K cfg Hbin) by exact H3bin. cbn [andthen]. subst e.
      unfold c4. now rewrite post_matched_set_pos. }
    assert (Hstep : (if Nat.ltb 0 (max_context cfg)
                     then andthen (after_context_by_line cfg K true c1 s q)
                            (fun c0 => andthen (before_context_by_line cfg K true c0 s q)
                               (fun c5 => andthen (sink_matched cfg K true (set_pos c5 e) s q e)
                                            (fun c6 => fast_then cfg M true K kslow f c6 s)))
                     else andthen (sink_matched cfg K true (set_pos c1 e) s q e)
                            (fun c6 => fast_then cfg M true K kslow f c6 s))
                    = fast_then cfg M true K kslow f (set_pos c4 e) s).
    { destruct (Nat.ltb_spec 0 (max_context cfg)) as [Hmc|Hmc].
      - rewrite Hrun2. cbn [andthen]. rewrite Hrun3. cbn [andthen]. exact Hkk.
      - (* no context configured: both calls would have been no-ops *)
        assert (Ha0 : c_after cfg = 0 /\ c_before cfg = 0) by (unfold max_context in Hmc; lia).
        destruct Ha0 as [Ha0 Hb0].
        pose proof HR1 as [Rabs Rbin Rlog Rafter Rsunk Rlaid Rllv Rllc Rln Rlnum Rap Rale].
        assert (Hacl : after_context_left c1 = 0) by lia.
        assert (Hc21 : c2 = c1).
        { unfold after_context_by_line in Hrun2. rewrite Hacl in Hrun2. cbn in Hrun2. congruence. }
        assert (Hc32 : c3 = c2).
        { unfold before_context_by_line in Hrun3. rewrite Hb0 in Hrun3. cbn in Hrun3. congruence. }
        rewrite <- Hc21, <- Hc32. exact Hkk. }
    cbn zeta. fold c1. rewrite Hstep.
    (* continue with the lines after the match *)
    destruct post as [|l2 post2].
    - (* that was the last line *)
      cbn [lines_at] in Hpost. cbn [fold_left] in Hgf.
      destruct f as [|f']; [rewrite app_length in Hf; cbn in Hf; lia|].
      cbn [fast_then]. cbn [pos set_pos].
      destruct (Nat.leb_spec (length s) e) as [_|Hlt]; [|lia].
      assert (Hend : after_context_by_line cfg K true (set_pos c4 e) s (length s) = OK true (set_pos c4 e)).
      { unfold after_context_by_line. destruct (Nat.eqb (after_context_left (set_pos c4 e)) 0); [reflexivity|].
        cbn [after_loop last_line_visited set_pos]. unfold ltb_. rewrite line_step_end by lia. reflexivity. }
      rewrite Hend. cbn [andthen].
      exists true, (set_pos (set_pos c4 e) (length s)). split; [reflexivity|]. rewrite Hgf.
      split; [|intros _; rewrite Hoff'; lia].
      unfold Rfin. cbn [pos log bin_off set_pos]. rewrite Hoff'. repeat split; auto.
    - assert (HR' : R cfg s (set_pos c4 e) g').
      { split; [cbn [pos set_pos]; rewrite Hoff'; now subst e|]. split; [cbn; rewrite Hgm'; exact Hm4|].
        apply R0_set_pos. apply HR4. apply Hlterm. discriminate. }
      rewrite Hgf. apply (IH (l2 :: post2) (set_pos c4 e) g' e); auto.
      + now subst e.
      + subst e. exact Hoff'.
      + rewrite app_length in Hf. cbn in Hf |- *. lia.
  Qed.

  (* ------------------------------------------------------------------ SliceByLine::run *)
  Lemma slice_run_assembly :
    let c0 := set_log (core_new cfg) [EBegin] in
    let gf := fold_left gstep (split_lines ltb s) g_init in
    (s <> [] -> exists b c', match_by_line cfg M K true c0 s = OK b c' /\ Rfin c' gf /\ (b = true -> g_off gf = length s)) ->
    slice_by_line_run cfg M K s = RunOk (grep_ref cfg (m_is_match M) s).
  Proof.
    intros c0 gf Hmbl.
    unfold slice_by_line_run. rewrite emit_K.
    change (log (core_new cfg)) with (@nil event). fold c0.
    rewrite (detect_binary_K cfg Hbin) by reflexivity.
    unfold grep_ref, g_run. fold gf.
    assert (Hfinish : forall c1, pos c1 = g_off gf -> log c1 = g_out gf ++ [EBegin] -> bin_off c1 = None ->
              finish K c1 (byte_count c1) = RunOk (EBegin :: rev (g_out gf) ++ [EFinish (g_off gf) None])).
    { intros c1 H1 H2 H3. unfold finish, byte_count. rewrite H3, H1, H2.
      cbn [rev]. rewrite rev_app_distr. cbn [rev app]. reflexivity. }
    cbn [slice_loop].
    destruct (Nat.leb_spec (length s) (pos c0)) as [Hle|Hgt].
    - cbn [c0 pos set_log core_new] in Hle.
      assert (Hs0 : s = []) by (destruct s; [reflexivity|cbn in Hle; lia]).
      unfold gf. rewrite Hs0. cbn. reflexivity.
    - destruct Hmbl as (b & c' & Hrun & (Fpos & Flog & Fbin) & Hb).
      { intro E. rewrite E in Hgt. cbn in Hgt. lia. }
      rewrite Hrun. destruct b.
      + cbn [slice_loop].
        destruct (Nat.leb_spec (length s) (pos c')) as [_|Hlt]; [|rewrite Fpos, (Hb eq_refl) in Hlt; lia].
        apply Hfinish; auto.
      + apply Hfinish; auto.
  Qed.

  Theorem slice_eq_ref_noninvert_proof :
    slice_by_line_run cfg M K s = RunOk (grep_ref cfg (m_is_match M) s).
  Proof.
    apply slice_run_assembly. intros Hne.
    set (c0 := set_log (core_new cfg) [EBegin]).
    pose proof (R_init cfg s) as HR0. fold c0 in HR0.
    pose proof (lines_at_shape cfg s _ (split_lines_shape ltb s) 0 ltac:(lia)
                  ltac:(rewrite split_lines_concat; reflexivity)) as Hat.
    assert (Hcnt : length (split_lines ltb s) < S (length s)).
    { pose proof (lines_count _ _ Hat). lia. }
    unfold match_by_line.
    destruct (is_line_by_line_fast cfg M c0) eqn:Efast.
    - unfold match_by_line_fast.
      pose proof (conv_fast_loop cfg M true K (fun c => match_by_line_slow cfg M K true c s) s
                    (S (S (length s))) c0) as Hconv.
      destruct (fast_lines (S (S (length s))) (split_lines ltb s) c0 g_init 0 Hat HR0 eq_refl eq_refl ltac:(lia))
        as (b & c' & Hrun & Hfin & Hb).
      rewrite Hrun in Hconv.
      exists b, c'. split; [|split; assumption].
      destruct (fast_loop cfg M K true (S (S (length s))) c0 s) as [[| |] c1|c1|]; cbn [conv] in Hconv;
        try discriminate; try (injection Hconv as -> ->; reflexivity).
      exact Hconv.
    - unfold match_by_line_slow. change (pos c0) with 0.
      exact (slow_loop_lines cfg M Hbin s (split_lines ltb s) c0 g_init 0 (S (length s)) Hat HR0 eq_refl eq_refl Hcnt).
  Qed.
End Fast.
