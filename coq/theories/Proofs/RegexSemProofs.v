(* Proofs/RegexSemProofs.v — facts about Spec/RegexSem.v: bounds, the executable [ends] computes
   exactly the declarative relation, inversion helpers, the induction principle for the nested
   HIR type. *)
From RG Require Import Base.Bytes Base.BytesFacts Spec.RegexSem.

(* ---- induction over hir with Forall on the children lists ---- *)
Section HirInd.
  Variable P : hir -> Prop.
  Hypothesis HEmp : P HEmpty.
  Hypothesis HLi : forall b, P (HLit b).
  Hypothesis HCB : forall rs, P (HClassB rs).
  Hypothesis HCU : forall rs, P (HClassU rs).
  Hypothesis HLo : forall l, P (HLook l).
  Hypothesis HRe : forall mn mx g h, P h -> P (HRep mn mx g h).
  Hypothesis HCa : forall h, P h -> P (HCap h).
  Hypothesis HCo : forall hs, Forall P hs -> P (HConcat hs).
  Hypothesis HAl : forall hs, Forall P hs -> P (HAlt hs).

  Fixpoint hir_ind2 (h : hir) : P h :=
    match h with
    | HEmpty => HEmp
    | HLit b => HLi b
    | HClassB rs => HCB rs
    | HClassU rs => HCU rs
    | HLook l => HLo l
    | HRep mn mx g h' => HRe mn mx g h' (hir_ind2 h')
    | HCap h' => HCa h' (hir_ind2 h')
    | HConcat hs =>
      HCo hs ((fix go (l : list hir) : Forall P l :=
                 match l with [] => Forall_nil P | x :: t => Forall_cons x (hir_ind2 x) (go t) end) hs)
    | HAlt hs =>
      HAl hs ((fix go (l : list hir) : Forall P l :=
                 match l with [] => Forall_nil P | x :: t => Forall_cons x (hir_ind2 x) (go t) end) hs)
    end.
End HirInd.

Lemma utf8_decode_len s cp n : utf8_decode s = DOk cp n -> 1 <= n <= length s.
Proof.
  unfold utf8_decode. destruct s as [|b0 r]; [discriminate|].
  destruct (utf8_len b0) as [[|[|[|[|k]]]]|]; try discriminate;
    do 3 (try (destruct r as [|? r]; try discriminate));
    try (destruct (_ && _); [|discriminate]);
    intro H; injection H as _ <-; cbn; lia.
Qed.

Lemma is_prefix_of_length (p s : bytes) : is_prefix_of p s = true -> length p <= length s.
Proof.
  revert s; induction p as [|x xs IH]; intros [|y ys] H; cbn in *; try lia; try discriminate.
  apply andb_true_iff in H as [_ H]. apply IH in H. lia.
Qed.

Lemma is_prefix_of_app (p s : bytes) : is_prefix_of p s = true <-> exists r, s = p ++ r.
Proof.
  revert s; induction p as [|x xs IH]; intros s; cbn.
  - split; [intros _; now exists s|reflexivity].
  - destruct s as [|y ys]; [split; [discriminate|intros [r H]; discriminate]|].
    rewrite andb_true_iff, N.eqb_eq, IH. split.
    + intros [-> [r ->]]. now exists r.
    + intros [r H]. injection H as -> ->. split; [reflexivity|now exists r].
Qed.

(* every match lies inside the haystack and goes forward *)
Lemma matches_bounds h s i j : Matches h s i j -> i <= j <= length s.
Proof.
  induction 1; try lia.
  - apply is_prefix_of_length in H0. rewrite skipn_length in H0. lia.
  - assert (i < length s) by (apply nth_error_Some; congruence). lia.
  - apply utf8_decode_len in H0. rewrite skipn_length in H0. lia.
Qed.

(* ---- inversion lemmas, one per constructor of hir ---- *)
Lemma matches_empty_iff s i j : Matches HEmpty s i j <-> j = i /\ i <= length s.
Proof. split; [inversion 1; subst; auto|intros [-> H]; now constructor]. Qed.

Lemma matches_lit_iff b s i j :
  Matches (HLit b) s i j <-> j = i + length b /\ i <= length s /\ is_prefix_of b (skipn i s) = true.
Proof. split; [inversion 1; subst; auto|intros (-> & H1 & H2); now constructor]. Qed.

Lemma matches_classb_iff rs s i j :
  Matches (HClassB rs) s i j <-> j = S i /\ exists b, nth_error s i = Some b /\ in_ranges rs b = true.
Proof. split; [inversion 1; subst; eauto|intros (-> & b & H1 & H2); econstructor; eauto]. Qed.

Lemma matches_classu_iff rs s i j :
  Matches (HClassU rs) s i j <->
  i <= length s /\ exists cp n, j = i + n /\ utf8_decode (skipn i s) = DOk cp n /\ in_ranges rs cp = true.
Proof.
  split; [inversion 1; subst; eauto 8|intros (H0 & cp & n & -> & H1 & H2); econstructor; eauto].
Qed.

Lemma matches_look_iff l s i j :
  Matches (HLook l) s i j <-> j = i /\ i <= length s /\ look_matches l s i = true.
Proof. split; [inversion 1; subst; auto|intros (-> & H1 & H2); now constructor]. Qed.

Lemma matches_cap_iff h s i j : Matches (HCap h) s i j <-> Matches h s i j.
Proof. split; [inversion 1; subst; auto|now constructor]. Qed.

Lemma matches_concat_nil_iff s i j : Matches (HConcat []) s i j <-> j = i /\ i <= length s.
Proof. split; [inversion 1; subst; auto|intros [-> H]; now constructor]. Qed.

Lemma matches_concat_cons_iff h hs s i j :
  Matches (HConcat (h :: hs)) s i j <-> exists k, Matches h s i k /\ Matches (HConcat hs) s k j.
Proof. split; [inversion 1; subst; eauto|intros (k & H1 & H2); econstructor; eauto]. Qed.

Lemma matches_alt_nil_iff s i j : Matches (HAlt []) s i j <-> False.
Proof. split; [inversion 1|tauto]. Qed.

Lemma matches_alt_cons_iff h hs s i j :
  Matches (HAlt (h :: hs)) s i j <-> Matches h s i j \/ Matches (HAlt hs) s i j.
Proof.
  split; [inversion 1; subst; auto|intros [H|H]; [now apply MAltHere|now apply MAltThere]].
Qed.

Lemma matches_alt_iff hs s i j : Matches (HAlt hs) s i j <-> exists h, In h hs /\ Matches h s i j.
Proof.
  induction hs as [|h hs IH].
  - rewrite matches_alt_nil_iff. split; [tauto|intros (h & [] & _)].
  - rewrite matches_alt_cons_iff, IH. split.
    + intros [H|(h' & H1 & H2)]; [exists h; cbn; auto|exists h'; cbn; auto].
    + intros (h' & [->|H1] & H2); [auto|right; eauto].
Qed.

(* repetition as the iteration of a relation *)
Inductive RepM (P : nat -> nat -> Prop) (len : nat) : nat -> option nat -> nat -> nat -> Prop :=
| RepM0 mx i : i <= len -> RepM P len 0 mx i i
| RepMS mn mx i k j :
    mx <> Some 0 -> P i k -> RepM P len (pred mn) (option_map pred mx) k j -> RepM P len mn mx i j.

Lemma matches_rep_iff mn mx g h s i j :
  Matches (HRep mn mx g h) s i j <-> RepM (Matches h s) (length s) mn mx i j.
Proof.
  split.
  - intro H. remember (HRep mn mx g h) as r eqn:E. revert mn mx E.
    induction H; intros mn' mx' E; try discriminate; injection E as ? ? ? ?; subst.
    + now constructor.
    + econstructor; eauto.
  - induction 1; [now constructor|econstructor; eauto].
Qed.

Lemma RepM_mono (P Q : nat -> nat -> Prop) len mn mx i j :
  (forall a b, P a b -> Q a b) -> RepM P len mn mx i j -> RepM Q len mn mx i j.
Proof. intros HPQ. induction 1; [now constructor|econstructor; eauto]. Qed.

Lemma RepM_bounds (P : nat -> nat -> Prop) len mn mx i j :
  (forall a b, P a b -> a <= b <= len) -> RepM P len mn mx i j -> i <= j <= len.
Proof. intros HP. induction 1; [lia|]. apply HP in H0. lia. Qed.

(* ---- the executable semantics ---- *)
Lemma nat_dedup_In l x : In x (nat_dedup l) <-> In x l.
Proof. apply nodup_In. Qed.

Definition opt_le (a b : option nat) : Prop :=
  match a, b with _, None => True | Some x, Some y => x <= y | None, Some _ => False end.

Lemma opt_le_pred a b : opt_le a b -> opt_le (option_map pred a) (option_map pred b).
Proof. destruct a, b; cbn; auto; lia. Qed.

Definition rep_body (f : nat) (step : nat -> list nat) (mn : nat) (mx : option nat) (i : nat) : list nat :=
  nat_dedup (flat_map (fun k => if Nat.eqb mn 0 && Nat.leb k i then []
                                else rep_ends f step (pred mn) (option_map pred mx) k)
                      (nat_dedup (step i))).

Lemma rep_ends_S f step mn mx i :
  rep_ends (S f) step mn mx i =
  (if Nat.eqb mn 0 then [i] else []) ++
  (if match mx with Some 0 => true | _ => false end then [] else rep_body f step mn mx i).
Proof. cbn [rep_ends]. unfold rep_body. destruct mx as [[|n]|]; reflexivity. Qed.

Lemma max_zero_dec (mx : option nat) :
  (mx = Some 0 /\ match mx with Some 0 => true | _ => false end = true) \/
  (mx <> Some 0 /\ match mx with Some 0 => true | _ => false end = false).
Proof. destruct mx as [[|n]|]; [left|right|right]; split; congruence. Qed.

Lemma rep_ends_mono_max fuel step mx mx' i j :
  opt_le mx' mx -> In j (rep_ends fuel step 0 mx' i) -> In j (rep_ends fuel step 0 mx i).
Proof.
  revert mx mx' i j. induction fuel as [|f IH]; intros mx mx' i j Hle; [cbn; auto|].
  rewrite !rep_ends_S. cbn [Nat.eqb app]. intros [H|H]; [now left|right].
  destruct (max_zero_dec mx') as [[E1 E2]|[E1 E2]]; rewrite E2 in H; [destruct H|].
  destruct (max_zero_dec mx) as [[F1 F2]|[F1 F2]]; rewrite F2.
  { subst mx. destruct mx' as [[|n]|]; cbn in Hle; try congruence; lia. }
  unfold rep_body in *.
  rewrite nat_dedup_In in H. apply nat_dedup_In.
  apply in_flat_map in H as (k & Hk & Hj). apply in_flat_map. exists k. split; [exact Hk|].
  destruct (Nat.eqb 0 0 && Nat.leb k i); [exact Hj|].
  cbn [pred] in *. eapply IH; [|exact Hj]. now apply opt_le_pred.
Qed.

Section RepEnds.
  Variable step : nat -> list nat.
  Variable P : nat -> nat -> Prop.
  Variable len : nat.
  Hypothesis step_spec : forall i k, In k (step i) <-> P i k.
  Hypothesis P_bounds : forall i k, P i k -> i <= k <= len.

  Lemma rep_ends_sound fuel mn mx i j :
    i <= len -> In j (rep_ends fuel step mn mx i) -> RepM P len mn mx i j.
  Proof.
    revert mn mx i j. induction fuel as [|f IH]; intros mn mx i j Hi; [cbn; intros []|].
    rewrite rep_ends_S. intro H. apply in_app_or in H as [H|H].
    - destruct (Nat.eqb mn 0) eqn:E; [|destruct H]. apply Nat.eqb_eq in E. subst mn.
      destruct H as [<-|[]]. now constructor.
    - destruct (max_zero_dec mx) as [[E1 E2]|[E1 E2]]; rewrite E2 in H; [destruct H|].
      unfold rep_body in H.
      rewrite nat_dedup_In in H. apply in_flat_map in H as (k & Hk & Hj).
      rewrite nat_dedup_In in Hk. apply step_spec in Hk.
      destruct (Nat.eqb mn 0 && Nat.leb k i); [destruct Hj|].
      econstructor; [exact E1|exact Hk|]. apply IH; [apply P_bounds in Hk; lia|exact Hj].
  Qed.

  Lemma rep_ends_complete mn mx i j :
    RepM P len mn mx i j -> forall fuel, mn + (len - i) < fuel -> In j (rep_ends fuel step mn mx i).
  Proof.
    induction 1 as [mx i Hi|mn mx i k j Hmx HP HR IH]; intros fuel Hf.
    - destruct fuel as [|f]; [lia|]. rewrite rep_ends_S. cbn [Nat.eqb]. now left.
    - destruct fuel as [|f]; [lia|]. 
      pose proof (P_bounds _ _ HP) as Hb.
      assert (Hlen : k <= j <= len).
      { eapply RepM_bounds; [exact P_bounds|exact HR]. }
      destruct (Nat.eqb mn 0 && Nat.leb k i) eqn:Eskip.
      + (* an iteration that does not advance while min = 0: drop it *)
        apply andb_true_iff in Eskip as [E1 E2]. apply Nat.eqb_eq in E1. apply Nat.leb_le in E2.
        subst mn. assert (k = i) by lia. subst k. cbn [pred] in *.
        apply (rep_ends_mono_max (S f) step mx (option_map pred mx)).
        * destruct mx as [n|]; cbn; auto; lia.
        * apply IH. lia.
      + rewrite rep_ends_S. apply in_or_app. right.
        destruct (max_zero_dec mx) as [[E1 E2]|[E1 E2]]; rewrite E2; [congruence|].
        unfold rep_body. apply nat_dedup_In. apply in_flat_map. exists k. split.
        * apply nat_dedup_In. now apply step_spec.
        * rewrite Eskip. apply IH.
          apply andb_false_iff in Eskip as [E|E].
          -- apply Nat.eqb_neq in E. lia.
          -- apply Nat.leb_gt in E. lia.
  Qed.
End RepEnds.

Lemma ends_nil_out h s i : length s < i -> ends h s i = [].
Proof.
  intro H. apply Nat.ltb_lt in H. destruct h; cbn [ends]; rewrite H; reflexivity.
Qed.

Lemma ends_unfold h s i :
  i <= length s ->
  ends h s i =
  match h with
  | HEmpty => [i]
  | HLit b => if is_prefix_of b (skipn i s) then [i + length b] else []
  | HClassB rs =>
    match nth_error s i with
    | Some b => if in_ranges rs b then [S i] else []
    | None => []
    end
  | HClassU rs =>
    match utf8_decode (skipn i s) with
    | DOk cp n => if in_ranges rs cp then [i + n] else []
    | _ => []
    end
  | HLook l => if look_matches l s i then [i] else []
  | HRep min max _ h' => rep_ends (S (min + (length s - i))) (ends h' s) min max i
  | HCap h' => ends h' s i
  | HConcat hs =>
    (fix go (hs : list hir) (i : nat) : list nat :=
       match hs with
       | [] => [i]
       | h' :: t => nat_dedup (flat_map (go t) (nat_dedup (ends h' s i)))
       end) hs i
  | HAlt hs =>
    (fix go (hs : list hir) : list nat :=
       match hs with
       | [] => []
       | h' :: t => ends h' s i ++ go t
       end) hs
  end.
Proof.
  intro H. assert (E : Nat.ltb (length s) i = false) by (apply Nat.ltb_ge; lia).
  destruct h; cbn [ends]; rewrite E; reflexivity.
Qed.

Theorem ends_spec_proof : forall h s i j, In j (ends h s i) <-> Matches h s i j.
Proof.
  intros h s. induction h as [|b|rs|rs|l|mn mx g h IH|h IH|hs IH|hs IH] using hir_ind2; intros i j.
  all: destruct (Nat.ltb (length s) i) eqn:Eout;
    [ apply Nat.ltb_lt in Eout; rewrite ends_nil_out by exact Eout;
      split; [intros []|intro H; apply matches_bounds in H; lia]
    | apply Nat.ltb_ge in Eout; rewrite ends_unfold by exact Eout ].
  - rewrite matches_empty_iff. cbn. intuition.
  - rewrite matches_lit_iff. destruct (is_prefix_of b (skipn i s)); cbn; intuition; discriminate.
  - rewrite matches_classb_iff. destruct (nth_error s i) as [b|] eqn:E.
    + destruct (in_ranges rs b) eqn:R; cbn.
      * split; [intros [<-|[]]; eauto|intros [-> _]; auto].
      * split; [intros []|intros (_ & b' & Hb & Hr)]. congruence.
    + cbn. split; [intros []|intros (_ & b' & Hb & _)]. discriminate.
  - rewrite matches_classu_iff. destruct (utf8_decode (skipn i s)) as [| |cp n] eqn:E.
    + cbn. split; [intros []|intros (_ & cp & n & _ & H & _)]. discriminate.
    + cbn. split; [intros []|intros (_ & cp & n & _ & H & _)]. discriminate.
    + destruct (in_ranges rs cp) eqn:R; cbn.
      * split; [intros [<-|[]]; eauto 8|intros (_ & cp' & n' & -> & H & _)]. injection H as -> ->. auto.
      * split; [intros []|intros (_ & cp' & n' & _ & H & R')]. injection H as -> ->. congruence.
  - rewrite matches_look_iff. destruct (look_matches l s i); cbn; intuition; discriminate.
  - rewrite matches_rep_iff. split.
    + apply rep_ends_sound; [exact IH|apply matches_bounds|exact Eout].
    + intro H. eapply rep_ends_complete; [exact IH|apply matches_bounds|exact H|lia].
  - rewrite matches_cap_iff. apply IH.
  - revert i j Eout. induction IH as [|h hs Hh Hhs IHl]; intros i j Hi.
    + rewrite matches_concat_nil_iff. cbn. split; [intros [<-|[]]; auto|intros [-> _]; auto].
    + rewrite matches_concat_cons_iff. rewrite nat_dedup_In, in_flat_map. split.
      * intros (k & Hk & Hj). rewrite nat_dedup_In in Hk. apply Hh in Hk. exists k. split; [exact Hk|].
        apply IHl; [apply matches_bounds in Hk; lia|exact Hj].
      * intros (k & Hk & Hj). exists k. split; [apply nat_dedup_In; now apply Hh|].
        apply IHl; [apply matches_bounds in Hk; lia|exact Hj].
  - clear Eout. induction IH as [|h hs Hh Hhs IHl].
    + rewrite matches_alt_nil_iff. cbn. tauto.
    + rewrite matches_alt_cons_iff, in_app_iff, Hh, IHl. tauto.
Qed.
