(* Proofs/RegexSemProofs.v — facts about Spec/RegexSem.v: bounds, the executable [ends] computes
   exactly the declarative relation, inversion helpers, the induction principle for the nested
   HIR type. *)
From RG Require Import Base.Bytes Base.BytesFacts Spec.RegexSem.

(* ---- induction over hir with Forall on the children lists ---- *)
Section HirInd.
  Variable P : hir -> Prop.
  Hypothesis HEmp : P HEmpty.
  Hypothesis HLi : forall b, P (HLit b).
  Hypothesis HCB : forall rs, P (HClassB rs).
  Hypothesis HCU : forall rs, P (HClassU rs).
  Hypothesis HLo : forall l, P (HLook l).
  Hypothesis HRe : forall mn mx g h, P h -> P (HRep mn mx g h).
  Hypothesis HCa : forall h, P h -> P (HCap h).
  Hypothesis HCo : forall hs, Forall P hs -> P (HConcat hs).
  Hypothesis HAl : forall hs, Forall P hs -> P (HAlt hs).

  Fixpoint hir_ind2 (h : hir) : P h :=
    match h with
    | HEmpty => HEmp
    | HLit b => HLi b
    | HClassB rs => HCB rs
    | HClassU rs => HCU rs
    | HLook l => HLo l
    | HRep mn mx g h' => HRe mn mx g h' (hir_ind2 h')
    | HCap h' => HCa h' (hir_ind2 h')
    | HConcat hs =>
      HCo hs ((fix go (l : list hir) : Forall P l :=
                 match l with [] => Forall_nil P | x :: t => Forall_cons x (hir_ind2 x) (go t) end) hs)
    | HAlt hs =>
      HAl hs ((fix go (l : list hir) : Forall P l :=
                 match l with [] => Forall_nil P | x :: t => Forall_cons x (hir_ind2 x) (go t) end) hs)
    end.
End HirInd.

Lemma utf8_decode_len s cp n : utf8_decode s = DOk cp n -> 1 <= n <= length s.
Proof.
  unfold utf8_decode. destruct s as [|b0 r]; [discriminate|].
  destruct (utf8_len b0) as [[|[|[|[|k]]]]|]; try discriminate;
    do 3 (try (destruct r as [|? r]; try discriminate));
    try (destruct (_ && _); [|discriminate]);
    intro H; injection H as _ <-; cbn; lia.
Qed.

Lemma is_prefix_of_length (p s : bytes) : is_prefix_of p s = true -> length p <= length s.
Proof.
  revert s; induction p as [|x xs IH]; intros [|y ys] H; cbn in *; try lia; try discriminate.
  apply andb_true_iff in H as [_ H]. apply IH in H. lia.
Qed.

Lemma is_prefix_of_app (p s : bytes) : is_prefix_of p s = true <-> exists r, s = p ++ r.
Proof.
  revert s; induction p as [|x xs IH]; intros s; cbn.
  - split; [intros _; now exists s|reflexivity].
  - destruct s as [|y ys]; [split; [discriminate|intros [r H]; discriminate]|].
    rewrite andb_true_iff, N.eqb_eq, IH. split.
    + intros [-> [r ->]]. now exists r.
    + intros [r H]. injection H as -> ->. split; [reflexivity|now exists r].
Qed.

(* every match lies inside the haystack and goes forward *)
Lemma matches_bounds h s i j : Matches h s i j -> i <= j <= length s.
Proof.
  induction 1; try lia.
  - apply is_prefix_of_length in H0. rewrite skipn_length in H0. lia.
  - assert (i < length s) by (apply nth_error_Some; congruence). lia.
  - apply utf8_decode_len in H0. rewrite skipn_length in H0. lia.
Qed.
