(* Proofs/DecodeProofs.v — lemmas about Model/Decode.v *)
From RG Require Import Base.Bytes Model.Decode.

(* ---------- the streaming decoder is independent of the fragmentation ---------- *)
Lemma u16_feed_app be : forall a b st,
  u16_feed be st (a ++ b) =
  let (o1, st1) := u16_feed be st a in
  let (o2, st2) := u16_feed be st1 b in (o1 ++ o2, st2).
Proof.
  induction a as [|x xs IH]; intros b st.
  - cbn [app u16_feed]. destruct (u16_feed be st b). reflexivity.
  - cbn [app u16_feed]. destruct (u16_step be st x) as [o1 st1]. rewrite IH.
    destruct (u16_feed be st1 xs) as [o2 st2]. destruct (u16_feed be st2 b) as [o3 st3].
    now rewrite app_assoc.
Qed.

Lemma u16_stream_concat be : forall chunks st,
  u16_stream be st chunks = let (o, st') := u16_feed be st (concat chunks) in o ++ u16_finish st'.
Proof.
  induction chunks as [|c cs IH]; intro st.
  - reflexivity.
  - cbn [u16_stream concat]. rewrite u16_feed_app. destruct (u16_feed be st c) as [o1 st1]. rewrite IH.
    destruct (u16_feed be st1 (concat cs)) as [o2 st2]. now rewrite app_assoc.
Qed.

Lemma utf16_chunk_independent_proof be chunks :
  u16_stream be u16_init chunks = utf16_to_utf8 be (concat chunks).
Proof. rewrite u16_stream_concat. reflexivity. Qed.

Lemma utf16_refragment_proof be chunks1 chunks2 :
  concat chunks1 = concat chunks2 -> u16_stream be u16_init chunks1 = u16_stream be u16_init chunks2.
Proof. intro H. now rewrite !utf16_chunk_independent_proof, H. Qed.

(* ---------- which decoder ---------- *)
Definition label_of (m : encoding_mode) : option enc :=
  match m with EncSome e => Some e | _ => None end.

Lemma selection_table_proof m s :
  effective_decoder (decode_settings_of (enc_config_of m)) s =
  match m with
  | EncDisabled => None
  | _ => match bom_encoding (possible_bom s) with
         | Some Utf8 | None => label_of m         (* the UTF-8 mark leaves the label's decoder in place *)
         | Some e => Some e                       (* a UTF-16 mark decides *)
         end
  end.
Proof.
  destruct m as [|e|]; unfold effective_decoder;
    cbn [decode_settings_of enc_config_of ds_bom_sniffing ds_bom_override ds_encoding ds_utf8_passthru
         ec_bom_sniffing ec_encoding negb orb andb label_of]; try reflexivity;
    destruct (bom_encoding (possible_bom s)) as [[| | |n]|]; reflexivity.
Qed.

Lemma firstn3_starts2 a b s : length s >= 3 -> starts2 a b (firstn 3 s) = starts2 a b s.
Proof. destruct s as [|x [|y [|z r]]]; cbn; intros; try lia; reflexivity. Qed.

Lemma firstn3_starts3 a b c s : starts3 a b c (firstn 3 s) = starts3 a b c s.
Proof. destruct s as [|x [|y [|z r]]]; reflexivity. Qed.

Lemma bom_encoding_utf16 s :
  length s >= 3 -> starts3 239 187 191 s = false ->
  bom_encoding (possible_bom s) =
  if starts2 255 254 s then Some Utf16le else if starts2 254 255 s then Some Utf16be else None.
Proof.
  intros Hl H3. unfold bom_encoding, possible_bom, for_bom.
  rewrite firstn_length, Nat.min_l by lia. cbn [Nat.ltb Nat.leb].
  rewrite firstn3_starts3, H3, !firstn3_starts2 by lia.
  destruct (starts2 255 254 s); [reflexivity|]. destruct (starts2 254 255 s); reflexivity.
Qed.

(* a UTF-16 mark decides, whatever the label *)
Lemma utf16_mark_overrides_label_proof m s :
  m <> EncDisabled -> length s >= 3 ->
  (starts2 255 254 s = true -> effective_decoder (decode_settings_of (enc_config_of m)) s = Some Utf16le) /\
  (starts2 254 255 s = true -> effective_decoder (decode_settings_of (enc_config_of m)) s = Some Utf16be).
Proof.
  intros Hm Hl. rewrite selection_table_proof.
  assert (H3 : forall a b, starts2 a b s = true -> (a =? 239)%N = false -> starts3 239 187 191 s = false).
  { intros a b H Ha. destruct s as [|x [|y [|z r]]]; cbn in *; try discriminate; try reflexivity.
    apply andb_true_iff in H as [H _]. apply N.eqb_eq in H. subst x. rewrite Ha. reflexivity. }
  split; intro H; destruct m; try contradiction;
    rewrite bom_encoding_utf16 by (first [lia | (eapply H3; [exact H|reflexivity])]); rewrite ?H; try reflexivity.
  - destruct (starts2 255 254 s) eqn:E; [|reflexivity].
    destruct s as [|x [|y r]]; cbn in *; try discriminate.
    apply andb_true_iff in H as [H _]. apply andb_true_iff in E as [E _]. apply N.eqb_eq in H, E. congruence.
  - destruct (starts2 255 254 s) eqn:E; [|reflexivity].
    destruct s as [|x [|y r]]; cbn in *; try discriminate.
    apply andb_true_iff in H as [H _]. apply andb_true_iff in E as [E _]. apply N.eqb_eq in H, E. congruence.
Qed.

(* --encoding none: nothing is decoded, nothing is stripped *)
Lemma none_is_identity_proof s :
  searched_bytes EncDisabled s = Some s /\
  slice_needs_transcoding (enc_config_of EncDisabled) s = false.
Proof.
  split; [|reflexivity]. f_equal. destruct s as [|x [|y [|z r]]]; reflexivity.
Qed.

(* routing: a slice (or memory map) is searched directly exactly when the reader path would hand the very
   same bytes to the line searcher *)
Lemma for_bom_none_slice s : for_bom s = None -> bom_as_slice (firstn 3 s) false = firstn 3 s.
Proof.
  unfold for_bom, bom_as_slice. cbn [orb].
  destruct (starts3 239 187 191 s) eqn:E3; [discriminate|].
  destruct (starts2 255 254 s) eqn:E1; [discriminate|]. destruct (starts2 254 255 s) eqn:E2; [discriminate|].
  intros _. destruct s as [|x [|y [|z r]]]; try reflexivity.
  - cbn in *. rewrite E1, E2. reflexivity.
  - cbn [firstn length Nat.leb]. cbn in E1, E2, E3.
    replace (starts2 255 254 [x; y; z]) with false by (cbn; now rewrite E1).
    replace (starts2 254 255 [x; y; z]) with false by (cbn; now rewrite E2).
    replace (starts3 239 187 191 [x; y; z]) with false by (cbn; now rewrite E3). reflexivity.
Qed.

Lemma for_bom_none_encoding s : for_bom s = None -> bom_encoding (possible_bom s) = None.
Proof.
  unfold bom_encoding, possible_bom. intro H. destruct (Nat.ltb (length (firstn 3 s)) 3); [reflexivity|].
  unfold for_bom in *. rewrite firstn3_starts3.
  destruct (starts3 239 187 191 s); [discriminate|].
  destruct s as [|x [|y [|z r]]]; cbn in *; try reflexivity;
    destruct (_ && _); try discriminate; destruct (_ && _); try discriminate; reflexivity.
Qed.

Lemma routing_sound_proof m s :
  slice_needs_transcoding (enc_config_of m) s = false -> searched_bytes m s = Some s.
Proof.
  destruct m as [|e|]; [|discriminate|intros _; apply none_is_identity_proof].
  unfold slice_needs_transcoding, slice_has_bom. cbn [enc_config_of ec_encoding ec_bom_sniffing orb andb].
  destruct (for_bom s) as [[e n]|] eqn:F.
  - unfold for_bom in F. destruct (starts3 239 187 191 s); [injection F as <- _; discriminate|].
    destruct (starts2 255 254 s); [injection F as <- _; discriminate|].
    destruct (starts2 254 255 s); [injection F as <- _; discriminate|discriminate].
  - intros _. unfold searched_bytes. rewrite selection_table_proof, (for_bom_none_encoding _ F).
    unfold peeked_stream, possible_bom. cbn [decode_settings_of enc_config_of ds_strip_bom ec_bom_sniffing negb label_of decode_with].
    rewrite (for_bom_none_slice _ F), firstn_skipn. reflexivity.
Qed.

(* ---------- the UTF-8 decoder is independent of the fragmentation ---------- *)
Lemma u8_feed_app : forall a b st,
  u8_feed st (a ++ b) =
  let (o1, st1) := u8_feed st a in
  let (o2, st2) := u8_feed st1 b in (o1 ++ o2, st2).
Proof.
  induction a as [|x xs IH]; intros b st.
  - cbn [app u8_feed]. destruct (u8_feed st b). reflexivity.
  - cbn [app u8_feed]. destruct (u8_step st x) as [o1 st1]. rewrite IH.
    destruct (u8_feed st1 xs) as [o2 st2]. destruct (u8_feed st2 b) as [o3 st3].
    now rewrite app_assoc.
Qed.

Lemma utf8_chunk_independent_proof chunks : u8_stream u8_init chunks = utf8_to_utf8 (concat chunks).
Proof.
  unfold utf8_to_utf8. generalize u8_init. induction chunks as [|c cs IH]; intro st; [reflexivity|].
  cbn [u8_stream concat]. rewrite u8_feed_app. destruct (u8_feed st c) as [o1 st1]. rewrite IH.
  destruct (u8_feed st1 (concat cs)) as [o2 st2]. now rewrite app_assoc.
Qed.
