(* Proofs/GlobAltSemProofs.v — what an Alternates token means (Spec/GlobSem.v): `{a,b,…}` followed by a rest
   matches exactly when one of its kept alternatives followed by that rest matches; the order of the
   alternatives is irrelevant (so the parser's reversed order means what the written order means); and the
   whole-glob corollary for the documented syntax of Spec/GlobSyntax.v. *)
From RG Require Import Base.Bytes Base.BytesFacts Model.Glob Spec.GlobSem Spec.GlobSyntax
  Proofs.GlobSemProofs Proofs.GlobStrategyProofs Proofs.GlobParseProofs Proofs.GlobRenderProofs Proofs.GlobAltRenderProofs.

Lemma forallb_rev {A} (f : A -> bool) l : forallb f (rev l) = forallb f l.
Proof.
  apply bool_eq_iff. rewrite !forallb_forall. split; intros H x Hx; apply H.
  - now apply in_rev in Hx.
  - now apply in_rev.
Qed.

Lemma existsb_rev {A} (f : A -> bool) l : existsb f (rev l) = existsb f l.
Proof.
  apply bool_eq_iff. rewrite !existsb_exists. split; intros (x & Hx & Hf); exists x; (split; [|exact Hf]).
  - now apply in_rev.
  - now apply in_rev in Hx.
Qed.

(* ---- the meaning depends on the continuation only through its values ---- *)
Lemma tmk_ext_of o a :
  Forall (fun t => forall k1 k2, (forall q, k1 q = k2 q) -> forall p, tok_k o t k1 p = tok_k o t k2 p) a ->
  forall k1 k2, (forall q, k1 q = k2 q) -> forall p, tmk o a k1 p = tmk o a k2 p.
Proof.
  induction 1 as [|t r Ht _ IH]; intros k1 k2 Hk p; cbn [tmk]; [apply Hk|].
  apply Ht. intro q. now apply IH.
Qed.

Lemma tok_k_ext o t : forall k1 k2, (forall q, k1 q = k2 q) -> forall p, tok_k o t k1 p = tok_k o t k2 p.
Proof.
  induction t as [c| | | | | |neg rs|alts IH] using token_ind2; intros k1 k2 H p.
  - cbn [tok_k]. now apply one_k_ext.
  - cbn [tok_k]. now apply one_k_ext.
  - cbn [tok_k]. now apply star_k_ext.
  - cbn [tok_k]. now rewrite H, (one_k_ext _ k1 k2 p H), (after_some_slash_ext k1 k2 p H).
  - cbn [tok_k]. apply one_k_ext. intro q. now apply star_k_ext.
  - cbn [tok_k]. apply one_k_ext. intro q. now rewrite H, (after_some_slash_ext k1 k2 q H).
  - cbn [tok_k]. now apply one_k_ext.
  - rewrite !tok_k_alt, H. destruct (forallb _ alts); [reflexivity|].
    induction IH as [|a r Ha _ IHr]; [reflexivity|]. cbn [existsb]. rewrite IHr.
    now rewrite (tmk_ext_of o a Ha k1 k2 H p).
Qed.

Lemma tmk_ext o ts : forall k1 k2, (forall q, k1 q = k2 q) -> forall p, tmk o ts k1 p = tmk o ts k2 p.
Proof. apply tmk_ext_of. apply Forall_forall. intros t _. apply tok_k_ext. Qed.

(* ---- "{a,b,…}" then a rest = some kept alternative then that rest ---- *)
Lemma tmk_alt_cons o alts r k p :
  tmk o (TAlt alts :: r) k p =
  if forallb (fun a => negb (branch_kept o a)) alts then tmk o r k p
  else existsb (fun a => branch_kept o a && tmk o a (tmk o r k) p) alts.
Proof. cbn [tmk]. apply tok_k_alt. Qed.

Lemma tmk_alt_all_kept o alts r k p :
  alts <> [] -> forallb (branch_kept o) alts = true ->
  tmk o (TAlt alts :: r) k p = existsb (fun a => tmk o a (tmk o r k) p) alts.
Proof.
  intros Hne Hk. rewrite tmk_alt_cons.
  assert (E : forallb (fun a => negb (branch_kept o a)) alts = false).
  { destruct alts as [|a l]; [congruence|]. cbn [forallb] in *. apply andb_true_iff in Hk as [-> _]. reflexivity. }
  rewrite E. clear E Hne. induction alts as [|a l IH]; [reflexivity|].
  cbn [forallb] in Hk. apply andb_true_iff in Hk as [Ha Hl]. cbn [existsb]. rewrite Ha, IH by exact Hl. reflexivity.
Qed.

(* ---- the order of the alternatives is irrelevant ---- *)
Lemma tok_k_order o t k p : tok_k o (tok_parser_order t) k p = tok_k o t k p.
Proof.
  destruct t; try reflexivity. cbn [tok_parser_order]. rewrite !tok_k_alt, forallb_rev, existsb_rev. reflexivity.
Qed.

Lemma tmk_order o ts : forall k p, tmk o (parser_order ts) k p = tmk o ts k p.
Proof.
  induction ts as [|t r IH]; intros k p; [reflexivity|].
  cbn [parser_order map tmk]. fold (parser_order r). rewrite tok_k_order. apply tok_k_ext. intro q. apply IH.
Qed.

Theorem tmatch_order_proof o ts p : tmatch o (parser_order ts) p = tmatch o ts p.
Proof.
  unfold tmatch. rewrite tmk_order.
  destruct ts as [|t [|t' r]]; try reflexivity; destruct t; reflexivity.
Qed.

(* ---- alternatives of the documented syntax are always kept, and are read as globs of their own ---- *)
Lemma item_tok_emits o i : tok_emits_nothing o (item_tok i) = false.
Proof. destruct i; reflexivity. Qed.

Lemma glob_tokens_kept o b : b <> [] -> glob_ok b = true -> branch_kept o (glob_tokens b) = true.
Proof.
  intros Hne Hok. unfold branch_kept. apply orb_true_iff. left. apply negb_true_iff.
  unfold glob_ok in Hok. apply andb_true_iff in Hok as [Hok _]. apply andb_true_iff in Hok as [Hps Hadj].
  destruct b as [|[its|] r]; [congruence| |].
  - cbn [forallb] in Hps. apply andb_true_iff in Hps as [Hp _]. cbn [piece_ok] in Hp.
    apply andb_true_iff in Hp as [_ Hp]. destruct its as [|i its]; [discriminate|].
    cbn [glob_tokens comp_toks map app emits_nothing forallb]. now rewrite item_tok_emits.
  - destruct r as [|[its|] r']; [reflexivity|reflexivity|discriminate].
Qed.

Lemma branch_tmk_tmatch o b p : branch_ok b = true -> tmk o (glob_tokens b) is_nil p = tmatch o (glob_tokens b) p.
Proof.
  intro Hok. unfold tmatch. destruct b as [|[its|] r]; [reflexivity| |].
  - cbn [glob_tokens]. unfold branch_ok in Hok. apply andb_true_iff in Hok as [Hok _].
    unfold glob_ok in Hok. apply andb_true_iff in Hok as [Hok _]. apply andb_true_iff in Hok as [Hps _].
    cbn [forallb piece_ok] in Hps. apply andb_true_iff in Hps as [Hp _]. apply andb_true_iff in Hp as [_ Hp].
    destruct its as [|i its]; [discriminate|]. cbn [comp_toks map app].
    destruct i; cbn [item_tok]; reflexivity.
  - destruct r as [|[its|] r'].
    + discriminate.
    + unfold branch_ok in Hok. apply andb_true_iff in Hok as [Hok _].
      unfold glob_ok in Hok. apply andb_true_iff in Hok as [Hok _]. apply andb_true_iff in Hok as [Hps _].
      cbn [forallb piece_ok] in Hps. apply andb_true_iff in Hps as [_ Hps]. apply andb_true_iff in Hps as [Hp _].
      apply andb_true_iff in Hp as [_ Hp]. destruct its as [|i its]; [discriminate|]. reflexivity.
    + reflexivity.
Qed.

(* the glob `{b1,…,bn}`: parsed, it matches exactly the paths one of b1 … bn (as globs of their own) matches *)
Theorem alt_glob_matches_some_branch_proof o bs p :
  backslash_escape o = true -> bs <> [] -> forallb branch_ok bs = true ->
  (empty_alternates o = true \/ forallb (fun b => negb (match b with [] => true | _ => false end)) bs = true) ->
  exists ts, build o (render_aglob [APComp [AAlt bs]]) = Some (Ok ts) /\
             tmatch o ts p = existsb (fun b => tmatch o (glob_tokens b) p) bs.
Proof.
  intros Hb Hne Hok Hkept. eexists. split.
  - apply build_render_alt_proof; [exact Hb|]. unfold aglob_ok, aglob_ok_with. cbn [forallb apiece_ok_with aitem_ok_with no_adjacent_astar no_adjacent_dstar_a].
    rewrite Hok. destruct bs; [congruence|reflexivity].
  - rewrite tmatch_order_proof. cbn [aglob_tokens acomp_toks map aitem_tok aafter_piece app].
    unfold tmatch.
    assert (Hk : forallb (branch_kept o) (map glob_tokens bs) = true).
    { apply forallb_forall. intros a Ha. apply in_map_iff in Ha as (b & <- & Hin).
      pose proof (proj1 (forallb_forall _ _) Hok b Hin) as Hbk.
      destruct b as [|x y] eqn:Eb.
      - destruct Hkept as [He|Hn]; [unfold branch_kept; rewrite He; apply orb_true_r|].
        pose proof (proj1 (forallb_forall _ _) Hn [] Hin) as F. discriminate.
      - rewrite <- Eb in *. apply glob_tokens_kept; [subst b; discriminate|].
        unfold branch_ok in Hbk. subst b. now apply andb_true_iff in Hbk as [? _]. }
    rewrite tmk_alt_all_kept; [|destruct bs; [congruence|discriminate]|exact Hk].
    clear Hk Hne Hkept. induction bs as [|b r IH]; [reflexivity|].
    cbn [forallb] in Hok. apply andb_true_iff in Hok as [Hbk Hr].
    cbn [map existsb]. rewrite IH by exact Hr. f_equal.
    pose proof (branch_tmk_tmatch o b p Hbk) as E. unfold tmatch in E. rewrite <- E. apply tmk_ext. reflexivity.
Qed.
