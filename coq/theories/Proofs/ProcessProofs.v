(* Proofs/ProcessProofs.v — lemmas about Model/Process.v (property C18) *)
From RG Require Import Base.Bytes Model.CliTypes Model.CliExpected Gen.DecisionsCli Model.Process
  Proofs.DecisionsProofs.
Local Open Scope bool_scope.

(* ---- the close table, about the GENERATED condition of CommandReader::close ---- *)
Lemma close_table_proof : forall stdout_open wait_success eof stderr_is_empty : bool,
  close_is_error stdout_open wait_success eof stderr_is_empty = true <->
  stdout_open = true /\ wait_success = false /\ (eof = true \/ stderr_is_empty = false).
Proof.
  intros so ws eof se. rewrite close_is_error_eq. unfold close_is_error_expected.
  destruct so, ws, eof, se; cbn; intuition congruence.
Qed.

Lemma close_idempotent_proof : forall c r,
  let '(_, r1) := cr_close c r in fst (cr_close c r1) = false /\ snd (cr_close c r1) = r1.
Proof.
  intros c r. unfold cr_close. cbn [fst snd cr_open cr_rest cr_eof]. rewrite close_is_error_eq. split; reflexivity.
Qed.

Lemma close_closed : forall c r, cr_open r = false -> fst (cr_close c r) = false.
Proof. intros c r H. unfold cr_close. cbn [fst]. rewrite H, close_is_error_eq. reflexivity. Qed.

Section WithConsumer.
  Variable S R : Type.
  Variable wants : S -> nat.
  Variable step : S -> bytes -> S * bool.
  Variable finish : S -> R.
  Hypothesis wants_pos : forall s, 1 <= wants s.

  Notation consume := (consume S R wants step finish).

  Definition mk (o : bool) (x : bytes) (e : bool) : creader := {| cr_open := o; cr_rest := x; cr_eof := e |}.

  (* reading from the child = reading its stdout bytes, until EOF; at EOF the child's status decides *)
  Lemma consume_cr_sl : forall c fuel x s fed,
    consume (cr_read c) fuel (mk true x false) s fed =
    match consume sl_read fuel x s fed with
    | (COutOfFuel _, rest, fed') => (COutOfFuel R, mk true rest false, fed')
    | (CErr _, rest, fed') => (CErr R, mk true rest false, fed')
    | (CDone _ r true, rest, fed') =>
        if ch_ok_full c then (CDone R r true, mk false rest true, fed') else (CErr R, mk false rest true, fed')
    | (CDone _ r false, rest, fed') => (CDone R r false, mk true rest false, fed')
    end.
  Proof.
    intros c fuel; induction fuel as [|fuel IH]; intros x s fed; [reflexivity|].
    cbn [Process.consume]. unfold cr_read, sl_read. cbn [cr_open cr_rest cr_eof mk negb].
    destruct (firstn (wants s) x) as [|b0 bs] eqn:Hf.
    - cbn [cr_close cr_eof cr_open cr_rest]. rewrite close_is_error_eq. unfold close_is_error_expected.
      cbn [andb negb orb]. destruct (ch_ok_full c); reflexivity.
    - destruct (step s (b0 :: bs)) as [s' go]. destruct go; [|reflexivity]. apply IH.
  Qed.

  Lemma sl_never_errs : forall fuel x s fed rest fed',
    consume sl_read fuel x s fed <> (CErr R, rest, fed').
  Proof.
    induction fuel as [|fuel IH]; intros x s fed rest fed'; [discriminate|].
    cbn [Process.consume]. unfold sl_read. destruct (firstn (wants s) x) as [|b0 bs]; [discriminate|].
    destruct (step s (b0 :: bs)) as [s' go]. destruct go; [apply IH|discriminate].
  Qed.

  (* fuel: S (length x) is always enough *)
  Lemma sl_fuel_suffices : forall fuel x s fed,
    length x < fuel -> forall rest fed', consume sl_read fuel x s fed <> (COutOfFuel R, rest, fed').
  Proof.
    induction fuel as [|fuel IH]; intros x s fed Hl rest fed'; [lia|].
    cbn [Process.consume]. unfold sl_read. destruct (firstn (wants s) x) as [|b0 bs] eqn:Hf; [discriminate|].
    destruct (step s (b0 :: bs)) as [s' go]. destruct go; [|discriminate].
    apply IH. rewrite skipn_length. pose proof (wants_pos s).
    destruct x; [rewrite firstn_nil in Hf; discriminate|]. cbn [length] in *. lia.
  Qed.

  (* conservation: what was fed plus what is left is the whole stream; at EOF nothing is left *)
  Lemma sl_conservation : forall fuel x s fed res rest fed',
    consume sl_read fuel x s fed = (res, rest, fed') ->
    fed' ++ rest = fed ++ x /\ (forall r, res = CDone R r true -> rest = []).
  Proof.
    induction fuel as [|fuel IH]; intros x s fed res rest fed' H.
    - cbn in H. inversion H; subst. split; [reflexivity|intros; discriminate].
    - cbn [Process.consume] in H. unfold sl_read in H.
      destruct (firstn (wants s) x) as [|b0 bs] eqn:Hf.
      + inversion H; subst. split; [reflexivity|]. intros _ _. pose proof (wants_pos s).
        destruct rest; [reflexivity|]. destruct (wants s); [lia|discriminate].
      + destruct (step s (b0 :: bs)) as [s' go]. destruct go.
        * apply IH in H as [A B]. split; [|exact B]. rewrite A, <- app_assoc, <- Hf, firstn_skipn. reflexivity.
        * inversion H; subst. split; [|intros; discriminate].
          rewrite <- app_assoc, <- Hf, firstn_skipn. reflexivity.
  Qed.

  Variable s0 : S.
  Notation search_preprocessor := (search_preprocessor S R wants step finish s0).
  Notation search_decompress := (search_decompress S R wants step finish s0).
  Notation search_bytes := (search_bytes S R wants step finish s0).

  (* the reference search never runs out of fuel and never errs *)
  Lemma search_bytes_done : forall b, exists r e fed, search_bytes b = (CDone R r e, fed).
  Proof.
    intros b. unfold Process.search_bytes.
    destruct (Process.consume S R wants step finish sl_read (Datatypes.S (length b)) b s0 []) as [[res rest] fed] eqn:H.
    destruct res as [| |r e].
    - exfalso. eapply sl_fuel_suffices; [|exact H]. lia.
    - exfalso. eapply sl_never_errs; exact H.
    - eauto.
  Qed.

  (* the complete outcome table of a search through a preprocessor that could be started *)
  Lemma search_preprocessor_table : forall c r e fed,
    ch_spawn_ok c = true ->
    search_bytes (ch_out c) = (CDone R r e, fed) ->
    search_preprocessor true c =
    (if e then (if ch_ok_full c then Some (inr r) else Some (inl (ECommand)))
     else (if close_is_error true (ch_ok_early c) false (is_nil (ch_err c)) then Some (inl EClose) else Some (inr r)),
     fed).
  Proof.
    intros c r e fed Hs Hb. unfold Process.search_preprocessor, Process.search_bytes in *. rewrite Hs. cbn [negb].
    change (cr_new c) with (mk true (ch_out c) false). rewrite consume_cr_sl.
    destruct (Process.consume S R wants step finish sl_read (Datatypes.S (length (ch_out c))) (ch_out c) s0 [])
      as [[res rest] fed0] eqn:H.
    inversion Hb; subst. destruct e.
    - destruct (ch_ok_full c) eqn:Hok; cbn [cr_close mk cr_open cr_eof cr_rest].
      + rewrite close_is_error_eq. reflexivity.
      + reflexivity.
    - cbn [cr_close mk cr_open cr_eof cr_rest].
      destruct (close_is_error true (ch_ok_early c) false (is_nil (ch_err c))); reflexivity.
  Qed.

  (* same for decompression when the command starts; when it does not, the raw file is searched *)
  Lemma search_decompress_table : forall c raw r e fed,
    ch_spawn_ok c = true ->
    search_bytes (ch_out c) = (CDone R r e, fed) ->
    search_decompress true raw c =
    (if e then (if ch_ok_full c then Some (inr r) else Some (inl (ECommand)))
     else (if close_is_error true (ch_ok_early c) false (is_nil (ch_err c)) then Some (inl EClose) else Some (inr r)),
     fed).
  Proof.
    intros c raw r e fed Hs Hb. unfold Process.search_decompress, Process.search_bytes in *. rewrite Hs. cbn [negb].
    change (cr_new c) with (mk true (ch_out c) false). rewrite consume_cr_sl.
    destruct (Process.consume S R wants step finish sl_read (Datatypes.S (length (ch_out c))) (ch_out c) s0 [])
      as [[res rest] fed0] eqn:H.
    inversion Hb; subst. destruct e.
    - destruct (ch_ok_full c) eqn:Hok; cbn [cr_close mk cr_open cr_eof cr_rest].
      + rewrite close_is_error_eq. reflexivity.
      + reflexivity.
    - cbn [cr_close mk cr_open cr_eof cr_rest].
      destruct (close_is_error true (ch_ok_early c) false (is_nil (ch_err c))); reflexivity.
  Qed.

  Lemma search_decompress_fallback : forall c raw r e fed,
    ch_spawn_ok c = false ->
    search_bytes raw = (CDone R r e, fed) ->
    search_decompress true raw c = (Some (inr r), fed).
  Proof.
    intros c raw r e fed Hs Hb. unfold Process.search_decompress, Process.search_bytes in *. rewrite Hs. cbn [negb].
    destruct (Process.consume S R wants step finish sl_read (Datatypes.S (length raw)) raw s0 []) as [[res rest] fed0].
    inversion Hb; subst. reflexivity.
  Qed.

  (* the bytes handed to the searcher are a prefix of the child's stdout; all of it when it read to EOF *)
  Lemma search_bytes_prefix : forall b r e fed,
    search_bytes b = (CDone R r e, fed) -> (exists rest, fed ++ rest = b) /\ (e = true -> fed = b).
  Proof.
    intros b r e fed H. unfold Process.search_bytes in H.
    destruct (Process.consume S R wants step finish sl_read (Datatypes.S (length b)) b s0 []) as [[res rest] fed0] eqn:Hc.
    inversion H; subst. apply sl_conservation in Hc as [A B]. cbn in A. split; [eauto|].
    intros ->. rewrite (B r eq_refl), app_nil_r in A. exact A.
  Qed.
End WithConsumer.

(* ---- corollaries used by Props/C18.v ---- *)
Section Corollaries.
  Variable S R : Type.
  Variable wants : S -> nat.
  Variable step : S -> bytes -> S * bool.
  Variable finish : S -> R.
  Hypothesis wants_pos : forall s, 1 <= wants s.
  Variable s0 : S.
  Notation search_preprocessor := (search_preprocessor S R wants step finish s0).
  Notation search_decompress := (search_decompress S R wants step finish s0).
  Notation search_bytes := (search_bytes S R wants step finish s0).

  Lemma preprocessor_never_stuck_proof : forall open_ok c, fst (search_preprocessor open_ok c) <> None.
  Proof.
    intros open_ok c. destruct open_ok; [|cbn; discriminate].
    destruct (ch_spawn_ok c) eqn:Hs; [|unfold Process.search_preprocessor; rewrite Hs; cbn; discriminate].
    destruct (search_bytes_done S R wants step finish wants_pos s0 (ch_out c)) as (r & e & fed & Hb).
    rewrite (search_preprocessor_table S R wants step finish s0 c r e fed Hs Hb).
    destruct e; [destruct (ch_ok_full c)|destruct (close_is_error _ _ _ _)]; cbn; discriminate.
  Qed.

  Lemma early_stop_not_error_proof : forall c r fed,
    ch_spawn_ok c = true -> ch_err c = [] ->
    search_bytes (ch_out c) = (CDone R r false, fed) ->
    search_preprocessor true c = (Some (inr r), fed) /\
    (forall raw, search_decompress true raw c = (Some (inr r), fed)).
  Proof.
    intros c r fed Hs He Hb.
    assert (Hc : close_is_error true (ch_ok_early c) false (is_nil (ch_err c)) = false).
    { rewrite He, close_is_error_eq. cbn. destruct (ch_ok_early c); reflexivity. }
    split; [|intros raw].
    - rewrite (search_preprocessor_table S R wants step finish s0 c r false fed Hs Hb), Hc. reflexivity.
    - rewrite (search_decompress_table S R wants step finish s0 c raw r false fed Hs Hb), Hc. reflexivity.
  Qed.

  (* failure iff: not startable, or read to the end and unsuccessful, or stopped early, unsuccessful and noisy *)
  Lemma preprocessor_failure_iff_proof : forall c r e fed,
    ch_spawn_ok c = true ->
    search_bytes (ch_out c) = (CDone R r e, fed) ->
    (search_preprocessor true c = (Some (inr r), fed) \/
     exists err, search_preprocessor true c = (Some (inl err), fed)) /\
    ((exists err, search_preprocessor true c = (Some (inl err), fed)) <->
     (e = true /\ ch_ok_full c = false) \/ (e = false /\ ch_ok_early c = false /\ ch_err c <> [])).
  Proof.
    intros c r e fed Hs Hb.
    rewrite (search_preprocessor_table S R wants step finish s0 c r e fed Hs Hb).
    destruct e.
    - destruct (ch_ok_full c); split; eauto; split.
      + intros [err H]; discriminate.
      + intros [[_ H]|[H _]]; discriminate.
      + intros _. auto.
      + intros _. eauto.
    - destruct (close_is_error true (ch_ok_early c) false (is_nil (ch_err c))) eqn:Hc.
      + apply close_table_proof in Hc as (_ & H1 & [H2|H2]); [discriminate|].
        split; eauto. split; [|eauto]. intros _. right. repeat split; auto.
        intros E; rewrite E in H2; discriminate.
      + split; eauto. split; [intros [err H]; discriminate|].
        intros [[H _]|(_ & H1 & H2)]; [discriminate|]. exfalso.
        assert (X : close_is_error true (ch_ok_early c) false (is_nil (ch_err c)) = true).
        { apply close_table_proof. repeat split; auto. right. destruct (ch_err c); [contradiction|reflexivity]. }
        congruence.
  Qed.

  Lemma success_is_reference_result_proof : forall c r fed,
    ch_spawn_ok c = true ->
    search_preprocessor true c = (Some (inr r), fed) ->
    exists e, search_bytes (ch_out c) = (CDone R r e, fed) /\
              (exists rest, fed ++ rest = ch_out c) /\ (e = true -> fed = ch_out c).
  Proof.
    intros c r fed Hs H.
    destruct (search_bytes_done S R wants step finish wants_pos s0 (ch_out c)) as (r' & e & fed' & Hb).
    rewrite (search_preprocessor_table S R wants step finish s0 c r' e fed' Hs Hb) in H.
    assert (r' = r /\ fed' = fed) as [-> ->].
    { destruct e; [destruct (ch_ok_full c)|destruct (close_is_error _ _ _ _)]; inversion H; auto. }
    exists e. split; [exact Hb|]. exact (search_bytes_prefix S R wants step finish wants_pos s0 _ _ _ _ Hb).
  Qed.

  Lemma start_failure_proof : forall c open_ok,
    (open_ok = false -> search_preprocessor open_ok c = (Some (inl EOpen), [])) /\
    (open_ok = true -> ch_spawn_ok c = false -> search_preprocessor open_ok c = (Some (inl ESpawn), [])).
  Proof.
    intros c open_ok. split; [intros ->; reflexivity|intros -> H].
    unfold Process.search_preprocessor. rewrite H. reflexivity.
  Qed.
End Corollaries.

(* ---- selection, about the GENERATED expressions of SearchWorker::{search, should_preprocess, should_decompress} ---- *)
Lemma selection_proof : forall w : wcfg,
  let pre := w_pre_is_some w && (w_globs_empty w || negb (w_glob_is_ignore w)) in
  let dec := w_search_zip w && w_has_command w in
  worker_strategy w =
  if w_is_stdin w then StStdin else if pre then StPreprocess else if dec then StDecompress else StPath.
Proof.
  intros [a b c d e f]. unfold worker_strategy. cbn [w_is_stdin w_pre_is_some w_globs_empty w_glob_is_ignore
    w_search_zip w_has_command].
  rewrite select_strategy_eq, should_preprocess_eq, should_decompress_eq. reflexivity.
Qed.

Lemma direct_search_iff_proof : forall w : wcfg,
  worker_strategy w = StPath <->
  w_is_stdin w = false /\
  (w_pre_is_some w = false \/ (w_globs_empty w = false /\ w_glob_is_ignore w = true)) /\
  (w_search_zip w = false \/ w_has_command w = false).
Proof.
  intros w. rewrite selection_proof. destruct w as [a b c d e f]; cbn.
  destruct a, b, c, d, e, f; cbn; intuition congruence.
Qed.
