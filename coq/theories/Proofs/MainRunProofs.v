(* Proofs/MainRunProofs.v — lemmas about the drivers of Model/MainRun.v (property C15, and the status half of C08) *)
From RG Require Import Base.Bytes Model.CliTypes Model.CliExpected Gen.DecisionsCli Model.MainRun
  Spec.ExitSpec Proofs.DecisionsProofs.
From Coq Require Import Permutation.
Local Open Scope bool_scope.

(* ------------------------------------------------------------------ exit_code, computed *)
Lemma exit_code_quiet_match : forall e, exit_code true true e = 0%N.
Proof. intros; rewrite exit_code_eq; destruct e; reflexivity. Qed.
Lemma exit_code_match_clean : forall q, exit_code true q false = 0%N.
Proof. intros; rewrite exit_code_eq; destruct q; reflexivity. Qed.
Lemma exit_code_nomatch_clean : forall q, exit_code false q false = 1%N.
Proof. intros; rewrite exit_code_eq; destruct q; reflexivity. Qed.
Lemma exit_code_nomatch_err : forall q, exit_code false q true = 2%N.
Proof. intros; rewrite exit_code_eq; destruct q; reflexivity. Qed.
Lemma exit_code_match_err_loud : exit_code true false true = 2%N.
Proof. rewrite exit_code_eq; reflexivity. Qed.

(* ------------------------------------------------------------------ field lemmas *)
Lemma bfr_flags : forall c it s oh s',
  build_from_result c it s = (oh, s') ->
  matched s' = matched s /\ searched s' = searched s /\ printed s' = printed s /\ out s' = out s /\
  done s' = done s /\ errored s' = errored s || item_is_walk_err it /\
  oh = match it with IHay h => Some h | _ => None end.
Proof.
  intros c it s oh s' H. destruct it; cbn in H; inversion H; subst; cbn;
    repeat split; try reflexivity; now rewrite ?orb_false_r, ?orb_true_r.
Qed.

Lemma serial_emit_flags : forall c h s,
  matched (serial_emit c h s) = matched s /\ searched (serial_emit c h s) = searched s /\
  errored (serial_emit c h s) = errored s /\ diags (serial_emit c h s) = diags s /\
  done (serial_emit c h s) = done s.
Proof. intros; unfold serial_emit, write_out; cbn; auto. Qed.

Lemma bw_print_flags : forall c h s p s',
  bw_print c h s = (p, s') ->
  matched s' = matched s /\ searched s' = searched s /\ errored s' = errored s /\ diags s' = diags s /\
  done s' = done s.
Proof.
  intros c h s p s' H. unfold bw_print in H.
  destruct (h_out h); [inversion H; subst; auto|].
  destruct (h_print h); inversion H; subst; cbn; auto.
Qed.

(* ------------------------------------------------------------------ composition of the loops *)
Lemma search_loop_app : forall c l1 l2 s,
  search_loop c (l1 ++ l2) s =
  match search_loop c l1 s with (s1, LEnd) => search_loop c l2 s1 | r => r end.
Proof.
  intros c l1; induction l1 as [|it l1 IH]; intros l2 s; [reflexivity|].
  cbn [app search_loop].
  destruct (build_from_result c it s) as [oh s1]. destruct oh as [h|]; [|apply IH].
  destruct (h_res h); try apply IH; try reflexivity.
  - destruct (_ && _); [reflexivity|apply IH].
  - destruct (_ && _); [reflexivity|apply IH].
Qed.

Lemma par_loop_app : forall c l1 l2 s,
  par_loop c (l1 ++ l2) s =
  match par_loop c l1 s with (s1, LEnd) => par_loop c l2 s1 | r => r end.
Proof.
  intros c l1; induction l1 as [|it l1 IH]; intros l2 s; [reflexivity|].
  cbn [app par_loop].
  destruct (build_from_result c it s) as [oh s1]. destruct oh as [h|]; [|apply IH].
  destruct (h_res h); try apply IH.
  - destruct (bw_print c h _) as [p s2]. destruct p; try reflexivity.
    + destruct (_ && _); [reflexivity|apply IH].
    + destruct (_ && _); [reflexivity|apply IH].
  - destruct (bw_print c h _) as [p s2]. destruct p; try reflexivity.
    + destruct (_ && _); [reflexivity|apply IH].
    + destruct (_ && _); [reflexivity|apply IH].
Qed.

Lemma files_loop_app : forall c l1 l2 s,
  files_loop c (l1 ++ l2) s =
  match files_loop c l1 s with (s1, LEnd) => files_loop c l2 s1 | r => r end.
Proof.
  intros c l1; induction l1 as [|it l1 IH]; intros l2 s; [reflexivity|].
  cbn [app files_loop].
  destruct (build_from_result c it s) as [oh s1]. destruct oh as [h|]; [|apply IH].
  destruct (c_quit_after_match c); [reflexivity|].
  destruct (h_print h); try reflexivity. apply IH.
Qed.

(* ------------------------------------------------------------------ flags after the serial search loop *)
Lemma search_loop_flags : forall c items s s' e,
  forallb item_no_pipe_serial items = true ->
  search_loop c items s = (s', e) ->
  matched s' = matched s || existsb item_match items /\
  (e = LEnd \/ e = LBreak) /\
  (e = LEnd -> errored s' = errored s || existsb item_err_serial items /\
               searched s' = searched s || existsb item_is_hay items) /\
  (e = LBreak -> matched s' = true /\ c_quit_after_match c = true /\ searched s' = true).
Proof.
  intros c items; induction items as [|it rest IH]; intros s s' e Hnp H.
  - cbn in H; inversion H; subst; cbn. rewrite !orb_false_r. repeat split; auto; discriminate.
  - cbn [forallb] in Hnp. apply andb_prop in Hnp as [Hnp1 Hnp].
    cbn [search_loop] in H.
    destruct (build_from_result c it s) as [oh s1] eqn:Hb.
    apply bfr_flags in Hb as (Hm & Hs & _ & _ & _ & He & Hoh). subst oh.
    destruct it as [id| |h].
    + specialize (IH _ _ _ Hnp H) as (A & B & C & D). cbn [existsb item_match item_err_serial item_is_hay].
      cbn in He. rewrite orb_true_r in He.
      split; [rewrite A, Hm; reflexivity|]. split; [exact B|]. split; [|exact D].
      intros E; destruct (C E) as [C1 C2]; rewrite C1, C2, He, Hs. cbn. now rewrite orb_true_r.
    + specialize (IH _ _ _ Hnp H) as (A & B & C & D). cbn [existsb item_match item_err_serial item_is_hay].
      cbn in He. rewrite orb_false_r in He.
      split; [rewrite A, Hm; reflexivity|]. split; [exact B|]. split; [|exact D].
      intros E; destruct (C E) as [C1 C2]; rewrite C1, C2, He, Hs. auto.
    + cbn in He. rewrite orb_false_r in He.
      cbn [existsb item_match item_err_serial item_is_hay]. cbn [item_no_pipe_serial] in Hnp1.
      destruct (h_res h) eqn:Hr; try discriminate.
      * (* SMatch *)
        cbn [is_match] in H. rewrite orb_true_r in H. cbn [set_matched matched andb] in H.
        destruct (c_quit_after_match c) eqn:Hq.
        -- inversion H; subst. cbn. rewrite orb_true_r. repeat split; auto; discriminate.
        -- specialize (IH _ _ _ Hnp H) as (A & B & C & D). cbn in A.
           split; [rewrite A; cbn; now rewrite orb_true_r|]. split; [exact B|]. split; [|exact D].
           intros E; destruct (C E) as [C1 C2]. cbn in C1, C2. rewrite C1, C2, He. cbn.
           now rewrite orb_true_r.
      * (* SNoMatch *)
        cbn [is_match] in H. rewrite orb_false_r in H. cbn [set_matched matched] in H.
        destruct (matched (serial_emit c h (set_searched (h_id h) s1)) && c_quit_after_match c) eqn:Hq.
        -- inversion H; subst. apply andb_prop in Hq as [Hq1 Hq2]. cbn in Hq1. cbn.
           rewrite <- Hm, Hq1. cbn. repeat split; auto; discriminate.
        -- specialize (IH _ _ _ Hnp H) as (A & B & C & D). cbn in A.
           split; [rewrite A, Hm; reflexivity|]. split; [exact B|]. split; [|exact D].
           intros E; destruct (C E) as [C1 C2]. cbn in C1, C2. rewrite C1, C2, He. cbn.
           now rewrite orb_true_r.
      * (* SErr *)
        specialize (IH _ _ _ Hnp H) as (A & B & C & D). cbn in A.
        split; [rewrite A, Hm; reflexivity|]. split; [exact B|]. split; [|exact D].
        intros E; destruct (C E) as [C1 C2]. cbn in C1, C2. rewrite C1, C2. cbn.
        now rewrite !orb_true_r.
Qed.

(* ------------------------------------------------------------------ HiArgs::sort collecting first *)
Lemma hoist_spec : forall c items s hs s',
  hoist c items s = (hs, s') ->
  hs = filter item_is_hay items /\
  matched s' = matched s /\ searched s' = searched s /\ printed s' = printed s /\ out s' = out s /\
  done s' = done s /\ errored s' = errored s || existsb item_is_walk_err items.
Proof.
  intros c items; induction items as [|it rest IH]; intros s hs s' H.
  - cbn in H; inversion H; subst; cbn. now rewrite orb_false_r.
  - cbn [hoist] in H. destruct (build_from_result c it s) as [oh s1] eqn:Hb.
    destruct (hoist c rest s1) as [hs1 s2] eqn:Hh. inversion H; subst; clear H.
    apply bfr_flags in Hb as (A1 & A2 & A3 & A4 & A5 & A6 & A7).
    apply IH in Hh as (B0 & B1 & B2 & B3 & B4 & B5 & B6). subst.
    cbn [filter existsb]. rewrite B1, B2, B3, B4, B5, B6, A1, A2, A3, A4, A5, A6.
    destruct it; cbn; repeat split; auto; now rewrite ?orb_false_r, ?orb_true_r, ?orb_assoc.
Qed.

Lemma existsb_filter_hay : forall (f : item -> bool) items,
  (forall it, item_is_hay it = false -> f it = false) ->
  existsb f (filter item_is_hay items) = existsb f items.
Proof.
  intros f items Hf; induction items as [|it rest IH]; [reflexivity|].
  cbn. destruct (item_is_hay it) eqn:E; cbn; rewrite IH; [reflexivity|]. now rewrite (Hf _ E).
Qed.

Lemma forallb_filter : forall (f g : item -> bool) items,
  forallb f items = true -> forallb f (filter g items) = true.
Proof.
  intros f g items; induction items as [|it rest IH]; [reflexivity|]. cbn. intros H.
  apply andb_prop in H as [H1 H2]. destruct (g it); cbn; [rewrite H1|]; auto.
Qed.

Lemma err_serial_split : forall items,
  existsb item_err_serial items =
  existsb item_is_walk_err items || existsb item_err_serial (filter item_is_hay items).
Proof.
  induction items as [|it rest IH]; [reflexivity|]. cbn. rewrite IH.
  destruct it as [id| |h]; cbn; [now rewrite ?orb_true_r|reflexivity|].
  destruct (h_res h); cbn; auto. now rewrite ?orb_true_r.
Qed.

(* ------------------------------------------------------------------ status of the single-threaded search *)
Lemma finish_search_flags : forall c s,
  matched (finish_search c s) = matched s /\
  errored (finish_search c s) = errored s || (c_implicit_path c && negb (searched s)).
Proof.
  intros c s. unfold finish_search.
  destruct (c_implicit_path c && negb (searched s)); destruct (c_stats c); cbn;
    now rewrite ?orb_false_r, ?orb_true_r.
Qed.

Lemma search_serial_status_proof : forall c items r s',
  c_setup_ok c = true ->
  (c_quit_after_match c = true -> c_quiet c = true) ->
  forallb item_no_pipe_serial items = true ->
  search_serial c items st0 = (r, s') ->
  r = ROk (existsb item_match items) /\
  exit_code (existsb item_match items) (c_quiet c) (errored s') =
  spec_status c (existsb item_match items) (existsb item_err_serial items) (existsb item_is_hay items).
Proof.
  intros c items r s' Hok Hq Hnp H. unfold search_serial in H. rewrite Hok in H. cbn [negb] in H.
  assert (G : forall its s0 (Hm0 : matched s0 = false) (Hs0 : searched s0 = false),
             forallb item_no_pipe_serial its = true ->
             (let '(s, e) := search_loop c its s0 in
              match e with LPipe => (RPipe, s) | _ => (ROk (matched (finish_search c s)), finish_search c s) end)
             = (r, s') ->
             r = ROk (existsb item_match its) /\
             exit_code (existsb item_match its) (c_quiet c) (errored s') =
             spec_status c (existsb item_match its) (errored s0 || existsb item_err_serial its)
               (existsb item_is_hay its)).
  { intros its s0 Hm0 Hs0 Hnp0 H0.
    destruct (search_loop c its s0) as [s1 e] eqn:Hl.
    destruct (search_loop_flags _ _ _ _ _ Hnp0 Hl) as (A & B & C & D).
    rewrite Hm0 in A. cbn in A.
    destruct (finish_search_flags c s1) as [F1 F2].
    destruct B as [B|B]; subst e.
    - inversion H0; subst. destruct (C eq_refl) as [C1 C2]. rewrite F1, A. split; [reflexivity|].
      unfold spec_status. rewrite F2, C1, C2, Hs0. reflexivity.
    - inversion H0; subst. destruct (D eq_refl) as (D1 & D2 & D3). rewrite F1, D1.
      rewrite A in D1. rewrite D1. split; [reflexivity|].
      unfold spec_status. rewrite (Hq D2). now rewrite !exit_code_quiet_match. }
  destruct (c_collects c).
  - destruct (hoist c items st0) as [hs s1] eqn:Hh.
    apply hoist_spec in Hh as (E0 & E1 & E2 & _ & _ & _ & E6). subst hs. cbn in E1, E2, E6.
    specialize (G (filter item_is_hay items) s1 E1 E2 (forallb_filter _ _ _ Hnp) H).
    rewrite (existsb_filter_hay item_match) in G by (intros [|  |]; cbn; congruence).
    rewrite (existsb_filter_hay item_is_hay) in G by (intros [|  |]; cbn; congruence).
    rewrite E6, <- err_serial_split in G. exact G.
  - specialize (G items st0 eq_refl eq_refl Hnp H). exact G.
Qed.

(* ------------------------------------------------------------------ flags after the parallel search *)
Lemma bw_print_result : forall c h s p s',
  bw_print c h s = (p, s') -> p = match h_out h with [] => POk | _ => h_print h end.
Proof.
  intros c h s p s' H. unfold bw_print in H. destruct (h_out h); [now inversion H|].
  destruct (h_print h); now inversion H.
Qed.

Lemma par_step_ok : forall c h rest s s' e,
  (h_res h = SMatch \/ h_res h = SNoMatch) ->
  item_no_pipe_par (IHay h) = true ->
  par_loop c (IHay h :: rest) s = (s', e) ->
  exists s2,
    matched s2 = matched s || is_match (h_res h) /\ searched s2 = true /\
    errored s2 = errored s || item_err_par (IHay h) /\
    ((matched s2 && c_quit_after_match c = true /\ s' = s2 /\ e = LBreak) \/
     (matched s2 && c_quit_after_match c = false /\ par_loop c rest s2 = (s', e))).
Proof.
  intros c h rest s s' e Hrr Hnp H. cbn [par_loop build_from_result] in H.
  cbn [item_no_pipe_par] in Hnp. cbn [item_err_par].
  set (s1 := if is_match (h_res h) then set_matched true (set_searched (h_id h) s)
             else set_searched (h_id h) s) in *.
  assert (Hs1 : matched s1 = matched s || is_match (h_res h) /\ searched s1 = true /\ errored s1 = errored s).
  { subst s1. destruct (is_match (h_res h)); cbn; now rewrite ?orb_true_r, ?orb_false_r. }
  destruct Hs1 as (M1 & S1 & E1).
  assert (H' : (let '(p, s0) := bw_print c h s1 in
                match p with
                | PPipe => (s0, LPipe)
                | _ => let s2 := match p with PErr => err_message (c_messages c) (DgPrint (h_id h)) s0 | _ => s0 end in
                       if matched s2 && c_quit_after_match c then (s2, LBreak) else par_loop c rest s2
                end) = (s', e)).
  { subst s1. destruct Hrr as [Hr|Hr]; rewrite Hr in H |- *; exact H. }
  clear H.
  assert (Hnp' : match h_out h, h_print h with _ :: _, PPipe => false | _, _ => true end = true).
  { destruct Hrr as [Hr|Hr]; rewrite Hr in Hnp; destruct (h_out h), (h_print h); auto. }
  assert (Herr : (match h_res h with
                  | SErr | SPipe => true
                  | _ => match h_out h, h_print h with _ :: _, PErr => true | _, _ => false end
                  end) = match h_out h, h_print h with _ :: _, PErr => true | _, _ => false end).
  { destruct Hrr as [Hr|Hr]; rewrite Hr; reflexivity. }
  rewrite Herr. clear Herr Hnp.
  destruct (bw_print c h s1) as [p s0] eqn:Hp.
  pose proof (bw_print_result _ _ _ _ _ Hp) as Hpr.
  apply bw_print_flags in Hp as (P1 & P2 & P3 & _ & _).
  destruct p.
  - exists s0. rewrite P1, P2, P3, M1, S1, E1.
    assert (Hz : match h_out h, h_print h with _ :: _, PErr => true | _, _ => false end = false).
    { destruct (h_out h); [reflexivity|]. rewrite <- Hpr. reflexivity. }
    rewrite Hz, orb_false_r. split; [reflexivity|]. split; [reflexivity|]. split; [reflexivity|].
    rewrite <- M1, <- P1.
    cbv zeta in H'.
    destruct (matched s0 && c_quit_after_match c) eqn:Q; [left|right]; inversion H'; subst; auto.
  - exfalso. destruct (h_out h); [discriminate|]. rewrite <- Hpr in Hnp'. discriminate.
  - exists (err_message (c_messages c) (DgPrint (h_id h)) s0). cbn [matched searched errored err_message].
    rewrite P1, P2, M1, S1.
    assert (Hz : match h_out h, h_print h with _ :: _, PErr => true | _, _ => false end = true).
    { destruct (h_out h); [discriminate|]. rewrite <- Hpr. reflexivity. }
    rewrite Hz, orb_true_r. split; [reflexivity|]. split; [reflexivity|]. split; [reflexivity|].
    cbv zeta in H'. cbn [matched err_message] in H'. rewrite P1, M1 in H'.
    destruct ((matched s || is_match (h_res h)) && c_quit_after_match c) eqn:Q; [left|right];
      inversion H'; subst; auto.
Qed.

Lemma par_loop_flags : forall c items s s' e,
  forallb item_no_pipe_par items = true ->
  par_loop c items s = (s', e) ->
  matched s' = matched s || existsb item_match items /\
  (e = LEnd \/ e = LBreak) /\
  (e = LEnd -> errored s' = errored s || existsb item_err_par items /\
               searched s' = searched s || existsb item_is_hay items) /\
  (e = LBreak -> matched s' = true /\ c_quit_after_match c = true /\ searched s' = true).
Proof.
  intros c items; induction items as [|it rest IH]; intros s s' e Hnp H.
  - cbn in H; inversion H; subst; cbn. rewrite !orb_false_r. repeat split; auto; discriminate.
  - cbn [forallb] in Hnp. apply andb_prop in Hnp as [Hnp1 Hnp].
    destruct it as [id| |h].
    + cbn [par_loop build_from_result] in H.
      specialize (IH _ _ _ Hnp H) as (A & B & C & D). cbn [existsb item_match item_err_par item_is_hay].
      cbn in A. split; [exact A|]. split; [exact B|]. split; [|exact D].
      intros E; destruct (C E) as [C1 C2]; rewrite C1, C2. cbn. now rewrite orb_true_r.
    + cbn [par_loop build_from_result] in H.
      specialize (IH _ _ _ Hnp H) as (A & B & C & D). cbn [existsb item_match item_err_par item_is_hay].
      split; [exact A|]. split; [exact B|]. split; [|exact D]. exact C.
    + destruct (h_res h) eqn:Hr.
      1,2: (edestruct (par_step_ok c h rest s s' e) as (s2 & M2 & S2 & E2 & [(Q & -> & ->)|(Q & L)]);
            [rewrite Hr; auto|exact Hnp1| exact H | |]; rewrite Hr in M2).
      * apply andb_prop in Q as [Q1 Q2]. cbn [existsb item_match]. rewrite Hr. cbn [is_match] in *.
        rewrite orb_true_r. repeat split; auto; try discriminate.
      * specialize (IH _ _ _ Hnp L) as (A & B & C & D). cbn [existsb item_match item_is_hay]. rewrite Hr.
        split; [rewrite A, M2; now rewrite orb_assoc|]. split; [exact B|]. split; [|exact D].
        intros E; destruct (C E) as [C1 C2]. rewrite C1, C2, E2, S2. cbn. now rewrite orb_assoc, orb_true_r.
      * apply andb_prop in Q as [Q1 Q2]. cbn [existsb item_match]. rewrite Hr. cbn [is_match] in *.
        rewrite orb_false_r in M2. rewrite <- M2, Q1. cbn. repeat split; auto; try discriminate.
      * specialize (IH _ _ _ Hnp L) as (A & B & C & D). cbn [existsb item_match item_is_hay]. rewrite Hr.
        split; [rewrite A, M2; now rewrite orb_assoc|]. split; [exact B|]. split; [|exact D].
        intros E; destruct (C E) as [C1 C2]. rewrite C1, C2, E2, S2. cbn. now rewrite orb_assoc, orb_true_r.
      * cbn [par_loop build_from_result] in H. rewrite Hr in H.
        specialize (IH _ _ _ Hnp H) as (A & B & C & D). cbn [existsb item_match item_err_par item_is_hay].
        rewrite Hr. cbn in A. split; [exact A|]. split; [exact B|]. split; [|exact D].
        intros E; destruct (C E) as [C1 C2]. cbn in C1, C2. rewrite C1, C2. cbn. now rewrite !orb_true_r.
      * cbn [par_loop build_from_result] in H. rewrite Hr in H.
        specialize (IH _ _ _ Hnp H) as (A & B & C & D). cbn [existsb item_match item_err_par item_is_hay].
        rewrite Hr. cbn in A. split; [exact A|]. split; [exact B|]. split; [|exact D].
        intros E; destruct (C E) as [C1 C2]. cbn in C1, C2. rewrite C1, C2. cbn. now rewrite !orb_true_r.
Qed.

Lemma finish_parallel_flags : forall c e s,
  matched (finish_parallel c e s) = matched s /\
  errored (finish_parallel c e s) = errored s || (c_implicit_path c && negb (searched s)).
Proof.
  intros c e s. unfold finish_parallel.
  set (s1 := if c_implicit_path c && negb (searched s) then _ else s).
  assert (A : matched s1 = matched s /\ errored s1 = errored s || (c_implicit_path c && negb (searched s))).
  { subst s1. destruct (c_implicit_path c && negb (searched s)); cbn; now rewrite ?orb_false_r, ?orb_true_r. }
  destruct A as [A1 A2].
  destruct (c_stats c) as [t|]; [|auto]. destruct e; auto;
    destruct (bw_print c _ s1) as [p s2] eqn:Hp; apply bw_print_flags in Hp as (P1 & _ & P3 & _); cbn [snd];
    rewrite P1, P3; auto.
Qed.

Lemma search_parallel_status_proof : forall c items r s',
  c_setup_ok c = true ->
  (c_quit_after_match c = true -> c_quiet c = true) ->
  forallb item_no_pipe_par items = true ->
  search_parallel c items st0 = (r, s') ->
  r = ROk (existsb item_match items) /\
  exit_code (existsb item_match items) (c_quiet c) (errored s') =
  spec_status c (existsb item_match items) (existsb item_err_par items) (existsb item_is_hay items).
Proof.
  intros c items r s' Hok Hq Hnp H. unfold search_parallel in H. rewrite Hok in H. cbn [negb] in H.
  destruct (par_loop c items st0) as [s1 e] eqn:Hl.
  destruct (par_loop_flags _ _ _ _ _ Hnp Hl) as (A & B & C & D). cbn in A.
  destruct (finish_parallel_flags c e s1) as [F1 F2].
  inversion H; subst; clear H. rewrite F1.
  destruct B as [B|B]; subst e.
  - destruct (C eq_refl) as [C1 C2]. rewrite A. split; [reflexivity|].
    unfold spec_status. rewrite F2, C1, C2. reflexivity.
  - destruct (D eq_refl) as (D1 & D2 & D3). rewrite D1. rewrite A in D1. rewrite D1. split; [reflexivity|].
    unfold spec_status. rewrite (Hq D2). now rewrite !exit_code_quiet_match.
Qed.

Lemma existsb_perm : forall (f : item -> bool) l l', Permutation l l' -> existsb f l = existsb f l'.
Proof.
  intros f l l' P; induction P; cbn; auto.
  - now rewrite IHP.
  - destruct (f x), (f y); reflexivity.
  - now rewrite IHP1.
Qed.

Lemma forallb_perm : forall (f : item -> bool) l l', Permutation l l' -> forallb f l = forallb f l'.
Proof.
  intros f l l' P; induction P; cbn; auto.
  - now rewrite IHP.
  - destruct (f x), (f y); reflexivity.
  - now rewrite IHP1.
Qed.

(* the exit status of the parallel search does not depend on the order in which the files complete, and it is
   the status of the single-threaded search of the same files (whose per-file print results are all Ok:
   the serial driver has no separate print step) *)
Lemma parallel_status_order_independent_proof : forall c items items' r1 s1 r2 s2,
  c_setup_ok c = true ->
  (c_quit_after_match c = true -> c_quiet c = true) ->
  Permutation items items' ->
  forallb item_no_pipe_par items = true ->
  search_parallel c items st0 = (r1, s1) ->
  search_parallel c items' st0 = (r2, s2) ->
  r1 = r2 /\
  exit_code (existsb item_match items) (c_quiet c) (errored s1) =
  exit_code (existsb item_match items') (c_quiet c) (errored s2).
Proof.
  intros c items items' r1 s1 r2 s2 Hok Hq P Hnp H1 H2.
  assert (Hnp' : forallb item_no_pipe_par items' = true) by (now rewrite <- (forallb_perm _ _ _ P)).
  destruct (search_parallel_status_proof _ _ _ _ Hok Hq Hnp H1) as [A1 A2].
  destruct (search_parallel_status_proof _ _ _ _ Hok Hq Hnp' H2) as [B1 B2].
  rewrite A1, B1, A2, B2. rewrite !(existsb_perm _ _ _ P). auto.
Qed.

Lemma serial_parallel_same_status_proof : forall c items items' r1 s1 r2 s2,
  c_setup_ok c = true ->
  (c_quit_after_match c = true -> c_quiet c = true) ->
  Permutation items items' ->
  forallb item_no_pipe_serial items = true ->
  forallb item_print_ok items = true ->
  search_serial c items st0 = (r1, s1) ->
  search_parallel c items' st0 = (r2, s2) ->
  r1 = r2 /\
  exit_code (existsb item_match items) (c_quiet c) (errored s1) =
  exit_code (existsb item_match items') (c_quiet c) (errored s2).
Proof.
  intros c items items' r1 s1 r2 s2 Hok Hq P Hnp Hpo H1 H2.
  assert (Hnpp : forallb item_no_pipe_par items = true).
  { clear - Hpo. induction items as [|it rest IH]; [reflexivity|]. cbn in *. apply andb_prop in Hpo as [A B].
    rewrite (IH B), andb_true_r. destruct it as [| |h]; auto. cbn in *. destruct (h_print h); try discriminate.
    destruct (h_res h), (h_out h); reflexivity. }
  assert (Herr : existsb item_err_par items = existsb item_err_serial items).
  { clear - Hpo Hnp. induction items as [|it rest IH]; [reflexivity|]. cbn in *.
    apply andb_prop in Hpo as [A B]. apply andb_prop in Hnp as [C D]. rewrite (IH D B). f_equal.
    destruct it as [| |h]; auto. cbn in *. destruct (h_print h); try discriminate.
    destruct (h_res h); try discriminate; destruct (h_out h); reflexivity. }
  assert (Hnp' : forallb item_no_pipe_par items' = true) by (now rewrite <- (forallb_perm _ _ _ P)).
  destruct (search_serial_status_proof _ _ _ _ Hok Hq Hnp H1) as [A1 A2].
  destruct (search_parallel_status_proof _ _ _ _ Hok Hq Hnp' H2) as [B1 B2].
  rewrite A1, B1, A2, B2. rewrite <- !(existsb_perm _ _ _ P), Herr. auto.
Qed.

(* ------------------------------------------------------------------ --files drivers *)
Lemma files_loop_flags : forall c items s s' e,
  forallb item_print_ok items = true ->
  files_loop c items s = (s', e) ->
  matched s' = matched s || existsb item_is_hay items /\
  (e = LEnd \/ e = LBreak) /\
  (e = LEnd -> errored s' = errored s || existsb item_is_walk_err items) /\
  (e = LBreak -> matched s' = true /\ c_quit_after_match c = true).
Proof.
  intros c items; induction items as [|it rest IH]; intros s s' e Hpo H.
  - cbn in H; inversion H; subst; cbn. rewrite !orb_false_r. repeat split; auto; discriminate.
  - cbn [forallb] in Hpo. apply andb_prop in Hpo as [Hp1 Hpo].
    cbn [files_loop] in H. destruct it as [id| |h]; cbn [build_from_result] in H.
    + specialize (IH _ _ _ Hpo H) as (A & B & C & D). cbn in A. cbn [existsb item_is_hay item_is_walk_err].
      split; [exact A|]. split; [exact B|]. split; [|exact D].
      intros E; rewrite (C E). cbn. now rewrite orb_true_r.
    + specialize (IH _ _ _ Hpo H) as (A & B & C & D). cbn [existsb item_is_hay item_is_walk_err].
      split; [exact A|]. split; [exact B|]. split; [|exact D]. exact C.
    + cbn [existsb item_is_hay item_is_walk_err]. rewrite orb_true_r.
      destruct (c_quit_after_match c) eqn:Q.
      * inversion H; subst. cbn. repeat split; auto; discriminate.
      * cbn [item_print_ok] in Hp1. destruct (h_print h); try discriminate.
        specialize (IH _ _ _ Hpo H) as (A & B & C & D). cbn in A.
        split; [exact A|]. split; [exact B|]. split; [|exact D].
        intros E; rewrite (C E). reflexivity.
Qed.

Lemma existsb_walk_err_filter : forall items,
  existsb item_is_walk_err (filter item_is_hay items) = false.
Proof. induction items as [|[| |h] rest IH]; cbn; auto. Qed.

Lemma files_serial_status_proof : forall c items r s',
  c_setup_ok c = true ->
  (c_quit_after_match c = true -> c_quiet c = true) ->
  forallb item_print_ok items = true ->
  files_serial c items st0 = (r, s') ->
  r = ROk (existsb item_is_hay items) /\
  exit_code (existsb item_is_hay items) (c_quiet c) (errored s') =
  exit_code (existsb item_is_hay items) (c_quiet c) (existsb item_is_walk_err items).
Proof.
  intros c items r s' Hok Hq Hpo H. unfold files_serial in H. rewrite Hok in H. cbn [negb] in H.
  assert (G : forall its s0 (Hm0 : matched s0 = false),
             forallb item_print_ok its = true ->
             (let '(s, e) := files_loop c its s0 in
              match e with LFatal => (RFatal, s) | _ => (ROk (matched s), s) end) = (r, s') ->
             r = ROk (existsb item_is_hay its) /\
             exit_code (existsb item_is_hay its) (c_quiet c) (errored s') =
             exit_code (existsb item_is_hay its) (c_quiet c) (errored s0 || existsb item_is_walk_err its)).
  { intros its s0 Hm0 Hpo0 H0. destruct (files_loop c its s0) as [s1 e] eqn:Hl.
    destruct (files_loop_flags _ _ _ _ _ Hpo0 Hl) as (A & B & C & D). rewrite Hm0 in A; cbn in A.
    destruct B as [B|B]; subst e; inversion H0; subst.
    - rewrite A, (C eq_refl). auto.
    - destruct (D eq_refl) as [D1 D2]. rewrite D1. rewrite A in D1. rewrite D1. split; [reflexivity|].
      rewrite (Hq D2). now rewrite !exit_code_quiet_match. }
  destruct (c_collects c).
  - destruct (hoist c items st0) as [hs s1] eqn:Hh.
    apply hoist_spec in Hh as (E0 & E1 & _ & _ & _ & _ & E6). subst hs. cbn in E1, E6.
    specialize (G (filter item_is_hay items) s1 E1 (forallb_filter _ _ _ Hpo) H).
    rewrite (existsb_filter_hay item_is_hay) in G by (intros [| |]; cbn; congruence).
    rewrite existsb_walk_err_filter, orb_false_r, E6 in G. exact G.
  - exact (G items st0 eq_refl Hpo H).
Qed.

Lemma files_par_workers_spec : forall c items s q s' q',
  files_par_workers c items s q = (s', q') ->
  matched s' = matched s || existsb item_is_hay items /\
  out s' = out s /\ printed s' = printed s /\
  (c_quit_after_match c = false \/ existsb item_is_hay items = false ->
     errored s' = errored s || existsb item_is_walk_err items) /\
  (c_quit_after_match c = false ->
     q' = q ++ flat_map (fun it => match it with IHay h => [h] | _ => [] end) items) /\
  (c_quit_after_match c = true -> q' = q).
Proof.
  intros c items; induction items as [|it rest IH]; intros s q s' q' H.
  - cbn in H; inversion H; subst; cbn. rewrite !orb_false_r, app_nil_r. repeat split; auto.
  - cbn [files_par_workers] in H. destruct it as [id| |h]; cbn [build_from_result] in H.
    + apply IH in H as (A & B & B' & C & C' & D). cbn in A, B, B'.
      cbn [existsb item_is_hay item_is_walk_err flat_map orb].
      split; [exact A|]. split; [exact B|]. split; [exact B'|]. split; [|split; [exact C'|exact D]].
      intros Q; rewrite (C Q). cbn. now rewrite orb_true_r.
    + apply IH in H as (A & B & B' & C & C' & D). cbn [existsb item_is_hay item_is_walk_err flat_map orb].
      split; [exact A|]. split; [exact B|]. split; [exact B'|]. split; [exact C|]. split; [exact C'|exact D].
    + cbn [existsb item_is_hay item_is_walk_err flat_map]. rewrite orb_true_r.
      destruct (c_quit_after_match c) eqn:Q.
      * inversion H; subst. cbn. repeat split; auto; try discriminate. intros [X|X]; discriminate.
      * apply IH in H as (A & B & B' & C & C' & D). cbn in A, B, B'.
        split; [exact A|]. split; [exact B|]. split; [exact B'|]. split; [|split; [|intros; discriminate]].
        -- intros _. rewrite (C (or_introl eq_refl)). reflexivity.
        -- intros _. rewrite (C' eq_refl), <- app_assoc. reflexivity.
Qed.

Lemma print_thread_flags : forall q s s' r,
  print_thread q s = (s', r) ->
  matched s' = matched s /\ errored s' = errored s /\ diags s' = diags s /\
  (forallb (fun h => match h_print h with POk => true | _ => false end) q = true -> r = POk).
Proof.
  induction q as [|h rest IH]; intros s s' r H.
  - cbn in H; inversion H; subst; auto.
  - cbn [print_thread] in H. destruct (h_print h) eqn:Hp.
    + apply IH in H as (A & B & C & D). cbn in A, B, C. cbn [forallb]. rewrite Hp. auto.
    + inversion H; subst. cbn. rewrite Hp. repeat split; auto; discriminate.
    + inversion H; subst. cbn. rewrite Hp. repeat split; auto; discriminate.
Qed.

Lemma files_parallel_status_proof : forall c items r s',
  c_setup_ok c = true ->
  (c_quit_after_match c = true -> c_quiet c = true) ->
  forallb item_print_ok items = true ->
  files_parallel c items st0 = (r, s') ->
  r = ROk (existsb item_is_hay items) /\
  exit_code (existsb item_is_hay items) (c_quiet c) (errored s') =
  exit_code (existsb item_is_hay items) (c_quiet c) (existsb item_is_walk_err items).
Proof.
  intros c items r s' Hok Hq Hpo H. unfold files_parallel in H. rewrite Hok in H. cbn [negb] in H.
  destruct (files_par_workers c items st0 []) as [s1 q] eqn:Hw.
  apply files_par_workers_spec in Hw as (A & _ & _ & C & C' & D). cbn in A, C.
  destruct (print_thread q s1) as [s2 pr] eqn:Hp.
  apply print_thread_flags in Hp as (P1 & P2 & _ & P4).
  destruct (c_quit_after_match c) eqn:Q.
  - rewrite (D eq_refl) in P4. rewrite (P4 eq_refl) in H. inversion H; subst.
    rewrite P1, A. split; [reflexivity|]. rewrite (Hq eq_refl).
    destruct (existsb item_is_hay items) eqn:E.
    + now rewrite !exit_code_quiet_match.
    + rewrite P2, (C (or_intror eq_refl)). reflexivity.
  - cbn in C'. specialize (C' eq_refl).
    assert (Hq' : forallb (fun h => match h_print h with POk => true | _ => false end) q = true).
    { subst q. clear - Hpo. induction items as [|[| |h] rest IH]; cbn in *; auto.
      apply andb_prop in Hpo as [X Y]. destruct (h_print h); try discriminate. cbn. auto. }
    rewrite (P4 Hq') in H. inversion H; subst. rewrite P1, A, P2, (C (or_introl eq_refl)). auto.
Qed.

(* ------------------------------------------------------------------ an error does not suppress the other files *)
Lemma same_output_refl : forall s, same_output s s.
Proof. intros; unfold same_output; auto. Qed.

Lemma serial_emit_same : forall c h s t,
  same_output s t -> same_output (serial_emit c h s) (serial_emit c h t).
Proof.
  intros c h s t (A & B & C). unfold same_output, serial_emit, write_out, sep_line; cbn. rewrite A, B, C. auto.
Qed.

Lemma search_loop_drop_failed : forall c items s t s' e t' e',
  same_output s t ->
  search_loop c items s = (s', e) ->
  search_loop c (filter serial_ok_item items) t = (t', e') ->
  same_output s' t' /\ e = e'.
Proof.
  intros c items; induction items as [|it rest IH]; intros s t s' e t' e' Hst H1 H2.
  - cbn in H1, H2. inversion H1; inversion H2; subst; auto.
  - destruct it as [id| |h].
    + cbn [filter serial_ok_item] in H2. cbn [search_loop build_from_result] in H1.
      eapply IH; [|exact H1|exact H2]. destruct Hst as (A & B & C); unfold same_output; cbn; auto.
    + cbn [filter serial_ok_item] in H2. cbn [search_loop build_from_result] in H1, H2.
      eapply IH; [exact Hst|exact H1|exact H2].
    + cbn [filter serial_ok_item] in H2. cbn [search_loop build_from_result] in H1.
      assert (Hem : same_output (serial_emit c h (set_searched (h_id h) s)) (serial_emit c h (set_searched (h_id h) t))).
      { apply serial_emit_same. destruct Hst as (A & B & C); unfold same_output; cbn; auto. }
      destruct (h_res h) eqn:Hr.
      * cbn [search_loop build_from_result] in H2. rewrite Hr in H2.
        cbn [is_match] in H1, H2. rewrite orb_true_r in H1, H2. cbn [set_matched matched andb] in H1, H2.
        destruct (c_quit_after_match c).
        -- inversion H1; inversion H2; subst. split; [|reflexivity].
           destruct Hem as (A & B & C); unfold same_output; cbn; auto.
        -- eapply IH; [|exact H1|exact H2]. destruct Hem as (A & B & C); unfold same_output; cbn; auto.
      * cbn [search_loop build_from_result] in H2. rewrite Hr in H2.
        cbn [is_match] in H1, H2. rewrite orb_false_r in H1, H2. cbn [set_matched matched] in H1, H2.
        destruct Hem as (A & B & C). rewrite A in H1.
        destruct (matched (serial_emit c h (set_searched (h_id h) t)) && c_quit_after_match c).
        -- inversion H1; inversion H2; subst. split; [|reflexivity]. unfold same_output; cbn; auto.
        -- eapply IH; [|exact H1|exact H2]. unfold same_output; cbn; auto.
      * destruct (h_out h) eqn:Ho.
        -- (* dropped on the right: it wrote nothing on the left *)
           eapply IH; [|exact H1|exact H2].
           destruct Hst as (A & B & C). unfold same_output, serial_emit, write_out, sep_line; cbn.
           rewrite Ho. cbn. now rewrite app_nil_r, orb_false_r.
        -- cbn [search_loop build_from_result] in H2. rewrite Hr in H2.
           eapply IH; [|exact H1|exact H2]. destruct Hem as (A & B & C); unfold same_output; cbn; auto.
      * cbn [filter serial_ok_item search_loop build_from_result] in H2. rewrite Hr in H2.
        inversion H1; inversion H2; subst. auto.
Qed.

Lemma filter_comm : forall (f g : item -> bool) l, filter f (filter g l) = filter g (filter f l).
Proof.
  intros f g l; induction l as [|x l IH]; [reflexivity|]. cbn.
  destruct (f x) eqn:F, (g x) eqn:G; cbn; rewrite ?F, ?G, IH; reflexivity.
Qed.

Lemma finish_search_same : forall c s t,
  same_output s t -> same_output (finish_search c s) (finish_search c t).
Proof.
  intros c s t (A & B & C). unfold finish_search.
  destruct (c_implicit_path c && negb (searched s)), (c_implicit_path c && negb (searched t)), (c_stats c);
    unfold same_output; cbn; rewrite ?A, ?B, ?C; auto.
Qed.

Lemma error_does_not_suppress_serial_proof : forall c items r1 s1 r2 s2,
  search_serial c items st0 = (r1, s1) ->
  search_serial c (filter serial_ok_item items) st0 = (r2, s2) ->
  r1 = r2 /\ out s1 = out s2.
Proof.
  intros c items r1 s1 r2 s2 H1 H2. unfold search_serial in H1, H2.
  destruct (c_setup_ok c); cbn [negb] in H1, H2; [|inversion H1; inversion H2; subst; auto].
  assert (G : forall its s t, same_output s t ->
            (let '(s', e) := search_loop c its s in
             match e with LPipe => (RPipe, s') | _ => (ROk (matched (finish_search c s')), finish_search c s') end)
            = (r1, s1) ->
            (let '(s', e) := search_loop c (filter serial_ok_item its) t in
             match e with LPipe => (RPipe, s') | _ => (ROk (matched (finish_search c s')), finish_search c s') end)
            = (r2, s2) -> r1 = r2 /\ out s1 = out s2).
  { intros its s t Hst G1 G2.
    destruct (search_loop c its s) as [s' e] eqn:L1.
    destruct (search_loop c (filter serial_ok_item its) t) as [t' e'] eqn:L2.
    destruct (search_loop_drop_failed _ _ _ _ _ _ _ _ Hst L1 L2) as [Hso ->].
    pose proof (finish_search_same c _ _ Hso) as (F1 & F2 & F3).
    destruct Hso as (A & B & C).
    destruct e'; inversion G1; inversion G2; subst; rewrite ?F1; auto. }
  destruct (c_collects c).
  - destruct (hoist c items st0) as [hs1 t1] eqn:Hh1.
    destruct (hoist c (filter serial_ok_item items) st0) as [hs2 t2] eqn:Hh2.
    apply hoist_spec in Hh1 as (E0 & E1 & _ & E3 & E4 & _). apply hoist_spec in Hh2 as (F0 & F1 & _ & F3 & F4 & _).
    subst hs1 hs2. rewrite filter_comm in H2.
    eapply G; [|exact H1|exact H2]. unfold same_output. rewrite E1, E3, E4, F1, F3, F4. auto.
  - eapply G; [apply same_output_refl|exact H1|exact H2].
Qed.

(* parallel: a failing file's buffer is dropped, so the file can be removed whatever it had produced *)
Lemma par_hay_ok_same : forall c h (m : bool) s t,
  same_output s t ->
  let sa := (if m then set_matched true (set_searched (h_id h) s) else set_searched (h_id h) s) in
  let sb := (if m then set_matched true (set_searched (h_id h) t) else set_searched (h_id h) t) in
  fst (bw_print c h sa) = fst (bw_print c h sb) /\
  same_output (snd (bw_print c h sa)) (snd (bw_print c h sb)).
Proof.
  intros c h m s t (A & B & C) sa sb.
  assert (Hab : same_output sa sb) by (subst sa sb; destruct m; unfold same_output; cbn; auto).
  destruct Hab as (A' & B' & C').
  unfold bw_print, write_out, sep_line, same_output.
  destruct (h_out h); [cbn; auto|]. destruct (h_print h); cbn; rewrite ?A', ?B', ?C'; auto.
Qed.

Lemma par_loop_drop_failed : forall c items s t s' e t' e',
  same_output s t ->
  par_loop c items s = (s', e) ->
  par_loop c (filter par_ok_item items) t = (t', e') ->
  same_output s' t' /\ e = e'.
Proof.
  intros c items; induction items as [|it rest IH]; intros s t s' e t' e' Hst H1 H2.
  - cbn in H1, H2. inversion H1; inversion H2; subst; auto.
  - destruct it as [id| |h].
    + cbn [filter par_ok_item] in H2. cbn [par_loop build_from_result] in H1.
      eapply IH; [|exact H1|exact H2]. destruct Hst as (A & B & C); unfold same_output; cbn; auto.
    + cbn [filter par_ok_item] in H2. cbn [par_loop build_from_result] in H1, H2.
      eapply IH; [exact Hst|exact H1|exact H2].
    + assert (Hok : forall m, (h_res h = SMatch \/ h_res h = SNoMatch) -> is_match (h_res h) = m ->
        (let '(p, s0) := bw_print c h (if m then set_matched true (set_searched (h_id h) s) else set_searched (h_id h) s) in
         match p with
         | PPipe => (s0, LPipe)
         | _ => let s2 := match p with PErr => err_message (c_messages c) (DgPrint (h_id h)) s0 | _ => s0 end in
                if matched s2 && c_quit_after_match c then (s2, LBreak) else par_loop c rest s2
         end) = (s', e) ->
        (let '(p, s0) := bw_print c h (if m then set_matched true (set_searched (h_id h) t) else set_searched (h_id h) t) in
         match p with
         | PPipe => (s0, LPipe)
         | _ => let s2 := match p with PErr => err_message (c_messages c) (DgPrint (h_id h)) s0 | _ => s0 end in
                if matched s2 && c_quit_after_match c then (s2, LBreak)
                else par_loop c (filter par_ok_item rest) s2
         end) = (t', e') ->
        same_output s' t' /\ e = e').
      { intros m _ _ G1 G2. destruct (par_hay_ok_same c h m s t Hst) as [Hp Hso].
        destruct (bw_print c h (if m then set_matched true (set_searched (h_id h) s) else _)) as [pa sa'].
        destruct (bw_print c h (if m then set_matched true (set_searched (h_id h) t) else _)) as [pb sb'].
        cbn [fst snd] in Hp, Hso. subst pb. destruct Hso as (A & B & C).
        destruct pa; cbv zeta in G1, G2.
        - rewrite A in G1. destruct (matched sb' && c_quit_after_match c).
          + inversion G1; inversion G2; subst. split; [unfold same_output; auto|reflexivity].
          + eapply IH; [|exact G1|exact G2]. unfold same_output; auto.
        - inversion G1; inversion G2; subst. split; [unfold same_output; auto|reflexivity].
        - cbn [matched err_message] in G1, G2. rewrite A in G1.
          destruct (matched sb' && c_quit_after_match c).
          + inversion G1; inversion G2; subst. split; [unfold same_output; cbn; auto|reflexivity].
          + eapply IH; [|exact G1|exact G2]. unfold same_output; cbn; auto. }
      cbn [filter par_ok_item] in H2. cbn [par_loop build_from_result] in H1.
      destruct (h_res h) eqn:Hr.
      * cbn [par_loop build_from_result] in H2. rewrite Hr in H2.
        exact (Hok true (or_introl eq_refl) eq_refl H1 H2).
      * cbn [par_loop build_from_result] in H2. rewrite Hr in H2.
        exact (Hok false (or_intror eq_refl) eq_refl H1 H2).
      * eapply IH; [|exact H1|exact H2]. destruct Hst as (A & B & C); unfold same_output; cbn; auto.
      * eapply IH; [|exact H1|exact H2]. destruct Hst as (A & B & C); unfold same_output; cbn; auto.
Qed.

Lemma error_does_not_suppress_parallel_proof : forall c items r1 s1 r2 s2,
  search_parallel c items st0 = (r1, s1) ->
  search_parallel c (filter par_ok_item items) st0 = (r2, s2) ->
  r1 = r2 /\ out s1 = out s2.
Proof.
  intros c items r1 s1 r2 s2 H1 H2. unfold search_parallel in H1, H2.
  destruct (c_setup_ok c); cbn [negb] in H1, H2; [|inversion H1; inversion H2; subst; auto].
  destruct (par_loop c items st0) as [s' e] eqn:L1.
  destruct (par_loop c (filter par_ok_item items) st0) as [t' e'] eqn:L2.
  destruct (par_loop_drop_failed _ _ _ _ _ _ _ _ (same_output_refl st0) L1 L2) as [(A & B & C) ->].
  inversion H1; inversion H2; subst; clear H1 H2.
  destruct (finish_parallel_flags c e' s') as [F1 _]. destruct (finish_parallel_flags c e' t') as [G1 _].
  rewrite F1, G1, A. split; [reflexivity|].
  unfold finish_parallel.
  set (sa := if c_implicit_path c && negb (searched s') then _ else s').
  set (sb := if c_implicit_path c && negb (searched t') then _ else t').
  assert (Hab : printed sa = printed sb /\ out sa = out sb).
  { subst sa sb. destruct (c_implicit_path c && negb (searched s')), (c_implicit_path c && negb (searched t')); cbn; auto. }
  destruct Hab as [X Y].
  destruct (c_stats c) as [tx|]; [|exact Y]. destruct e'; try exact Y;
    unfold bw_print, write_out, sep_line; cbn; destruct tx; cbn; rewrite ?X, ?Y; auto.
Qed.

(* ------------------------------------------------------------------ the consumer closes stdout *)
(* single-threaded search: wherever the pipe breaks, the loop stops at that file, the driver returns
   Err(BrokenPipe), nothing is added to stderr, nothing after it is searched *)
Lemma broken_pipe_serial_search_proof : forall c l1 h l2 s1,
  c_setup_ok c = true -> c_collects c = false ->
  search_loop c l1 st0 = (s1, LEnd) ->
  h_res h = SPipe ->
  exists s', search_serial c (l1 ++ IHay h :: l2) st0 = (RPipe, s') /\
             diags s' = diags s1 /\ errored s' = errored s1 /\ done s' = done s1 ++ [h_id h].
Proof.
  intros c l1 h l2 s1 Hok Hc Hl Hr. unfold search_serial. rewrite Hok, Hc. cbn [negb].
  rewrite search_loop_app, Hl. cbn [search_loop build_from_result]. rewrite Hr.
  eexists; split; [reflexivity|]. cbn. auto.
Qed.

(* if the loop had already stopped (quit_after_match) the pipe is never touched again *)
Lemma serial_search_stops_at_break : forall c l1 l2 s1,
  search_loop c l1 st0 = (s1, LBreak) ->
  search_loop c (l1 ++ l2) st0 = (s1, LBreak).
Proof. intros c l1 l2 s1 H. now rewrite search_loop_app, H. Qed.

(* multi-threaded search *)
Lemma broken_pipe_parallel_search_proof : forall c l1 h l2 s1 x xs,
  c_setup_ok c = true ->
  par_loop c l1 st0 = (s1, LEnd) ->
  (h_res h = SMatch \/ h_res h = SNoMatch) -> h_out h = x :: xs -> h_print h = PPipe ->
  exists s', search_parallel c (l1 ++ IHay h :: l2) st0 = (ROk (matched s1 || is_match (h_res h)), s') /\
             diags s' = diags s1 /\ errored s' = errored s1 /\ out s' = out s1 /\
             done s' = done s1 ++ [h_id h].
Proof.
  intros c l1 h l2 s1 x xs Hok Hl Hr Ho Hp. unfold search_parallel. rewrite Hok. cbn [negb].
  rewrite par_loop_app, Hl. cbn [par_loop build_from_result].
  assert (E : forall sx : st, bw_print c h sx = (PPipe, sx)).
  { intros sx. unfold bw_print. rewrite Ho, Hp. reflexivity. }
  assert (F : forall sx : st, searched sx = true ->
            finish_parallel c LPipe sx = sx).
  { intros sx Hs. unfold finish_parallel. rewrite Hs. cbn [negb]. rewrite andb_false_r. destruct (c_stats c); reflexivity. }
  destruct Hr as [Hr|Hr]; rewrite Hr; cbn [is_match]; rewrite E; rewrite F by reflexivity;
    (eexists; split; [cbn [matched set_matched set_searched]; rewrite ?orb_true_r, ?orb_false_r; reflexivity|]);
    cbn; auto.
Qed.

(* --files, one thread *)
Lemma broken_pipe_files_serial_proof : forall c l1 h l2 s1,
  c_setup_ok c = true -> c_collects c = false -> c_quit_after_match c = false ->
  files_loop c l1 st0 = (s1, LEnd) ->
  h_print h = PPipe ->
  exists s', files_serial c (l1 ++ IHay h :: l2) st0 = (ROk true, s') /\
             diags s' = diags s1 /\ errored s' = errored s1 /\ out s' = out s1.
Proof.
  intros c l1 h l2 s1 Hok Hc Hq Hl Hp. unfold files_serial. rewrite Hok, Hc. cbn [negb].
  rewrite files_loop_app, Hl. cbn [files_loop build_from_result]. rewrite Hq, Hp.
  eexists; split; [reflexivity|]. cbn. auto.
Qed.

(* --files, several threads: the printing thread stops at the failing write; the driver falls through *)
Lemma print_thread_app : forall q1 q2 s,
  print_thread (q1 ++ q2) s =
  match print_thread q1 s with (s1, POk) => print_thread q2 s1 | r => r end.
Proof.
  induction q1 as [|h q1 IH]; intros q2 s; [reflexivity|]. cbn [app print_thread].
  destruct (h_print h); try reflexivity. apply IH.
Qed.

Lemma broken_pipe_files_parallel_proof : forall c items q1 h q2 s1 sw,
  c_setup_ok c = true ->
  files_par_workers c items st0 [] = (sw, q1 ++ h :: q2) ->
  print_thread q1 sw = (s1, POk) ->
  h_print h = PPipe ->
  exists s', files_parallel c items st0 = (ROk (matched sw), s') /\
             diags s' = diags sw /\ errored s' = errored sw /\ out s' = out s1.
Proof.
  intros c items q1 h q2 s1 sw Hok Hw Hpt Hp. unfold files_parallel. rewrite Hok. cbn [negb].
  rewrite Hw, print_thread_app, Hpt. cbn [print_thread]. rewrite Hp.
  apply print_thread_flags in Hpt as (A & B & C & _).
  eexists; split; [rewrite A; reflexivity|]. auto.
Qed.

(* ------------------------------------------------------------------ run/main level *)
Lemma run_invalid_args_proof : forall l base items,
  run_model ParseErr l base items =
  {| o_status := 2%N; o_out := []; o_diags := [DgFatal]; o_done := [] |}.
Proof. reflexivity. Qed.

(* matcher()/searcher()/walk_builder()/search_worker() failing (invalid regex, ...): every driver returns the
   error before touching a file *)
Lemma setup_failure_proof : forall c items,
  c_setup_ok c = false ->
  search_serial c items st0 = (RFatal, st0) /\ search_parallel c items st0 = (RFatal, st0) /\
  files_serial c items st0 = (RFatal, st0) /\ files_parallel c items st0 = (RFatal, st0).
Proof.
  intros c items H. unfold search_serial, search_parallel, files_serial, files_parallel. rewrite H. auto.
Qed.

Lemma run_setup_failure_proof : forall l base items,
  c_setup_ok base = false ->
  (match choose_driver (l_mode l) (matches_possible (l_patterns_empty l) (l_max_count_zero l)) (low_threads l) with
   | DSearch | DSearchParallel | DFiles | DFilesParallel => True | _ => False end) ->
  run_model ParseOk l base items =
  {| o_status := 2%N; o_out := []; o_diags := [DgFatal]; o_done := [] |}.
Proof.
  intros l base items H D. unfold run_model.
  assert (Hc : c_setup_ok (cfg_of_low l base) = false) by exact H.
  destruct (setup_failure_proof (cfg_of_low l base) items Hc) as (A & B & C & E).
  destruct (choose_driver _ _ _); try contradiction; rewrite ?A, ?B, ?C, ?E; reflexivity.
Qed.

(* the derived quit_after_match of every configuration built by from_low_args implies quiet *)
Lemma cfg_of_low_quit_quiet : forall l base,
  c_quit_after_match (cfg_of_low l base) = true -> c_quiet (cfg_of_low l base) = true.
Proof. intros l base H. cbn in *. now apply quit_implies_quiet in H. Qed.

(* the status of a whole run in terms of the three facts, for the four drivers *)
Lemma run_status_proof : forall l base items,
  c_setup_ok base = true ->
  let c := cfg_of_low l base in
  let d := choose_driver (l_mode l) (matches_possible (l_patterns_empty l) (l_max_count_zero l)) (low_threads l) in
  (d = DSearch -> forallb item_no_pipe_serial items = true ->
     o_status (run_model ParseOk l base items) =
     spec_status c (existsb item_match items) (existsb item_err_serial items) (existsb item_is_hay items)) /\
  (d = DSearchParallel -> forallb item_no_pipe_par items = true ->
     o_status (run_model ParseOk l base items) =
     spec_status c (existsb item_match items) (existsb item_err_par items) (existsb item_is_hay items)) /\
  (d = DFiles -> forallb item_print_ok items = true ->
     o_status (run_model ParseOk l base items) =
     exit_code (existsb item_is_hay items) (c_quiet c) (existsb item_is_walk_err items)) /\
  (d = DFilesParallel -> forallb item_print_ok items = true ->
     o_status (run_model ParseOk l base items) =
     exit_code (existsb item_is_hay items) (c_quiet c) (existsb item_is_walk_err items)) /\
  (d = DNone -> run_model ParseOk l base items = {| o_status := 1%N; o_out := []; o_diags := []; o_done := [] |}).
Proof.
  intros l base items Hok c d.
  assert (Hok' : c_setup_ok c = true) by exact Hok.
  pose proof (cfg_of_low_quit_quiet l base) as Hq. fold c in Hq.
  split; [|split; [|split; [|split]]]; [intros Hd Hnp|intros Hd Hnp|intros Hd Hnp|intros Hd Hnp|intros Hd];
    unfold run_model; fold c; fold d; rewrite Hd; [| | | |reflexivity].
  - destruct (search_serial c items st0) as [r s] eqn:E.
    destruct (search_serial_status_proof _ _ _ _ Hok' Hq Hnp E) as [-> A]. cbn. exact A.
  - destruct (search_parallel c items st0) as [r s] eqn:E.
    destruct (search_parallel_status_proof _ _ _ _ Hok' Hq Hnp E) as [-> A]. cbn. exact A.
  - destruct (files_serial c items st0) as [r s] eqn:E.
    destruct (files_serial_status_proof _ _ _ _ Hok' Hq Hnp E) as [-> A]. cbn. exact A.
  - destruct (files_parallel c items st0) as [r s] eqn:E.
    destruct (files_parallel_status_proof _ _ _ _ Hok' Hq Hnp E) as [-> A]. cbn. exact A.
Qed.

(* ------------------------------------------------------------------ C18 x C15: a failed search sets status 2 *)
Lemma failure_status_2_proof : forall (l : low) (base : cfg) (items : list item),
  c_setup_ok base = true ->
  choose_driver (l_mode l) (matches_possible (l_patterns_empty l) (l_max_count_zero l)) (low_threads l) = DSearch ->
  forallb item_no_pipe_serial items = true ->
  existsb item_err_serial items = true ->
  ~ (existsb item_match items = true /\ l_quiet l = true) ->
  o_status (run_model ParseOk l base items) = 2%N.
Proof.
  intros l base items Hok Hd Hnp He Hn.
  destruct (run_status_proof l base items Hok) as (A & _). rewrite (A Hd Hnp). unfold spec_status.
  rewrite He. cbn [orb]. apply status_table_proof. split; [reflexivity|exact Hn].
Qed.
