(* Proofs/JsonProofs.v — C09: the JSON messages of one search are begin, one match/context message per
   delivered event in stream order carrying that event's bytes, end. *)
From RG Require Import Base.Bytes Base.BytesFacts Model.MatchIter Model.Replace Model.Sink Model.Standard
  Model.Json Spec.ReplaceSpec Spec.ModesSpec Proofs.SinkProofs Proofs.ModesProofs.

Definition is_body (m : jmsg) : bool :=
  match m with JMatch _ _ _ _ _ | JContext _ _ _ _ _ => true | _ => false end.
(* (is it a match message, lines, line number, absolute offset) of a body message *)
Definition msg_core (m : jmsg) : option (bool * jdata * option nat * nat) :=
  match m with
  | JMatch _ l n o _ => Some (true, l, n, o)
  | JContext _ l n o _ => Some (false, l, n, o)
  | _ => None
  end.
Definition ev_core (e : sevent) : option (bool * jdata * option nat * nat) :=
  match e with
  | SMatched m => Some (true, data_from_bytes (m_bytes m), m_lnum m, m_off m)
  | SContext c => Some (false, data_from_bytes (c_bytes c), c_lnum c, c_off c)
  | _ => None
  end.
Fixpoint filter_map {A B} (f : A -> option B) (l : list A) : list B :=
  match l with
  | [] => []
  | x :: r => match f x with Some y => y :: filter_map f r | None => filter_map f r end
  end.
Definition prints (e : sevent) : bool := match ev_core e with Some _ => true | None => false end.

Lemma no_prints_no_core evs : existsb prints evs = false -> filter_map ev_core evs = [].
Proof.
  induction evs as [|e r IH]; [reflexivity|]. cbn [existsb filter_map]. unfold prints.
  destruct (ev_core e); [discriminate|]. exact IH.
Qed.

Section JsonOrder.
  Variable find_at : bytes -> nat -> option (nat * nat).
  Variable env : senv.
  Variable cfg : jconfig.
  Hypothesis Hmax : j_max cfg = None.

  Lemma json_feed_shape : forall evs k s, Forall (ev_ok find_at env) evs ->
    exists s' body, feed (json_step find_at cfg env) evs k s = Some (s', Go, k + length evs) /\
      js_out s' = js_out s ++ (if negb (js_begin_printed s) && existsb prints evs then [JBegin (jpath s)] else []) ++ body /\
      forallb is_body body = true /\
      map msg_core body = map Some (filter_map ev_core evs) /\
      js_begin_printed s' = js_begin_printed s || existsb prints evs /\
      js_path s' = js_path s.
  Proof.
    induction evs as [|e evs IH]; intros k s Hok.
    - exists s, []. cbn [feed length existsb]. rewrite Nat.add_0_r, andb_false_r, orb_false_r, !app_nil_r.
      repeat split; reflexivity.
    - inversion Hok as [|? ? He Hrest]; subst. cbn [feed].
      destruct e as [m|c| |off]; cbn [json_step].
      + destruct He as [Hokm Hb]. unfold json_matched.
        destruct (json_record_matches_total find_at env (m_buf m) (m_rs m) (m_re m) Hokm Hb) as (l & Hl & ->).
        unfold js_should_quit. rewrite Hmax. cbn [negb reply_of].
        edestruct (IH (S k)) as (s' & body & -> & Hout & Hbody & Hcore & Hbp & Hpath); [exact Hrest|].
        cbn [js_out js_begin_printed js_path] in Hout, Hbp, Hpath.
        assert (js_begin_printed (write_begin_message s) = true) as Ebp
          by (unfold write_begin_message; destruct (js_begin_printed s) eqn:E; [exact E|reflexivity]).
        assert (js_path (write_begin_message s) = js_path s) as Epath
          by (unfold write_begin_message; destruct (js_begin_printed s); reflexivity).
        assert (js_out (write_begin_message s) = js_out s ++ (if negb (js_begin_printed s) then [JBegin (jpath s)] else [])) as Eout
          by (unfold write_begin_message; destruct (js_begin_printed s); cbn; [now rewrite app_nil_r|reflexivity]).
        rewrite Ebp in Hout, Hbp. cbn [negb andb app orb] in Hout, Hbp.
        eexists s', (_ :: body). split; [do 2 f_equal; cbn [length]; lia|].
        cbn [existsb prints ev_core orb]. rewrite andb_true_r, orb_true_r.
        split; [rewrite Hout, Eout, <- !app_assoc; reflexivity|].
        split; [cbn [forallb is_body]; exact Hbody|].
        split; [cbn [map filter_map ev_core msg_core]; now rewrite Hcore|].
        split; [exact Hbp|congruence].
      + unfold json_context.
        assert (exists ms, (if e_invert env then json_record_matches find_at env (c_bytes c) 0 (length (c_bytes c))
                            else Some []) = Some ms) as [ms ->].
        { destruct (e_invert env); [|eauto].
          destruct (json_record_matches_total find_at env (c_bytes c) 0 (length (c_bytes c)) He (le_n _)) as (l & _ & ->). eauto. }
        unfold js_should_quit. rewrite Hmax. cbn [negb reply_of].
        edestruct (IH (S k)) as (s' & body & -> & Hout & Hbody & Hcore & Hbp & Hpath); [exact Hrest|].
        cbn [js_out js_begin_printed js_path] in Hout, Hbp, Hpath.
        assert (js_begin_printed (write_begin_message s) = true) as Ebp
          by (unfold write_begin_message; destruct (js_begin_printed s) eqn:E; [exact E|reflexivity]).
        assert (js_path (write_begin_message s) = js_path s) as Epath
          by (unfold write_begin_message; destruct (js_begin_printed s); reflexivity).
        assert (js_out (write_begin_message s) = js_out s ++ (if negb (js_begin_printed s) then [JBegin (jpath s)] else [])) as Eout
          by (unfold write_begin_message; destruct (js_begin_printed s); cbn; [now rewrite app_nil_r|reflexivity]).
        rewrite Ebp in Hout, Hbp. cbn [negb andb app orb] in Hout, Hbp.
        eexists s', (_ :: body). split; [do 2 f_equal; cbn [length]; lia|].
        cbn [existsb prints ev_core orb]. rewrite andb_true_r, orb_true_r.
        split; [rewrite Hout, Eout, <- !app_assoc; reflexivity|].
        split; [cbn [forallb is_body]; exact Hbody|].
        split; [cbn [map filter_map ev_core msg_core]; now rewrite Hcore|].
        split; [exact Hbp|congruence].
      + destruct (IH (S k) s Hrest) as (s' & body & -> & H). exists s', body.
        split; [do 2 f_equal; cbn [length]; lia|]. cbn [existsb prints ev_core orb filter_map]. exact H.
      + destruct (IH (S k) s Hrest) as (s' & body & -> & H). exists s', body.
        split; [do 2 f_equal; cbn [length]; lia|]. cbn [existsb prints ev_core orb filter_map]. exact H.
  Qed.

  (* a whole search (always_begin_end off, as rg configures it): nothing when no line is delivered,
     otherwise begin, the body, end *)
  Theorem json_message_order_proof path evs fins :
    j_always_begin_end cfg = false -> Forall (ev_ok find_at env) evs ->
    exists s body, json_run find_at cfg env path evs fins = Some (s, true) /\
      forallb is_body body = true /\
      map msg_core body = map Some (filter_map ev_core evs) /\
      js_out s = if existsb prints evs
                 then JBegin (option_map data_from_bytes path) :: body
                      ++ [JEnd (option_map data_from_bytes path) (f_bin (fins (1 + length evs))) (js_stats s)]
                 else [].
  Proof.
    intros Hab Hok. unfold json_run, run_sink, json_begin. rewrite Hmax, Hab. cbn [negb].
    cbn [json_sink js_path js_begin_printed js_stats js_matches js_out].
    destruct (json_feed_shape evs 0 (mkJS path 0 0 None false stats_new [] []) Hok)
      as (s' & body & -> & Hout & Hbody & Hcore & Hbp & Hpath).
    cbn [js_out js_begin_printed js_path negb andb orb app Nat.add] in Hout, Hbp, Hpath.
    eexists _, body. split; [reflexivity|]. split; [exact Hbody|]. split; [exact Hcore|].
    unfold json_finish. rewrite Hbp.
    destruct (existsb prints evs) eqn:Ex; cbn [negb].
    - cbn [js_out js_stats]. rewrite Hout. unfold jpath. rewrite Hpath. cbn [js_path app]. reflexivity.
    - rewrite Hout. rewrite (no_prints_no_core evs Ex) in Hcore. destruct body; [reflexivity|discriminate].
  Qed.
End JsonOrder.

(* ------------------------------------------------------------------ the exact messages, and reading them back *)
From RG Require Import Spec.PrinterSpec Spec.ParseSpec Proofs.PrinterProofs Proofs.ParseProofs.

Section JsonExact.
  Variable find_at : bytes -> nat -> option (nat * nat).
  Variable env : senv.

  (* the submatch spans of a delivered event (relative to its bytes) *)
  Definition spans_in (buf : bytes) (rs re : nat) : list (nat * nat) :=
    match successive find_at env buf rs re with Some l => submatches_of buf rs re l | None => [] end.
  Definition ev_spans (e : sevent) : list (nat * nat) :=
    match e with
    | SMatched m => spans_in (m_buf m) (m_rs m) (m_re m)
    | SContext c => if e_invert env then spans_in (c_bytes c) 0 (length (c_bytes c)) else []
    | _ => []
    end.
  Definition ev_msg (p : option jdata) (e : sevent) : option jmsg :=
    match e with
    | SMatched m => Some (JMatch p (data_from_bytes (m_bytes m)) (m_lnum m) (m_off m)
                                 (submatches_new (m_bytes m) (ev_spans e)))
    | SContext c => Some (JContext p (data_from_bytes (c_bytes c)) (c_lnum c) (c_off c)
                                   (submatches_new (c_bytes c) (ev_spans e)))
    | _ => None
    end.
  (* what a reader should get back from the message of an event *)
  Definition ev_bytes (e : sevent) : bytes :=
    match e with SMatched m => m_bytes m | SContext c => c_bytes c | _ => [] end.
  Definition ev_fields (e : sevent) : option (bool * bytes * option nat * nat * list (nat * nat * bytes)) :=
    let subs := map (fun m => (fst m, snd m, sub (ev_bytes e) (fst m) (snd m))) (ev_spans e) in
    match e with
    | SMatched m => Some (true, m_bytes m, m_lnum m, m_off m, subs)
    | SContext c => Some (false, c_bytes c, c_lnum c, c_off c, subs)
    | _ => None
    end.

  Variable cfg : jconfig.
  Hypothesis Hmax : j_max cfg = None.

  Lemma wbm_facts s :
    js_begin_printed (write_begin_message s) = true /\ js_path (write_begin_message s) = js_path s /\
    js_out (write_begin_message s) = js_out s ++ (if negb (js_begin_printed s) then [JBegin (jpath s)] else []).
  Proof.
    unfold write_begin_message. destruct (js_begin_printed s) eqn:E; cbn; [now rewrite app_nil_r|auto].
  Qed.

  Lemma json_feed_exact : forall evs k s, Forall (ev_ok find_at env) evs ->
    exists s', feed (json_step find_at cfg env) evs k s = Some (s', Go, k + length evs) /\
      js_out s' = js_out s ++ (if negb (js_begin_printed s) && existsb prints evs then [JBegin (jpath s)] else [])
                           ++ filter_map (ev_msg (jpath s)) evs /\
      js_begin_printed s' = js_begin_printed s || existsb prints evs /\
      js_path s' = js_path s.
  Proof.
    induction evs as [|e evs IH]; intros k s Hok.
    - exists s. cbn [feed length existsb filter_map]. rewrite Nat.add_0_r, andb_false_r, orb_false_r, !app_nil_r.
      repeat split; reflexivity.
    - inversion Hok as [|? ? He Hrest]; subst. cbn [feed].
      destruct e as [m|c| |off]; cbn [json_step].
      + destruct He as [Hokm Hb]. unfold json_matched.
        destruct (json_record_matches_total find_at env (m_buf m) (m_rs m) (m_re m) Hokm Hb) as (l & Hl & ->).
        unfold js_should_quit. rewrite Hmax. cbn [negb reply_of].
        edestruct (IH (S k)) as (s' & -> & Hout & Hbp & Hpath); [exact Hrest|].
        cbn [js_out js_begin_printed js_path] in Hout, Hbp, Hpath.
        destruct (wbm_facts s) as (Ebp & Epath & Eout).
        rewrite Ebp in Hout, Hbp. cbn [negb andb app orb] in Hout, Hbp.
        unfold jpath in Hout at 1 2. cbn [js_path] in Hout. rewrite Epath in Hout. fold (jpath s) in Hout.
        exists s'. split; [do 2 f_equal; cbn [length]; lia|].
        cbn [existsb prints ev_core orb filter_map ev_msg ev_spans]. rewrite andb_true_r, orb_true_r.
        unfold spans_in. rewrite Hl.
        split; [rewrite Hout, Eout, <- !app_assoc; reflexivity|]. split; [exact Hbp|congruence].
      + unfold json_context.
        assert ((if e_invert env then json_record_matches find_at env (c_bytes c) 0 (length (c_bytes c)) else Some [])
                = Some (ev_spans (SContext c))) as ->.
        { cbn [ev_spans]. destruct (e_invert env); [|reflexivity].
          destruct (json_record_matches_total find_at env (c_bytes c) 0 (length (c_bytes c)) He (le_n _)) as (l & Hl & ->).
          unfold spans_in. now rewrite Hl. }
        unfold js_should_quit. rewrite Hmax. cbn [negb reply_of].
        edestruct (IH (S k)) as (s' & -> & Hout & Hbp & Hpath); [exact Hrest|].
        cbn [js_out js_begin_printed js_path] in Hout, Hbp, Hpath.
        destruct (wbm_facts s) as (Ebp & Epath & Eout).
        rewrite Ebp in Hout, Hbp. cbn [negb andb app orb] in Hout, Hbp.
        unfold jpath in Hout at 1 2. cbn [js_path] in Hout. rewrite Epath in Hout. fold (jpath s) in Hout.
        exists s'. split; [do 2 f_equal; cbn [length]; lia|].
        cbn [existsb prints ev_core orb filter_map ev_msg]. rewrite andb_true_r, orb_true_r.
        split; [rewrite Hout, Eout, <- !app_assoc; reflexivity|]. split; [exact Hbp|congruence].
      + destruct (IH (S k) s Hrest) as (s' & -> & H). exists s'.
        split; [do 2 f_equal; cbn [length]; lia|]. cbn [existsb prints ev_core orb filter_map ev_msg]. exact H.
      + destruct (IH (S k) s Hrest) as (s' & -> & H). exists s'.
        split; [do 2 f_equal; cbn [length]; lia|]. cbn [existsb prints ev_core orb filter_map ev_msg]. exact H.
  Qed.

  (* reading one message back *)
  Lemma msg_roundtrip p e msg : Forall (fun x => (x < 256)%N) (ev_bytes e) ->
    ev_msg p e = Some msg -> msg_decode msg = ev_fields e.
  Proof.
    intros Hb Hm. destruct e as [m|c| |off]; cbn [ev_msg] in Hm; try discriminate; injection Hm as <-;
      cbn [msg_decode ev_fields ev_bytes] in *;
      rewrite data_roundtrip_proof by assumption; rewrite subs_roundtrip by assumption; reflexivity.
  Qed.

  Lemma body_roundtrip p : forall evs, Forall (fun e => Forall (fun x => (x < 256)%N) (ev_bytes e)) evs ->
    map msg_decode (filter_map (ev_msg p) evs) = map Some (filter_map ev_fields evs).
  Proof.
    induction evs as [|e evs IH]; intro H; [reflexivity|]. inversion H as [|? ? He Hr]; subst.
    cbn [filter_map]. destruct (ev_msg p e) as [msg|] eqn:Em.
    - cbn [map]. rewrite (msg_roundtrip p e msg He Em).
      destruct (ev_fields e) as [f|] eqn:Ef.
      + cbn [map]. f_equal. now apply IH.
      + destruct e; cbn in Em, Ef; discriminate.
    - destruct (ev_fields e) eqn:Ef; [destruct e; cbn in Em, Ef; discriminate|]. now apply IH.
  Qed.

  (* a whole search: the output is begin, the messages of the delivered events, end — and a reader
     recovers from every message the event's bytes, line number, absolute offset and submatches
     (offsets and texts), whether Data was written as text or as base64 *)
  Theorem json_roundtrip_proof path evs fins :
    j_always_begin_end cfg = false -> Forall (ev_ok find_at env) evs ->
    Forall (fun e => Forall (fun x => (x < 256)%N) (ev_bytes e)) evs ->
    exists s body, json_run find_at cfg env path evs fins = Some (s, true) /\
      js_out s = (if existsb prints evs
                  then JBegin (option_map data_from_bytes path) :: body
                       ++ [JEnd (option_map data_from_bytes path) (f_bin (fins (1 + length evs))) (js_stats s)]
                  else []) /\
      map msg_decode body = map Some (filter_map ev_fields evs) /\
      length body = length (filter prints evs).
  Proof.
    intros Hab Hok Hbytes. unfold json_run, run_sink, json_begin. rewrite Hmax, Hab. cbn [negb].
    cbn [json_sink js_path js_begin_printed js_stats js_matches js_out].
    destruct (json_feed_exact evs 0 (mkJS path 0 0 None false stats_new [] []) Hok)
      as (s' & -> & Hout & Hbp & Hpath).
    cbn [js_out js_begin_printed js_path negb andb orb app Nat.add] in Hout, Hbp, Hpath.
    unfold jpath in Hout. cbn [js_path] in Hout.
    exists (json_finish (fins (1 + (0 + length evs))) s'), (filter_map (ev_msg (option_map data_from_bytes path)) evs).
    split; [reflexivity|]. split; [|split].
    - unfold json_finish. rewrite Hbp. destruct (existsb prints evs) eqn:Ex; cbn [negb].
      + cbn [js_out js_stats]. rewrite Hout. unfold jpath. rewrite Hpath. cbn [app Nat.add]. reflexivity.
      + rewrite Hout. cbn [app].
        assert (filter_map (ev_msg (option_map data_from_bytes path)) evs = []) as ->; [|reflexivity].
        clear - Ex. induction evs as [|e r IH]; [reflexivity|]. cbn [existsb] in Ex.
        apply orb_false_iff in Ex as [E1 E2]. cbn [filter_map].
        destruct e; cbn in E1; try discriminate; cbn [ev_msg]; now apply IH.
    - now apply body_roundtrip.
    - clear. induction evs as [|e r IH]; [reflexivity|]. cbn [filter_map filter].
      destruct e; cbn [ev_msg prints ev_core]; cbn [length]; now rewrite ?IH.
  Qed.
End JsonExact.
