(* Proofs/MultiLineBufferProofs.v — filling the multi-line buffer (Model/MultiLineBuffer.v) reads the
   whole stream or returns the heap-limit error, for every read history, every buffer left behind by
   an earlier search and every heap limit; it never runs out of fuel. *)
From RG Require Import Base.Bytes Model.Lines Model.SearcherCore Model.Glue Model.ReadByLine
  Model.MultiLineBuffer Model.SearcherGlue Spec.MultiLineBufferSpec.

Definition rmeasure (r : reader) : nat := length (r_hist r) + length (r_rest r).

(* one read(): nothing is lost or invented, at most [room] bytes, an empty result means the stream is
   at its end (room >= 1), the history only shrinks, and something is always used up *)
Lemma reader_read_spec room r :
  match reader_read room r with
  | ROk got r' =>
    got ++ r_rest r' = r_rest r /\ length got <= room /\
    (1 <= room -> got = [] -> r_rest r = []) /\
    (got <> [] -> rmeasure r' < rmeasure r) /\
    (forall x, In x (r_hist r') -> In x (r_hist r))
  | RErrInterrupted r' =>
    r_rest r' = r_rest r /\ rmeasure r' < rmeasure r /\ (forall x, In x (r_hist r') -> In x (r_hist r))
  | RErrOther r' => In RFail (r_hist r)
  end.
Proof.
  unfold reader_read, rmeasure. destruct r as [rest hist]. cbn [r_rest r_hist].
  assert (Hgen : forall n hist', (length hist' <= length hist) ->
            (hist' = hist -> hist = [] /\ n = room) ->
            (forall x, In x hist' -> In x hist) ->
            let k := Nat.min (Nat.min (Nat.max 1 n) room) (length rest) in
            firstn k rest ++ skipn k rest = rest /\ length (firstn k rest) <= room /\
            (1 <= room -> firstn k rest = [] -> rest = []) /\
            (firstn k rest <> [] -> length hist' + length (skipn k rest) < length hist + length rest) /\
            (forall x, In x hist' -> In x hist)).
  { intros n hist' Hlen Hsame Hin k.
    assert (Hk : length (firstn k rest) = k) by (rewrite firstn_length; lia).
    split; [apply firstn_skipn|]. split; [lia|]. split.
    - intros Hroom Hnil. rewrite Hnil in Hk. cbn [length] in Hk.
      destruct rest as [|x rest']; [reflexivity|]. cbn [length] in *. lia.
    - split; [|exact Hin]. intros Hne. rewrite skipn_length.
      assert (k <> 0) by (intro Hz; rewrite Hz in Hne; cbn [firstn] in Hne; congruence).
      lia. }
  destruct hist as [|x h]; cbn [r_rest r_hist].
  - apply (Hgen room []); auto.
  - destruct x as [n| |]; cbn [r_rest r_hist length].
    + apply (Hgen n h); cbn [length]; [lia| |intros y Hy; right; exact Hy].
      intros Heq. exfalso. apply (f_equal (@length _)) in Heq. cbn [length] in Heq. lia.
    + left. reflexivity.
    + split; [reflexivity|]. split; [lia|]. intros y Hy. right. exact Hy.
Qed.

(* ---------- the heap-limited loop ---------- *)

Definition loop_post (h : nat) (stream : bytes) (hist : list read_step) (lr : ml_loop_result) : Prop :=
  match lr with
  | LOk d len _ _ => d = stream /\ length stream < h /\ length d <= len
  | LHeapErr d len _ _ => h <= length stream /\ length d <= len
  | LIoErr d len _ _ => In RFail hist /\ length d <= len
  | LFuel => False
  end.

Lemma ml_heap_loop_post h fuel :
  forall len data tr r,
    rmeasure r < fuel -> length data < len -> len <= h ->
    loop_post h (data ++ r_rest r) (r_hist r) (ml_heap_loop fuel h len data tr r).
Proof.
  induction fuel as [|fuel IH]; intros len data tr r Hfuel Hpos Hlen; [lia|].
  cbn [ml_heap_loop].
  pose proof (reader_read_spec (len - length data) r) as Hrd.
  destruct (reader_read (len - length data) r) as [got r'|r'|r'].
  - destruct Hrd as (Happ & Hroom & Hend & Hmeas & Hhist).
    destruct (Nat.eqb (length got) 0) eqn:Hz.
    + apply Nat.eqb_eq in Hz. destruct got; [|cbn [length] in Hz; lia].
      rewrite (Hend ltac:(lia) eq_refl), app_nil_r. cbn [loop_post]. split; [reflexivity|lia].
    + apply Nat.eqb_neq in Hz.
      assert (Hne : got <> []) by (intro He; rewrite He in Hz; cbn [length] in Hz; lia).
      specialize (Hmeas Hne).
      assert (Hstream : data ++ r_rest r = (data ++ got) ++ r_rest r') by (rewrite <- Happ, app_assoc; reflexivity).
      assert (Hl : length (data ++ got) = length data + length got) by apply app_length.
      destruct (Nat.eqb (length (data ++ got)) len) eqn:Hfull.
      * apply Nat.eqb_eq in Hfull.
        destruct (Nat.eqb (h - len) 0) eqn:Hadd.
        -- apply Nat.eqb_eq in Hadd. cbn [loop_post]. rewrite Hstream, app_length. lia.
        -- apply Nat.eqb_neq in Hadd. rewrite Hstream.
           assert (Hpost := IH (Nat.min (2 * len) (len + (h - len))) (data ++ got) ((len - length data) :: tr) r'
                               ltac:(lia) ltac:(lia) ltac:(lia)).
           destruct (ml_heap_loop fuel h _ (data ++ got) _ r'); cbn [loop_post] in *; try tauto.
           destruct Hpost as [Hin Hle]. split; [apply Hhist; exact Hin|exact Hle].
      * apply Nat.eqb_neq in Hfull. rewrite Hstream.
        assert (Hpost := IH len (data ++ got) ((len - length data) :: tr) r' ltac:(lia) ltac:(lia) Hlen).
        destruct (ml_heap_loop fuel h len (data ++ got) _ r'); cbn [loop_post] in *; try tauto.
        destruct Hpost as [Hin Hle]. split; [apply Hhist; exact Hin|exact Hle].
  - destruct Hrd as (Hrest & Hmeas & Hhist). rewrite <- Hrest.
    assert (Hpost := IH len data ((len - length data) :: tr) r' ltac:(lia) Hpos Hlen).
    destruct (ml_heap_loop fuel h len data _ r'); cbn [loop_post] in *; try tauto.
    destruct Hpost as [Hin Hle]. split; [apply Hhist; exact Hin|exact Hle].
  - cbn [loop_post]. split; [exact Hrd|lia].
Qed.

(* ---------- read_to_end ---------- *)

Definition rte_post (stream : bytes) (hist : list read_step) (lr : ml_loop_result) : Prop :=
  match lr with
  | LOk d len _ _ => d = stream /\ len = length d
  | LHeapErr _ _ _ _ => False
  | LIoErr d len _ _ => In RFail hist /\ len = length d
  | LFuel => False
  end.

Lemma ml_read_to_end_post fuel :
  forall rooms data tr r,
    rmeasure r < fuel ->
    rte_post (data ++ r_rest r) (r_hist r) (ml_read_to_end fuel rooms data tr r).
Proof.
  induction fuel as [|fuel IH]; intros rooms data tr r Hfuel; [lia|].
  cbn [ml_read_to_end].
  set (room := match rooms with [] => S (length (r_rest r)) | x :: _ => Nat.max 1 x end).
  assert (Hroom1 : 1 <= room) by (subst room; destruct rooms; lia).
  pose proof (reader_read_spec room r) as Hrd.
  destruct (reader_read room r) as [got r'|r'|r'].
  - destruct Hrd as (Happ & Hroom & Hend & Hmeas & Hhist).
    destruct (Nat.eqb (length got) 0) eqn:Hz.
    + apply Nat.eqb_eq in Hz. destruct got; [|cbn [length] in Hz; lia].
      rewrite (Hend Hroom1 eq_refl), app_nil_r. cbn [rte_post]. split; reflexivity.
    + apply Nat.eqb_neq in Hz.
      assert (Hne : got <> []) by (intro He; rewrite He in Hz; cbn [length] in Hz; lia).
      specialize (Hmeas Hne).
      assert (Hstream : data ++ r_rest r = (data ++ got) ++ r_rest r') by (rewrite <- Happ, app_assoc; reflexivity).
      rewrite Hstream.
      assert (Hpost := IH (tl rooms) (data ++ got) (room :: tr) r' ltac:(lia)).
      destruct (ml_read_to_end fuel (tl rooms) (data ++ got) _ r'); cbn [rte_post] in *; try tauto.
      destruct Hpost as [Hin Hle]. split; [apply Hhist; exact Hin|exact Hle].
  - destruct Hrd as (Hrest & Hmeas & Hhist). rewrite <- Hrest.
    assert (Hpost := IH (tl rooms) data (room :: tr) r' ltac:(lia)).
    destruct (ml_read_to_end fuel (tl rooms) data _ r'); cbn [rte_post] in *; try tauto.
    destruct Hpost as [Hin Hle]. split; [apply Hhist; exact Hin|exact Hle].
  - cbn [rte_post]. split; [exact Hrd|reflexivity].
Qed.

(* ---------- the two functions ---------- *)

Definition outcome_of (f : ml_fill_result) : fill_outcome :=
  match f with
  | MlOk b _ _ => FilledWith (mb_data b)
  | MlIoErr _ _ _ => ReadError
  | MlHeapErr _ _ _ => HeapLimitError
  | MlFuel => NoAnswer
  end.

(* every stream, history, heap limit, earlier buffer, read_to_end policy: the fill ends (fuel suffices) with
   the whole stream, or with the heap-limit error exactly under the stated condition, or with a read error
   that the history really contains — never with a part of the stream *)
Lemma ml_fill_from_reader_allowed cap0 heap_limit rooms b stream hist :
  0 < cap0 ->
  fill_allowed heap_limit stream hist
    (outcome_of (ml_fill_from_reader_cap cap0 heap_limit rooms b {| r_rest := stream; r_hist := hist |})).
Proof.
  intros Hcap. unfold ml_fill_from_reader_cap.
  destruct heap_limit as [h|].
  - destruct (Nat.eqb h 0) eqn:Hz.
    + apply Nat.eqb_eq in Hz. subst h. cbn [outcome_of fill_allowed heap_limit_hit]. reflexivity.
    + apply Nat.eqb_neq in Hz.
      pose proof (ml_heap_loop_post h (ml_fuel {| r_rest := stream; r_hist := hist |}) (Nat.min cap0 h) [] []
                    {| r_rest := stream; r_hist := hist |}) as Hpost.
      cbn [r_rest r_hist app length] in Hpost.
      specialize (Hpost ltac:(unfold ml_fuel, rmeasure; cbn [r_rest r_hist]; lia) ltac:(lia) ltac:(lia)).
      destruct (ml_heap_loop _ h _ [] [] _); cbn [ml_finish outcome_of fill_allowed loop_post mb_data heap_limit_hit] in *.
      * destruct Hpost as (Hd & Hlt & _). split; [exact Hd|]. apply Nat.leb_gt. exact Hlt.
      * tauto.
      * apply Nat.leb_le. tauto.
      * exact Hpost.
  - pose proof (ml_read_to_end_post (ml_fuel {| r_rest := stream; r_hist := hist |}) rooms [] []
                  {| r_rest := stream; r_hist := hist |}) as Hpost.
    cbn [r_rest r_hist app] in Hpost.
    specialize (Hpost ltac:(unfold ml_fuel, rmeasure; cbn [r_rest r_hist]; lia)).
    destruct (ml_read_to_end _ rooms [] [] _); cbn [ml_finish outcome_of fill_allowed rte_post mb_data heap_limit_hit] in *;
      tauto.
Qed.

Lemma ml_fill_from_file_allowed heap_limit rooms file_len b stream hist :
  fill_allowed heap_limit stream hist
    (outcome_of (ml_fill_from_file heap_limit rooms file_len b {| r_rest := stream; r_hist := hist |})).
Proof.
  unfold ml_fill_from_file. destruct heap_limit as [h|].
  - apply ml_fill_from_reader_allowed. unfold default_buffer_capacity. lia.
  - pose proof (ml_read_to_end_post (ml_fuel {| r_rest := stream; r_hist := hist |}) rooms [] []
                  {| r_rest := stream; r_hist := hist |}) as Hpost.
    cbn [r_rest r_hist app] in Hpost.
    specialize (Hpost ltac:(unfold ml_fuel, rmeasure; cbn [r_rest r_hist]; lia)).
    destruct (ml_read_to_end _ rooms [] [] _); cbn [ml_finish outcome_of fill_allowed rte_post mb_data heap_limit_hit] in *;
      tauto.
Qed.

(* allowed + no hard error in the history = the expected outcome, exactly *)
Lemma allowed_failure_free heap_limit stream hist o :
  failure_free hist -> fill_allowed heap_limit stream hist o -> o = fill_expected heap_limit stream.
Proof.
  intros Hff Hal. unfold fill_expected. destruct o; cbn [fill_allowed] in Hal.
  - destruct Hal as [Hc Hh]. rewrite Hh, Hc. reflexivity.
  - rewrite Hal. reflexivity.
  - exfalso. exact (Hff Hal).
  - contradiction.
Qed.

Lemma ml_fill_reads_everything_lemma cap0 heap_limit rooms b stream hist :
  0 < cap0 -> failure_free hist ->
  outcome_of (ml_fill_from_reader_cap cap0 heap_limit rooms b {| r_rest := stream; r_hist := hist |})
  = fill_expected heap_limit stream.
Proof.
  intros Hcap Hff. apply (allowed_failure_free heap_limit stream hist); [exact Hff|].
  apply ml_fill_from_reader_allowed. exact Hcap.
Qed.

Lemma default_capacity_pos : 0 < default_buffer_capacity.
Proof. unfold default_buffer_capacity. lia. Qed.

Lemma ml_fill_from_reader_reads_everything heap_limit rooms b stream hist :
  failure_free hist ->
  outcome_of (ml_fill_from_reader heap_limit rooms b {| r_rest := stream; r_hist := hist |})
  = fill_expected heap_limit stream.
Proof. intros Hff. apply ml_fill_reads_everything_lemma; [apply default_capacity_pos|exact Hff]. Qed.

Lemma ml_fill_from_file_reads_everything heap_limit rooms file_len b stream hist :
  failure_free hist ->
  outcome_of (ml_fill_from_file heap_limit rooms file_len b {| r_rest := stream; r_hist := hist |})
  = fill_expected heap_limit stream.
Proof.
  intros Hff. apply (allowed_failure_free heap_limit stream hist); [exact Hff|]. apply ml_fill_from_file_allowed.
Qed.

(* the earlier contents and capacity of the buffer never matter for what is searched *)
Lemma ml_fill_state_independent cap0 heap_limit rooms b1 b2 r :
  outcome_of (ml_fill_from_reader_cap cap0 heap_limit rooms b1 r)
  = outcome_of (ml_fill_from_reader_cap cap0 heap_limit rooms b2 r).
Proof.
  unfold ml_fill_from_reader_cap. destruct heap_limit as [h|].
  - destruct (Nat.eqb h 0); [reflexivity|]. destruct (ml_heap_loop _ h _ [] [] r); reflexivity.
  - destruct (ml_read_to_end _ rooms [] [] r); reflexivity.
Qed.

(* ---------- the searches ---------- *)

(* an error of the fill (read error or heap limit) is returned with nothing searched: no sink event at all *)
Lemma ml_search_reader_outcomes cfg M heap_limit mmap_enabled reply_of rooms b stream hist :
  let f := ml_fill_from_reader heap_limit rooms b {| r_rest := stream; r_hist := hist |} in
  let res := fst (fst (search_reader_ml cfg M heap_limit mmap_enabled reply_of rooms b {| r_rest := stream; r_hist := hist |})) in
  ml_check_config cfg M heap_limit mmap_enabled = true ->
  match outcome_of f with
  | FilledWith c => c = stream /\ res = multi_line_run cfg M reply_of stream
  | HeapLimitError => heap_limit_hit heap_limit stream = true /\ res = RunErr []
  | ReadError => In RFail hist /\ res = RunErr []
  | NoAnswer => False
  end.
Proof.
  intros f res Hcfg. subst res. unfold search_reader_ml. rewrite Hcfg. cbn [negb].
  pose proof (ml_fill_from_reader_allowed default_buffer_capacity heap_limit rooms b stream hist default_capacity_pos) as Hal.
  fold (ml_fill_from_reader heap_limit rooms b {| r_rest := stream; r_hist := hist |}) in Hal. fold f in Hal. fold f.
  destruct f as [b' tr r'|b' tr r'|b' tr r'|]; cbn [outcome_of fill_allowed ml_after_fill fst] in *.
  - destruct Hal as [Hc _]. split; [exact Hc|]. rewrite Hc. reflexivity.
  - split; [exact Hal|reflexivity].
  - split; [exact Hal|reflexivity].
  - exact Hal.
Qed.

(* the connection with Model/SearcherGlue.v, which abstracts the fill (heap limit None, no failing read)
   as "the buffer becomes the decoded stream": that is what the loop model delivers *)
Lemma ml_fill_refines_glue st rooms b (decoded : bytes) hist :
  failure_free hist ->
  outcome_of (ml_fill_from_reader None rooms b {| r_rest := decoded; r_hist := hist |})
  = FilledWith (ss_ml (fill_multi_line st decoded)).
Proof.
  intros Hff. rewrite ml_fill_from_reader_reads_everything by exact Hff. reflexivity.
Qed.

(* the documentation says "if the contents exceed the configured heap limit"; the code also rejects contents
   of exactly heap_limit bytes *)
Lemma ml_heap_limit_boundary :
  outcome_of (ml_fill_from_reader (Some 4) [] mb_new {| r_rest := [97; 98; 99; 10]%N; r_hist := [] |}) = HeapLimitError
  /\ contents_exceed_limit (Some 4) [97; 98; 99; 10]%N = false.
Proof. split; vm_compute; reflexivity. Qed.

(* fuel suffices: the fill always ends *)
Lemma ml_fill_from_reader_fuel_suffices heap_limit rooms b r :
  ml_fill_from_reader heap_limit rooms b r <> MlFuel.
Proof.
  intros H. destruct r as [stream hist].
  pose proof (ml_fill_from_reader_allowed default_buffer_capacity heap_limit rooms b stream hist default_capacity_pos) as Hal.
  fold (ml_fill_from_reader heap_limit rooms b {| r_rest := stream; r_hist := hist |}) in Hal.
  rewrite H in Hal. exact Hal.
Qed.

Lemma ml_fill_from_file_fuel_suffices heap_limit rooms file_len b r :
  ml_fill_from_file heap_limit rooms file_len b r <> MlFuel.
Proof.
  intros H. destruct r as [stream hist].
  pose proof (ml_fill_from_file_allowed heap_limit rooms file_len b stream hist) as Hal.
  rewrite H in Hal. exact Hal.
Qed.

(* the file variant of the search *)
Lemma ml_search_file_outcomes cfg M heap_limit mmap_enabled reply_of rooms file_len b stream hist :
  let f := ml_fill_from_file heap_limit rooms file_len b {| r_rest := stream; r_hist := hist |} in
  let res := fst (fst (search_file_ml cfg M heap_limit mmap_enabled reply_of rooms file_len b {| r_rest := stream; r_hist := hist |})) in
  ml_check_config cfg M heap_limit mmap_enabled = true ->
  match outcome_of f with
  | FilledWith c => c = stream /\ res = multi_line_run cfg M reply_of stream
  | HeapLimitError => heap_limit_hit heap_limit stream = true /\ res = RunErr []
  | ReadError => In RFail hist /\ res = RunErr []
  | NoAnswer => False
  end.
Proof.
  intros f res Hcfg. subst res. unfold search_file_ml. rewrite Hcfg. cbn [negb].
  pose proof (ml_fill_from_file_allowed heap_limit rooms file_len b stream hist) as Hal.
  fold f in Hal. fold f.
  destruct f as [b' tr r'|b' tr r'|b' tr r'|]; cbn [outcome_of fill_allowed ml_after_fill fst] in *.
  - destruct Hal as [Hc _]. split; [exact Hc|]. rewrite Hc. reflexivity.
  - split; [exact Hal|reflexivity].
  - split; [exact Hal|reflexivity].
  - exact Hal.
Qed.

(* a configuration error comes before anything is read *)
Lemma ml_search_config_error cfg M heap_limit mmap_enabled reply_of rooms b r :
  ml_check_config cfg M heap_limit mmap_enabled = false ->
  search_reader_ml cfg M heap_limit mmap_enabled reply_of rooms b r = (RunErr [], b, []).
Proof. intros H. unfold search_reader_ml. rewrite H. reflexivity. Qed.

(* Model/SearcherGlue.v searches "the decoded stream" in its multi-line branches; with the fill loops put in
   (no heap limit, no transcoding, no failing read) the results are the same *)
Lemma ml_search_reader_agrees_with_glue cfg M mmap_enabled reply_of rooms b st s hist :
  multi_line_with_matcher cfg M = true -> failure_free hist ->
  fst (search_reader_m cfg M (fun x => x) reply_of st s hist)
  = fst (fst (search_reader_ml cfg M None mmap_enabled reply_of rooms b {| r_rest := s; r_hist := hist |})).
Proof.
  intros Hml Hff. unfold search_reader_m.
  assert (Hcc : ml_check_config cfg M None mmap_enabled = check_config cfg M) by reflexivity.
  destruct (check_config cfg M) eqn:Hc; cbn [negb].
  - rewrite Hml. cbn [fst fill_multi_line ss_ml app].
    pose proof (ml_search_reader_outcomes cfg M None mmap_enabled reply_of rooms b s hist) as Hout.
    cbv zeta in Hout. rewrite Hcc in Hout. specialize (Hout eq_refl).
    rewrite (ml_fill_from_reader_reads_everything None rooms b s hist Hff) in Hout.
    cbn [fill_expected heap_limit_hit] in Hout. destruct Hout as [_ Hres]. symmetry. exact Hres.
  - unfold search_reader_ml. rewrite Hcc. reflexivity.
Qed.

Lemma ml_search_file_agrees_with_glue cfg M reply_of rooms b st s hist :
  multi_line_with_matcher cfg M = true ->
  fst (search_file_m cfg M false false (fun x => x) reply_of st false s hist)
  = fst (fst (search_file_ml cfg M None false reply_of rooms (length s) b {| r_rest := s; r_hist := [] |})).
Proof.
  intros Hml. unfold search_file_m. rewrite Hml.
  assert (Hcc : ml_check_config cfg M None false = check_config cfg M) by reflexivity.
  destruct (check_config cfg M) eqn:Hc; cbn [negb].
  - cbn [fst fill_multi_line ss_ml app].
    pose proof (ml_search_file_outcomes cfg M None false reply_of rooms (length s) b s []) as Hout.
    cbv zeta in Hout. rewrite Hcc in Hout. specialize (Hout eq_refl).
    rewrite (ml_fill_from_file_reads_everything None rooms (length s) b s [] (fun H => H)) in Hout.
    cbn [fill_expected heap_limit_hit] in Hout. destruct Hout as [_ Hres]. symmetry. exact Hres.
  - unfold search_file_ml. rewrite Hcc. reflexivity.
Qed.

(* ---------- the pass-through BomPeeker in front of the loop ---------- *)

Lemma peek_loop_post fuel :
  forall need got tr r, rmeasure r < fuel ->
    match peek_loop fuel need got tr r with
    | PeekOk got' _ r' => got' ++ r_rest r' = got ++ r_rest r /\ (forall x, In x (r_hist r') -> In x (r_hist r))
    | PeekErr _ _ => In RFail (r_hist r)
    | PeekFuel => False
    end.
Proof.
  induction fuel as [|fuel IH]; intros need got tr r Hfuel; [lia|].
  destruct need as [|need']; [cbn [peek_loop]; split; [reflexivity|auto]|].
  cbn [peek_loop].
  pose proof (reader_read_spec (S need') r) as Hrd.
  destruct (reader_read (S need') r) as [g r'|r'|r'].
  - destruct Hrd as (Happ & Hroom & Hend & Hmeas & Hhist).
    destruct (Nat.eqb (length g) 0) eqn:Hz.
    + apply Nat.eqb_eq in Hz. destruct g; [|cbn [length] in Hz; lia].
      cbn [app] in Happ. rewrite Happ. split; [reflexivity|exact Hhist].
    + apply Nat.eqb_neq in Hz.
      assert (Hne : g <> []) by (intro He; rewrite He in Hz; cbn [length] in Hz; lia).
      specialize (Hmeas Hne).
      assert (Hpost := IH (S need' - length g) (got ++ g) (S need' :: tr) r' ltac:(lia)).
      destruct (peek_loop fuel (S need' - length g) (got ++ g) (S need' :: tr) r').
      * destruct Hpost as [Hs Hh]. split; [rewrite Hs, <- Happ, app_assoc; reflexivity|auto].
      * apply Hhist. exact Hpost.
      * exact Hpost.
  - destruct Hrd as (Hrest & Hmeas & Hhist).
    assert (Hpost := IH (S need') got (S need' :: tr) r' ltac:(lia)).
    destruct (peek_loop fuel (S need') got (S need' :: tr) r').
    + destruct Hpost as [Hs Hh]. split; [rewrite Hs, Hrest; reflexivity|auto].
    + apply Hhist. exact Hpost.
    + exact Hpost.
  - exact Hrd.
Qed.

(* search_reader's loop reads through the peeker: still everything or the heap-limit error, and the prefetch
   fails only with an error of the caller's reader *)
Lemma ml_fill_behind_peeker_lemma heap_limit rooms b stream hist :
  failure_free hist ->
  exists got tr r', peek_loop (ml_fuel {| r_rest := stream; r_hist := hist |}) 3 [] [] {| r_rest := stream; r_hist := hist |}
                    = PeekOk got tr r' /\
    outcome_of (ml_fill_from_reader heap_limit rooms b (peeked_reader got r')) = fill_expected heap_limit stream.
Proof.
  intros Hff.
  pose proof (peek_loop_post (ml_fuel {| r_rest := stream; r_hist := hist |}) 3 [] [] {| r_rest := stream; r_hist := hist |}
                ltac:(unfold ml_fuel, rmeasure; cbn [r_rest r_hist]; lia)) as Hpost.
  destruct (peek_loop _ 3 [] [] _) as [got tr r'| |]; cbn [r_rest r_hist app] in Hpost.
  - exists got, tr, r'. split; [reflexivity|]. destruct Hpost as [Hs Hh].
    unfold peeked_reader. rewrite Hs. apply ml_fill_from_reader_reads_everything.
    intros Hin. apply Hff. destruct got; [apply Hh; exact Hin|].
    destruct Hin as [Hx|Hin]; [discriminate|apply Hh; exact Hin].
  - exfalso. exact (Hff Hpost).
  - contradiction.
Qed.
