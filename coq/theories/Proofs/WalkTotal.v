(* Proofs/WalkTotal.v — termination of the parallel walker model (every descent is finite) and the serial
   walker model's output = the descent tree (property C06). *)
From RG Require Import Base.Bytes Model.Walk Proofs.WalkProofs.
From Coq Require Import Permutation.

Section Total.
  Variable fs : fsys.
  Variable max_depth : option nat.
  Variable max_filesize : option N.
  Variable follow_links : bool.
  Variable same_file_system : bool.
  Variable has_filter : bool.
  Variable filter : dent -> bool.
  Variable should_skip : igstack -> dent -> bool.

  Notation step := (run_one fs max_depth max_filesize follow_links has_filter filter should_skip).
  Notation desc := (descent fs max_depth max_filesize follow_links has_filter filter should_skip).
  Notation ploop := (par_loop fs max_depth max_filesize follow_links has_filter filter should_skip).

  (* induction over a descent derivation, with the hypothesis for every generated work item *)
  Section DescInd.
    Variable P : work -> list out -> Prop.
    Hypothesis H : forall w os ws each,
      step w = (os, ws) -> Forall2 desc ws each -> Forall2 P ws each -> P w (os ++ concat each).
    Fixpoint descent_ind2 (w : work) (o : list out) (d : desc w o) {struct d} : P w o :=
      match d with
      | Descent _ _ _ _ _ _ _ w0 os ws each e f =>
        H w0 os ws each e f
          ((fix go (l : list work) (l' : list (list out)) (f0 : Forall2 desc l l') {struct f0} : Forall2 P l l' :=
              match f0 with
              | Forall2_nil _ => Forall2_nil _
              | Forall2_cons x y hxy hf => Forall2_cons x y (descent_ind2 x y hxy) (go _ _ hf)
              end) ws each f)
      end.
  End DescInd.

  (* processing a work item and everything below it: a fixed number of worklist steps, whatever follows *)
  Lemma par_consume : forall w D, desc w D ->
    forall rest acc, exists k O,
      (forall F, ploop (k + F) (w :: rest) acc = ploop F rest (acc ++ O)) /\ Permutation O D.
  Proof.
    apply (descent_ind2 (fun w D => forall rest acc, exists k O,
      (forall F, ploop (k + F) (w :: rest) acc = ploop F rest (acc ++ O)) /\ Permutation O D)).
    intros w os ws each ES _ IH rest acc.
    (* the generated items are pushed reversed *)
    assert (HL : forall l each', Forall2 (fun w D => forall rest acc, exists k O,
                   (forall F, ploop (k + F) (w :: rest) acc = ploop F rest (acc ++ O)) /\ Permutation O D) l each' ->
                 forall rest acc, exists k O,
                   (forall F, ploop (k + F) (rev l ++ rest) acc = ploop F rest (acc ++ O)) /\ Permutation O (concat each')).
    { induction 1 as [|x D l e' Hx Hl IHl]; intros rest0 acc0.
      - exists 0, []. split; [intro F; cbn; rewrite app_nil_r; reflexivity|constructor].
      - cbn [rev]. rewrite <- app_assoc. cbn [app].
        destruct (IHl (x :: rest0) acc0) as (k1 & O1 & H1 & P1).
        destruct (Hx rest0 (acc0 ++ O1)) as (k2 & O2 & H2 & P2).
        exists (k1 + k2), (O1 ++ O2). split.
        + intro F. rewrite <- Nat.add_assoc, H1, H2, app_assoc. reflexivity.
        + cbn [concat]. eapply Permutation_trans; [apply Permutation_app_comm|]. apply Permutation_app; assumption. }
    destruct (HL ws each IH rest (acc ++ os)) as (k & O & HK & HP).
    exists (S k), (os ++ O). split.
    - intro F. cbn [Nat.add par_loop]. rewrite ES. rewrite HK, app_assoc. reflexivity.
    - apply Permutation_app_head. exact HP.
  Qed.

  (* ------------------------------------------------------------ every descent is finite *)
  Definition dent_ok (e : dent) : Prop := de_ty e = lstat_type fs (de_ino e).
  (* a directory's sub-directories (not links) have larger inode numbers: the directory graph without
     symlinks is a forest *)
  Definition ranked : Prop :=
    forall i name j, In (name, j) (dir_ents fs i) -> lstat_type fs j = TyDir -> i < j.

  Definition inS (ig : igstack) (x : nat) : bool :=
    existsb (fun a => match resolve fs (snd a) with Some y => Nat.eqb y x | None => false end) ig.
  Definition free (ig : igstack) : nat :=
    length (List.filter (fun x => negb (inS ig x)) (seq 0 (length fs))).
  Definition mu (w : work) : nat :=
    let e := w_dent w in
    if de_is_dir e
    then S (free ((de_path e, de_ino e) :: w_ig w) * S (length fs) + (length fs - de_ino e))
    else 0.

  Lemma dir_lt j : lstat_type fs j = TyDir -> j < length fs.
  Proof.
    intro H. destruct (Nat.lt_ge_cases j (length fs)) as [Hl|Hl]; [exact Hl|].
    unfold lstat_type, iget in H. rewrite (nth_overflow fs dflt_inode Hl) in H. discriminate.
  Qed.
  Lemma dir_resolve j : lstat_type fs j = TyDir -> resolve fs j = Some j.
  Proof. unfold lstat_type, resolve. destruct (i_kind (iget fs j)); try discriminate; reflexivity. Qed.

  Lemma filter_len_le {A} (p p' : A -> bool) l :
    (forall x, p' x = true -> p x = true) -> length (List.filter p' l) <= length (List.filter p l).
  Proof.
    intro H. induction l as [|x r IH]; cbn [List.filter]; [lia|].
    destruct (p' x) eqn:E; [rewrite (H x E); cbn [length]; lia|]. destruct (p x); cbn [length]; lia.
  Qed.
  Lemma filter_len_lt {A} (p p' : A -> bool) l x :
    (forall x, p' x = true -> p x = true) -> In x l -> p x = true -> p' x = false ->
    length (List.filter p' l) < length (List.filter p l).
  Proof.
    intros H Hin Hp Hp'. induction l as [|y r IH]; [destruct Hin|]. cbn [List.filter].
    destruct Hin as [->|Hin].
    - rewrite Hp, Hp'. cbn [length]. pose proof (filter_len_le p p' r H). lia.
    - specialize (IH Hin). destruct (p' y) eqn:E; [rewrite (H y E); cbn [length]; lia|].
      destruct (p y); cbn [length]; lia.
  Qed.

  Lemma free_mono a ig : free (a :: ig) <= free ig.
  Proof.
    apply filter_len_le. intros x H. unfold inS in *. cbn [existsb] in H.
    apply negb_true_iff in H. apply orb_false_iff in H as [_ H]. rewrite H. reflexivity.
  Qed.
  Lemma free_strict a ig t :
    resolve fs (snd a) = Some t -> t < length fs -> inS ig t = false -> free (a :: ig) < free ig.
  Proof.
    intros HR HT HS. apply (filter_len_lt _ _ _ t).
    - intros x H. unfold inS in *. cbn [existsb] in H.
      apply negb_true_iff in H. apply orb_false_iff in H as [_ H]. rewrite H. reflexivity.
    - apply in_seq. lia.
    - rewrite HS. reflexivity.
    - unfold inS. cbn [existsb]. rewrite HR, Nat.eqb_refl. reflexivity.
  Qed.

  Lemma is_dir_ty e : de_is_dir e = true -> de_ty e = TyDir.
  Proof. unfold de_is_dir. destruct (de_ty e); cbn; try discriminate; reflexivity. Qed.

  (* what generate_work queues is well formed and strictly smaller *)
  Lemma child_smaller w ent c :
    ranked -> dent_ok (w_dent w) -> de_is_dir (w_dent w) = true ->
    In ent (dir_ents fs (de_ino (w_dent w))) ->
    generate_work fs max_filesize follow_links has_filter filter should_skip
      ((de_path (w_dent w), de_ino (w_dent w)) :: w_ig w) (de_path (w_dent w)) (S (de_depth (w_dent w))) ent = GWork c ->
    dent_ok c /\
    mu {| w_dent := c; w_ig := (de_path (w_dent w), de_ino (w_dent w)) :: w_ig w; w_root_dev := w_root_dev w |} < mu w.
  Proof.
    intros HR HOK HD HIn HG. set (e := w_dent w) in *. set (ig' := (de_path e, de_ino e) :: w_ig w) in *.
    assert (Hmu : mu w = S (free ig' * S (length fs) + (length fs - de_ino e))).
    { unfold mu. fold e. rewrite HD. reflexivity. }
    rewrite Hmu. unfold generate_work, gw_follow in HG.
    destruct (follow_links && de_is_symlink (from_entry fs (de_path e) (S (de_depth e)) ent)) eqn:E1.
    - cbn [from_entry de_path de_ino] in HG. unfold from_path in HG.
      destruct (resolve fs (snd ent)) as [t|] eqn:ER; [|discriminate].
      match type of HG with context [if ?b then _ else _] => destruct b eqn:E2 end; [discriminate|].
      match type of HG with context [if par_skip ?a ?b ?c ?d ?e0 ?f ?g then _ else _] => destruct (par_skip a b c d e0 f g) end;
        [discriminate|]. injection HG as <-.
      split; [reflexivity|].
      unfold mu. cbn [w_dent w_ig de_path de_ino]. unfold de_is_dir at 1. cbn [de_ty].
      destruct (ftype_eqb (lstat_type fs t) TyDir) eqn:ET; [|lia].
      assert (HT : lstat_type fs t = TyDir) by (destruct (lstat_type fs t); cbn in ET; try discriminate; reflexivity).
      unfold de_is_dir in E2. cbn [de_ty de_ino] in E2. rewrite ET in E2. cbn [andb] in E2.
      assert (HS : inS ig' t = false).
      { unfold inS. unfold check_symlink_loop in E2. clear -E2 HT.
        induction ig' as [|a r IH]; [reflexivity|]. cbn [existsb] in *. apply orb_false_iff in E2 as [E2a E2b].
        rewrite (IH E2b), orb_false_r. unfold same_handle in E2a. rewrite (dir_resolve t HT) in E2a.
        destruct (resolve fs (snd a)) as [y|]; [|reflexivity]. rewrite Nat.eqb_sym. exact E2a. }
      pose proof (free_strict (path_join (de_path e) (fst ent), t) ig' t (dir_resolve t HT) (dir_lt t HT) HS) as HF.
      cbn [snd] in HF. nia.
    - match type of HG with context [if par_skip ?a ?b ?c ?d ?e0 ?f ?g then _ else _] => destruct (par_skip a b c d e0 f g) end;
        [discriminate|]. injection HG as <-.
      split; [reflexivity|].
      unfold mu. cbn [w_dent w_ig from_entry de_path de_ino]. unfold de_is_dir at 1. cbn [from_entry de_ty].
      destruct (ftype_eqb (lstat_type fs (snd ent)) TyDir) eqn:ET; [|lia].
      assert (HT : lstat_type fs (snd ent) = TyDir) by (destruct (lstat_type fs (snd ent)); cbn in ET; try discriminate; reflexivity).
      destruct ent as [name j]. cbn [snd fst] in *.
      pose proof (HR (de_ino e) name j HIn HT) as HLT. pose proof (dir_lt j HT) as HJ.
      pose proof (free_mono (path_join (de_path e) name, j) ig') as HF. nia.
  Qed.

  Lemma forall_exists_Forall2 {A B} (R : A -> B -> Prop) l :
    (forall x, In x l -> exists y, R x y) -> exists l', Forall2 R l l'.
  Proof.
    induction l as [|x r IH]; intro H; [exists []; constructor|].
    destruct (H x (or_introl eq_refl)) as [y Hy]. destruct IH as [l' Hl']; [intros z Hz; apply H; right; exact Hz|].
    exists (y :: l'). constructor; assumption.
  Qed.

  (* the shape of run_one's result *)
  Lemma run_one_shape w :
    step w = ([OEntry (w_dent w)], []) \/
    (de_is_dir (w_dent w) = true /\
     let e := w_dent w in
     let ig' := (de_path e, de_ino e) :: w_ig w in
     let rs := map (generate_work fs max_filesize follow_links has_filter filter should_skip ig' (de_path e) (S (de_depth e)))
                   (dir_ents fs (de_ino e)) in
     step w = (OEntry e :: flat_map (fun r => match r with GOut o => [o] | _ => [] end) rs,
               flat_map (fun r => match r with GWork c => [{| w_dent := c; w_ig := ig'; w_root_dev := w_root_dev w |}] | _ => [] end) rs)).
  Proof.
    unfold run_one.
    destruct (de_is_symlink (w_dent w) || negb (de_is_dir (w_dent w))) eqn:E; [left; reflexivity|].
    apply orb_false_iff in E as [_ E]. apply negb_false_iff in E.
    match goal with |- context [if negb ?b then _ else _] => destruct b end; cbn [negb]; [|left; reflexivity].
    match goal with |- context [if ?b then (_, _) else _] => destruct b end; [left; reflexivity|].
    right. split; [exact E|reflexivity].
  Qed.

  Lemma descent_exists_m : ranked -> forall m w, mu w < m -> dent_ok (w_dent w) -> exists D, desc w D.
  Proof.
    intros HR m. induction m as [|m IH]; intros w Hm HOK; [lia|].
    destruct (run_one_shape w) as [HS|[HD HS]].
    - exists ([OEntry (w_dent w)] ++ concat []). econstructor; [exact HS|constructor].
    - cbv zeta in HS.
      match type of HS with step w = (?os, ?ws) =>
        assert (HE : exists each, Forall2 desc ws each) end.
      { apply forall_exists_Forall2. intros c Hc. apply in_flat_map in Hc as (r & Hr & Hc).
        destruct r as [o| |c0]; [destruct Hc|destruct Hc|]. destruct Hc as [<-|[]].
        apply in_map_iff in Hr as (ent & Hg & Hent).
        destruct (child_smaller w ent c0 HR HOK HD Hent Hg) as [Hok Hlt].
        apply IH; [lia|exact Hok]. }
      destruct HE as [each HE]. eexists. econstructor; [exact HS|exact HE].
  Qed.

  Lemma descent_exists : ranked -> forall w, dent_ok (w_dent w) -> exists D, desc w D.
  Proof. intros HR w. apply (descent_exists_m HR (S (mu w))). lia. Qed.

  (* ------------------------------------------------------------ the parallel walker always finishes *)
  Lemma par_consume_list l each : Forall2 desc l each ->
    forall rest acc, exists k O,
      (forall F, ploop (k + F) (rev l ++ rest) acc = ploop F rest (acc ++ O)) /\ Permutation O (concat each).
  Proof.
    induction 1 as [|x D l e' Hx Hl IHl]; intros rest0 acc0.
    - exists 0, []. split; [intro F; cbn; rewrite app_nil_r; reflexivity|constructor].
    - cbn [rev]. rewrite <- app_assoc. cbn [app].
      destruct (IHl (x :: rest0) acc0) as (k1 & O1 & H1 & P1).
      destruct (par_consume x D Hx rest0 (acc0 ++ O1)) as (k2 & O2 & H2 & P2).
      exists (k1 + k2), (O1 ++ O2). split.
      + intro F. rewrite <- Nat.add_assoc, H1, H2, app_assoc. reflexivity.
      + cbn [concat]. eapply Permutation_trans; [apply Permutation_app_comm|]. apply Permutation_app; assumption.
  Qed.

  Lemma par_root_ok r w : In w (snd (par_root fs same_file_system r)) -> dent_ok (w_dent w).
  Proof.
    unfold par_root, from_path.
    destruct same_file_system; [destruct (dev_of fs (snd r))|]; cbn [snd];
      try (destruct (resolve fs (snd r)); cbn [snd]; [intros [<-|[]]; reflexivity|intros []]).
    intros [].
  Qed.

  Lemma par_total_proof roots : ranked ->
    exists k outs each,
      (forall F, par_walk fs max_depth max_filesize follow_links same_file_system has_filter filter should_skip (k + F) roots = Some outs) /\
      Forall2 desc (flat_map snd (map (par_root fs same_file_system) roots)) each /\
      Permutation outs (flat_map fst (map (par_root fs same_file_system) roots) ++ concat each).
  Proof.
    intro HR. unfold par_walk.
    set (ws := flat_map snd (map (par_root fs same_file_system) roots)).
    set (es := flat_map fst (map (par_root fs same_file_system) roots)).
    destruct (forall_exists_Forall2 desc ws) as [each HE].
    { intros w Hw. apply (descent_exists HR). unfold ws in Hw. apply in_flat_map in Hw as (p & Hp & Hw).
      apply in_map_iff in Hp as (r & <- & _). apply (par_root_ok r w Hw). }
    destruct (par_consume_list ws each HE [] es) as (k & O & HK & HP).
    exists k, (es ++ O), each. split; [|split; [exact HE|apply Permutation_app_head; exact HP]].
    intro F. rewrite <- (app_nil_r (rev ws)), HK. destruct F; reflexivity.
  Qed.
End Total.
