(* Proofs/WalkTotal.v — property C06: every descent is finite (termination of both walker models), the
   parallel worklist and the serial three-layer iterator both report exactly the descent tree. *)
From RG Require Import Base.Bytes Model.Walk Spec.WalkSpec Proofs.WalkProofs.
From Coq Require Import Permutation.

Section Total.
  Variable fs : fsys.
  Variable max_depth : option nat.
  Variable max_filesize : option N.
  Variable follow_links : bool.
  Variable same_file_system : bool.
  Variable has_filter : bool.
  Variable filter : dent -> bool.
  Variable should_skip : igstack -> dent -> bool.

  Notation step := (run_one fs max_depth max_filesize follow_links has_filter filter should_skip).
  Notation desc := (descent fs max_depth max_filesize follow_links has_filter filter should_skip).
  Notation ploop := (par_loop fs max_depth max_filesize follow_links has_filter filter should_skip).

  (* induction over a descent derivation, with the hypothesis for every generated work item *)
  Section DescInd.
    Variable P : work -> list out -> Prop.
    Hypothesis H : forall w os ws each,
      step w = (os, ws) -> Forall2 desc ws each -> Forall2 P ws each -> P w (os ++ concat each).
    Fixpoint descent_ind2 (w : work) (o : list out) (d : desc w o) {struct d} : P w o :=
      match d with
      | Descent _ _ _ _ _ _ _ w0 os ws each e f =>
        H w0 os ws each e f
          ((fix go (l : list work) (l' : list (list out)) (f0 : Forall2 desc l l') {struct f0} : Forall2 P l l' :=
              match f0 with
              | Forall2_nil _ => Forall2_nil _
              | Forall2_cons x y hxy hf => Forall2_cons x y (descent_ind2 x y hxy) (go _ _ hf)
              end) ws each f)
      end.
  End DescInd.

  (* processing a work item and everything below it: a fixed number of worklist steps, whatever follows *)
  Lemma par_consume : forall w D, desc w D ->
    forall rest acc, exists k O,
      (forall F, ploop (k + F) (w :: rest) acc = ploop F rest (acc ++ O)) /\ Permutation O D.
  Proof.
    apply (descent_ind2 (fun w D => forall rest acc, exists k O,
      (forall F, ploop (k + F) (w :: rest) acc = ploop F rest (acc ++ O)) /\ Permutation O D)).
    intros w os ws each ES _ IH rest acc.
    (* the generated items are pushed reversed *)
    assert (HL : forall l each', Forall2 (fun w D => forall rest acc, exists k O,
                   (forall F, ploop (k + F) (w :: rest) acc = ploop F rest (acc ++ O)) /\ Permutation O D) l each' ->
                 forall rest acc, exists k O,
                   (forall F, ploop (k + F) (rev l ++ rest) acc = ploop F rest (acc ++ O)) /\ Permutation O (concat each')).
    { induction 1 as [|x D l e' Hx Hl IHl]; intros rest0 acc0.
      - exists 0, []. split; [intro F; cbn; rewrite app_nil_r; reflexivity|constructor].
      - cbn [rev]. rewrite <- app_assoc. cbn [app].
        destruct (IHl (x :: rest0) acc0) as (k1 & O1 & H1 & P1).
        destruct (Hx rest0 (acc0 ++ O1)) as (k2 & O2 & H2 & P2).
        exists (k1 + k2), (O1 ++ O2). split.
        + intro F. rewrite <- Nat.add_assoc, H1, H2, app_assoc. reflexivity.
        + cbn [concat]. eapply Permutation_trans; [apply Permutation_app_comm|]. apply Permutation_app; assumption. }
    destruct (HL ws each IH rest (acc ++ os)) as (k & O & HK & HP).
    exists (S k), (os ++ O). split.
    - intro F. cbn [Nat.add par_loop]. rewrite ES. rewrite HK, app_assoc. reflexivity.
    - apply Permutation_app_head. exact HP.
  Qed.

  (* ------------------------------------------------------------ every descent is finite *)
  Definition dent_ok (e : dent) : Prop := de_ty e = lstat_type fs (de_ino e).
  (* a directory's sub-directories (not links) have larger inode numbers: the directory graph without
     symlinks is a forest *)
  Notation ranked := (WalkSpec.ranked fs).

  Definition inS (ig : igstack) (x : nat) : bool :=
    existsb (fun a => match resolve fs (snd a) with Some y => Nat.eqb y x | None => false end) ig.
  Definition free (ig : igstack) : nat :=
    length (List.filter (fun x => negb (inS ig x)) (seq 0 (length fs))).
  Definition mu (rk : nat -> nat) (B : nat) (w : work) : nat :=
    let e := w_dent w in
    if de_is_dir e
    then S (free ((de_path e, de_ino e) :: w_ig w) * S B + (B - rk (de_ino e)))
    else 0.

  Lemma dir_lt j : lstat_type fs j = TyDir -> j < length fs.
  Proof.
    intro H. destruct (Nat.lt_ge_cases j (length fs)) as [Hl|Hl]; [exact Hl|].
    unfold lstat_type, iget in H. rewrite (nth_overflow fs dflt_inode Hl) in H. discriminate.
  Qed.
  Lemma dir_resolve j : lstat_type fs j = TyDir -> resolve fs j = Some j.
  Proof. unfold lstat_type, resolve. destruct (i_kind (iget fs j)); try discriminate; reflexivity. Qed.

  Lemma filter_len_le {A} (p p' : A -> bool) l :
    (forall x, p' x = true -> p x = true) -> length (List.filter p' l) <= length (List.filter p l).
  Proof.
    intro H. induction l as [|x r IH]; cbn [List.filter]; [lia|].
    destruct (p' x) eqn:E; [rewrite (H x E); cbn [length]; lia|]. destruct (p x); cbn [length]; lia.
  Qed.
  Lemma filter_len_lt {A} (p p' : A -> bool) l x :
    (forall x, p' x = true -> p x = true) -> In x l -> p x = true -> p' x = false ->
    length (List.filter p' l) < length (List.filter p l).
  Proof.
    intros H Hin Hp Hp'. induction l as [|y r IH]; [destruct Hin|]. cbn [List.filter].
    destruct Hin as [->|Hin].
    - rewrite Hp, Hp'. cbn [length]. pose proof (filter_len_le p p' r H). lia.
    - specialize (IH Hin). destruct (p' y) eqn:E; [rewrite (H y E); cbn [length]; lia|].
      destruct (p y); cbn [length]; lia.
  Qed.

  Lemma free_mono a ig : free (a :: ig) <= free ig.
  Proof.
    apply filter_len_le. intros x H. unfold inS in *. cbn [existsb] in H.
    apply negb_true_iff in H. apply orb_false_iff in H as [_ H]. rewrite H. reflexivity.
  Qed.
  Lemma free_strict a ig t :
    resolve fs (snd a) = Some t -> t < length fs -> inS ig t = false -> free (a :: ig) < free ig.
  Proof.
    intros HR HT HS. apply (filter_len_lt _ _ _ t).
    - intros x H. unfold inS in *. cbn [existsb] in H.
      apply negb_true_iff in H. apply orb_false_iff in H as [_ H]. rewrite H. reflexivity.
    - apply in_seq. lia.
    - rewrite HS. reflexivity.
    - unfold inS. cbn [existsb]. rewrite HR, Nat.eqb_refl. reflexivity.
  Qed.

  Lemma is_dir_ty e : de_is_dir e = true -> de_ty e = TyDir.
  Proof. unfold de_is_dir. destruct (de_ty e); cbn; try discriminate; reflexivity. Qed.

  (* what generate_work queues is well formed and strictly smaller *)
  Lemma child_smaller rk B w ent c :
    ranked rk B -> dent_ok (w_dent w) -> de_is_dir (w_dent w) = true ->
    In ent (dir_ents fs (de_ino (w_dent w))) ->
    generate_work fs max_filesize follow_links has_filter filter should_skip
      ((de_path (w_dent w), de_ino (w_dent w)) :: w_ig w) (de_path (w_dent w)) (S (de_depth (w_dent w))) ent = GWork c ->
    dent_ok c /\
    mu rk B {| w_dent := c; w_ig := (de_path (w_dent w), de_ino (w_dent w)) :: w_ig w; w_root_dev := w_root_dev w |} < mu rk B w.
  Proof.
    intros HR HOK HD HIn HG. set (e := w_dent w) in *. set (ig' := (de_path e, de_ino e) :: w_ig w) in *.
    assert (Hmu : mu rk B w = S (free ig' * S B + (B - rk (de_ino e)))).
    { unfold mu. fold e. rewrite HD. reflexivity. }
    rewrite Hmu. unfold generate_work, gw_follow in HG.
    destruct (follow_links && de_is_symlink (from_entry fs (de_path e) (S (de_depth e)) ent)) eqn:E1.
    - cbn [from_entry de_path de_ino] in HG. unfold from_path in HG.
      destruct (resolve fs (snd ent)) as [t|] eqn:ER; [|discriminate].
      match type of HG with context [if ?b then _ else _] => destruct b eqn:E2 end; [discriminate|].
      match type of HG with context [if par_skip ?a ?b ?c ?d ?e0 ?f ?g then _ else _] => destruct (par_skip a b c d e0 f g) end;
        [discriminate|]. injection HG as <-.
      split; [reflexivity|].
      unfold mu. cbn [w_dent w_ig de_path de_ino]. unfold de_is_dir at 1. cbn [de_ty].
      destruct (ftype_eqb (lstat_type fs t) TyDir) eqn:ET; [|lia].
      assert (HT : lstat_type fs t = TyDir) by (destruct (lstat_type fs t); cbn in ET; try discriminate; reflexivity).
      unfold de_is_dir in E2. cbn [de_ty de_ino] in E2. rewrite ET in E2. cbn [andb] in E2.
      assert (HS : inS ig' t = false).
      { unfold inS. unfold check_symlink_loop in E2. clear -E2 HT.
        induction ig' as [|a r IH]; [reflexivity|]. cbn [existsb] in *. apply orb_false_iff in E2 as [E2a E2b].
        rewrite (IH E2b), orb_false_r. unfold same_handle in E2a. rewrite (dir_resolve t HT) in E2a.
        destruct (resolve fs (snd a)) as [y|]; [|reflexivity]. rewrite Nat.eqb_sym. exact E2a. }
      pose proof (free_strict (path_join (de_path e) (fst ent), t) ig' t (dir_resolve t HT) (dir_lt t HT) HS) as HF.
      cbn [snd] in HF. nia.
    - match type of HG with context [if par_skip ?a ?b ?c ?d ?e0 ?f ?g then _ else _] => destruct (par_skip a b c d e0 f g) end;
        [discriminate|]. injection HG as <-.
      split; [reflexivity|].
      unfold mu. cbn [w_dent w_ig from_entry de_path de_ino]. unfold de_is_dir at 1. cbn [from_entry de_ty].
      destruct (ftype_eqb (lstat_type fs (snd ent)) TyDir) eqn:ET; [|lia].
      assert (HT : lstat_type fs (snd ent) = TyDir) by (destruct (lstat_type fs (snd ent)); cbn in ET; try discriminate; reflexivity).
      destruct ent as [name j]. cbn [snd fst] in *.
      pose proof (HR (de_ino e) name j HIn HT) as HLT.
      pose proof (free_mono (path_join (de_path e) name, j) ig') as HF. nia.
  Qed.

  Lemma forall_exists_Forall2 {A B} (R : A -> B -> Prop) l :
    (forall x, In x l -> exists y, R x y) -> exists l', Forall2 R l l'.
  Proof.
    induction l as [|x r IH]; intro H; [exists []; constructor|].
    destruct (H x (or_introl eq_refl)) as [y Hy]. destruct IH as [l' Hl']; [intros z Hz; apply H; right; exact Hz|].
    exists (y :: l'). constructor; assumption.
  Qed.

  (* the shape of run_one's result *)
  Lemma run_one_shape w :
    step w = ([OEntry (w_dent w)], []) \/
    (de_is_dir (w_dent w) = true /\
     let e := w_dent w in
     let ig' := (de_path e, de_ino e) :: w_ig w in
     let rs := map (generate_work fs max_filesize follow_links has_filter filter should_skip ig' (de_path e) (S (de_depth e)))
                   (dir_ents fs (de_ino e)) in
     step w = (OEntry e :: flat_map (fun r => match r with GOut o => [o] | _ => [] end) rs,
               flat_map (fun r => match r with GWork c => [{| w_dent := c; w_ig := ig'; w_root_dev := w_root_dev w |}] | _ => [] end) rs)).
  Proof.
    unfold run_one.
    destruct (de_is_symlink (w_dent w) || negb (de_is_dir (w_dent w))) eqn:E; [left; reflexivity|].
    apply orb_false_iff in E as [_ E]. apply negb_false_iff in E.
    match goal with |- context [if negb ?b then _ else _] => destruct b end; cbn [negb]; [|left; reflexivity].
    match goal with |- context [if ?b then (_, _) else _] => destruct b end; [left; reflexivity|].
    right. split; [exact E|reflexivity].
  Qed.

  Lemma descent_exists_m rk B : ranked rk B -> forall m w, mu rk B w < m -> dent_ok (w_dent w) -> exists D, desc w D.
  Proof.
    intros HR m. induction m as [|m IH]; intros w Hm HOK; [lia|].
    destruct (run_one_shape w) as [HS|[HD HS]].
    - exists ([OEntry (w_dent w)] ++ concat []). econstructor; [exact HS|constructor].
    - cbv zeta in HS.
      match type of HS with step w = (?os, ?ws) =>
        assert (HE : exists each, Forall2 desc ws each) end.
      { apply forall_exists_Forall2. intros c Hc. apply in_flat_map in Hc as (r & Hr & Hc).
        destruct r as [o| |c0]; [destruct Hc|destruct Hc|]. destruct Hc as [<-|[]].
        apply in_map_iff in Hr as (ent & Hg & Hent).
        destruct (child_smaller rk B w ent c0 HR HOK HD Hent Hg) as [Hok Hlt].
        apply IH; [lia|exact Hok]. }
      destruct HE as [each HE]. eexists. econstructor; [exact HS|exact HE].
  Qed.

  Lemma descent_exists rk B : ranked rk B -> forall w, dent_ok (w_dent w) -> exists D, desc w D.
  Proof. intros HR w. apply (descent_exists_m rk B HR (S (mu rk B w))). lia. Qed.

  (* ------------------------------------------------------------ the parallel walker always finishes *)
  Lemma par_consume_list l each : Forall2 desc l each ->
    forall rest acc, exists k O,
      (forall F, ploop (k + F) (rev l ++ rest) acc = ploop F rest (acc ++ O)) /\ Permutation O (concat each).
  Proof.
    induction 1 as [|x D l e' Hx Hl IHl]; intros rest0 acc0.
    - exists 0, []. split; [intro F; cbn; rewrite app_nil_r; reflexivity|constructor].
    - cbn [rev]. rewrite <- app_assoc. cbn [app].
      destruct (IHl (x :: rest0) acc0) as (k1 & O1 & H1 & P1).
      destruct (par_consume x D Hx rest0 (acc0 ++ O1)) as (k2 & O2 & H2 & P2).
      exists (k1 + k2), (O1 ++ O2). split.
      + intro F. rewrite <- Nat.add_assoc, H1, H2, app_assoc. reflexivity.
      + cbn [concat]. eapply Permutation_trans; [apply Permutation_app_comm|]. apply Permutation_app; assumption.
  Qed.

  Lemma par_root_ok r w : In w (snd (par_root fs same_file_system r)) -> dent_ok (w_dent w).
  Proof.
    unfold par_root, from_path.
    destruct same_file_system; [destruct (dev_of fs (snd r))|]; cbn [snd];
      try (destruct (resolve fs (snd r)); cbn [snd]; [intros [<-|[]]; reflexivity|intros []]).
    intros [].
  Qed.

  Lemma par_total_proof rk B roots : ranked rk B ->
    exists k outs each,
      (forall F, par_walk fs max_depth max_filesize follow_links same_file_system has_filter filter should_skip (k + F) roots = Some outs) /\
      Forall2 desc (flat_map snd (map (par_root fs same_file_system) roots)) each /\
      Permutation outs (flat_map fst (map (par_root fs same_file_system) roots) ++ concat each).
  Proof.
    intro HR. unfold par_walk.
    set (ws := flat_map snd (map (par_root fs same_file_system) roots)).
    set (es := flat_map fst (map (par_root fs same_file_system) roots)).
    destruct (forall_exists_Forall2 desc ws) as [each HE].
    { intros w Hw. apply (descent_exists rk B HR). unfold ws in Hw. apply in_flat_map in Hw as (p & Hp & Hw).
      apply in_map_iff in Hp as (r & <- & _). apply (par_root_ok r w Hw). }
    destruct (par_consume_list ws each HE [] es) as (k & O & HK & HP).
    exists k, (es ++ O), each. split; [|split; [exact HE|apply Permutation_app_head; exact HP]].
    intro F. rewrite <- (app_nil_r (rev ws)), HK. destruct F; reflexivity.
  Qed.

  (* ============================================================ the serial walker *)
  Notation wstep := (walk_step fs max_depth max_filesize follow_links same_file_system has_filter filter should_skip true true).
  Notation wall := (walk_all fs max_depth max_filesize follow_links same_file_system has_filter filter should_skip true true).
  Notation gwork := (generate_work fs max_filesize follow_links has_filter filter should_skip).
  Notation pskip := (par_skip fs max_filesize has_filter filter should_skip).

  Definition wdst (fl : bool) (stack : list frame) (anc : list nat) (RD : option N) : wd :=
    {| wd_start := None; wd_follow := fl; wd_stack := stack; wd_anc := anc; wd_root_dev := RD |}.
  Definition mkw (its : list (bytes * nat)) (dl : nat) (s : wd) (nxt : option wres) (ig : igstack) (RD : option N) : walk :=
    {| wk_its := its; wk_it := Some {| we_depth := dl; we_it := s; we_next := nxt |}; wk_ig := ig; wk_root_dev := RD |}.

  Lemma wall_congr w1 w2 : wstep w1 = wstep w2 -> forall F acc, wall F w1 acc = wall F w2 acc.
  Proof. intros H F acc. destruct F; cbn [walk_all]; [reflexivity|]. rewrite H. reflexivity. Qed.
  Lemma wall_silent w w' : wstep w = WSilent w' -> forall F acc, wall (S F) w acc = wall F w' acc.
  Proof. intros H F acc. cbn [walk_all]. rewrite H. reflexivity. Qed.
  Lemma wall_out w w' o : wstep w = WOut o w' -> forall F acc, wall (S F) w acc = wall F w' (acc ++ [o]).
  Proof. intros H F acc. cbn [walk_all]. rewrite H. reflexivity. Qed.

  (* reading the next walkdir result = having it in WalkEventIter's one-element buffer *)
  Lemma wstep_read its dl s ig RD res s2 :
    wd_next fs max_depth same_file_system s = (Some res, s2) ->
    wstep (mkw its dl s None ig RD) = wstep (mkw its dl s2 (Some res) ig RD).
  Proof. intro H. unfold walk_step, mkw, wei_next. cbn [wk_it we_next we_it we_depth]. rewrite H. reflexivity. Qed.

  (* Exit events: the matcher stack is popped down to the depth of the buffered result *)
  Lemma exits its s res RD : forall junk ig F acc,
    wall (length junk + F) (mkw its (length junk + wres_depth res) s (Some res) (junk ++ ig) RD) acc
    = wall F (mkw its (wres_depth res) s (Some res) ig RD) acc.
  Proof.
    induction junk as [|x junk IH]; intros ig F acc; [reflexivity|].
    cbn [length Nat.add app]. rewrite <- (IH ig F acc). apply wall_silent.
    unfold walk_step, mkw, wei_next. cbn [wk_it we_next we_it we_depth wk_ig wk_its wk_root_dev].
    assert (HL : Nat.ltb (wres_depth res) (S (length junk + wres_depth res)) = true) by (apply Nat.ltb_lt; lia).
    rewrite HL. cbn [tl].
    replace (S (length junk + wres_depth res) - 1) with (length junk + wres_depth res) by lia. reflexivity.
  Qed.

  (* frames that are exhausted or lie beyond max_depth are popped before anything is read *)
  Notation exceeds := (exceeds_max max_depth).
  Fixpoint dead_ok (dead : list frame) (n : nat) : Prop :=
    match dead with
    | [] => True
    | d :: r => (fr_rest d = [] \/ exceeds (n + length dead) = true) /\ dead_ok r n
    end.

  Definition ancs (ancD : list nat) (igL : igstack) : list nat :=
    if follow_links then ancD ++ map snd igL else [].

  Lemma adv_dead frames igL : forall dead ancD,
    dead_ok dead (length frames) -> (follow_links = true -> length ancD = length dead) ->
    wd_advance max_depth follow_links (dead ++ frames) (ancs ancD igL)
    = wd_advance max_depth follow_links frames (ancs [] igL).
  Proof.
    induction dead as [|d r IH]; intros ancD HD HA.
    - unfold ancs. destruct follow_links; [|reflexivity]. destruct ancD; [reflexivity|]. specialize (HA eq_refl). discriminate.
    - cbn [dead_ok] in HD. destruct HD as [HD1 HD2].
      cbn [app wd_advance].
      replace (length (d :: r ++ frames)) with (length frames + length (d :: r)) by (cbn [length]; rewrite app_length; lia).
      assert (HT : (if follow_links then tl (ancs ancD igL) else ancs ancD igL) = ancs (tl ancD) igL).
      { unfold ancs. destruct follow_links; [|reflexivity]. destruct ancD; [specialize (HA eq_refl); discriminate|reflexivity]. }
      assert (HA' : follow_links = true -> length (tl ancD) = length r).
      { intro E. specialize (HA E). destruct ancD; cbn in *; lia. }
      destruct (exceeds (length frames + length (d :: r))) eqn:EX.
      + rewrite HT. apply IH; assumption.
      + destruct HD1 as [HD1|HD1]; [|discriminate]. rewrite HD1, HT. apply IH; assumption.
  Qed.

  (* the live state between two entries of the directory on top of walkdir's stack *)
  Definition live (its : list (bytes * nat)) (junk : igstack) (dead : list frame) (ancD : list nat)
                  (frames : list frame) (igL : igstack) (RD : option N) : walk :=
    mkw its (length junk + length frames) (wdst follow_links (dead ++ frames) (ancs ancD igL) RD) None (junk ++ igL) RD.

  Definition live_ok (dead : list frame) (ancD : list nat) (n : nat) : Prop :=
    dead_ok dead n /\ (follow_links = true -> length ancD = length dead).

  Lemma wd_next_live dead ancD P ent more below igL RD :
    live_ok dead ancD (S (length below)) -> exceeds (S (length below)) = false ->
    wd_next fs max_depth same_file_system (wdst follow_links (dead ++ {| fr_path := P; fr_rest := ent :: more |} :: below) (ancs ancD igL) RD)
    = let (res, s2) := wd_handle_entry fs same_file_system
                         (wdst follow_links ({| fr_path := P; fr_rest := more |} :: below) (ancs [] igL) RD)
                         (from_entry fs P (S (length below)) ent) in
      (Some res, s2).
  Proof.
    intros [HD HA] HX. unfold wd_next, wdst. cbn [wd_start wd_follow wd_stack wd_anc wd_root_dev].
    rewrite (adv_dead ({| fr_path := P; fr_rest := ent :: more |} :: below) igL dead ancD HD HA).
    cbn [wd_advance length fr_rest fr_path]. rewrite HX. reflexivity.
  Qed.

  (* ------------------------------------------------------------ walkdir's handle_entry vs generate_work *)
  Definition pushq (RD : option N) (e : dent) : bool :=
    match RD with
    | Some rd => match dev_of fs (de_ino e) with Some d => (d =? rd)%N | None => true end
    | None => true
    end.
  Definition RD_ok (RD : option N) : Prop :=
    same_file_system = match RD with Some _ => true | None => false end.

  Lemma existsb_map' {A B} (f : B -> bool) (g : A -> B) l : existsb f (map g l) = existsb (fun x => f (g x)) l.
  Proof. induction l as [|x r IH]; cbn; [reflexivity|]. rewrite IH. reflexivity. Qed.

  Lemma wd_enter_deep s e RD :
    wd_root_dev s = RD -> RD_ok RD -> 0 < de_depth e ->
    wd_enter fs same_file_system s e = (WOk e, if de_is_dir e && pushq RD e then wd_push fs s e else s).
  Proof.
    intros HRD HOK HL. unfold wd_enter, pushq. rewrite HRD.
    assert (E0 : Nat.eqb (de_depth e) 0 = false) by (apply Nat.eqb_neq; lia).
    assert (E1 : Nat.ltb 0 (de_depth e) = true) by (apply Nat.ltb_lt; lia).
    rewrite E0, E1. unfold RD_ok in HOK. unfold de_is_symlink, de_is_dir.
    destruct (de_ty e); cbn [ftype_eqb negb andb]; try reflexivity.
    rewrite HOK. destruct RD as [rd|]; cbn [andb]; [|reflexivity].
    destruct (dev_of fs (de_ino e)) as [d|]; [|reflexivity]. destruct (d =? rd)%N; reflexivity.
  Qed.

  Lemma he_inl stack igL RD P L ent o :
    gw_follow fs follow_links igL P L ent = inl o ->
    exists r, wd_handle_entry fs same_file_system (wdst follow_links stack (ancs [] igL) RD) (from_entry fs P L ent)
              = (r, wdst follow_links stack (ancs [] igL) RD)
              /\ out_of_wres r = o /\ wres_depth r = L /\ (forall e, r <> WOk e).
  Proof.
    unfold gw_follow, wd_handle_entry, wdst, ancs. cbn [wd_follow wd_anc].
    destruct follow_links; cbn [andb app]; [|discriminate].
    destruct (de_is_symlink (from_entry fs P L ent)); [|discriminate].
    cbn [from_entry de_path de_depth de_ino].
    destruct (from_path fs (path_join P (fst ent)) L (snd ent) true) as [e1|].
    - unfold check_symlink_loop. rewrite existsb_map'.
      destruct (de_is_dir e1 && existsb (fun a => same_handle fs (de_ino e1) (snd a)) igL); [|discriminate].
      intro H. injection H as <-. eexists. split; [reflexivity|]. repeat split. discriminate.
    - intro H. injection H as <-. eexists. split; [reflexivity|]. repeat split. discriminate.
  Qed.

  Lemma gw_follow_inr igL P L ent e :
    gw_follow fs follow_links igL P L ent = inr e -> de_depth e = L /\ dent_ok e.
  Proof.
    unfold gw_follow. destruct (follow_links && de_is_symlink (from_entry fs P L ent)).
    - cbn [from_entry de_path de_ino]. unfold from_path. destruct (resolve fs (snd ent)); [|discriminate].
      match goal with |- context [if ?b then _ else _] => destruct b end; [discriminate|].
      intro H. injection H as <-. split; reflexivity.
    - intro H. injection H as <-. split; reflexivity.
  Qed.

  Lemma he_inr stack igL RD P L ent e :
    gw_follow fs follow_links igL P L ent = inr e -> RD_ok RD -> 0 < L ->
    wd_handle_entry fs same_file_system (wdst follow_links stack (ancs [] igL) RD) (from_entry fs P L ent)
    = (WOk e, if de_is_dir e && pushq RD e
              then wd_push fs (wdst follow_links stack (ancs [] igL) RD) e
              else wdst follow_links stack (ancs [] igL) RD).
  Proof.
    intros HG HOK HL. destruct (gw_follow_inr _ _ _ _ _ HG) as [HDp _].
    assert (HE : wd_enter fs same_file_system (wdst follow_links stack (ancs [] igL) RD) e
                 = (WOk e, if de_is_dir e && pushq RD e
                           then wd_push fs (wdst follow_links stack (ancs [] igL) RD) e
                           else wdst follow_links stack (ancs [] igL) RD)).
    { apply wd_enter_deep; [reflexivity|exact HOK|lia]. }
    set (S1 := wdst follow_links stack (ancs [] igL) RD) in *.
    assert (HF : wd_follow S1 = follow_links) by reflexivity.
    assert (HAn : wd_anc S1 = ancs [] igL) by reflexivity.
    clearbody S1. revert HG. unfold gw_follow, wd_handle_entry. rewrite HF, HAn. unfold ancs.
    destruct follow_links eqn:EF; cbn [andb app].
    - destruct (de_is_symlink (from_entry fs P L ent)).
      + cbn [from_entry de_path de_depth de_ino].
        destruct (from_path fs (path_join P (fst ent)) L (snd ent) true) as [e1|]; [|discriminate].
        unfold check_symlink_loop. rewrite existsb_map'.
        destruct (de_is_dir e1 && existsb (fun a => same_handle fs (de_ino e1) (snd a)) igL); [discriminate|].
        intro H. injection H as ->. exact HE.
      + intro H. injection H as ->. exact HE.
    - intro H. injection H as ->. exact HE.
  Qed.

  (* ------------------------------------------------------------ one entry of the serial walker *)
  Lemma to_buffer its junk dead ancD P ent more below igL RD res s2 :
    live_ok dead ancD (S (length below)) -> exceeds (S (length below)) = false ->
    wd_handle_entry fs same_file_system (wdst follow_links ({| fr_path := P; fr_rest := more |} :: below) (ancs [] igL) RD)
      (from_entry fs P (S (length below)) ent) = (res, s2) ->
    wres_depth res = S (length below) ->
    forall F acc,
      wall (length junk + F) (live its junk dead ancD ({| fr_path := P; fr_rest := ent :: more |} :: below) igL RD) acc
      = wall F (mkw its (S (length below)) s2 (Some res) igL RD) acc.
  Proof.
    intros HL HX HH HD F acc. unfold live. cbn [length].
    rewrite (wall_congr _ (mkw its (length junk + S (length below)) s2 (Some res) (junk ++ igL) RD)).
    - rewrite <- HD. apply exits.
    - apply wstep_read. rewrite (wd_next_live dead ancD P ent more below igL RD HL HX), HH. reflexivity.
  Qed.

  Lemma step_err its L s r ig RD :
    wres_depth r = L -> (forall e, r <> WOk e) ->
    wstep (mkw its L s (Some r) ig RD) = WOut (out_of_wres r) (mkw its L s None ig RD).
  Proof.
    intros HD HN. unfold walk_step, mkw, wei_next. cbn [wk_it we_next we_it we_depth wk_ig wk_its wk_root_dev].
    rewrite HD, Nat.ltb_irrefl. destruct r as [e|c d|p d]; [exfalso; apply (HN e); reflexivity| |]; reflexivity.
  Qed.

  Lemma step_file its s e ig RD :
    0 < de_depth e -> de_is_dir e = false ->
    wstep (mkw its (de_depth e) s (Some (WOk e)) ig RD)
    = if pskip ig e then WSilent (mkw its (de_depth e) s None ig RD)
      else WOut (OEntry e) (mkw its (de_depth e) s None ig RD).
  Proof.
    intros HL HD. unfold walk_step, mkw, wei_next. cbn [wk_it we_next we_it we_depth wk_ig wk_its wk_root_dev wres_depth].
    rewrite Nat.ltb_irrefl. unfold walkdir_is_dir. rewrite HD.
    assert (E1 : Nat.ltb 0 (de_depth e) = true) by (apply Nat.ltb_lt; lia). rewrite E1, orb_true_r.
    rewrite (skip_serial_eq_skip_parallel_proof fs max_filesize has_filter filter should_skip ig e HL).
    destruct (pskip ig e); reflexivity.
  Qed.

  Lemma step_dir its s e ig RD :
    0 < de_depth e -> de_is_dir e = true ->
    wstep (mkw its (de_depth e) s (Some (WOk e)) ig RD)
    = if pskip ig e
      then WSilent (mkw its (S (de_depth e)) (if pushq RD e then wd_skip_current_dir s else s) None
                        ((de_path e, hino fs e) :: ig) RD)
      else WOut (OEntry e) (mkw its (S (de_depth e)) s None ((de_path e, hino fs e) :: ig) RD).
  Proof.
    intros HL HD. unfold walk_step, mkw, wei_next. cbn [wk_it we_next we_it we_depth wk_ig wk_its wk_root_dev wres_depth].
    rewrite Nat.ltb_irrefl. unfold walkdir_is_dir. rewrite HD.
    rewrite (skip_serial_eq_skip_parallel_proof fs max_filesize has_filter filter should_skip ig e HL).
    destruct (pskip ig e); [|reflexivity].
    unfold is_descended, pushq. cbn [wk_root_dev negb orb].
    assert (E1 : Nat.ltb 0 (de_depth e) = true) by (apply Nat.ltb_lt; lia). rewrite E1.
    destruct RD as [rd|]; [|reflexivity]. destruct (dev_of fs (de_ino e)) as [d|]; [|reflexivity].
    destruct (d =? rd)%N; reflexivity.
  Qed.

  Lemma dead_ok_app fr : forall dead n,
    dead_ok dead (S n) -> (fr_rest fr = [] \/ exceeds (S n) = true) -> dead_ok (dead ++ [fr]) n.
  Proof.
    induction dead as [|d r IH]; intros n HD HF.
    - cbn [app dead_ok length]. replace (n + 1) with (S n) by lia. split; [exact HF|exact I].
    - cbn [app dead_ok] in *. destruct HD as [H1 H2]. split; [|apply IH; assumption].
      replace (n + length (d :: r ++ [fr])) with (S n + length (d :: r)); [exact H1|].
      cbn [length]. rewrite app_length. cbn [length]. lia.
  Qed.

  Lemma live_shift its junk dead ancD fr frames x igL RD :
    live its junk dead ancD (fr :: frames) (x :: igL) RD
    = live its (junk ++ [x]) (dead ++ [fr]) (ancD ++ [snd x]) frames igL RD.
  Proof.
    unfold live, mkw, wdst, ancs. rewrite !app_length. cbn [length map].
    replace (length junk + 1 + length frames) with (length junk + S (length frames)) by lia.
    rewrite <- !app_assoc. cbn [app]. reflexivity.
  Qed.

  Lemma live_ok_shift dead ancD fr n x :
    live_ok dead ancD (S n) -> (fr_rest fr = [] \/ exceeds (S n) = true) -> live_ok (dead ++ [fr]) (ancD ++ [x]) n.
  Proof.
    intros [H1 H2] HF. split; [apply dead_ok_app; assumption|].
    intro E. rewrite !app_length, (H2 E). reflexivity.
  Qed.

  Definition fpost (its : list (bytes * nat)) (P : bytes) (more : list (bytes * nat)) (below : list frame)
                   (igL : igstack) (RD : option N) (w0 : walk) (O : list out) : Prop :=
    exists n junk' dead' ancD', live_ok dead' ancD' (S (length below)) /\
      forall F acc, wall (n + F) w0 acc
                    = wall F (live its junk' dead' ancD' ({| fr_path := P; fr_rest := more |} :: below) igL RD) (acc ++ O).

  Lemma live_ok_nil n : live_ok [] [] n.
  Proof. split; [exact I|reflexivity]. Qed.

  Lemma fpost_compose its P l1 more below igL RD w0 O1 O2 Q :
    fpost its P l1 below igL RD w0 O1 ->
    (forall junk dead ancD, live_ok dead ancD (S (length below)) ->
       fpost its Q more below igL RD (live its junk dead ancD ({| fr_path := P; fr_rest := l1 |} :: below) igL RD) O2) ->
    fpost its Q more below igL RD w0 (O1 ++ O2).
  Proof.
    intros (n1 & j1 & d1 & a1 & HL1 & H1) H2. destruct (H2 j1 d1 a1 HL1) as (n2 & j2 & d2 & a2 & HL2 & H2').
    exists (n1 + n2), j2, d2, a2. split; [exact HL2|]. intros F acc.
    rewrite <- Nat.add_assoc, H1, H2', app_assoc. reflexivity.
  Qed.

  Lemma skip_push fl st an RD e : wd_skip_current_dir (wd_push fs (wdst fl st an RD) e) = wdst fl st an RD.
  Proof. unfold wd_skip_current_dir, wd_push, wd_pop, wdst. cbn. destruct fl; reflexivity. Qed.

  Lemma push_live frames igL RD c :
    resolve fs (de_ino c) = Some (de_ino c) ->
    wd_push fs (wdst follow_links frames (ancs [] igL) RD) c
    = wdst follow_links ({| fr_path := de_path c; fr_rest := dir_ents fs (de_ino c) |} :: frames)
           (ancs [] ((de_path c, de_ino c) :: igL)) RD.
  Proof. intro H. unfold wd_push, wdst, ancs. cbn. rewrite H. destruct follow_links; reflexivity. Qed.

  Lemma gwork_out igL P L ent o : gwork igL P L ent = GOut o -> gw_follow fs follow_links igL P L ent = inl o.
  Proof. unfold generate_work. destruct (gw_follow fs follow_links igL P L ent) as [o'|e]; [intro H; injection H as ->; reflexivity|]. destruct (pskip igL e); discriminate. Qed.
  Lemma gwork_nothing igL P L ent : gwork igL P L ent = GNothing ->
    exists e, gw_follow fs follow_links igL P L ent = inr e /\ pskip igL e = true.
  Proof. unfold generate_work. destruct (gw_follow fs follow_links igL P L ent) as [o'|e]; [discriminate|]. destruct (pskip igL e) eqn:E; [|discriminate]. intros _. exists e. split; [reflexivity|exact E]. Qed.
  Lemma gwork_work igL P L ent c : gwork igL P L ent = GWork c ->
    gw_follow fs follow_links igL P L ent = inr c /\ pskip igL c = false.
  Proof. unfold generate_work. destruct (gw_follow fs follow_links igL P L ent) as [o'|e]; [discriminate|]. destruct (pskip igL e) eqn:E; [discriminate|]. intro H. injection H as ->. split; [reflexivity|exact E]. Qed.

  (* an entry that is an error *)
  Lemma frame_out its junk dead ancD P ent more below igL RD o :
    live_ok dead ancD (S (length below)) -> exceeds (S (length below)) = false ->
    gwork igL P (S (length below)) ent = GOut o ->
    fpost its P more below igL RD (live its junk dead ancD ({| fr_path := P; fr_rest := ent :: more |} :: below) igL RD) [o].
  Proof.
    intros HL HX HG. apply gwork_out in HG.
    destruct (he_inl ({| fr_path := P; fr_rest := more |} :: below) igL RD P (S (length below)) ent o HG) as (r & HH & HO & HD & HN).
    exists (length junk + 1), [], [], []. split; [apply live_ok_nil|]. intros F acc.
    replace (length junk + 1 + F) with (length junk + S F) by lia.
    rewrite (to_buffer its junk dead ancD P ent more below igL RD r _ HL HX HH HD).
    rewrite (wall_out _ _ _ (step_err its _ _ r igL RD HD HN)), HO. reflexivity.
  Qed.

  (* an entry that is skipped *)
  Lemma frame_nothing its junk dead ancD P ent more below igL RD :
    live_ok dead ancD (S (length below)) -> exceeds (S (length below)) = false -> RD_ok RD ->
    gwork igL P (S (length below)) ent = GNothing ->
    fpost its P more below igL RD (live its junk dead ancD ({| fr_path := P; fr_rest := ent :: more |} :: below) igL RD) [].
  Proof.
    intros HL HX HRD HG. apply gwork_nothing in HG as (e & HG & HS).
    destruct (gw_follow_inr _ _ _ _ _ HG) as [HDp HOK].
    pose proof (he_inr ({| fr_path := P; fr_rest := more |} :: below) igL RD P (S (length below)) ent e HG HRD (Nat.lt_0_succ _)) as HH.
    assert (HD : wres_depth (WOk e) = S (length below)) by exact HDp.
    destruct (de_is_dir e) eqn:ED; cbn [andb] in HH.
    - exists (length junk + 1), [(de_path e, hino fs e)], [], []. split; [apply live_ok_nil|]. intros F acc.
      replace (length junk + 1 + F) with (length junk + S F) by lia.
      rewrite (to_buffer its junk dead ancD P ent more below igL RD _ _ HL HX HH HD).
      rewrite <- HDp at 1.
      rewrite (wall_silent _ _ (eq_trans (step_dir its _ e igL RD ltac:(lia) ED) ltac:(rewrite HS; reflexivity))).
      rewrite app_nil_r. apply wall_congr. f_equal.
      unfold live, mkw. cbn [length Nat.add app]. rewrite HDp.
      destruct (pushq RD e); [rewrite skip_push|]; reflexivity.
    - exists (length junk + 1), [], [], []. split; [apply live_ok_nil|]. intros F acc.
      replace (length junk + 1 + F) with (length junk + S F) by lia.
      rewrite (to_buffer its junk dead ancD P ent more below igL RD _ _ HL HX HH HD).
      rewrite <- HDp at 1.
      rewrite (wall_silent _ _ (eq_trans (step_file its _ e igL RD ltac:(lia) ED) ltac:(rewrite HS; reflexivity))).
      rewrite app_nil_r, HDp. reflexivity.
  Qed.

  (* ------------------------------------------------------------ a queued entry and everything below it *)
  Definition wk_of (ig' : igstack) (Q : bytes) (d : nat) (RD : option N) (l : list (bytes * nat)) : list work :=
    flat_map (fun r => match r with GWork c => [{| w_dent := c; w_ig := ig'; w_root_dev := RD |}] | _ => [] end)
             (map (gwork ig' Q d) l).
  Definition er_of (ig' : igstack) (Q : bytes) (d : nat) (l : list (bytes * nat)) : list out :=
    flat_map (fun r => match r with GOut o => [o] | _ => [] end) (map (gwork ig' Q d) l).

  Definition Pfw (w : work) (D : list out) : Prop :=
    forall its junk dead ancD Pth ent more below,
      live_ok dead ancD (S (length below)) -> exceeds (S (length below)) = false -> RD_ok (w_root_dev w) ->
      gwork (w_ig w) Pth (S (length below)) ent = GWork (w_dent w) ->
      exists O,
        fpost its Pth more below (w_ig w) (w_root_dev w)
              (live its junk dead ancD ({| fr_path := Pth; fr_rest := ent :: more |} :: below) (w_ig w) (w_root_dev w)) O
        /\ Permutation O D.

  Lemma fpost_nil its junk dead ancD P more below igL RD :
    live_ok dead ancD (S (length below)) ->
    fpost its P more below igL RD (live its junk dead ancD ({| fr_path := P; fr_rest := more |} :: below) igL RD) [].
  Proof. intro H. exists 0, junk, dead, ancD. split; [exact H|]. intros F acc. rewrite app_nil_r. reflexivity. Qed.

  (* all entries of the directory on top of the stack *)
  Lemma flist its Q below ig' RD :
    exceeds (S (length below)) = false -> RD_ok RD ->
    forall l each more, Forall2 Pfw (wk_of ig' Q (S (length below)) RD l) each ->
    forall junk dead ancD, live_ok dead ancD (S (length below)) ->
    exists Oc,
      fpost its Q more below ig' RD (live its junk dead ancD ({| fr_path := Q; fr_rest := l ++ more |} :: below) ig' RD) Oc
      /\ Permutation Oc (er_of ig' Q (S (length below)) l ++ concat each).
  Proof.
    intros HX HRD. induction l as [|ent l IH]; intros each more HF junk dead ancD HL.
    - inversion HF; subst. exists []. split; [apply fpost_nil; exact HL|constructor].
    - unfold wk_of, er_of in *. cbn [map flat_map app] in *.
      destruct (gwork ig' Q (S (length below)) ent) as [o| |c] eqn:EG.
      + pose proof (frame_out its junk dead ancD Q ent (l ++ more) below ig' RD o HL HX EG) as H1.
        destruct H1 as (n1 & j1 & d1 & a1 & HL1 & H1).
        destruct (IH each more HF j1 d1 a1 HL1) as (O2 & (n2 & j2 & d2 & a2 & HL2 & H2') & HP2).
        exists ([o] ++ O2). split.
        * exists (n1 + n2), j2, d2, a2. split; [exact HL2|]. intros F acc.
          rewrite <- Nat.add_assoc, H1, H2', app_assoc. reflexivity.
        * cbn [app]. constructor. exact HP2.
      + pose proof (frame_nothing its junk dead ancD Q ent (l ++ more) below ig' RD HL HX HRD EG) as H1.
        destruct H1 as (n1 & j1 & d1 & a1 & HL1 & H1).
        destruct (IH each more HF j1 d1 a1 HL1) as (O2 & (n2 & j2 & d2 & a2 & HL2 & H2') & HP2).
        exists O2. split; [|exact HP2].
        exists (n1 + n2), j2, d2, a2. split; [exact HL2|]. intros F acc.
        rewrite <- Nat.add_assoc, H1, H2', app_nil_r. reflexivity.
      + inversion HF as [|w0 D0 ws0 each0 HP0 HF0]; subst.
        destruct (HP0 its junk dead ancD Q ent (l ++ more) below HL HX HRD EG) as (O1 & (n1 & j1 & d1 & a1 & HL1 & H1) & HP1).
        destruct (IH each0 more HF0 j1 d1 a1 HL1) as (O2 & (n2 & j2 & d2 & a2 & HL2 & H2') & HP2).
        exists (O1 ++ O2). split.
        * exists (n1 + n2), j2, d2, a2. split; [exact HL2|]. intros F acc.
          cbn [w_ig w_root_dev] in H1. rewrite <- Nat.add_assoc, H1, H2', app_assoc. reflexivity.
        * cbn [concat]. eapply Permutation_trans; [apply Permutation_app; [exact HP1|exact HP2]|].
          rewrite !app_assoc. apply Permutation_app_tail. apply Permutation_app_comm.
  Qed.

  Lemma run_one_dir w :
    de_is_dir (w_dent w) = true -> dent_ok (w_dent w) ->
    let e := w_dent w in
    let ig' := (de_path e, de_ino e) :: w_ig w in
    step w = if pushq (w_root_dev w) e && negb (exceeds (S (de_depth e)))
             then (OEntry e :: er_of ig' (de_path e) (S (de_depth e)) (dir_ents fs (de_ino e)),
                   wk_of ig' (de_path e) (S (de_depth e)) (w_root_dev w) (dir_ents fs (de_ino e)))
             else ([OEntry e], []).
  Proof.
    intros HD HOK. cbv zeta. unfold run_one. set (e := w_dent w) in *.
    assert (HT : lstat_type fs (de_ino e) = TyDir).
    { unfold dent_ok in HOK. rewrite <- HOK. apply is_dir_ty. exact HD. }
    assert (HS : de_is_symlink e = false) by (unfold de_is_symlink; rewrite (is_dir_ty e HD); reflexivity).
    rewrite HS, HD. cbn [negb orb].
    assert (HV : dev_of fs (de_ino e) = Some (i_dev (iget fs (de_ino e)))) by (unfold dev_of; rewrite (dir_resolve _ HT); reflexivity).
    unfold pushq. rewrite HV. unfold exceeds_max, wk_of, er_of.
    destruct (w_root_dev w) as [rd|]; [destruct (i_dev (iget fs (de_ino e)) =? rd)%N|]; cbn [negb andb];
      try reflexivity; destruct max_depth as [m|]; cbn [negb]; try reflexivity;
      change (Nat.ltb m (S (de_depth e))) with (Nat.leb m (de_depth e)); destruct (Nat.leb m (de_depth e)); reflexivity.
  Qed.

  Lemma hino_dir e : dent_ok e -> de_is_dir e = true -> hino fs e = de_ino e.
  Proof. intros HOK HD. unfold hino. rewrite (dir_resolve (de_ino e)); [reflexivity|]. rewrite <- HOK. apply is_dir_ty. exact HD. Qed.

  Lemma frame_work : forall w D, desc w D -> Pfw w D.
  Proof.
    apply (descent_ind2 Pfw). intros w os ws each ES HF IH.
    intros its junk dead ancD Pth ent more below HL HX HRD HG.
    set (c := w_dent w) in *. set (igL := w_ig w) in *. set (RD := w_root_dev w) in *.
    apply gwork_work in HG as [HG HS].
    destruct (gw_follow_inr _ _ _ _ _ HG) as [HDp HOK].
    pose proof (he_inr ({| fr_path := Pth; fr_rest := more |} :: below) igL RD Pth (S (length below)) ent c HG HRD (Nat.lt_0_succ _)) as HH.
    assert (HDr : wres_depth (WOk c) = S (length below)) by exact HDp.
    assert (HPos : 0 < de_depth c) by lia.
    destruct (de_is_dir c) eqn:ED; cbn [andb] in HH.
    - (* a directory *)
      pose proof (run_one_dir w ED HOK) as HR. cbv zeta in HR. fold c igL RD in HR. rewrite ES in HR.
      assert (HB : forall F acc s2,
                 wd_handle_entry fs same_file_system
                   (wdst follow_links ({| fr_path := Pth; fr_rest := more |} :: below) (ancs [] igL) RD)
                   (from_entry fs Pth (S (length below)) ent) = (WOk c, s2) ->
                 wall (length junk + S F) (live its junk dead ancD ({| fr_path := Pth; fr_rest := ent :: more |} :: below) igL RD) acc
                 = wall F (mkw its (S (S (length below))) s2 None ((de_path c, de_ino c) :: igL) RD) (acc ++ [OEntry c])).
      { intros F acc s2 Hs2.
        rewrite (to_buffer its junk dead ancD Pth ent more below igL RD _ _ HL HX Hs2 HDr).
        rewrite <- HDp at 1.
        rewrite (wall_out _ _ _ (eq_trans (step_dir its _ c igL RD HPos ED) ltac:(rewrite HS; reflexivity))).
        rewrite (hino_dir c HOK ED), HDp. reflexivity. }
      destruct (pushq RD c) eqn:EP; cbn [andb] in HR.
      + assert (HRes : resolve fs (de_ino c) = Some (de_ino c)).
        { apply dir_resolve. rewrite <- HOK. apply is_dir_ty. exact ED. }
        rewrite push_live in HH by exact HRes.
        destruct (exceeds (S (de_depth c))) eqn:EX; cbn [negb] in HR.
        * (* at max_depth: entered by walkdir, never read *)
          injection HR as -> ->. inversion HF; subst. exists [OEntry c]. split; [|apply Permutation_refl].
          exists (length junk + 1), [(de_path c, de_ino c)],
                 [{| fr_path := de_path c; fr_rest := dir_ents fs (de_ino c) |}], [de_ino c].
          split.
          { apply (live_ok_shift [] [] _ (S (length below)) (de_ino c)); [apply live_ok_nil|].
            right. rewrite <- HDp. exact EX. }
          intros F acc. replace (length junk + 1 + F) with (length junk + S F) by lia.
          rewrite (HB F acc _ HH). reflexivity.
        * (* descended: all its entries *)
          injection HR as -> ->.
          rewrite HDp in *.
          destruct (flist its (de_path c) ({| fr_path := Pth; fr_rest := more |} :: below) ((de_path c, de_ino c) :: igL) RD
                      EX HRD (dir_ents fs (de_ino c)) each [] IH [] [] [] (live_ok_nil _))
            as (Oc & (n2 & j2 & d2 & a2 & HL2 & H2) & HP2).
          exists (OEntry c :: Oc). split; [|cbn [app]; constructor; exact HP2].
          exists (length junk + 1 + n2), (j2 ++ [(de_path c, de_ino c)]),
                 (d2 ++ [{| fr_path := de_path c; fr_rest := [] |}]), (a2 ++ [de_ino c]).
          split.
          { apply live_ok_shift; [exact HL2|left; reflexivity]. }
          intros F acc. replace (length junk + 1 + n2 + F) with (length junk + S (n2 + F)) by lia.
          rewrite (HB (n2 + F) acc _ HH).
          rewrite app_nil_r in H2.
          change (a2 ++ [de_ino c]) with (a2 ++ [snd (de_path c, de_ino c)]).
          rewrite <- live_shift.
          replace (acc ++ OEntry c :: Oc) with ((acc ++ [OEntry c]) ++ Oc) by (rewrite <- app_assoc; reflexivity).
          rewrite <- H2. apply wall_congr. reflexivity.
      + (* on another file system: yielded, not entered *)
        injection HR as -> ->. inversion HF; subst. exists [OEntry c]. split; [|apply Permutation_refl].
        exists (length junk + 1), [(de_path c, de_ino c)], [], []. split; [apply live_ok_nil|].
        intros F acc. replace (length junk + 1 + F) with (length junk + S F) by lia.
        rewrite (HB F acc _ HH). reflexivity.
    - (* not a directory *)
      assert (HR : step w = ([OEntry c], [])).
      { destruct (run_one_shape w) as [H|[H _]]; [exact H|]. fold c in H. rewrite ED in H. discriminate. }
      rewrite ES in HR. injection HR as -> ->. inversion HF; subst.
      exists [OEntry c]. split; [|apply Permutation_refl].
      exists (length junk + 1), [], [], []. split; [apply live_ok_nil|].
      intros F acc. replace (length junk + 1 + F) with (length junk + S F) by lia.
      rewrite (to_buffer its junk dead ancD Pth ent more below igL RD _ _ HL HX HH HDr).
      rewrite <- HDp at 1.
      rewrite (wall_out _ _ _ (eq_trans (step_file its _ c igL RD HPos ED) ltac:(rewrite HS; reflexivity))).
      rewrite HDp. reflexivity.
  Qed.

  (* ------------------------------------------------------------ roots *)
  Notation links_ok := (WalkSpec.links_ok fs).

  Definition rootdev (r : bytes * nat) : option N := if same_file_system then dev_of fs (snd r) else None.
  Definition start_w (its : list (bytes * nat)) (r : bytes * nat) : walk :=
    {| wk_its := its; wk_it := Some (new_wei fs follow_links r); wk_ig := []; wk_root_dev := rootdev r |}.

  Definition fin (w : walk) : Prop :=
    match wk_it w with
    | None => True
    | Some it => fst (wei_next fs max_depth same_file_system it) = None
    end.

  Lemma fin_step w : fin w ->
    wstep w = match wk_its w with [] => WEnd | r :: rest => WSilent (start_w rest r) end.
  Proof.
    unfold fin, walk_step. destruct (wk_it w) as [it|].
    - destruct (wei_next fs max_depth same_file_system it) as [ev it']. cbn [fst]. intros ->. reflexivity.
    - intros _. reflexivity.
  Qed.


  Inductive root_outcome (its : list (bytes * nat)) (r : bytes * nat) : Prop :=
  | RootErr wf : wstep (start_w its r) = WOut (OIoErr (fst r)) wf -> fin wf -> wk_its wf = its ->
                 par_root fs same_file_system r = ([OIoErr (fst r)], []) -> root_outcome its r
  | RootFile e e' wf : wstep (start_w its r) = WOut (OEntry e) wf -> fin wf -> wk_its wf = its ->
                 par_root fs same_file_system r = ([], [{| w_dent := e'; w_ig := []; w_root_dev := rootdev r |}]) ->
                 de_is_dir e' = false -> okey (OEntry e) = okey (OEntry e') -> root_outcome its r
  | RootDir e t : wstep (start_w its r) = WOut (OEntry e)
                    (live its [] [] [] [{| fr_path := fst r; fr_rest := dir_ents fs t |}] [(fst r, t)] (rootdev r)) ->
                 par_root fs same_file_system r =
                   ([], [{| w_dent := {| de_path := fst r; de_depth := 0; de_ty := TyDir; de_follow := false; de_ino := t |};
                            w_ig := []; w_root_dev := rootdev r |}]) ->
                 de_path e = fst r -> de_depth e = 0 -> lstat_type fs t = TyDir ->
                 pushq (rootdev r) {| de_path := fst r; de_depth := 0; de_ty := TyDir; de_follow := false; de_ino := t |} = true ->
                 RD_ok (rootdev r) -> root_outcome its r.

  Definition fin_w (its : list (bytes * nat)) (fl : bool) (RD : option N) : walk :=
    {| wk_its := its; wk_it := Some {| we_depth := 0; we_it := wdst fl [] [] RD; we_next := None |}; wk_ig := []; wk_root_dev := RD |}.
  Lemma fin_fin_w its fl RD : fin (fin_w its fl RD).
  Proof. reflexivity. Qed.

  Ltac root_compute :=
    unfold walk_step, start_w, new_wei, wei_next, wd_next, par_root, rootdev, wd_handle_entry, wd_enter, fin_w,
      clear_start, walkdir_is_dir, live, mkw, wdst, ancs, wd_push, skip_entry_with, pushq, RD_ok, hino;
    unfold from_path, de_is_symlink, de_is_dir;
    generalize same_file_system, follow_links; intros [|] [|];
    repeat progress (cbn [wk_it we_next we_it we_depth wd_start fst snd wd_follow wd_stack wd_anc wd_root_dev wk_ig wk_its
                          wk_root_dev de_ty de_path de_depth de_ino de_follow ftype_eqb andb orb negb Nat.ltb Nat.leb Nat.eqb
                          wres_depth out_of_wres existsb app length Nat.add map];
                     repeat match goal with
                            | H : resolve fs _ = _ |- _ => rewrite H
                            | H : lstat_type fs _ = _ |- _ => rewrite H
                            | H : dev_of fs _ = _ |- _ => rewrite H
                            end;
                     rewrite ?N.eqb_refl);
    try reflexivity.

  Lemma root_step its r : links_ok -> root_outcome its r.
  Proof.
    intro HLK. destruct r as [path ino].
    destruct (i_kind (iget fs ino)) as [sz|ents|tgt len] eqn:EK.
    - (* a file *)
      assert (HR : resolve fs ino = Some ino) by (unfold resolve; rewrite EK; reflexivity).
      assert (HT : lstat_type fs ino = TyFile) by (unfold lstat_type; rewrite EK; reflexivity).
      assert (HV : dev_of fs ino = Some (i_dev (iget fs ino))) by (unfold dev_of; rewrite HR; reflexivity).
      eapply (RootFile its (path, ino) {| de_path := path; de_depth := 0; de_ty := TyFile; de_follow := false; de_ino := ino |}
                {| de_path := path; de_depth := 0; de_ty := TyFile; de_follow := false; de_ino := ino |}
                (fin_w its (follow_links || true) (rootdev (path, ino))));
       [root_compute | apply fin_fin_w | reflexivity | root_compute | reflexivity | reflexivity].
    - (* a directory *)
      assert (HR : resolve fs ino = Some ino) by (unfold resolve; rewrite EK; reflexivity).
      assert (HT : lstat_type fs ino = TyDir) by (unfold lstat_type; rewrite EK; reflexivity).
      assert (HV : dev_of fs ino = Some (i_dev (iget fs ino))) by (unfold dev_of; rewrite HR; reflexivity).
      eapply (RootDir its (path, ino) {| de_path := path; de_depth := 0; de_ty := TyDir; de_follow := false; de_ino := ino |} ino);
        [root_compute | root_compute | reflexivity | reflexivity | exact HT | root_compute | root_compute].
    - (* a symbolic link *)
      assert (HT : lstat_type fs ino = TySymlink) by (unfold lstat_type; rewrite EK; reflexivity).
      destruct tgt as [t|].
      + assert (HR : resolve fs ino = Some t) by (unfold resolve; rewrite EK; reflexivity).
        assert (HV : dev_of fs ino = Some (i_dev (iget fs t))) by (unfold dev_of; rewrite HR; reflexivity).
        pose proof (HLK ino t HR) as HNL.
        destruct (i_kind (iget fs t)) as [sz|ents|tgt' len'] eqn:EKt.
        * assert (HTt : lstat_type fs t = TyFile) by (unfold lstat_type; rewrite EKt; reflexivity).
          assert (HRt : resolve fs t = Some t) by (unfold resolve; rewrite EKt; reflexivity).
          eapply (RootFile its (path, ino) {| de_path := path; de_depth := 0; de_ty := TyFile; de_follow := true; de_ino := t |}
                    {| de_path := path; de_depth := 0; de_ty := TyFile; de_follow := false; de_ino := t |}
                    (fin_w its (follow_links || true) (rootdev (path, ino))));
            [root_compute | apply fin_fin_w | reflexivity | root_compute | reflexivity | reflexivity].
        * assert (HTt : lstat_type fs t = TyDir) by (unfold lstat_type; rewrite EKt; reflexivity).
          assert (HRt : resolve fs t = Some t) by (unfold resolve; rewrite EKt; reflexivity).
          assert (HVt : dev_of fs t = Some (i_dev (iget fs t))) by (unfold dev_of; rewrite HRt; reflexivity).
          eapply (RootDir its (path, ino)
                    {| de_path := path; de_depth := 0; de_ty := if follow_links then TyDir else TySymlink;
                       de_follow := follow_links; de_ino := if follow_links then t else ino |} t);
            [root_compute | root_compute | reflexivity | reflexivity | exact HTt | root_compute | root_compute].
        * exfalso. apply HNL. unfold lstat_type. rewrite EKt. reflexivity.
      + assert (HR : resolve fs ino = None) by (unfold resolve; rewrite EK; reflexivity).
        assert (HV : dev_of fs ino = None) by (unfold dev_of; rewrite HR; reflexivity).
        eapply (RootErr its (path, ino) (fin_w its (follow_links || false) (rootdev (path, ino))));
          [root_compute | apply fin_fin_w | reflexivity | root_compute].
  Qed.

  (* after the last entry of a root: Exit events until the event iterator is at depth 0 *)
  Lemma finish its RD : forall junk dead ancD, live_ok dead ancD 0 ->
    exists wf, fin wf /\ wk_its wf = its /\
      forall F acc, wall (length junk + F) (live its junk dead ancD [] [] RD) acc = wall F wf acc.
  Proof.
    assert (HN : forall dead ancD, live_ok dead ancD 0 ->
              wd_next fs max_depth same_file_system (wdst follow_links (dead ++ []) (ancs ancD []) RD)
              = (None, wdst follow_links [] (ancs [] []) RD)).
    { intros dead ancD [HD HA]. unfold wd_next, wdst. cbn [wd_start wd_follow wd_stack wd_anc wd_root_dev].
      rewrite (adv_dead [] [] dead ancD HD HA). reflexivity. }
    induction junk as [|x j IH]; intros dead ancD HL.
    - exists (live its [] dead ancD [] [] RD). split; [|split; [reflexivity|reflexivity]].
      unfold fin, live, mkw, wei_next. cbn [wk_it we_next we_it we_depth]. rewrite (HN dead ancD HL). reflexivity.
    - destruct (IH [] [] (live_ok_nil 0)) as (wf & HF & HI & HW). exists wf. split; [exact HF|split; [exact HI|]].
      intros F acc. cbn [length Nat.add]. rewrite <- HW. apply wall_silent.
      unfold walk_step, live, mkw, wei_next. cbn [wk_it we_next we_it we_depth wk_ig wk_its wk_root_dev]. rewrite (HN dead ancD HL).
      cbn [length Nat.add Nat.ltb Nat.leb app tl].
      replace (S (length j + 0) - 1) with (length j + 0) by lia. reflexivity.
  Qed.

  Lemma desc_leaf w D : desc w D -> step w = ([OEntry (w_dent w)], []) -> D = [OEntry (w_dent w)].
  Proof.
    intros HD HS. inversion HD as [w0 os ws each ES HF]; subst. rewrite HS in ES. injection ES as <- <-.
    inversion HF; subst. reflexivity.
  Qed.

  Lemma Forall2_imp {A B} (R1 R2 : A -> B -> Prop) l1 l2 :
    (forall a b, R1 a b -> R2 a b) -> Forall2 R1 l1 l2 -> Forall2 R2 l1 l2.
  Proof. intros H. induction 1; constructor; auto. Qed.
  Lemma Forall2_nil_inv {A B} (R : A -> B -> Prop) l : Forall2 R [] l -> l = [].
  Proof. inversion 1. reflexivity. Qed.
  Lemma Forall2_one_inv {A B} (R : A -> B -> Prop) x l : Forall2 R [x] l -> exists y, l = [y] /\ R x y.
  Proof. inversion 1 as [|x0 y l0 l' Hxy Hr]; subst. apply Forall2_nil_inv in Hr. subst. exists y. split; [reflexivity|exact Hxy]. Qed.

  Lemma root_walk its r w each :
    links_ok -> fin w -> wk_its w = r :: its ->
    Forall2 desc (snd (par_root fs same_file_system r)) each ->
    exists n O wf, fin wf /\ wk_its wf = its /\
      (forall F acc, wall (n + F) w acc = wall F wf (acc ++ O)) /\
      Permutation (map okey O) (map okey (fst (par_root fs same_file_system r) ++ concat each)).
  Proof.
    intros HLK HFin HIts HE.
    assert (H0 : wstep w = WSilent (start_w its r)) by (rewrite (fin_step w HFin), HIts; reflexivity).
    destruct (root_step its r HLK) as [wf H1 HF HI HP | e e' wf H1 HF HI HP HD HK | e t H1 HP Hp Hd HT HQ HRD].
    - rewrite HP in *. cbn [fst snd] in *. apply Forall2_nil_inv in HE. rewrite HE.
      exists 2, [OIoErr (fst r)], wf. split; [exact HF|split; [exact HI|split; [|apply Permutation_refl]]].
      intros F acc. cbn [Nat.add]. rewrite (wall_silent _ _ H0), (wall_out _ _ _ H1). reflexivity.
    - rewrite HP in *. cbn [fst snd] in *.
      apply Forall2_one_inv in HE as (D & -> & HD0).
      assert (HS : step {| w_dent := e'; w_ig := []; w_root_dev := rootdev r |} = ([OEntry e'], [])).
      { destruct (run_one_shape {| w_dent := e'; w_ig := []; w_root_dev := rootdev r |}) as [H|[H _]]; [exact H|].
        cbn [w_dent] in H. rewrite HD in H. discriminate. }
      rewrite (desc_leaf _ _ HD0 HS). cbn [w_dent concat app map].
      exists 2, [OEntry e], wf. split; [exact HF|split; [exact HI|split]].
      + intros F acc. cbn [Nat.add]. rewrite (wall_silent _ _ H0), (wall_out _ _ _ H1). reflexivity.
      + cbn [map]. rewrite HK. apply Permutation_refl.
    - rewrite HP in *. cbn [fst snd] in *.
      set (e' := {| de_path := fst r; de_depth := 0; de_ty := TyDir; de_follow := false; de_ino := t |}) in *.
      set (w' := {| w_dent := e'; w_ig := []; w_root_dev := rootdev r |}) in *.
      apply Forall2_one_inv in HE as (D & -> & HD0).
      inversion HD0 as [w1 os ws each' ES HFw]. clear HD0. subst w1 D.
      assert (HOK' : dent_ok (w_dent w')) by (unfold dent_ok; cbn; symmetry; exact HT).
      pose proof (run_one_dir w' eq_refl HOK') as HR. cbv zeta in HR. cbn [w_dent w_ig w_root_dev de_path de_ino de_depth e' w'] in HR.
      fold e' in HR. fold w' in HR. rewrite HQ in HR. cbn [andb] in HR. rewrite ES in HR.
      destruct (exceeds 1) eqn:EX; cbn [negb] in HR; injection HR as -> ->.
      + apply Forall2_nil_inv in HFw. rewrite HFw.
        destruct (finish its (rootdev r) [(fst r, t)] [{| fr_path := fst r; fr_rest := dir_ents fs t |}] [t]) as (wf & HF & HI & HW).
        { apply (live_ok_shift [] [] _ 0 t); [apply live_ok_nil|]. right. exact EX. }
        exists 3, [OEntry e], wf. split; [exact HF|split; [exact HI|split]].
        * intros F acc. cbn [Nat.add]. rewrite (wall_silent _ _ H0), (wall_out _ _ _ H1).
          rewrite <- (HW F (acc ++ [OEntry e])). apply wall_congr. reflexivity.
        * cbn [map concat app okey]. rewrite Hp, Hd. apply Permutation_refl.
      + assert (HPw : Forall2 Pfw (wk_of [(fst r, t)] (fst r) 1 (rootdev r) (dir_ents fs t)) each').
        { eapply Forall2_imp; [|exact HFw]. intros a b Hab. apply frame_work. exact Hab. }
        destruct (flist its (fst r) [] [(fst r, t)] (rootdev r) EX HRD (dir_ents fs t) each' [] HPw [] [] [] (live_ok_nil _))
          as (Oc & (n2 & j2 & d2 & a2 & HL2 & H2) & HP2).
        rewrite app_nil_r in H2.
        destruct (finish its (rootdev r) (j2 ++ [(fst r, t)]) (d2 ++ [{| fr_path := fst r; fr_rest := [] |}]) (a2 ++ [snd (fst r, t)]))
          as (wf & HF & HI & HW).
        { apply live_ok_shift; [exact HL2|left; reflexivity]. }
        exists (2 + n2 + length (j2 ++ [(fst r, t)])), (OEntry e :: Oc), wf.
        split; [exact HF|split; [exact HI|split]].
        * intros F acc. replace (2 + n2 + length (j2 ++ [(fst r, t)]) + F) with (S (S (n2 + (length (j2 ++ [(fst r, t)]) + F)))) by lia.
          rewrite (wall_silent _ _ H0), (wall_out _ _ _ H1), H2, live_shift, HW.
          rewrite <- app_assoc. reflexivity.
        * cbn [map concat app okey]. rewrite app_nil_r. cbn [map app okey]. rewrite Hp, Hd. cbn [e' de_path de_depth].
          constructor. apply Permutation_map. exact HP2.
  Qed.

  Lemma perm_swap4 {A} (a b c d : list A) : Permutation ((a ++ b) ++ (c ++ d)) ((a ++ c) ++ (b ++ d)).
  Proof.
    rewrite <- !app_assoc. apply Permutation_app_head. rewrite !app_assoc. apply Permutation_app_tail.
    apply Permutation_app_comm.
  Qed.

  Lemma roots_walk : links_ok -> forall roots w each,
    fin w -> wk_its w = roots ->
    Forall2 desc (flat_map snd (map (par_root fs same_file_system) roots)) each ->
    exists n O,
      (forall F acc, wall (n + S F) w acc = Some (acc ++ O)) /\
      Permutation (map okey O) (map okey (flat_map fst (map (par_root fs same_file_system) roots) ++ concat each)).
  Proof.
    intro HLK. induction roots as [|r rs IH]; intros w each HF HI HE.
    - cbn [map flat_map] in *. apply Forall2_nil_inv in HE. subst each.
      exists 0, []. split; [|apply Permutation_refl].
      intros F acc. cbn [Nat.add walk_all]. rewrite (fin_step w HF), HI, app_nil_r. reflexivity.
    - cbn [map flat_map] in *. apply Forall2_app_inv_l in HE as (e1 & e2 & H1 & H2 & ->).
      destruct (root_walk rs r w e1 HLK HF HI H1) as (n1 & O1 & wf & HF1 & HI1 & HW1 & HP1).
      destruct (IH wf e2 HF1 HI1 H2) as (n2 & O2 & HW2 & HP2).
      exists (n1 + n2), (O1 ++ O2). split.
      + intros F acc. rewrite <- Nat.add_assoc, HW1, HW2, app_assoc. reflexivity.
      + rewrite concat_app, !map_app. rewrite map_app in HP1, HP2.
        eapply Permutation_trans; [apply Permutation_app; [exact HP1|exact HP2]|]. apply perm_swap4.
  Qed.

  (* serial_set_eq_spec + each_once: the serial walker finishes, and what it reported is, entry for
     entry, the descent tree of the roots *)
  Theorem serial_descent_proof roots each :
    links_ok ->
    Forall2 desc (flat_map snd (map (par_root fs same_file_system) roots)) each ->
    exists n souts,
      (forall F, serial_walk fs max_depth max_filesize follow_links same_file_system has_filter filter should_skip (n + F) roots
                 = Some souts) /\
      Permutation (map okey souts) (map okey (flat_map fst (map (par_root fs same_file_system) roots) ++ concat each)).
  Proof.
    intros HLK HE.
    destruct (roots_walk HLK roots {| wk_its := roots; wk_it := None; wk_ig := []; wk_root_dev := None |} each I eq_refl HE)
      as (n & O & HW & HP).
    exists (S n), O. split; [|exact HP]. intro F. unfold serial_walk, serial_walk_with.
    replace (S n + F) with (n + S F) by lia. rewrite HW. reflexivity.
  Qed.

  (* serial_eq_parallel: for every file system (ranked, links resolved), every option set, verdict and
     filter function, both walkers finish and deliver the same multiset of (kind, path, depth) *)
  Theorem serial_eq_parallel_proof rk B roots :
    ranked rk B -> links_ok ->
    exists n souts pouts,
      (forall F, serial_walk fs max_depth max_filesize follow_links same_file_system has_filter filter should_skip (n + F) roots
                 = Some souts) /\
      (forall F, par_walk fs max_depth max_filesize follow_links same_file_system has_filter filter should_skip (n + F) roots
                 = Some pouts) /\
      Permutation (map okey souts) (map okey pouts).
  Proof.
    intros HR HLK. destruct (par_total_proof rk B roots HR) as (k & pouts & each & HK & HE & HP).
    destruct (serial_descent_proof roots each HLK HE) as (n & souts & HN & HS).
    exists (n + k), souts, pouts. split; [|split].
    - intro F. rewrite <- Nat.add_assoc. apply HN.
    - intro F. replace (n + k + F) with (k + (n + F)) by lia. apply HK.
    - eapply Permutation_trans; [exact HS|]. apply Permutation_map. apply Permutation_sym. exact HP.
  Qed.
End Total.
