(* Proofs/LineBufferBinProofs.v — lemmas about Model/LineBufferBin.v *)
From RG Require Import Base.Bytes Base.BytesFacts Model.LineBufferBin.

(* ---------- memchr ---------- *)
Lemma memchr_none b l : memchr b l = None <-> ~ In b l.
Proof.
  unfold memchr. rewrite find_index_none. induction l as [|x xs IH]; cbn; [tauto|].
  destruct (N.eqb_spec b x) as [->|Hne]; cbn; [split; [discriminate|intro H; exfalso; apply H; now left]|].
  rewrite IH. split; [intros H [E|E]; [congruence|tauto]|tauto].
Qed.

Lemma memchr_some b l i :
  memchr b l = Some i ->
  i < length l /\ ~ In b (firstn i l) /\ l = firstn i l ++ b :: skipn (i + 1) l.
Proof.
  unfold memchr. revert i. induction l as [|x xs IH]; cbn; intros i H; [discriminate|].
  destruct (N.eqb_spec b x) as [->|Hne].
  - injection H as <-. cbn. split; [lia|]. split; [tauto|reflexivity].
  - destruct (find_index (N.eqb b) xs) as [k|] eqn:F; cbn in H; [|discriminate]. injection H as <-.
    destruct (IH k eq_refl) as (H1 & H2 & H3). cbn. split; [lia|]. split.
    + intros [E|E]; [congruence|tauto].
    + f_equal. exact H3.
Qed.

(* ---------- replace_bytes ---------- *)
Definition subst_byte (src rep : byte) (x : byte) : byte := if N.eqb x src then rep else x.

Lemma subst_byte_self src rep : subst_byte src rep src = rep.
Proof. unfold subst_byte. now rewrite N.eqb_refl. Qed.

Lemma map_subst_id src rep l : ~ In src l -> map (subst_byte src rep) l = l.
Proof.
  induction l as [|x xs IH]; cbn; intro H; [reflexivity|]. unfold subst_byte at 1.
  destruct (N.eqb_spec x src) as [->|Hne]; [exfalso; apply H; now left|]. f_equal. apply IH. tauto.
Qed.

Lemma rb_inner_spec src rep l a r :
  rb_inner src rep l = (a, r) ->
  map (subst_byte src rep) l = a ++ map (subst_byte src rep) r /\ length r <= length l.
Proof.
  revert a r. induction l as [|x xs IH]; cbn; intros a r H.
  - injection H as <- <-. split; [reflexivity|cbn; lia].
  - unfold subst_byte at 1. destruct (N.eqb x src) eqn:E.
    + destruct (rb_inner src rep xs) as [a' r'] eqn:R. injection H as <- <-.
      destruct (IH a' r' eq_refl) as [H1 H2]. split; [cbn; f_equal; exact H1|lia].
    + injection H as <- <-.
      assert (Hx : subst_byte src rep x = x) by (unfold subst_byte; rewrite E; reflexivity).
      split; [cbn [app map]; rewrite Hx; reflexivity|cbn; lia].
Qed.

Lemma rb_outer_spec src rep fuel l :
  length l <= fuel -> rb_outer fuel src rep l = map (subst_byte src rep) l.
Proof.
  revert l. induction fuel as [|fuel IH]; intros l Hl.
  - destruct l; [reflexivity|cbn in Hl; lia].
  - cbn [rb_outer]. destruct (memchr src l) as [i|] eqn:M.
    + destruct (memchr_some _ _ _ M) as (Hi & Hfree & Hsplit).
      destruct (rb_inner src rep (skipn (i + 1) l)) as [run rest] eqn:R.
      destruct (rb_inner_spec _ _ _ _ _ R) as [H1 H2].
      rewrite IH.
      * rewrite Hsplit at 2. rewrite map_app. cbn [map]. rewrite (map_subst_id _ _ _ Hfree).
        rewrite subst_byte_self, H1. reflexivity.
      * rewrite skipn_length in H2. lia.
    + apply memchr_none in M. symmetry. apply map_subst_id. exact M.
Qed.

Lemma replace_bytes_spec_proof l src rep :
  replace_bytes l src rep =
  if N.eqb src rep then (l, None) else (map (subst_byte src rep) l, memchr src l).
Proof.
  unfold replace_bytes. destruct (N.eqb src rep); [reflexivity|].
  destruct (memchr src l) as [i|] eqn:M.
  - destruct (memchr_some _ _ _ M) as (Hi & Hfree & Hsplit). f_equal.
    rewrite rb_outer_spec by (rewrite skipn_length; lia).
    rewrite Hsplit at 3. rewrite map_app. cbn [map]. rewrite (map_subst_id _ _ _ Hfree).
    rewrite subst_byte_self. reflexivity.
  - apply memchr_none in M. f_equal. symmetry. apply map_subst_id. exact M.
Qed.

Lemma subst_removes src rep l : src <> rep -> ~ In src (map (subst_byte src rep) l).
Proof.
  intros Hne H. apply in_map_iff in H as (x & Hx & _). unfold subst_byte in Hx.
  destruct (N.eqb_spec x src); congruence.
Qed.

Lemma replace_bytes_length l src rep : length (fst (replace_bytes l src rep)) = length l.
Proof. rewrite replace_bytes_spec_proof. destruct (N.eqb src rep); cbn; [reflexivity|apply map_length]. Qed.

(* ---------- sub / write_at ---------- *)
Lemma sub_length {A} (s : list A) i j : j <= length s -> length (sub s i j) = j - i.
Proof. intro H. unfold sub. rewrite firstn_length, skipn_length. lia. Qed.

Lemma In_sub_iff {A} (s : list A) i j x :
  In x (sub s i j) <-> exists k, i <= k /\ k < j /\ nth_error s k = Some x.
Proof.
  unfold sub. revert i j. induction s as [|a s IH]; intros i j.
  - rewrite skipn_nil, firstn_nil. split; [intros []|]. intros (k & _ & _ & H). destruct k; discriminate.
  - destruct i as [|i].
    + cbn [skipn]. rewrite Nat.sub_0_r. destruct j as [|j].
      * cbn. split; [intros []|]. intros (k & _ & H & _). lia.
      * cbn [firstn]. specialize (IH 0 j). cbn [skipn] in IH. rewrite Nat.sub_0_r in IH. split.
        -- intros [->|H]; [exists 0; repeat split; lia|].
           apply IH in H as (k & H1 & H2 & H3). exists (S k). repeat split; [lia|lia|exact H3].
        -- intros (k & H1 & H2 & H3). destruct k as [|k]; [left; cbn in H3; congruence|].
           right. apply IH. exists k. repeat split; [lia|lia|exact H3].
    + cbn [skipn]. destruct j as [|j].
      * cbn. split; [intros []|]. intros (k & _ & H & _). lia.
      * cbn [Nat.sub]. rewrite IH. split.
        -- intros (k & H1 & H2 & H3). exists (S k). repeat split; [lia|lia|exact H3].
        -- intros (k & H1 & H2 & H3). destruct k as [|k]; [lia|]. exists k. repeat split; [lia|lia|exact H3].
Qed.

Lemma sub_In_mono {A} (s : list A) i j i' j' x :
  i <= i' -> j' <= j -> In x (sub s i' j') -> In x (sub s i j).
Proof.
  intros Hi Hj H. apply In_sub_iff in H as (k & H1 & H2 & H3). apply In_sub_iff. exists k. repeat split; [lia|lia|exact H3].
Qed.

Lemma sub_app_left {A} (s z : list A) i j : j <= length s -> sub (s ++ z) i j = sub s i j.
Proof.
  intro H. unfold sub. rewrite skipn_app, firstn_app, skipn_length.
  replace (j - i - (length s - i)) with 0 by lia. rewrite firstn_O, app_nil_r. reflexivity.
Qed.

Lemma sub_write_at buf at_ data pos n :
  pos <= at_ -> at_ <= length buf -> n <= length data ->
  sub (write_at buf at_ data) pos (at_ + n) = sub buf pos at_ ++ firstn n data.
Proof.
  intros H1 H2 H3. unfold sub, write_at.
  rewrite skipn_app. rewrite firstn_length, Nat.min_l by lia.
  replace (pos - at_) with 0 by lia. cbn [skipn].
  rewrite firstn_app. rewrite skipn_length, firstn_length, Nat.min_l by lia.
  replace (at_ + n - pos - (at_ - pos)) with n by lia.
  rewrite firstn_app. replace (n - length data) with 0 by lia. rewrite firstn_O, app_nil_r.
  f_equal. rewrite firstn_all2 by (rewrite skipn_length, firstn_length; lia).
  apply skipn_firstn_comm.
Qed.

Lemma write_at_length buf at_ data :
  at_ <= length buf -> at_ + length data <= length (write_at buf at_ data).
Proof. intro H. unfold write_at. rewrite !app_length, firstn_length, skipn_length. lia. Qed.

Lemma sub_roll {A} (buf : list A) pos e :
  e <= length buf -> sub (sub buf pos e ++ skipn (e - pos) buf) 0 (e - pos) = sub buf pos e.
Proof.
  intro H. rewrite sub_app_left by (rewrite sub_length; lia).
  unfold sub at 1. cbn [skipn]. rewrite Nat.sub_0_r. apply firstn_all2. rewrite sub_length; lia.
Qed.

Ltac lbs := unfold lb_consume, lb_clear; cbn [lb_buf lb_pos lb_end lb_last_lineterm lb_abs lb_bin].

(* ---------- the invariant ---------- *)
Definition lb_wf (lb : line_buffer) : Prop :=
  lb_pos lb <= lb_last_lineterm lb /\ lb_last_lineterm lb <= lb_end lb /\ lb_end lb <= length (lb_buf lb).

(* the configured detection promises to hide byte b *)
Definition hides (cfg : lb_config) (b : byte) : Prop :=
  cfg_binary cfg = BQuit b \/ (cfg_binary cfg = BConvert b /\ b <> cfg_lineterm cfg).

Definition lb_inv (b : byte) (lb : line_buffer) : Prop :=
  lb_wf lb /\ ~ In b (sub (lb_buf lb) (lb_pos lb) (lb_end lb)).

Lemma lb_buffer_length lb : lb_wf lb -> length (lb_buffer lb) = lb_last_lineterm lb - lb_pos lb.
Proof. intros (H1 & H2 & H3). unfold lb_buffer. apply sub_length. lia. Qed.

Lemma inv_buffer_free b lb : lb_inv b lb -> ~ In b (lb_buffer lb).
Proof.
  intros [(H1 & H2 & H3) Hf] H. apply Hf. unfold lb_buffer in H.
  eapply sub_In_mono; [| |exact H]; lia.
Qed.

Lemma inv_clear b lb0 : lb_inv b (lb_clear lb0).
Proof. split; [unfold lb_wf; lbs; lia|]. cbn. unfold sub. cbn. tauto. Qed.

Lemma inv_consume b lb amt : amt <= length (lb_buffer lb) -> lb_inv b lb -> lb_inv b (lb_consume lb amt).
Proof.
  intros Ha [Hwf Hf]. rewrite lb_buffer_length in Ha by exact Hwf. destruct Hwf as (H1 & H2 & H3).
  split; [unfold lb_wf; lbs; lia|]. lbs. intro H. apply Hf.
  eapply sub_In_mono; [| |exact H]; lia.
Qed.

Lemma inv_roll b lb : lb_inv b lb -> lb_inv b (lb_roll lb) /\ lb_pos (lb_roll lb) = 0.
Proof.
  intros [(H1 & H2 & H3) Hf]. unfold lb_roll. destruct (Nat.eqb_spec (lb_pos lb) (lb_end lb)) as [E|E].
  - split; [|reflexivity]. split; [unfold lb_wf; lbs; lia|]. cbn. unfold sub. cbn. tauto.
  - split; [|reflexivity]. split.
    + unfold lb_wf; cbn. rewrite app_length, sub_length, skipn_length by lia. lia.
    + lbs. rewrite sub_roll by lia. exact Hf.
Qed.

Lemma inv_ensure b cfg lb lb' :
  lb_ensure_capacity cfg lb = Some lb' -> lb_inv b lb ->
  lb_inv b lb' /\ lb_pos lb' = lb_pos lb /\ lb_end lb' = lb_end lb /\ lb_last_lineterm lb' = lb_last_lineterm lb
  /\ lb_abs lb' = lb_abs lb /\ lb_bin lb' = lb_bin lb.
Proof.
  unfold lb_ensure_capacity. intros H Hinv.
  destruct (negb (lb_free_len lb =? 0)); [injection H as <-; tauto|].
  match type of H with match ?a with _ => _ end = _ => destruct a as [add|]; [|discriminate] end.
  injection H as <-. cbn. repeat split; try reflexivity.
  - destruct Hinv as [(H1 & H2 & H3) _]. lbs. lia.
  - destruct Hinv as [(H1 & H2 & H3) _]. lbs. lia.
  - destruct Hinv as [(H1 & H2 & H3) _]. lbs. rewrite app_length. lia.
  - destruct Hinv as [(H1 & H2 & H3) Hf]. lbs. rewrite sub_app_left by lia. exact Hf.
Qed.

Lemma memrchr_aux_bound b l : forall i acc k,
  memrchr_aux b l i acc = Some k -> acc = Some k \/ (i <= k /\ k < i + length l).
Proof.
  induction l as [|x xs IH]; intros i acc k H; cbn [memrchr_aux] in H; [now left|].
  apply IH in H as [H|H].
  - destruct (N.eqb b x); [injection H as <-; right; cbn; lia|now left].
  - right. cbn. lia.
Qed.

Lemma memrchr_bound b l i : memrchr b l = Some i -> i < length l.
Proof. unfold memrchr. intro H. apply memrchr_aux_bound in H as [H|H]; [discriminate|lia]. Qed.

Lemma inv_write b lb newbytes n llt' bin' :
  lb_inv b lb -> n <= length newbytes -> ~ In b (firstn n newbytes) ->
  lb_pos lb <= llt' -> llt' <= lb_end lb + n ->
  lb_inv b (mk_lb (write_at (lb_buf lb) (lb_end lb) newbytes) (lb_pos lb) llt' (lb_end lb + n) (lb_abs lb) bin').
Proof.
  intros [(H1 & H2 & H3) Hf] Hn Hfree Hl1 Hl2. split.
  - unfold lb_wf. lbs. pose proof (write_at_length (lb_buf lb) (lb_end lb) newbytes H3). lia.
  - lbs. rewrite sub_write_at by lia. intro H. apply in_app_or in H as [H|H]; tauto.
Qed.

Lemma firstn_all_eq {A} (l : list A) : firstn (length l) l = l.
Proof. apply firstn_all. Qed.

Lemma fill_loop_inv b cfg : hides cfg b ->
  forall fuel lb rd r lb' rd',
    lb_inv b lb -> lb_fill_loop fuel cfg lb rd = Some (r, lb', rd') -> lb_inv b lb'.
Proof.
  intros Hh. induction fuel as [|fuel IH]; intros lb rd r lb' rd' Hinv H; [discriminate|].
  cbn [lb_fill_loop] in H.
  destruct (lb_ensure_capacity cfg lb) as [lb1|] eqn:E; [|injection H as _ <- _; exact Hinv].
  destruct (inv_ensure b _ _ _ E Hinv) as (Hinv1 & Ep & Ee & El & Ea & Eb). clear E Hinv.
  destruct (rd_read rd (lb_free_len lb1)) as [data rd1|rd1]; [|injection H as _ <- _; exact Hinv1].
  destruct (Nat.eqb_spec (length data) 0) as [Z|NZ].
  - injection H as _ <- _. destruct Hinv1 as [(H1 & H2 & H3) Hf]. split; [unfold lb_wf; lbs; lia|exact Hf].
  - pose proof Hinv1 as Hsave. destruct Hinv1 as [(H1 & H2 & H3) Hf].
    destruct Hh as [Hq|[Hc Hne]].
    + rewrite Hq in H. destruct (memchr b data) as [i|] eqn:M.
      * injection H as _ <- _. destruct (memchr_some _ _ _ M) as (Hi & Hfree & _).
        apply inv_write; [exact Hsave|lia|exact Hfree|lia|lia].
      * apply memchr_none in M.
        destruct (memrchr (cfg_lineterm cfg) data) as [i|] eqn:R.
        -- injection H as _ <- _. apply memrchr_bound in R.
           apply inv_write; [exact Hsave|lia|rewrite firstn_all_eq; exact M|lia|lia].
        -- eapply IH; [|exact H]. apply inv_write; [exact Hsave|lia|rewrite firstn_all_eq; exact M|lia|lia].
    + rewrite Hc in H. rewrite replace_bytes_spec_proof in H.
      destruct (N.eqb_spec b (cfg_lineterm cfg)) as [X|_]; [contradiction|].
      set (nb := map (subst_byte b (cfg_lineterm cfg)) data) in *.
      assert (Hnb : ~ In b (firstn (length nb) nb)) by (rewrite firstn_all_eq; apply subst_removes; exact Hne).
      assert (Hlen : length nb = length data) by apply map_length.
      destruct (memchr b data) as [i|].
      * destruct (memrchr (cfg_lineterm cfg) nb) as [j|] eqn:R.
        -- injection H as _ <- _. apply memrchr_bound in R. rewrite <- Hlen.
           apply inv_write; [exact Hsave|lia|exact Hnb|lia|lia].
        -- eapply IH; [|exact H]. rewrite <- Hlen. apply inv_write; [exact Hsave|lia|exact Hnb|lia|lia].
      * destruct (memrchr (cfg_lineterm cfg) nb) as [j|] eqn:R.
        -- injection H as _ <- _. apply memrchr_bound in R. rewrite <- Hlen.
           apply inv_write; [exact Hsave|lia|exact Hnb|lia|lia].
        -- eapply IH; [|exact H]. rewrite <- Hlen. apply inv_write; [exact Hsave|lia|exact Hnb|lia|lia].
Qed.

Lemma fill_inv b cfg lb rd r lb' rd' :
  hides cfg b -> lb_inv b lb -> lb_fill cfg lb rd = Some (r, lb', rd') -> lb_inv b lb'.
Proof.
  intros Hh Hinv H. unfold lb_fill in H.
  destruct (is_quit (cfg_binary cfg) && _); [injection H as _ <- _; exact Hinv|].
  eapply fill_loop_inv; [exact Hh| |exact H]. apply inv_roll. exact Hinv.
Qed.

(* ---------- reachable states: any sequence of consume / fill from a cleared buffer, any readers ---------- *)
Inductive lb_reach (cfg : lb_config) : line_buffer -> Prop :=
| reach_clear lb0 : lb_reach cfg (lb_clear lb0)
| reach_consume lb amt : lb_reach cfg lb -> amt <= length (lb_buffer lb) -> lb_reach cfg (lb_consume lb amt)
| reach_fill lb rd r lb' rd' : lb_reach cfg lb -> lb_fill cfg lb rd = Some (r, lb', rd') -> lb_reach cfg lb'.

Lemma reach_inv cfg b lb : hides cfg b -> lb_reach cfg lb -> lb_inv b lb.
Proof.
  intros Hh H. induction H as [lb0|lb amt _ IH Ha|lb rd r lb' rd' _ IH Hf].
  - apply inv_clear.
  - apply inv_consume; assumption.
  - eapply fill_inv; eassumption.
Qed.

Lemma reach_buffer_free cfg b lb : hides cfg b -> lb_reach cfg lb -> ~ In b (lb_buffer lb).
Proof. intros Hh H. apply inv_buffer_free. eapply reach_inv; eassumption. Qed.

(* ---------- fill never runs out of fuel ---------- *)
Lemma rd_read_shrinks rd free data rd' :
  rd_read rd free = ReadOk data rd' -> length (rd_rest rd') + length data = length (rd_rest rd).
Proof.
  unfold rd_read, rd_rest. destruct (rd_pre rd) as [|p ps] eqn:P.
  - destruct (rd_hist rd) as [|[k|] h]; intro H; [| |discriminate]; injection H as <- <-; cbn;
      rewrite firstn_length, skipn_length; lia.
  - intro H. injection H as <- <-. cbn [rd_pre rd_data]. rewrite !app_length, firstn_length, skipn_length. lia.
Qed.

Lemma fill_loop_fuel cfg fuel lb rd :
  length (rd_rest rd) < fuel -> lb_fill_loop fuel cfg lb rd <> None.
Proof.
  revert lb rd. induction fuel as [|fuel IH]; intros lb rd Hf; [lia|].
  cbn [lb_fill_loop]. destruct (lb_ensure_capacity cfg lb) as [lb1|]; [|discriminate].
  destruct (rd_read rd (lb_free_len lb1)) as [data rd1|rd1] eqn:R; [|discriminate].
  apply rd_read_shrinks in R.
  destruct (Nat.eqb_spec (length data) 0) as [Z|NZ]; [discriminate|].
  assert (Hlt : length (rd_rest rd1) < fuel) by lia.
  destruct (cfg_binary cfg).
  - destruct (memrchr _ _); [discriminate|apply IH; exact Hlt].
  - destruct (memchr _ _); [discriminate|]. destruct (memrchr _ _); [discriminate|apply IH; exact Hlt].
  - destruct (replace_bytes _ _ _) as [d' [i|]]; destruct (memrchr _ _); try discriminate; apply IH; exact Hlt.
Qed.

Lemma lb_fill_fuel_suffices cfg lb rd : lb_fill cfg lb rd <> None.
Proof.
  unfold lb_fill. destruct (is_quit _ && _); [discriminate|]. apply fill_loop_fuel. lia.
Qed.

(* ---------- detection None: the buffer holds the stream's own bytes, nothing is ever detected ---------- *)
Lemma fill_loop_none cfg : cfg_binary cfg = BNone ->
  forall fuel lb rd r lb' rd', lb_bin lb = None ->
    lb_fill_loop fuel cfg lb rd = Some (r, lb', rd') -> lb_bin lb' = None.
Proof.
  intros Hn. induction fuel as [|fuel IH]; intros lb rd r lb' rd' Hb H; [discriminate|].
  cbn [lb_fill_loop] in H. unfold lb_ensure_capacity in H.
  destruct (negb (lb_free_len lb =? 0)).
  - destruct (rd_read rd (lb_free_len lb)) as [data rd1|rd1]; [|injection H as _ <- _; exact Hb].
    destruct (length data =? 0); [injection H as _ <- _; exact Hb|]. rewrite Hn in H.
    destruct (memrchr _ _); [injection H as _ <- _; exact Hb|]. eapply IH; [|exact H]. exact Hb.
  - match type of H with match match ?a with _ => _ end with _ => _ end = _ => destruct a as [add|] end;
      [|injection H as _ <- _; exact Hb].
    match type of H with match rd_read ?x ?y with _ => _ end = _ => destruct (rd_read x y) as [data rd1|rd1] end;
      [|injection H as _ <- _; exact Hb].
    destruct (length data =? 0); [injection H as _ <- _; exact Hb|]. rewrite Hn in H. cbn in H.
    destruct (memrchr _ _); [injection H as _ <- _; exact Hb|]. eapply IH; [|exact H]. exact Hb.
Qed.
