(* Proofs/RegexBuildProofs.v — the passes of Model/RegexBuild.v against Spec/RegexSem.v:
   strip_from_match removes exactly the terminator-containing matches; its errors; the ban check;
   word/line wrapping; the advertised terminator. *)
From RG Require Import Base.Bytes Base.BytesFacts Spec.RegexSem Model.RegexBuild Proofs.RegexSemProofs.

(* no byte of s[i..j) is b *)
Definition clean (b : N) (s : bytes) (i j : nat) : Prop := forall p, i <= p < j -> byte_at s p <> b.

Lemma clean_empty b s i : clean b s i i.
Proof. intros p Hp. lia. Qed.

Lemma clean_split b s i k j : i <= k <= j -> (clean b s i j <-> clean b s i k /\ clean b s k j).
Proof.
  intros Hk. split.
  - intro H. split; intros p Hp; apply H; lia.
  - intros [H1 H2] p Hp. destruct (Nat.lt_ge_cases p k); [apply H1|apply H2]; lia.
Qed.

Lemma byte_at_skipn s i p : byte_at (skipn i s) p = byte_at s (i + p).
Proof.
  unfold byte_at. revert i; induction s as [|x xs IH]; intros [|i]; cbn; try reflexivity.
  - now destruct p.
  - apply IH.
Qed.

Lemma prefix_bytes lit t p : is_prefix_of lit t = true -> p < length lit -> byte_at t p = nth p lit 0%N.
Proof.
  unfold byte_at. revert t p; induction lit as [|x xs IH]; intros [|y ys] p H Hp; cbn in *; try lia; try discriminate.
  apply andb_true_iff in H as [E H]. apply N.eqb_eq in E. subst y.
  destruct p; [reflexivity|]. apply IH; [exact H|lia].
Qed.

Lemma existsb_eqb_false b (l : bytes) : existsb (N.eqb b) l = false <-> forall p, p < length l -> nth p l 0%N <> b.
Proof.
  induction l as [|x xs IH]; cbn.
  - split; [intros _ p Hp; lia|reflexivity].
  - rewrite orb_false_iff, IH, N.eqb_neq. split.
    + intros [H1 H2] [|p] Hp; [congruence|apply H2; lia].
    + intro H. split; [intro E; apply (H 0); [lia|now cbn]|intros p Hp; apply (H (S p)); lia].
Qed.

Lemma existsb_eqb_true b (l : bytes) : existsb (N.eqb b) l = true -> exists p, p < length l /\ nth p l 0%N = b.
Proof.
  induction l as [|x xs IH]; cbn; [discriminate|]. intro H. apply orb_true_iff in H as [H|H].
  - apply N.eqb_eq in H. exists 0. split; [lia|now cbn].
  - destruct (IH H) as (p & Hp & E). exists (S p). split; [lia|exact E].
Qed.

(* a literal occupies s[i..i+len) *)
Lemma lit_clean b lit s i :
  i <= length s -> is_prefix_of lit (skipn i s) = true ->
  (clean b s i (i + length lit) <-> existsb (N.eqb b) lit = false).
Proof.
  intros Hi Hp. rewrite existsb_eqb_false. split.
  - intros H p Hl. specialize (H (i + p)). rewrite <- byte_at_skipn, (prefix_bytes _ _ _ Hp Hl) in H.
    apply H. lia.
  - intros H p Hl. replace p with (i + (p - i)) by lia. rewrite <- byte_at_skipn, (prefix_bytes _ _ _ Hp) by lia.
    apply H. lia.
Qed.

(* ---- ranges ---- *)
Lemma in_ranges_app a b x : in_ranges (a ++ b) x = in_ranges a x || in_ranges b x.
Proof. unfold in_ranges. apply existsb_app. Qed.

Lemma in_ranges_remove_point rs b x :
  in_ranges (remove_point rs b) x = in_ranges rs x && negb (x =? b)%N.
Proof.
  induction rs as [|[lo hi] rs IH]; [reflexivity|].
  cbn [remove_point flat_map]. rewrite in_ranges_app. fold (remove_point rs b). rewrite IH.
  cbn [in_ranges existsb]. fold (in_ranges rs x). rewrite andb_orb_distrib_l. f_equal.
  cbn [fst snd]. unfold in_range; cbn [fst snd].
  destruct (x =? b)%N eqn:E.
  - apply N.eqb_eq in E. subst x.
    destruct (b <? lo)%N eqn:E1; destruct (hi <? b)%N eqn:E2; cbn [orb].
    all: repeat match goal with
         | H : (_ <? _)%N = true |- _ => apply N.ltb_lt in H
         | H : (_ <? _)%N = false |- _ => apply N.ltb_ge in H end.
    all: cbn [in_ranges existsb in_range fst snd].
    all: try (destruct (lo <? b)%N eqn:E3; destruct (b <? hi)%N eqn:E4; cbn [app in_ranges existsb]; unfold in_range; cbn [fst snd]).
    all: repeat match goal with
         | H : (_ <? _)%N = true |- _ => apply N.ltb_lt in H
         | H : (_ <? _)%N = false |- _ => apply N.ltb_ge in H end.
    all: rewrite ?andb_false_r, ?orb_false_r.
    all: repeat match goal with |- context [(?a <=? ?c)%N] => destruct (N.leb_spec a c) end; cbn; try reflexivity; try lia.
  - apply N.eqb_neq in E. rewrite andb_true_r.
    destruct (b <? lo)%N eqn:E1; destruct (hi <? b)%N eqn:E2; cbn [orb].
    all: repeat match goal with
         | H : (_ <? _)%N = true |- _ => apply N.ltb_lt in H
         | H : (_ <? _)%N = false |- _ => apply N.ltb_ge in H end.
    all: cbn [in_ranges existsb in_range fst snd]; rewrite ?orb_false_r; try reflexivity.
    destruct (lo <? b)%N eqn:E3; destruct (b <? hi)%N eqn:E4; cbn [app in_ranges existsb]; unfold in_range; cbn [fst snd].
    all: repeat match goal with
         | H : (_ <? _)%N = true |- _ => apply N.ltb_lt in H
         | H : (_ <? _)%N = false |- _ => apply N.ltb_ge in H end.
    all: rewrite ?orb_false_r.
    all: repeat match goal with |- context [(?a <=? ?c)%N] => destruct (N.leb_spec a c) end; cbn; try reflexivity; try lia.
Qed.

(* ---- UTF-8: an ASCII byte occurs in a decoded scalar's bytes iff the scalar is that byte ---- *)
Ltac bool_to_prop :=
  repeat match goal with
  | H : _ && _ = true |- _ => apply andb_true_iff in H; destruct H
  | H : (_ <=? _)%N = true |- _ => apply N.leb_le in H
  | H : (_ <=? _)%N = false |- _ => apply N.leb_gt in H
  | H : (_ <? _)%N = true |- _ => apply N.ltb_lt in H
  | H : (_ <? _)%N = false |- _ => apply N.ltb_ge in H
  | H : (_ =? _)%N = true |- _ => apply N.eqb_eq in H
  | H : (_ =? _)%N = false |- _ => apply N.eqb_neq in H
  | H : (if ?c then _ else true) = true |- _ => destruct c eqn:?
  end.

Lemma utf8_len_cases b0 k : utf8_len b0 = Some k ->
  (k = 1 /\ (b0 <= 127)%N) \/ (k = 2 /\ (192 <= b0 <= 223)%N) \/ (k = 3 /\ (224 <= b0 <= 239)%N)
  \/ (k = 4 /\ (240 <= b0 <= 247)%N).
Proof.
  unfold utf8_len, is_cont.
  destruct (b0 <=? 127)%N eqn:E1; [intro H; injection H as <-; bool_to_prop; auto|].
  destruct ((128 <=? b0)%N && (b0 <=? 191)%N) eqn:E2; [discriminate|].
  destruct (b0 <=? 223)%N eqn:E3; [intro H; injection H as <-; right; left|].
  { apply andb_false_iff in E2. bool_to_prop. split; [reflexivity|]. destruct E2; bool_to_prop; lia. }
  destruct (b0 <=? 239)%N eqn:E4; [intro H; injection H as <-; right; right; left; bool_to_prop; split; [reflexivity|lia]|].
  destruct (b0 <=? 247)%N eqn:E5; [intro H; injection H as <-; right; right; right; bool_to_prop; split; [reflexivity|lia]|].
  discriminate.
Qed.

(* what a successful decode says about the bytes: either one ASCII byte equal to the scalar, or a
   scalar >= 128 whose n >= 2 bytes are all >= 128 *)
Lemma utf8_decode_shape t cp n :
  utf8_decode t = DOk cp n ->
  (n = 1 /\ (cp <= 127)%N /\ byte_at t 0 = cp) \/
  (2 <= n /\ (128 <= cp)%N /\ forall p, p < n -> (128 <= byte_at t p)%N).
Proof.
  unfold utf8_decode. destruct t as [|b0 r]; [discriminate|].
  destruct (utf8_len b0) as [k|] eqn:EL; [|discriminate].
  apply utf8_len_cases in EL.
  destruct EL as [[-> Hb]|[[-> Hb]|[[-> Hb]|[-> Hb]]]].
  - intro H; injection H as <- <-. left. cbn. auto.
  - destruct r as [|b1 r]; [discriminate|]. destruct (_ && _) eqn:C; [|discriminate].
    intro H; injection H as <- <-. right. unfold is_cont in C. bool_to_prop.
    split; [lia|]. split; [lia|]. intros [ | [ | p ] ] Hp; unfold byte_at; cbn; lia.
  - destruct r as [|b1 [|b2 r]]; try discriminate. destruct (_ && _) eqn:C; [|discriminate].
    intro H; injection H as <- <-. right. unfold is_cont in C. bool_to_prop.
    all: split; [lia|]; (split; [lia|]); intros [ | [ | [ | p ] ] ] Hp; unfold byte_at; cbn; lia.
  - destruct r as [|b1 [|b2 [|b3 r]]]; try discriminate. destruct (_ && _) eqn:C; [|discriminate].
    intro H; injection H as <- <-. right. unfold is_cont in C. bool_to_prop.
    all: split; [lia|]; (split; [lia|]); intros [ | [ | [ | [ | p ] ] ] ] Hp; unfold byte_at; cbn; lia.
Qed.

Lemma utf8_ascii_clean b s i cp n :
  (b <= 127)%N -> utf8_decode (skipn i s) = DOk cp n -> (clean b s i (i + n) <-> cp <> b).
Proof.
  intros Hb Hd. apply utf8_decode_shape in Hd as [(-> & Hc & E)|(Hn & Hc & Hall)].
  - rewrite byte_at_skipn, Nat.add_0_r in E. split.
    + intros H. rewrite <- E. apply H. lia.
    + intros H p Hp. assert (p = i) by lia. subst p. congruence.
  - split; [intros _; lia|]. intros _ p Hp. specialize (Hall (p - i)). rewrite byte_at_skipn in Hall.
    replace (i + (p - i)) with p in Hall by lia. specialize (Hall ltac:(lia)). lia.
Qed.

(* ---- strip_from_match_ascii ---- *)
Lemma strip_list_Forall2 byte xs ys :
  (fix go (l : list hir) : list hir + rerr :=
     match l with
     | [] => inl []
     | x :: t => match strip_ascii byte x with
                 | inr e => inr e
                 | inl y => match go t with inr e => inr e | inl ys => inl (y :: ys) end
                 end
     end) xs = inl ys ->
  Forall2 (fun x y => strip_ascii byte x = inl y) xs ys.
Proof.
  revert ys; induction xs as [|x t IH]; intros ys H.
  - injection H as <-. constructor.
  - destruct (strip_ascii byte x) as [y|e] eqn:E; [|discriminate].
    match type of H with match ?g with _ => _ end = _ => destruct g as [ys'|e] eqn:G end; [|discriminate].
    injection H as <-. constructor; [exact E|]. now apply IH.
Qed.

Lemma nth_error_byte_at (s : bytes) i x : nth_error s i = Some x -> byte_at s i = x.
Proof. intro H. unfold byte_at. now apply nth_error_nth. Qed.

Theorem strip_ascii_iff : forall byte, (byte <= 127)%N -> forall h h' s i j,
  strip_ascii byte h = inl h' ->
  (Matches h' s i j <-> Matches h s i j /\ clean byte s i j).
Proof.
  intros byte Hb h. induction h as [|lit|rs|rs|l|mn mx g h IH|h IH|hs IH|hs IH] using hir_ind2;
    intros h' s i j Hs; cbn [strip_ascii] in Hs.
  - injection Hs as <-. rewrite matches_empty_iff. split; [intros [-> H]|tauto].
    split; [auto|apply clean_empty].
  - destruct (existsb (N.eqb byte) lit) eqn:E; [discriminate|]. injection Hs as <-.
    rewrite matches_lit_iff. split; [|tauto]. intros (-> & H1 & H2). split; [auto|].
    now apply lit_clean.
  - assert (G : forall rs', (rs = [] /\ rs' = []) \/ rs' = remove_point rs byte ->
              (Matches (HClassB rs') s i j <-> Matches (HClassB rs) s i j /\ clean byte s i j)).
    { intros rs' Hrs. rewrite !matches_classb_iff. split.
      - intros (-> & x & Hx & Hr). destruct Hrs as [[-> ->] | ->]; [discriminate|].
        rewrite in_ranges_remove_point in Hr. apply andb_true_iff in Hr as [Hr Hne].
        split; [eauto|]. intros p Hp. assert (p = i) by lia. subst p.
        rewrite (nth_error_byte_at _ _ _ Hx). apply negb_true_iff, N.eqb_neq in Hne. exact Hne.
      - intros ((-> & x & Hx & Hr) & Hc). split; [reflexivity|]. exists x. split; [exact Hx|].
        destruct Hrs as [[-> ->] | ->]; [discriminate|]. rewrite in_ranges_remove_point, Hr. cbn.
        apply negb_true_iff, N.eqb_neq. rewrite <- (nth_error_byte_at _ _ _ Hx). apply Hc. lia. }
    destruct rs as [|r rs]; [injection Hs as <-; apply G; auto|].
    destruct (remove_point (r :: rs) byte) as [|r' rs'] eqn:E; [discriminate|].
    injection Hs as <-. apply G. now right.
  - assert (G : forall rs', (rs = [] /\ rs' = []) \/ rs' = remove_point rs byte ->
              (Matches (HClassU rs') s i j <-> Matches (HClassU rs) s i j /\ clean byte s i j)).
    { intros rs' Hrs. rewrite !matches_classu_iff. split.
      - intros (Hi & cp & n & -> & Hd & Hr). destruct Hrs as [[-> ->] | ->]; [discriminate|].
        rewrite in_ranges_remove_point in Hr. apply andb_true_iff in Hr as [Hr Hne].
        split; [eauto 8|]. apply (utf8_ascii_clean _ _ _ _ _ Hb Hd).
        apply negb_true_iff, N.eqb_neq in Hne. exact Hne.
      - intros ((Hi & cp & n & -> & Hd & Hr) & Hc). split; [exact Hi|]. exists cp, n.
        split; [reflexivity|]. split; [exact Hd|].
        destruct Hrs as [[-> ->] | ->]; [discriminate|]. rewrite in_ranges_remove_point, Hr. cbn.
        apply negb_true_iff, N.eqb_neq. now apply (utf8_ascii_clean _ _ _ _ _ Hb Hd). }
    destruct rs as [|r rs]; [injection Hs as <-; apply G; auto|].
    destruct (remove_point (r :: rs) byte) as [|r' rs'] eqn:E; [discriminate|].
    injection Hs as <-. apply G. now right.
  - injection Hs as <-. rewrite matches_look_iff. split; [|tauto]. intros (-> & H). split; [auto|apply clean_empty].
  - destruct (strip_ascii byte h) as [h1|e] eqn:E; [|discriminate]. injection Hs as <-.
    rewrite !matches_rep_iff. specialize (IH h1 s).
    split.
    + intro H. induction H as [mx i Hi|mn mx i k j Hmx HP HR IHR].
      * split; [now constructor|apply clean_empty].
      * apply IH in HP; [|reflexivity]. destruct HP as [HP Hc1]. destruct IHR as [HR' Hc2].
        split; [econstructor; eauto|].
        apply matches_bounds in HP.
        assert (k <= j <= length s) by (eapply RepM_bounds; [apply matches_bounds|exact HR']).
        apply (clean_split byte s i k j); [lia|auto].
    + intros [H Hc]. induction H as [mx i Hi|mn mx i k j Hmx HP HR IHR].
      * now constructor.
      * pose proof (matches_bounds _ _ _ _ HP).
        assert (k <= j <= length s) by (eapply RepM_bounds; [apply matches_bounds|exact HR]).
        apply (clean_split byte s i k j) in Hc; [|lia]. destruct Hc as [Hc1 Hc2].
        econstructor; [exact Hmx| |apply IHR; exact Hc2]. apply IH; [reflexivity|auto].
  - destruct (strip_ascii byte h) as [h1|e] eqn:E; [|discriminate]. injection Hs as <-.
    rewrite !matches_cap_iff. now apply IH.
  - match type of Hs with match ?g with _ => _ end = _ => destruct g as [ys|e] eqn:G end; [|discriminate].
    injection Hs as <-. apply strip_list_Forall2 in G. clear -IH G Hb.
    revert i j. induction G as [|x y xs ys Hxy Hrest IHl]; intros i j.
    + rewrite matches_concat_nil_iff. split; [intros [-> H]|tauto]. split; [auto|apply clean_empty].
    + inversion IH as [|? ? IHx IHxs]; subst. rewrite !matches_concat_cons_iff. split.
      * intros (k & H1 & H2). apply (IHx y s) in H1; [|exact Hxy]. apply IHl in H2; [|exact IHxs].
        destruct H1 as [H1 C1], H2 as [H2 C2]. split; [eauto|].
        apply matches_bounds in H1. apply matches_bounds in H2.
        apply (clean_split byte s i k j); [lia|auto].
      * intros ((k & H1 & H2) & Hc).
        pose proof (matches_bounds _ _ _ _ H1). pose proof (matches_bounds _ _ _ _ H2).
        apply (clean_split byte s i k j) in Hc; [|lia]. destruct Hc as [C1 C2].
        exists k. split; [apply (IHx y s); auto|apply IHl; auto].
  - match type of Hs with match ?g with _ => _ end = _ => destruct g as [ys|e] eqn:G end; [|discriminate].
    injection Hs as <-. apply strip_list_Forall2 in G. clear -IH G Hb.
    induction G as [|x y xs ys Hxy Hrest IHl].
    + rewrite matches_alt_nil_iff. tauto.
    + inversion IH as [|? ? IHx IHxs]; subst. rewrite !matches_alt_cons_iff.
      rewrite (IHx y s i j Hxy), (IHl IHxs). tauto.
Qed.
