(* Proofs/GrepBreaks.v — separators of the grep reference: the event stream is exactly its line
   events with a separator inserted before a line event iff context is enabled, something was
   delivered before, and the line does not start where the previous delivered line ended. *)
From RG Require Import Base.Bytes Base.BytesFacts Model.Lines Model.SearcherCore Spec.GrepSpec Proofs.GrepSpecProofs.

Section GB.
  Variable cfg : config.
  Variable is_match : bytes -> bool.
  Hypothesis Hnostop : c_stop_on_nonmatch cfg = false.
  Notation B := (c_before cfg).
  Notation run := (run cfg is_match).
  Notation sc := (sc cfg is_match).

  Definition is_line (e : event) : bool := match ev_span e with Some _ => true | None => false end.

  Fixpoint with_breaks (d : nat) (sunk : bool) (les : list event) : list event :=
    match les with
    | [] => []
    | e :: r =>
      match ev_span e with
      | Some (o, en) => (if any_context cfg && sunk && Nat.ltb d o then [EBreak] else []) ++ e :: with_breaks en true r
      | None => e :: with_breaks d sunk r
      end
    end.

  Lemma with_breaks_app : forall a d s b, forallb is_line a = true ->
    with_breaks d s (a ++ b) = with_breaks d s a ++ with_breaks (last_end d a) (s || negb (Nat.eqb (length a) 0)) b.
  Proof.
    induction a as [|e a IH]; intros d s b Ha; cbn [app with_breaks last_end length].
    - cbn. now rewrite orb_false_r.
    - cbn [forallb] in Ha. apply andb_true_iff in Ha as [He Ha]. unfold is_line in He.
      destruct (ev_span e) as [[o en]|]; [|discriminate].
      rewrite (IH en true b Ha). cbn [Nat.eqb negb]. rewrite orb_true_r. rewrite <- app_assoc. cbn [app].
      reflexivity.
  Qed.

  Lemma filter_brk (c : bool) : filter is_line (if c then [EBreak] else []) = [].
  Proof. destruct c; reflexivity. Qed.

  Lemma before_events_lines bl : forallb is_line (before_events cfg bl) = true.
  Proof. induction bl as [|pl r IH]; [reflexivity|]. cbn [before_events]. rewrite forallb_app, IH. reflexivity. Qed.

  Lemma filter_lines_id evs : forallb is_line evs = true -> filter is_line evs = evs.
  Proof.
    induction evs as [|e r IH]; intro H; [reflexivity|]. cbn [forallb] in H. apply andb_true_iff in H as [He Hr].
    cbn [filter]. rewrite He. f_equal. apply IH. exact Hr.
  Qed.

  Lemma before_last_end bl e d : chain bl e -> bl <> [] -> last_end d (before_events cfg bl) = e.
  Proof.
    destruct bl as [|pl older]; intros Hch Hne; [congruence|]. destruct Hch as [H1 _].
    cbn [before_events]. rewrite last_end_app. cbn [last_end ev_span]. exact H1.
  Qed.

  (* before-context lines follow one another without a gap: no separator between them *)
  Lemma with_breaks_before : forall bl e d s, chain bl e -> bl <> [] ->
    with_breaks d s (before_events cfg bl) =
      (if any_context cfg && s && Nat.ltb d (e - pbytes bl) then [EBreak] else []) ++ before_events cfg bl.
  Proof.
    induction bl as [|pl older IH]; intros e d s Hch Hne; [congruence|].
    destruct Hch as [H1 H2]. cbn [before_events].
    assert (Hpb : pbytes (pl :: older) = pbytes older + length (p_bytes pl)).
    { unfold pbytes. cbn [map concat]. rewrite app_length. lia. }
    destruct older as [|q older'].
    - cbn [before_events app with_breaks ev_span]. unfold pbytes. cbn [map concat length]. rewrite app_nil_r.
      replace (e - length (p_bytes pl)) with (p_off pl) by lia. reflexivity.
    - rewrite (with_breaks_app _ d s _ (before_events_lines _)).
      rewrite (IH (p_off pl) d s H2 ltac:(discriminate)).
      rewrite <- app_assoc. f_equal.
      { pose proof (chain_bytes _ _ H2). rewrite Hpb.
        replace (e - (pbytes (q :: older') + length (p_bytes pl))) with (p_off pl - pbytes (q :: older')) by lia. reflexivity. }
      f_equal.
      rewrite (before_last_end (q :: older') (p_off pl) d H2 ltac:(discriminate)).
      cbn [with_breaks ev_span]. rewrite Nat.ltb_irrefl, andb_false_r. reflexivity.
  Qed.

  (* the invariant: the flat stream is its line events with separators exactly at the gaps *)
  Definition lines_of (g : gstate) : list event := filter is_line (rev (g_out g)).

  Lemma pend_nonempty : forall pend pre, pend_inv cfg is_match pre pend -> Forall (fun l : bytes => l <> []) pre ->
    Forall (fun pl => 1 <= length (p_bytes pl)) pend.
  Proof.
    induction pend as [|pl older IH]; intros pre H Hne; [constructor|].
    destruct H as (pre0 & -> & _ & _ & _ & _ & Hold).
    apply Forall_app in Hne as [Hne0 Hl]. inversion Hl as [|? ? Hb _]; subst.
    constructor; [destruct (p_bytes pl); [congruence|cbn; lia]|]. eapply IH; eauto.
  Qed.

  Lemma pbytes_skipn_pos n (pend : list pend_line) :
    Forall (fun pl => 1 <= length (p_bytes pl)) pend ->
    (pbytes (firstn n pend) < pbytes pend <-> length (firstn n pend) < length pend).
  Proof.
    intro Hp. rewrite <- (firstn_skipn n pend) at 2 4.
    unfold pbytes. rewrite map_app, concat_app, !app_length.
    assert (Hs : length (skipn n pend) = 0 <-> length (concat (map p_bytes (skipn n pend))) = 0).
    { assert (Hf : Forall (fun pl => 1 <= length (p_bytes pl)) (skipn n pend)).
      { rewrite <- (firstn_skipn n pend) in Hp. apply Forall_app in Hp. tauto. }
      destruct (skipn n pend) as [|x r]; [cbn; tauto|].
      inversion Hf; subst. cbn [map concat length]. rewrite app_length. split; lia. }
    lia.
  Qed.

  Theorem separators_exactly_at_gaps : forall ls, Forall (fun l : bytes => l <> []) ls ->
    let g := run ls in
    rev (g_out g) = with_breaks 0 false (lines_of g) /\
    last_end 0 (rev (g_out g)) + pbytes (g_pend g) = length (concat ls) /\
    g_sunk g = negb (Nat.eqb (length (lines_of g)) 0) /\
    last_end 0 (lines_of g) = last_end 0 (rev (g_out g)) /\
    (c_passthru cfg = true -> g_pend g = []) /\ (1 <= g_after g -> g_pend g = []).
  Proof.
    induction ls as [|l pre IH] using rev_ind; intro Hne; [cbn; repeat split; auto; lia|].
    apply Forall_app in Hne as [Hne0 Hl]. inversion Hl as [|? ? Hlne _]; subst.
    destruct (IH Hne0) as (E1 & E2 & E3 & E4 & E5 & E6). clear IH. cbv zeta in *.
    destruct (st_basic cfg is_match Hnostop pre) as (I1 & I2 & I3 & I4). cbv zeta in *.
    pose proof (pend_inv_run cfg is_match Hnostop pre) as Hinv.
    pose proof (pend_inv_chain cfg is_match _ _ Hinv) as Hch.
    pose proof (pend_nonempty _ _ Hinv Hne0) as Hpos.
    unfold lines_of in *.
    rewrite (run_snoc cfg is_match). unfold g_step, g_step_s. rewrite I1. fold (sc l). rewrite Hnostop. cbn [andb].
    rewrite concat_app, app_length. cbn [concat length]. rewrite app_nil_r.
    set (E := rev (g_out (run pre))) in *. set (LE := filter is_line E) in *. set (d := last_end 0 E) in *.
    destruct (sc l) eqn:Hs.
    - (* a result line *)
      cbn [g_out g_pend g_sunk g_after]. rewrite rev_app_distr, rev_involutive. fold E.
      set (P := g_pend (run pre)) in *. remember (firstn B P) as bl eqn:Hbl.
      set (brk1 := if any_context cfg && g_sunk (run pre) && (length bl <? length P) && negb (length bl =? 0) then [EBreak] else []).
      set (brk2 := if any_context cfg && g_sunk (run pre) && (length bl =? 0) && negb (length P =? 0) then [EBreak] else []).
      set (M := EMatched (g_off (run pre)) (lnum_of cfg (g_lnum (run pre))) l).
      assert (Hfilt : filter is_line (E ++ brk1 ++ before_events cfg bl ++ brk2 ++ [M]) = LE ++ before_events cfg bl ++ [M]).
      { rewrite !filter_app. fold LE. f_equal.
        unfold brk1, brk2. rewrite !filter_brk.
        cbn [app]. rewrite (filter_lines_id _ (before_events_lines bl)). reflexivity. }
      rewrite Hfilt.
      assert (HLE : forallb is_line LE = true).
      { unfold LE. clear. induction E as [|e r IHr]; [reflexivity|]. cbn [filter]. destruct (is_line e) eqn:He; [cbn [forallb]; now rewrite He|exact IHr]. }
      assert (Hdle : d = last_end 0 LE) by (symmetry; exact E4).
      split.
      { rewrite (with_breaks_app LE 0 false _ HLE). rewrite <- E1. f_equal.
        rewrite <- Hdle. cbn [orb]. rewrite <- E3.
        destruct (Nat.eqb_spec (length bl) 0) as [Hl0|Hl0].
        - (* no before-context line *)
          assert (Hb0 : bl = []) by (apply length_zero_iff_nil; exact Hl0).
          unfold brk1, brk2. rewrite Hb0.
          cbn [before_events app with_breaks length Nat.eqb negb]. rewrite !andb_false_r. cbn [app].
          unfold M. cbn [ev_span]. rewrite andb_true_r.
          assert (Hgap : Nat.ltb d (g_off (run pre)) = negb (Nat.eqb (length P) 0)).
          { rewrite I2. destruct P as [|p0 P'] eqn:EP.
            - unfold pbytes in E2. cbn in E2. destruct (Nat.ltb_spec d (length (concat pre))); [lia|reflexivity].
            - inversion Hpos; subst. unfold pbytes in E2. cbn [map concat length] in E2. rewrite app_length in E2.
              cbn [length Nat.eqb negb]. destruct (Nat.ltb_spec d (length (concat pre))); [reflexivity|lia]. }
          rewrite Hgap. reflexivity.
        - assert (Hblne : bl <> []) by (intro Hc; rewrite Hc in Hl0; cbn in Hl0; lia).
          assert (Hchbl : chain bl (length (concat pre))) by (rewrite Hbl; apply chain_firstn; exact Hch).
          rewrite (with_breaks_app (before_events cfg bl) d (g_sunk (run pre)) [M] (before_events_lines bl)).
          rewrite (with_breaks_before bl (length (concat pre)) d (g_sunk (run pre)) (Hchbl) Hblne).
          rewrite (before_last_end bl (length (concat pre)) d (Hchbl) Hblne).
          unfold M. cbn [with_breaks ev_span]. rewrite I2, Nat.ltb_irrefl, andb_false_r. cbn [app].
          unfold brk1, brk2.
          assert (Hl0' : Nat.eqb (length bl) 0 = false) by (apply Nat.eqb_neq; exact Hl0).
          rewrite ?Hl0'. cbn [negb]. rewrite andb_true_r, !andb_false_r. cbn [app].
          rewrite <- app_assoc. f_equal.
          (* gap before the first before-context line <-> some pending line was skipped *)
          assert (Hgap : Nat.ltb d (length (concat pre) - pbytes bl) = Nat.ltb (length bl) (length P)).
          { pose proof (firstn_pbytes B P) as Hle. rewrite <- Hbl in Hle.
            pose proof (pbytes_skipn_pos B P Hpos) as Hiff. rewrite <- Hbl in Hiff.
            destruct (Nat.ltb_spec (length bl) (length P)) as [Hlt|Hge].
            - apply Hiff in Hlt. destruct (Nat.ltb_spec d (length (concat pre) - pbytes bl)); [reflexivity|lia].
            - assert (~ pbytes bl < pbytes P) by (intro Hc; apply Hiff in Hc; lia).
              destruct (Nat.ltb_spec d (length (concat pre) - pbytes bl)); [lia|reflexivity]. }
          rewrite Hgap. reflexivity. }
      split.
      { unfold pbytes. cbn [map concat length]. rewrite Nat.add_0_r.
        rewrite !last_end_app. unfold M. cbn [last_end ev_span]. rewrite I2. reflexivity. }
      split.
      { rewrite !app_length. cbn [length]. destruct (length LE + (length (before_events cfg bl) + 1)) eqn:En; [lia|reflexivity]. }
      split.
      { rewrite !last_end_app. unfold M. cbn [last_end ev_span]. reflexivity. }
      split; intros; reflexivity.
    - rewrite I4.
      destruct (Nat.leb_spec 1 (credit cfg is_match (rev pre))) as [Hc|Hc].
      + (* after-context: adjacent to the previous delivered line *)
        assert (HP : g_pend (run pre) = []) by (apply E6; lia).
        cbn [g_out g_pend g_sunk g_after rev]. fold E.
        rewrite filter_app. fold LE. cbn [filter is_line ev_span].
        assert (HLE : forallb is_line LE = true).
        { unfold LE. clear. induction E as [|e r IHr]; [reflexivity|]. cbn [filter]. destruct (is_line e) eqn:He; [cbn [forallb]; now rewrite He|exact IHr]. }
        rewrite HP in E2. unfold pbytes in E2. cbn in E2.
        split.
        { rewrite (with_breaks_app LE 0 false _ HLE). rewrite <- E1. f_equal.
          cbn [with_breaks ev_span]. rewrite E4. fold d. rewrite I2.
          replace (Nat.ltb d (length (concat pre))) with false by (symmetry; apply Nat.ltb_ge; lia).
          rewrite andb_false_r. reflexivity. }
        split; [rewrite last_end_app; cbn [last_end ev_span]; unfold pbytes; cbn; rewrite I2; lia|].
        split; [rewrite app_length; cbn [length]; destruct (length LE + 1) eqn:En; [lia|reflexivity]|].
        split; [rewrite !last_end_app; reflexivity|].
        split; intros; reflexivity.
      + destruct (c_passthru cfg) eqn:Hp.
        * assert (HP : g_pend (run pre) = []) by (apply E5; reflexivity).
          cbn [g_out g_pend g_sunk g_after rev]. fold E.
          rewrite filter_app. fold LE. cbn [filter is_line ev_span].
          assert (HLE : forallb is_line LE = true).
          { unfold LE. clear. induction E as [|e r IHr]; [reflexivity|]. cbn [filter]. destruct (is_line e) eqn:He; [cbn [forallb]; now rewrite He|exact IHr]. }
          rewrite HP in E2. unfold pbytes in E2. cbn in E2.
          split.
          { rewrite (with_breaks_app LE 0 false _ HLE). rewrite <- E1. f_equal.
            cbn [with_breaks ev_span]. rewrite E4. fold d. rewrite I2.
            replace (Nat.ltb d (length (concat pre))) with false by (symmetry; apply Nat.ltb_ge; lia).
            rewrite andb_false_r. reflexivity. }
          split; [rewrite last_end_app; cbn [last_end ev_span]; unfold pbytes; cbn; rewrite I2; lia|].
          split; [rewrite app_length; cbn [length]; destruct (length LE + 1) eqn:En; [lia|reflexivity]|].
          split; [rewrite !last_end_app; reflexivity|].
          split; intros; reflexivity.
        * cbn [g_out g_pend g_sunk g_after]. fold E LE.
          split; [exact E1|].
          split; [unfold pbytes in *; cbn [map concat p_bytes]; rewrite app_length; lia|].
          split; [exact E3|]. split; [exact E4|].
          split; [discriminate|lia].
  Qed.
End GB.
