(* Proofs/GlobStrategyProofs.v — every match strategy answers as the regex meaning (strategy_eq_regex);
   the pinned file_name refutes it (defect D3) *)
From RG Require Import Base.Bytes Base.BytesFacts Model.Glob Model.GlobSet Spec.GlobSem
  Proofs.GlobSemProofs Proofs.GlobPathProofs.

(* ---------------------------------------------------------------- shapes of the extractors *)
Lemma lits_of_some ts : forall l, lits_of ts = Some l -> ts = map TLit l.
Proof.
  induction ts as [|t ts IH]; intros l H; cbn in H.
  - injection H as <-. reflexivity.
  - destruct t; try discriminate. destruct (lits_of ts); [|discriminate]. injection H as <-.
    cbn. f_equal. now apply IH.
Qed.

Lemma lits_of_map l : lits_of (map TLit l) = Some l.
Proof. induction l as [|c l IH]; cbn; [reflexivity|]. now rewrite IH. Qed.

Lemma nonempty_lit_some x l : nonempty_lit x = Some l -> x = Some l /\ l <> [].
Proof. destruct x as [[|c r]|]; cbn; intro H; try discriminate. injection H as <-. split; [reflexivity|discriminate]. Qed.

Lemma literal_shape o ts l :
  literal o ts = Some l -> case_insensitive o = false /\ ts = map TLit l /\ l <> [].
Proof.
  unfold literal. destruct (case_insensitive o); [discriminate|]. intro H.
  apply nonempty_lit_some in H as [H Hl]. apply lits_of_some in H. auto.
Qed.

Lemma literal_of_lits o l :
  case_insensitive o = false -> l <> [] -> literal o (map TLit l) = Some l.
Proof. intros Hci Hl. unfold literal. rewrite Hci, lits_of_map. destruct l; [congruence|reflexivity]. Qed.

Lemma forallb_basename_ok_lits o l : forallb (basename_ok o) (map TLit l) = negb (has 47 l).
Proof.
  induction l as [|c l IH]; [reflexivity|]. cbn [map forallb basename_ok]. rewrite IH, has_cons, negb_orb.
  now rewrite (N.eqb_sym 47 c).
Qed.

Lemma basename_literal_shape o ts l :
  basename_literal o ts = Some l ->
  case_insensitive o = false /\ ts = TRecPrefix :: map TLit l /\ l <> [] /\ has 47 l = false.
Proof.
  unfold basename_literal, basename_tokens. destruct (case_insensitive o); [discriminate|].
  destruct ts as [|t0 rest]; [discriminate|]. destruct t0; try discriminate.
  destruct rest as [|t1 rest']; [discriminate|]. set (rest := t1 :: rest').
  destruct (forallb (basename_ok o) rest) eqn:F; [|discriminate]. intro H.
  apply lits_of_some in H. rewrite H in F. rewrite forallb_basename_ok_lits in F.
  split; [reflexivity|]. split; [now rewrite H|]. split.
  - intros ->. discriminate.
  - now destruct (has 47 l).
Qed.

Lemma ext_tail_some ts : forall l,
  ext_tail ts = Some l -> ts = map TLit l /\ has 46 l = false /\ has 47 l = false.
Proof.
  induction ts as [|t ts IH]; intros l H; cbn in H.
  - injection H as <-. auto.
  - destruct t; try discriminate. destruct ((c =? 46)%N || (c =? 47)%N) eqn:E; [discriminate|].
    destruct (ext_tail ts); [|discriminate]. injection H as <-. destruct (IH _ eq_refl) as (-> & H1 & H2).
    apply orb_false_iff in E as [E1 E2]. rewrite !has_cons, H1, H2, (N.eqb_sym 46 c), (N.eqb_sym 47 c), E1, E2. auto.
Qed.

Lemma ext_shape o ts e :
  ext o ts = Some e ->
  case_insensitive o = false /\ exists cs, e = 46%N :: cs /\ has 46 cs = false /\ has 47 cs = false /\
    ((literal_separator o = false /\ ts = TStar :: TLit 46 :: map TLit cs) \/
     ts = TRecPrefix :: TStar :: TLit 46 :: map TLit cs).
Proof.
  unfold ext. destruct (case_insensitive o); [discriminate|]. intro H. split; [reflexivity|].
  destruct ts as [|t0 ts']; [discriminate|].
  destruct t0; cbn [nth_error Nat.eqb Nat.add andb skipn] in H; try discriminate.
  - (* TStar first *)
    destruct (literal_separator o) eqn:Els; [discriminate|].
    destruct ts' as [|t1 ts'']; [discriminate|]. cbn [nth_error] in H.
    destruct t1; try discriminate. destruct (c =? 46)%N eqn:Ec; [|discriminate].
    apply N.eqb_eq in Ec. subst c. cbn [skipn] in H.
    destruct (ext_tail ts'') eqn:Et; [|discriminate]. injection H as <-.
    apply ext_tail_some in Et as (-> & H1 & H2). exists l. intuition.
  - (* TRecPrefix first *)
    destruct ts' as [|t1 ts'']; [discriminate|]. cbn [nth_error] in H.
    destruct t1; try discriminate.
    destruct ts'' as [|t2 ts3]; [discriminate|]. cbn [nth_error] in H.
    destruct t2; try discriminate. destruct (c =? 46)%N eqn:Ec; [|discriminate].
    apply N.eqb_eq in Ec. subst c. cbn [skipn] in H.
    destruct (ext_tail ts3) eqn:Et; [|discriminate]. injection H as <-.
    apply ext_tail_some in Et as (-> & H1 & H2). exists l. intuition.
Qed.

Lemma rev_eq_cons {A} (l : list A) x r : rev l = x :: r -> l = rev r ++ [x].
Proof. intro H. rewrite <- (rev_involutive l), H. reflexivity. Qed.

Lemma lits_of_app_inv a b l : lits_of (a ++ b) = Some l ->
  exists la lb, l = la ++ lb /\ a = map TLit la /\ b = map TLit lb.
Proof.
  intro H. apply lits_of_some in H. revert l H. induction a as [|t a IH]; intros l H.
  - exists [], l. auto.
  - destruct l as [|c l]; [discriminate|]. cbn in H. injection H as -> H.
    destruct (IH _ H) as (la & lb & -> & -> & ->). exists (c :: la), lb. auto.
Qed.

Lemma prefix_shape o ts l :
  prefix o ts = Some l ->
  case_insensitive o = false /\ l <> [] /\
  ((literal_separator o = false /\ ts = map TLit l ++ [TStar]) \/
   (exists l', l = l' ++ [47%N] /\ ts = map TLit l' ++ [TRecSuffix]) \/
   ts = map TLit l).
Proof.
  unfold prefix. destruct (case_insensitive o); [discriminate|]. intro H. split; [reflexivity|].
  destruct (rev ts) as [|lastt rinit] eqn:Er; [discriminate|]. apply rev_eq_cons in Er.
  assert (Hgen : forall front need_sep,
    match lits_of front with
    | Some l0 => nonempty_lit (Some (if need_sep : bool then l0 ++ [47%N] else l0))
    | None => None end = Some l ->
    l <> [] /\ exists l0, front = map TLit l0 /\ l = if need_sep then l0 ++ [47%N] else l0).
  { intros front ns Hf. destruct (lits_of front) eqn:El; [|discriminate].
    apply nonempty_lit_some in Hf as [Hf Hl]. injection Hf as <-. apply lits_of_some in El. eauto. }
  destruct lastt.
  1,2,4,6,7,8: (apply (Hgen _ false) in H as (Hl & l0 & Hf & ->); split; [assumption|]; right; right; exact Hf).
  - destruct (literal_separator o); [discriminate|]. apply (Hgen _ false) in H as (Hl & l0 & Hf & ->).
    split; [assumption|]. left. split; [reflexivity|]. now rewrite Er, Hf.
  - apply (Hgen _ true) in H as (Hl & l0 & Hf & ->). split; [assumption|]. right. left. exists l0.
    split; [reflexivity|]. now rewrite Er, Hf.
Qed.

Lemma suffix_shape o ts l c :
  suffix o ts = Some (l, c) ->
  case_insensitive o = false /\
  ((exists l', l = 47%N :: l' /\ l' <> [] /\ c = true /\ ts = TRecPrefix :: map TLit l') \/
   (literal_separator o = false /\ c = false /\ ts = TRecPrefix :: TStar :: map TLit l) \/
   (literal_separator o = false /\ c = false /\ ts = TStar :: map TLit l) \/
   (ts = map TLit l /\ l <> [])).
Proof.
  unfold suffix. destruct (case_insensitive o); [discriminate|]. intro H. split; [reflexivity|].
  assert (Hfin : forall (lit : list N) (entire : bool),
     match lit with
     | [] => None
     | [c0] => if (c0 =? 47)%N then None else Some (lit, entire)
     | _ => Some (lit, entire) end = Some (l, c) -> lit = l /\ entire = c /\ l <> []).
  { intros lit en Hm. destruct lit as [|c0 [|c1 r]]; [discriminate| |].
    - destruct (c0 =? 47)%N; [discriminate|]. injection Hm as <- <-. repeat split; discriminate.
    - injection Hm as <- <-. repeat split; discriminate. }
  destruct ts as [|t0 ts']; [discriminate|].
  destruct t0.
  - (* literal first *)
    cbn [nth_error] in H. destruct (lits_of (skipn 0 (TLit c0 :: ts'))) eqn:El; [|discriminate].
    apply Hfin in H as (Hl & _ & Hne). cbn in Hl. subst l0. apply lits_of_some in El. cbn [skipn] in El.
    right. right. right. auto.
  - cbn [nth_error skipn] in H. discriminate.
  - (* TStar first *)
    cbn [nth_error] in H. destruct (literal_separator o); [discriminate|]. cbn [Nat.add skipn] in H.
    destruct (lits_of ts') eqn:El; [|discriminate]. apply Hfin in H as (Hl & <- & Hne). cbn in Hl. subst l0.
    apply lits_of_some in El. subst ts'. right. right. left. auto.
  - (* TRecPrefix first *)
    destruct ts' as [|t1 ts'']; [discriminate|]. cbn [nth_error] in H.
    destruct t1; cbn [nth_error skipn Nat.add] in H; try discriminate.
    + destruct (lits_of (TLit c0 :: ts'')) eqn:El; [|discriminate].
      apply Hfin in H as (Hl & <- & Hne). cbn in Hl. subst l. apply lits_of_some in El.
      left. exists l0. destruct l0; [discriminate|]. repeat split; try discriminate. now rewrite El.
    + destruct (literal_separator o); [discriminate|]. cbn [skipn app] in H.
      destruct (lits_of ts'') eqn:El; [|discriminate]. apply Hfin in H as (Hl & <- & Hne). cbn in Hl. subst l0.
      apply lits_of_some in El. subst ts''. right. left. auto.
  - cbn [nth_error skipn] in H. discriminate.
  - cbn [nth_error skipn] in H. discriminate.
  - cbn [nth_error skipn] in H. discriminate.
  - cbn [nth_error skipn] in H. discriminate.
Qed.

Lemma has_rev b l : has b (rev l) = has b l.
Proof.
  induction l as [|c l IH]; [reflexivity|]. cbn [rev]. rewrite has_app, IH, !has_cons. cbn.
  rewrite orb_false_r. apply orb_comm.
Qed.

Lemma required_ext_loop_spec rts : forall acc e,
  required_ext_loop rts acc = Some e ->
  exists cs, has 46 cs = false /\ has 47 cs = false /\
    ((rts = map TLit cs /\ e = rev cs ++ acc) \/
     (exists rest, rts = map TLit cs ++ TLit 46 :: rest /\ e = 46%N :: rev cs ++ acc)).
Proof.
  induction rts as [|t rts IH]; intros acc e H; cbn [required_ext_loop] in H.
  - injection H as <-. exists []. auto.
  - destruct t; try discriminate. destruct (c =? 47)%N eqn:E7; [discriminate|].
    destruct (c =? 46)%N eqn:E6.
    + injection H as <-. apply N.eqb_eq in E6. subst c. exists []. repeat split. right. exists rts. auto.
    + apply IH in H as (cs & H1 & H2 & Hc). exists (c :: cs).
      rewrite !has_cons, H1, H2, (N.eqb_sym 46 c), (N.eqb_sym 47 c), E6, E7. repeat split.
      destruct Hc as [[-> ->]|(rest & -> & ->)]; [left|right; exists rest]; cbn [rev map app];
        rewrite <- ?app_assoc; auto.
Qed.

Lemma required_ext_shape o ts e :
  required_ext o ts = Some e ->
  case_insensitive o = false /\ exists pre cs, e = 46%N :: cs /\ has 46 cs = false /\ has 47 cs = false /\
    ts = pre ++ TLit 46 :: map TLit cs.
Proof.
  unfold required_ext. destruct (case_insensitive o); [discriminate|]. intro H. split; [reflexivity|].
  destruct (required_ext_loop (rev ts) []) as [[|c0 e0]|] eqn:El; try discriminate.
  destruct (c0 =? 46)%N eqn:Ec; [|discriminate]. injection H as <-. apply N.eqb_eq in Ec. subst c0.
  apply required_ext_loop_spec in El as (cs & H1 & H2 & [[Hr He]|(rest & Hr & He)]).
  - rewrite app_nil_r in He. exfalso. destruct cs as [|c cs] using rev_ind; [discriminate|].
    rewrite rev_app_distr in He. cbn in He. injection He as <- _.
    rewrite has_app, has_cons, N.eqb_refl in H1. cbn in H1. now rewrite orb_true_r in H1.
  - rewrite app_nil_r in He. injection He as ->. exists (rev rest), (rev cs).
    rewrite !has_rev. repeat split; auto.
    rewrite <- (rev_involutive ts), Hr, rev_app_distr. cbn [rev]. rewrite <- app_assoc. cbn.
    now rewrite map_rev.
Qed.

(* ---------------------------------------------------------------- the regex meaning of each shape *)
Lemma tmatch_len2 o t1 t2 r p : tmatch o (t1 :: t2 :: r) p = tmk o (t1 :: t2 :: r) is_nil p.
Proof. destruct t1; reflexivity. Qed.

Lemma tmatch_lit_first o c r p : tmatch o (TLit c :: r) p = tmk o (TLit c :: r) is_nil p.
Proof. reflexivity. Qed.

Lemma one_k_ext ok k1 k2 p : (forall q, k1 q = k2 q) -> one_k ok k1 p = one_k ok k2 p.
Proof. intro H. destruct p; cbn; [reflexivity|now rewrite H]. Qed.

Lemma star_k_ext ok k1 k2 p : (forall q, k1 q = k2 q) -> star_k ok k1 p = star_k ok k2 p.
Proof. intro H. induction p as [|b r IH]; cbn; rewrite H; [reflexivity|now rewrite IH]. Qed.

Lemma after_some_slash_ext k1 k2 p :
  (forall q, k1 q = k2 q) -> after_some_slash k1 p = after_some_slash k2 p.
Proof. intro H. induction p as [|b r IH]; cbn; [reflexivity|now rewrite H, IH]. Qed.

Definition rec_prefix_k (k : bytes -> bool) (p : bytes) : bool :=
  k p || one_k (fun b => (b =? 47)%N) k p || after_some_slash k p.

Lemma rec_prefix_k_ext k1 k2 p : (forall q, k1 q = k2 q) -> rec_prefix_k k1 p = rec_prefix_k k2 p.
Proof.
  intro H. unfold rec_prefix_k. now rewrite H, (one_k_ext _ k1 k2 p H), (after_some_slash_ext k1 k2 p H).
Qed.

Lemma rec_prefix_k_simpl k p : rec_prefix_k k p = k p || after_some_slash k p.
Proof.
  unfold rec_prefix_k. destruct p as [|b r]; cbn; [now rewrite !orb_false_r|].
  destruct (k (b :: r)), (b =? 47)%N, (k r), (after_some_slash k r); reflexivity.
Qed.

(* "(?:/?|.*/)lit$" *)
Lemma after_some_slash_eqb_suffix l p :
  after_some_slash (bytes_eqb l) p = is_suffix_of (47%N :: l) p.
Proof.
  apply bool_eq_iff. rewrite after_some_slash_iff, is_suffix_of_iff. split.
  - intros (x & y & -> & H). apply bytes_eqb_eq in H. subst. eauto.
  - intros (z & ->). exists z, l. split; [reflexivity|]. now apply bytes_eqb_eq.
Qed.

Lemma forallb_wild_ok o z : has 47 z = false -> forallb (wild_ok o) z = true.
Proof.
  induction z as [|c z IH]; [reflexivity|]. rewrite has_cons. intro H. apply orb_false_iff in H as [H1 H2].
  cbn [forallb]. rewrite IH by assumption. unfold wild_ok. destruct (literal_separator o); [|reflexivity].
  now rewrite N.eqb_sym, H1.
Qed.

Lemma forallb_wild_ok_nosep o z : literal_separator o = false -> forallb (wild_ok o) z = true.
Proof. intro H. induction z; cbn; [reflexivity|]. unfold wild_ok at 1. now rewrite H. Qed.

(* ".*lit$" / "[^/]*lit$" behind an optional "(?:/?|.*/)": the path ends with lit *)
Lemma star_suffix o l p :
  literal_separator o = false ->
  star_k (wild_ok o) (bytes_eqb l) p = is_suffix_of l p.
Proof.
  intro Hs. apply bool_eq_iff. rewrite star_k_iff, is_suffix_of_iff. split.
  - intros (x & y & -> & _ & H). apply bytes_eqb_eq in H. subst. eauto.
  - intros (z & ->). exists z, l. repeat split; [now apply forallb_wild_ok_nosep|now apply bytes_eqb_eq].
Qed.

Lemma rec_prefix_star_suffix o l p :
  literal_separator o = false \/ has 47 l = false ->
  rec_prefix_k (star_k (wild_ok o) (bytes_eqb l)) p = is_suffix_of l p.
Proof.
  intro Hc. rewrite rec_prefix_k_simpl. apply bool_eq_iff. rewrite orb_true_iff, is_suffix_of_iff. split.
  - intros [H|H].
    + apply star_k_iff in H as (x & y & -> & _ & H). apply bytes_eqb_eq in H. subst. eauto.
    + apply after_some_slash_iff in H as (x & y & -> & H).
      apply star_k_iff in H as (x' & y' & -> & _ & H). apply bytes_eqb_eq in H. subst.
      exists (x ++ 47%N :: x'). now rewrite <- app_assoc.
  - intros (w & ->). destruct Hc as [Hs|Hl].
    + left. apply star_k_iff. exists w, l. repeat split; [now apply forallb_wild_ok_nosep|now apply bytes_eqb_eq].
    + destruct (after_last_slash_decomp w) as (pre & Hw & Hz & Hpre). set (z := after_last_slash w) in *.
      destruct Hpre as [->|(q & ->)].
      * left. apply star_k_iff. exists w, l. cbn in Hw. rewrite Hw.
        repeat split; [now apply forallb_wild_ok|now apply bytes_eqb_eq].
      * right. apply after_some_slash_iff. exists q, (z ++ l). split.
        -- rewrite Hw, <- !app_assoc. reflexivity.
        -- apply star_k_iff. exists z, l. repeat split; [now apply forallb_wild_ok|now apply bytes_eqb_eq].
Qed.

Lemma bytes_eqb_sym a b : bytes_eqb a b = bytes_eqb b a.
Proof. apply bool_eq_iff. rewrite !bytes_eqb_eq. split; congruence. Qed.

Lemma bytes_eqb_refl a : bytes_eqb a a = true.
Proof. now apply bytes_eqb_eq. Qed.

Lemma is_prefix_of_app a b p :
  is_prefix_of (a ++ b) p = is_prefix_of a p && is_prefix_of b (skipn (length a) p).
Proof.
  revert p; induction a as [|c a IH]; intros p; [reflexivity|].
  destruct p as [|d p]; cbn; [reflexivity|]. now rewrite IH, andb_assoc.
Qed.

Lemma star_any_nil o q : literal_separator o = false -> star_k (wild_ok o) is_nil q = true.
Proof.
  intro H. apply star_k_iff. exists q, []. rewrite app_nil_r. repeat split. now apply forallb_wild_ok_nosep.
Qed.

Lemma star_true_nil q : star_k (fun _ => true) is_nil q = true.
Proof.
  apply star_k_iff. exists q, []. rewrite app_nil_r. repeat split. induction q; cbn; auto.
Qed.

Lemma tmatch_lits_then o l t p :
  tmatch o (map TLit l ++ [t]) p = tmk o (map TLit l ++ [t]) is_nil p \/ (l = [] /\ t = TRecPrefix).
Proof.
  destruct l as [|c l]; [|left; reflexivity]. destruct t; auto.
Qed.

Lemma tmk_recprefix o r k p : tmk o (TRecPrefix :: r) k p = rec_prefix_k (tmk o r k) p.
Proof. reflexivity. Qed.
Lemma tmk_star o r k p : tmk o (TStar :: r) k p = star_k (wild_ok o) (tmk o r k) p.
Proof. reflexivity. Qed.
Lemma map_TLit_cons c l : TLit c :: map TLit l = map TLit (c :: l).
Proof. reflexivity. Qed.

(* ---------------------------------------------------------------- the theorem, parametric in file_name *)
Section Strategy.
Variable fname : bytes -> option bytes.
Variable p : bytes.
(* what the strategies need of Candidate::new on this path: basename = what follows the last '/' *)
Hypothesis fname_ok : match fname p with Some b => b | None => [] end = after_last_slash p.

Lemma cw_basename : c_basename (candidate_with fname p) = after_last_slash p.
Proof. cbn. apply fname_ok. Qed.

Lemma cw_ext : c_ext (candidate_with fname p) = c_ext (candidate_new p).
Proof. cbn [candidate_with c_ext]. rewrite fname_ok. rewrite ext_new. reflexivity. Qed.

Theorem strategy_eq_regex_gen o ts :
  strategy_match (strategy_new o ts) (candidate_with fname p) (tmatch o ts) = tmatch o ts p.
Proof.
  unfold strategy_new.
  destruct (basename_literal o ts) as [l|] eqn:E1.
  { apply basename_literal_shape in E1 as (Hci & -> & Hne & Hs).
    cbn [strategy_match]. rewrite cw_basename. destruct l as [|c l]; [congruence|].
    cbn [map]. rewrite tmatch_len2, tmk_recprefix, map_TLit_cons.
    rewrite (rec_prefix_k_ext _ (bytes_eqb (c :: l))) by (intro q; apply (tmk_lits_nil o (c :: l) q Hci)).
    rewrite rec_prefix_k_simpl. symmetry. now apply basename_lit_eq. }
  destruct (literal o ts) as [l|] eqn:E2.
  { apply literal_shape in E2 as (Hci & -> & Hne). cbn [strategy_match c_path candidate_with].
    destruct l as [|c l]; [congruence|]. cbn [map]. rewrite tmatch_lit_first.
    symmetry. apply (tmk_lits_nil o (c :: l) p Hci). }
  destruct (ext o ts) as [e|] eqn:E3.
  { apply ext_shape in E3 as (Hci & cs & -> & Hd & Hs & Hsh). cbn [strategy_match]. rewrite cw_ext.
    rewrite ext_eq_suffix by assumption. symmetry.
    destruct Hsh as [[Hls ->]| ->]; rewrite tmatch_len2.
    - rewrite tmk_star, map_TLit_cons.
      rewrite (star_k_ext _ _ (bytes_eqb (46%N :: cs))) by (intro q; apply (tmk_lits_nil o (46%N :: cs) q Hci)).
      now apply star_suffix.
    - rewrite tmk_recprefix, map_TLit_cons.
      rewrite (rec_prefix_k_ext _ (star_k (wild_ok o) (bytes_eqb (46%N :: cs)))).
      + apply rec_prefix_star_suffix. right. rewrite has_cons. cbn. exact Hs.
      + intro q. rewrite tmk_star. apply star_k_ext. intro q'. apply (tmk_lits_nil o (46%N :: cs) q' Hci). }
  destruct (prefix o ts) as [l|] eqn:E4.
  { apply prefix_shape in E4 as (Hci & Hne & [[Hls ->]|[(l' & -> & ->)| ->]]).
    - cbn [strategy_match c_path candidate_with].
      destruct (tmatch_lits_then o l TStar p) as [->|[_ F]]; [|discriminate].
      rewrite tmk_lits_app by assumption. cbn [tmk tok_k]. rewrite star_any_nil by assumption.
      now rewrite andb_true_r.
    - cbn [strategy_match c_path candidate_with].
      destruct (tmatch_lits_then o l' TRecSuffix p) as [->|[_ F]]; [|discriminate].
      rewrite tmk_lits_app by assumption. rewrite is_prefix_of_app. f_equal.
      cbn [tmk tok_k]. destruct (skipn (length l') p) as [|b r]; [reflexivity|].
      cbn [one_k is_prefix_of]. rewrite star_true_nil, !andb_true_r. apply N.eqb_sym.
    - rewrite literal_of_lits in E2 by assumption. discriminate. }
  destruct (suffix o ts) as [[l c]|] eqn:E5.
  { apply suffix_shape in E5 as (Hci & [(l' & -> & Hne & -> & ->)|[(Hls & -> & ->)|[(Hls & -> & ->)|[-> Hne]]]]).
    - cbn [strategy_match c_path candidate_with andb skipn].
      destruct l' as [|c0 l']; [congruence|]. cbn [map]. rewrite tmatch_len2, tmk_recprefix, map_TLit_cons.
      rewrite (rec_prefix_k_ext _ (bytes_eqb (c0 :: l'))) by (intro q; apply (tmk_lits_nil o (c0 :: l') q Hci)).
      rewrite rec_prefix_k_simpl, after_some_slash_eqb_suffix, (bytes_eqb_sym p).
      destruct (bytes_eqb (c0 :: l') p); reflexivity.
    - cbn [strategy_match c_path candidate_with andb]. rewrite tmatch_len2, tmk_recprefix.
      rewrite (rec_prefix_k_ext _ (star_k (wild_ok o) (bytes_eqb l))).
      + symmetry. apply rec_prefix_star_suffix. now left.
      + intro q. rewrite tmk_star. apply star_k_ext. intro q'. now apply tmk_lits_nil.
    - cbn [strategy_match c_path candidate_with andb].
      assert (Ht : tmatch o (TStar :: map TLit l) p = tmk o (TStar :: map TLit l) is_nil p) by reflexivity.
      rewrite Ht, tmk_star.
      rewrite (star_k_ext _ _ (bytes_eqb l)) by (intro q; now apply tmk_lits_nil).
      symmetry. now apply star_suffix.
    - rewrite literal_of_lits in E2 by assumption. discriminate. }
  destruct (required_ext o ts) as [e|] eqn:E6.
  { apply required_ext_shape in E6 as (Hci & pre & cs & -> & Hd & Hs & ->).
    cbn [strategy_match c_path candidate_with]. fold (candidate_with fname p). rewrite cw_ext.
    destruct (tmatch o (pre ++ TLit 46 :: map TLit cs) p) eqn:Hm; [|apply andb_false_r].
    rewrite andb_true_r, bytes_eqb_sym, ext_eq_suffix by assumption.
    assert (Ht : tmatch o (pre ++ TLit 46 :: map TLit cs) p = tmk o (pre ++ TLit 46 :: map TLit cs) is_nil p).
    { destruct pre as [|t1 pre]; [reflexivity|]. destruct pre; apply tmatch_len2. }
    rewrite Ht in Hm. apply tmk_app_suffix in Hm as (n & Hn).
    rewrite (tmk_lits_nil o (46%N :: cs)) in Hn by assumption. apply bytes_eqb_eq in Hn.
    apply is_suffix_of_iff. exists (firstn n p). rewrite Hn. symmetry. apply firstn_skipn. }
  reflexivity.
Qed.
End Strategy.

Lemma file_name_ok p : match file_name p with Some b => b | None => [] end = after_last_slash p.
Proof. destruct p; reflexivity. Qed.

Theorem strategy_eq_regex_proof o ts p :
  strategy_match (strategy_new o ts) (candidate_new p) (tmatch o ts) = tmatch o ts p.
Proof. apply (strategy_eq_regex_gen file_name p (file_name_ok p)). Qed.

(* the pinned file_name (before the repair of D3) agrees on every path that does not end in '.' *)
Lemma file_name_d3_ok p :
  (forall q, p <> q ++ [46%N]) ->
  match file_name_d3 p with Some b => b | None => [] end = after_last_slash p.
Proof.
  intro H. unfold file_name_d3. destruct (rev p) as [|b r] eqn:E.
  - apply (f_equal (@rev N)) in E. rewrite rev_involutive in E. now subst.
  - destruct (b =? 46)%N eqn:Eb; [|reflexivity]. apply N.eqb_eq in Eb. subst b.
    exfalso. apply (H (rev r)). rewrite <- (rev_involutive p), E. reflexivity.
Qed.

Theorem strategy_eq_regex_d3_outside_proof o ts p :
  (forall q, p <> q ++ [46%N]) ->
  strategy_match (strategy_new o ts) (candidate_d3 p) (tmatch o ts) = tmatch o ts p.
Proof. intro H. apply (strategy_eq_regex_gen file_name_d3 p (file_name_d3_ok p H)). Qed.
