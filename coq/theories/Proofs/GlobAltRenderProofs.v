(* Proofs/GlobAltRenderProofs.v — the glob parser (Model/Glob.v build) on the rendering of documented glob syntax
   WITH alternates (Spec/GlobSyntax.v aitem/apiece) yields the documented tokens, the alternatives of each
   Alternates token in the parser's (reversed) order:  build (render_aglob g) = parser_order (aglob_tokens g).
   The lemmas of GlobRenderProofs.v are about a one-level stack; between braces the stack has two or more
   levels, so the item lemmas are re-proved here for a stack [ts :: rest] with arbitrary [rest]. *)
From RG Require Import Base.Bytes Model.Glob Spec.GlobSyntax Proofs.GlobParseProofs Proofs.GlobRenderProofs.

Definition sk (ts : list token) (rest : list (list token)) (cs : list N) (pv cu : option N) : parser :=
  mk_parser (ts :: rest) cs pv cu.

Lemma sk_prev o ts rest cs pv pv' cu : parse_all o (sk ts rest cs pv cu) = parse_all o (sk ts rest cs pv' cu).
Proof.
  unfold parse_all, sk. cbn [chars]. destruct cs as [|c cs]; cbn [length parse_loop bump chars stack cur]; reflexivity.
Qed.

(* ---- single items, any stack depth ---- *)
Lemma krun_plain o ts rest c cs pv cu :
  plain_ok c = true \/ c = 47%N ->
  parse_all o (sk ts rest (c :: cs) pv cu) = parse_all o (sk (ts ++ [TLit c]) rest cs cu (Some c)).
Proof.
  intro H. apply (parse_all_step o _ c cs); [reflexivity|]. unfold sk, step, bump. cbn [chars stack cur].
  assert (E : ((c =? 63) = false /\ (c =? 42) = false /\ (c =? 91) = false /\ (c =? 123) = false /\
               (c =? 125) = false /\ (c =? 44) = false /\ (c =? 92) = false)%N).
  { destruct H as [H| ->]; [|repeat split; reflexivity]. unfold plain_ok in H. apply negb_true_iff in H.
    repeat (apply orb_false_iff in H as [H ?]). repeat split; assumption. }
  destruct E as (E1 & E2 & E3 & E4 & E5 & E6 & E7). rewrite E1, E2, E3, E4, E5, E6, E7. reflexivity.
Qed.

Lemma krun_esc o ts rest c cs pv cu :
  backslash_escape o = true ->
  parse_all o (sk ts rest (92%N :: c :: cs) pv cu) = parse_all o (sk (ts ++ [TLit c]) rest cs (Some 92%N) (Some c)).
Proof.
  intro Hb. apply (parse_all_step o _ 92%N (c :: cs)); [reflexivity|]. unfold sk, step, bump. cbn [chars stack cur].
  change ((92 =? 63)%N) with false. change ((92 =? 42)%N) with false. change ((92 =? 91)%N) with false.
  change ((92 =? 123)%N) with false. change ((92 =? 125)%N) with false. change ((92 =? 44)%N) with false.
  change ((92 =? 92)%N) with true. cbv iota. unfold parse_backslash. rewrite Hb. unfold bump. cbn [chars stack cur].
  reflexivity.
Qed.

Lemma krun_any o ts rest cs pv cu :
  parse_all o (sk ts rest (63%N :: cs) pv cu) = parse_all o (sk (ts ++ [TAny]) rest cs cu (Some 63%N)).
Proof. apply (parse_all_step o _ 63%N cs); reflexivity. Qed.

Lemma krun_star o ts rest cs pv cu :
  hd_error cs <> Some 42%N ->
  parse_all o (sk ts rest (42%N :: cs) pv cu) = parse_all o (sk (ts ++ [TStar]) rest cs cu (Some 42%N)).
Proof.
  intro H. apply (parse_all_step o _ 42%N cs); [reflexivity|]. unfold sk, step, bump. cbn [chars stack cur].
  change ((42 =? 63)%N) with false. change ((42 =? 42)%N) with true. cbv iota.
  rewrite parse_star_eq. cbv zeta. unfold peek. cbn [chars].
  assert (E : opt_is (hd_error cs) 42 = false).
  { destruct cs as [|x cs']; [reflexivity|]. cbn. apply N.eqb_neq. intros ->. now apply H. }
  rewrite E. reflexivity.
Qed.

Lemma krun_class o ts rest ms cs pv cu :
  item_ok (IClass ms) = true ->
  parse_all o (sk ts rest (91%N :: flat_map render_member ms ++ 93%N :: cs) pv cu)
  = parse_all o (sk (ts ++ [TClass false ms]) rest cs None (Some 93%N)).
Proof.
  intro Hok. cbn [item_ok] in Hok. apply andb_true_iff in Hok as [Hms Hfirst].
  destruct ms as [|[lo hi] ms']; [discriminate|]. set (ms := (lo, hi) :: ms') in *.
  destruct (class_loop_run ms [] true cu (Some 91%N) cs Hms ltac:(discriminate)) as (pv' & Hloop).
  cbn [app] in Hloop.
  rewrite (sk_prev o _ _ _ None pv').
  apply (parse_all_step o _ 91%N (flat_map render_member ms ++ 93%N :: cs)); [reflexivity|].
  unfold sk, step, bump. cbn [chars stack cur].
  change ((91 =? 63)%N) with false. change ((91 =? 42)%N) with false. change ((91 =? 91)%N) with true. cbv iota.
  unfold parse_class, peek. cbn [chars].
  assert (Hpeek : exists c0 rest0, flat_map render_member ms ++ 93%N :: cs = c0 :: rest0 /\
                                   ((c0 =? 33) || (c0 =? 94))%N = false /\ c0 = lo).
  { unfold ms. cbn [flat_map]. unfold render_member at 1. cbn [fst snd] in *.
    apply negb_true_iff in Hfirst. destruct (lo =? hi)%N; cbn [app]; eauto. }
  destruct Hpeek as (c0 & rest0 & Etxt & Hneg & _). rewrite Etxt. cbn [hd_error]. rewrite Hneg.
  cbn [chars prev cur stack]. rewrite <- Etxt, Hloop. cbn [bind]. reflexivity.
Qed.

Lemma krun_comp o its : forall ts rest tl pv cu,
  backslash_escape o = true -> forallb item_ok its = true -> no_adjacent_star its = true ->
  starts_no_star tl ->
  exists pv' cu', parse_all o (sk ts rest (render_comp its ++ tl) pv cu)
                  = parse_all o (sk (ts ++ comp_toks its) rest tl pv' cu').
Proof.
  induction its as [|i its IH]; intros ts rest tl pv cu Hb Hok Hadj Hrest.
  - cbn [render_comp flat_map app comp_toks map]. rewrite app_nil_r. eauto.
  - cbn [forallb] in Hok. apply andb_true_iff in Hok as [Hi Hok].
    assert (Hadj' : no_adjacent_star its = true) by (destruct i; try exact Hadj; destruct its as [|[]]; try exact Hadj; discriminate).
    cbn [render_comp flat_map comp_toks map]. fold (render_comp its). fold (comp_toks its). rewrite <- app_assoc.
    assert (Hnext : i = IStar -> starts_no_star (render_comp its ++ tl)).
    { intros ->. destruct its as [|j its']; [exact Hrest|]. cbn [render_comp flat_map]. rewrite <- app_assoc.
      cbn [forallb] in Hok. apply andb_true_iff in Hok as [Hj _]. apply item_head_no_star; [assumption|].
      intros ->. discriminate. }
    assert (Hgo : forall pv1 cu1, exists pv' cu',
               parse_all o (sk (ts ++ [item_tok i]) rest (render_comp its ++ tl) pv1 cu1) =
               parse_all o (sk (ts ++ item_tok i :: comp_toks its) rest tl pv' cu')).
    { intros pv1 cu1. destruct (IH (ts ++ [item_tok i]) rest tl pv1 cu1 Hb Hok Hadj' Hrest) as (pv' & cu' & E).
      rewrite <- app_assoc in E. eauto. }
    destruct i as [c|c| | |ms]; cbn [render_item app item_tok].
    + rewrite krun_plain by (left; exact Hi). apply Hgo.
    + rewrite krun_esc by assumption. apply Hgo.
    + rewrite krun_any. apply Hgo.
    + rewrite krun_star by (now apply Hnext). apply Hgo.
    + rewrite <- app_assoc. cbn [app]. rewrite krun_class by assumption. apply Hgo.
Qed.

(* ---- "**" between braces ---- *)
Lemma kdstar_lead o rest cs pv cu :
  parse_all o (sk [] rest (42%N :: 42%N :: 47%N :: cs) pv cu) = parse_all o (sk [TRecPrefix] rest cs (Some 42%N) (Some 47%N)).
Proof.
  apply (parse_all_step o _ 42%N (42%N :: 47%N :: cs)); [reflexivity|]. unfold sk, step, bump. cbn [chars stack cur].
  change ((42 =? 63)%N) with false. change ((42 =? 42)%N) with true. cbv iota.
  rewrite parse_star_eq. reflexivity.
Qed.

Lemma kstar_tail_slash b ts rest cs pv cu :
  star_tail b (mk_parser ((ts ++ [TLit 47]) :: rest) cs pv cu) =
  Ok (mk_parser ((ts ++ [if b then TRecSuffix else TRecZeroOrMore]) :: rest) cs pv cu).
Proof.
  unfold star_tail, pop_token, bind. cbn [stack]. rewrite rev_app_distr. cbn [rev app].
  unfold set_stack. cbn [chars prev cur]. rewrite rev_involutive. destruct b; reflexivity.
Qed.

Lemma khave_tokens_snoc ts t rest cs pv cu : have_tokens (mk_parser ((ts ++ [t]) :: rest) cs pv cu) = Ok true.
Proof. unfold have_tokens. cbn [stack]. destruct ts; reflexivity. Qed.

Lemma kdstar_mid o ts rest cs pv cu :
  parse_all o (sk ts rest (47%N :: 42%N :: 42%N :: 47%N :: cs) pv cu)
  = parse_all o (sk (ts ++ [TRecZeroOrMore]) rest cs (Some 42%N) (Some 47%N)).
Proof.
  rewrite krun_plain by now right.
  apply (parse_all_step o _ 42%N (42%N :: 47%N :: cs)); [reflexivity|]. unfold sk, step, bump. cbn [chars stack cur].
  change ((42 =? 63)%N) with false. change ((42 =? 42)%N) with true. cbv iota.
  rewrite parse_star_eq. cbv zeta. unfold peek, bump. cbn [chars stack cur prev hd_error opt_is].
  change ((42 =? 42)%N) with true. cbn [negb]. cbv iota. rewrite khave_tokens_snoc. cbn [bind negb opt_sep is_sep].
  change ((47 =? 47)%N) with true. cbn [negb andb]. cbv iota.
  change ((47 =? 44)%N) with false. change ((47 =? 125)%N) with false. cbn [orb andb]. cbv iota.
  apply kstar_tail_slash.
Qed.

(* a branch ends in "/**": the next character is ',' or '}' and the stack has two or more levels *)
Definition closes (tl : list N) : Prop := exists c cs, tl = c :: cs /\ (c = 44%N \/ c = 125%N).

Lemma closes_no_star tl : closes tl -> starts_no_star tl.
Proof. intros (c & cs & -> & [-> | ->]); unfold starts_no_star; cbn; discriminate. Qed.

Lemma kdstar_end_alt o ts r0 rest tl pv cu :
  closes tl ->
  parse_all o (sk ts (r0 :: rest) (47%N :: 42%N :: 42%N :: tl) pv cu)
  = parse_all o (sk (ts ++ [TRecSuffix]) (r0 :: rest) tl (Some 42%N) (Some 42%N)).
Proof.
  intros (c & cs & -> & Hc). rewrite krun_plain by now right.
  apply (parse_all_step o _ 42%N (42%N :: c :: cs)); [reflexivity|]. unfold sk, step, bump. cbn [chars stack cur].
  change ((42 =? 63)%N) with false. change ((42 =? 42)%N) with true. cbv iota.
  rewrite parse_star_eq. cbv zeta. unfold peek, bump. cbn [chars stack cur prev hd_error opt_is].
  change ((42 =? 42)%N) with true. cbn [negb]. cbv iota. rewrite khave_tokens_snoc. cbn [bind negb opt_sep is_sep].
  change ((47 =? 47)%N) with true. cbn [negb andb]. cbv iota.
  assert (E : ((c =? 44) || (c =? 125))%N = true) by (destruct Hc as [-> | ->]; reflexivity).
  rewrite E. cbn [length Nat.leb andb]. cbv iota.
  apply kstar_tail_slash.
Qed.

(* ---- one alternative ---- *)
Lemma krun_after_n o n : forall ps ts r0 rest tl pv cu,
  length ps <= n -> backslash_escape o = true ->
  forallb piece_ok ps = true -> no_adjacent_dstar_p ps = true -> closes tl ->
  exists pv' cu', parse_all o (sk ts (r0 :: rest) (render_after ps ++ tl) pv cu)
                  = parse_all o (sk (ts ++ after_piece ps) (r0 :: rest) tl pv' cu').
Proof.
  induction n as [|n IH]; intros ps ts r0 rest tl pv cu Hlen Hb Hok Hadj Htl.
  { destruct ps; [|cbn in Hlen; lia]. cbn. rewrite app_nil_r. eauto. }
  destruct ps as [|p r]; [cbn; rewrite app_nil_r; eauto|].
  cbn [length] in Hlen. cbn [forallb] in Hok. apply andb_true_iff in Hok as [Hp Hok].
  assert (Hst : forall q, starts_no_star (render_after q ++ tl)).
  { intro q. destruct q; [apply closes_no_star; exact Htl|]. cbn. unfold starts_no_star. cbn. discriminate. }
  destruct p as [its|].
  - apply piece_ok_comp in Hp as [Hits Hadjs]. assert (Hadj' : no_adjacent_dstar_p r = true) by exact Hadj.
    cbn [render_after flat_map render_piece after_piece]. fold (render_after r). rewrite <- !app_assoc, <- app_comm_cons.
    rewrite krun_plain by now right.
    destruct (krun_comp o its (ts ++ [TLit 47]) (r0 :: rest) (render_after r ++ tl) cu (Some 47%N) Hb Hits Hadjs (Hst r))
      as (pv1 & cu1 & ->).
    destruct (IH r ((ts ++ [TLit 47]) ++ comp_toks its) r0 rest tl pv1 cu1 ltac:(lia) Hb Hok Hadj' Htl) as (pv2 & cu2 & ->).
    rewrite <- !app_assoc. cbn [app]. eauto.
  - destruct r as [|[its|] r'].
    + cbn [render_after flat_map render_piece after_piece app]. rewrite kdstar_end_alt by exact Htl. eauto.
    + cbn [forallb] in Hok. apply andb_true_iff in Hok as [Hp2 Hok']. apply piece_ok_comp in Hp2 as [Hits Hadjs].
      assert (Hadj' : no_adjacent_dstar_p r' = true) by exact Hadj. cbn [length] in Hlen.
      cbn [render_after flat_map render_piece after_piece app]. fold (render_after r'). rewrite <- !app_assoc.
      cbn [app]. rewrite kdstar_mid.
      destruct (krun_comp o its (ts ++ [TRecZeroOrMore]) (r0 :: rest) (render_after r' ++ tl) (Some 42%N) (Some 47%N) Hb Hits Hadjs
                         (Hst r')) as (pv1 & cu1 & ->).
      destruct (IH r' ((ts ++ [TRecZeroOrMore]) ++ comp_toks its) r0 rest tl pv1 cu1 ltac:(lia) Hb Hok' Hadj' Htl) as (pv2 & cu2 & ->).
      rewrite <- !app_assoc. cbn [app]. eauto.
    + discriminate.
Qed.

Lemma krun_branch o b r0 rest tl pv cu :
  backslash_escape o = true -> branch_ok b = true -> closes tl ->
  exists pv' cu', parse_all o (sk [] (r0 :: rest) (render_glob b ++ tl) pv cu)
                  = parse_all o (sk (glob_tokens b) (r0 :: rest) tl pv' cu').
Proof.
  intros Hb Hok Htl. destruct b as [|p r]; [cbn; eauto|].
  unfold branch_ok in Hok. apply andb_true_iff in Hok as [Hok Hlone].
  unfold glob_ok in Hok. apply andb_true_iff in Hok as [Hok _]. apply andb_true_iff in Hok as [Hps Hadj].
  rewrite render_glob_cons. cbn [forallb] in Hps. apply andb_true_iff in Hps as [Hp Hr].
  assert (Hst : forall q, starts_no_star (render_after q ++ tl)).
  { intro q. destruct q; [apply closes_no_star; exact Htl|]. cbn. unfold starts_no_star. cbn. discriminate. }
  destruct p as [its|].
  - apply piece_ok_comp in Hp as [Hits Hadjs]. assert (Hadj' : no_adjacent_dstar_p r = true) by exact Hadj.
    cbn [render_piece glob_tokens]. rewrite <- app_assoc.
    destruct (krun_comp o its [] (r0 :: rest) (render_after r ++ tl) pv cu Hb Hits Hadjs (Hst r)) as (pv1 & cu1 & ->).
    destruct (krun_after_n o (length r) r ([] ++ comp_toks its) r0 rest tl pv1 cu1 (le_n _) Hb Hr Hadj' Htl) as (pv2 & cu2 & ->).
    cbn [app]. eauto.
  - destruct r as [|[its|] r'].
    + discriminate.
    + cbn [forallb] in Hr. apply andb_true_iff in Hr as [Hp2 Hr']. apply piece_ok_comp in Hp2 as [Hits Hadjs].
      assert (Hadj' : no_adjacent_dstar_p r' = true) by exact Hadj.
      cbn [render_piece render_after flat_map app glob_tokens]. fold (render_after r'). rewrite <- !app_assoc. cbn [app].
      rewrite kdstar_lead.
      destruct (krun_comp o its [TRecPrefix] (r0 :: rest) (render_after r' ++ tl) (Some 42%N) (Some 47%N) Hb Hits Hadjs (Hst r'))
        as (pv1 & cu1 & ->).
      destruct (krun_after_n o (length r') r' ([TRecPrefix] ++ comp_toks its) r0 rest tl pv1 cu1 (le_n _) Hb Hr' Hadj' Htl)
        as (pv2 & cu2 & ->).
      cbn [app]. eauto.
    + discriminate.
Qed.

(* ---- the alternation: `{` b1 `,` … `,` bn `}` on a one-level stack ---- *)
Lemma pop_alts_levels l : forall base acc, pop_alts (l ++ [base]) acc = ([base], acc ++ l).
Proof.
  induction l as [|x l IH]; intros base acc.
  - cbn. now rewrite app_nil_r.
  - cbn [app pop_alts]. destruct (l ++ [base]) as [|y z] eqn:E; [destruct l; discriminate|]. rewrite <- E, IH.
    rewrite <- app_assoc. reflexivity.
Qed.

Lemma run_branches o bs : forall done base cs pv cu,
  backslash_escape o = true -> bs <> [] -> forallb branch_ok bs = true ->
  exists pv' cu',
    parse_all o (mk_parser ([] :: done ++ [base]) (render_branches bs ++ 125%N :: cs) pv cu)
    = parse_all o (st (base ++ [TAlt (rev (map glob_tokens bs) ++ done)]) cs pv' cu').
Proof.
  induction bs as [|b r IH]; intros done base cs pv cu Hb Hne Hok; [congruence|].
  cbn [forallb] in Hok. apply andb_true_iff in Hok as [Hbk Hr].
  assert (Hlv : exists r0 rest, done ++ [base] = r0 :: rest) by (destruct done; cbn; eauto).
  destruct Hlv as (r0 & rest & Elv).
  destruct r as [|b2 r'].
  - cbn [render_branches map rev app]. rewrite Elv.
    destruct (krun_branch o b r0 rest (125%N :: cs) pv cu Hb Hbk) as (pv1 & cu1 & E1); [red; eauto|].
    fold (sk [] (r0 :: rest) (render_glob b ++ 125%N :: cs) pv cu). rewrite E1.
    exists cu1, (Some 125%N).
    apply (parse_all_step o _ 125%N cs); [reflexivity|]. unfold sk, step, bump. cbn [chars stack cur].
    change ((125 =? 63)%N) with false. change ((125 =? 42)%N) with false. change ((125 =? 91)%N) with false.
    change ((125 =? 123)%N) with false. change ((125 =? 125)%N) with true. cbv iota.
    unfold pop_alternate. cbn [stack]. rewrite <- Elv.
    change (glob_tokens b :: done ++ [base]) with ((glob_tokens b :: done) ++ [base]).
    rewrite pop_alts_levels. cbn [app]. reflexivity.
  - set (r := b2 :: r') in *.
    change (render_branches (b :: r)) with (render_glob b ++ 44%N :: render_branches r).
    rewrite <- app_assoc, <- app_comm_cons. rewrite Elv.
    destruct (krun_branch o b r0 rest (44%N :: render_branches r ++ 125%N :: cs) pv cu Hb Hbk) as (pv1 & cu1 & E1); [red; eauto|].
    fold (sk [] (r0 :: rest) (render_glob b ++ 44%N :: render_branches r ++ 125%N :: cs) pv cu). rewrite E1.
    destruct (IH (glob_tokens b :: done) base cs cu1 (Some 44%N) Hb ltac:(discriminate) Hr) as (pv2 & cu2 & E2).
    exists pv2, cu2. cbn [map rev]. rewrite <- app_assoc. cbn [app]. rewrite <- E2.
    apply (parse_all_step o _ 44%N (render_branches r ++ 125%N :: cs)); [reflexivity|]. unfold sk, step, bump. cbn [chars stack cur].
    change ((44 =? 63)%N) with false. change ((44 =? 42)%N) with false. change ((44 =? 91)%N) with false.
    change ((44 =? 123)%N) with false. change ((44 =? 125)%N) with false. change ((44 =? 44)%N) with true. cbv iota.
    unfold parse_comma. cbn [stack length Nat.leb]. cbv iota. unfold set_stack. cbn [chars prev cur stack].
    rewrite <- Elv. reflexivity.
Qed.

Lemma run_alt o bs ts cs pv cu :
  backslash_escape o = true -> aitem_ok_with branch_ok (AAlt bs) = true ->
  exists pv' cu',
    parse_all o (st ts (render_aitem (AAlt bs) ++ cs) pv cu)
    = parse_all o (st (ts ++ [tok_parser_order (aitem_tok (AAlt bs))]) cs pv' cu').
Proof.
  intros Hb Hok. cbn [aitem_ok_with] in Hok. apply andb_true_iff in Hok as [Hbs Hne].
  assert (Hne' : bs <> []) by (destruct bs; [discriminate|discriminate]).
  cbn [render_aitem aitem_tok tok_parser_order]. rewrite <- app_comm_cons, <- app_assoc. cbn [app].
  destruct (run_branches o bs [] ts cs cu (Some 123%N) Hb Hne' Hbs) as (pv1 & cu1 & E).
  rewrite app_nil_r in E. cbn [app] in E. rewrite <- map_rev. exists pv1, cu1. rewrite map_rev, <- E.
  apply (parse_all_step o _ 123%N (render_branches bs ++ 125%N :: cs)); [reflexivity|]. reflexivity.
Qed.

(* ---- a component with alternations, top level ---- *)
Lemma run_comma o ts cs pv cu :
  parse_all o (st ts (44%N :: cs) pv cu) = parse_all o (st (ts ++ [TLit 44]) cs cu (Some 44%N)).
Proof. apply (parse_all_step o _ 44%N cs); reflexivity. Qed.

Lemma aitem_head_no_star i r : aitem_ok_with branch_ok i = true -> i <> AIt IStar -> starts_no_star (render_aitem i ++ r).
Proof.
  destruct i as [i| |bs]; intros H Hn.
  - cbn [render_aitem]. apply item_head_no_star; [exact H|]. intros ->. now apply Hn.
  - unfold starts_no_star. cbn. discriminate.
  - unfold starts_no_star. cbn. discriminate.
Qed.

Lemma run_acomp o its : forall ts tl pv cu,
  backslash_escape o = true -> forallb (aitem_ok_with branch_ok) its = true -> no_adjacent_astar its = true ->
  starts_no_star tl ->
  exists pv' cu', parse_all o (st ts (render_acomp its ++ tl) pv cu)
                  = parse_all o (st (ts ++ parser_order (acomp_toks its)) tl pv' cu').
Proof.
  induction its as [|i its IH]; intros ts tl pv cu Hb Hok Hadj Hrest.
  - cbn. rewrite app_nil_r. eauto.
  - cbn [forallb] in Hok. apply andb_true_iff in Hok as [Hi Hok].
    assert (Hadj' : no_adjacent_astar its = true).
    { destruct i as [[]| |]; try exact Hadj; destruct its as [|[[]| |]]; try exact Hadj; discriminate. }
    cbn [render_acomp flat_map acomp_toks map parser_order]. fold (render_acomp its). fold (acomp_toks its).
    fold (parser_order (acomp_toks its)). rewrite <- app_assoc.
    assert (Hnext : i = AIt IStar -> starts_no_star (render_acomp its ++ tl)).
    { intros ->. destruct its as [|j its']; [exact Hrest|]. cbn [render_acomp flat_map]. rewrite <- app_assoc.
      cbn [forallb] in Hok. apply andb_true_iff in Hok as [Hj _]. apply aitem_head_no_star; [assumption|].
      intros ->. discriminate. }
    assert (Hgo : forall pv1 cu1, exists pv' cu',
               parse_all o (st (ts ++ [tok_parser_order (aitem_tok i)]) (render_acomp its ++ tl) pv1 cu1) =
               parse_all o (st (ts ++ tok_parser_order (aitem_tok i) :: parser_order (acomp_toks its)) tl pv' cu')).
    { intros pv1 cu1. destruct (IH (ts ++ [tok_parser_order (aitem_tok i)]) tl pv1 cu1 Hb Hok Hadj' Hrest) as (pv' & cu' & E).
      rewrite <- app_assoc in E. eauto. }
    destruct i as [[c|c| | |ms]| |bs].
    + cbn [render_aitem render_item app aitem_tok item_tok tok_parser_order]. rewrite run_plain by (left; exact Hi). apply Hgo.
    + cbn [render_aitem render_item app aitem_tok item_tok tok_parser_order]. rewrite run_esc by assumption. apply Hgo.
    + cbn [render_aitem render_item app aitem_tok item_tok tok_parser_order]. rewrite run_any. apply Hgo.
    + cbn [render_aitem render_item app aitem_tok item_tok tok_parser_order]. rewrite run_star by (now apply Hnext). apply Hgo.
    + cbn [render_aitem render_item app aitem_tok item_tok tok_parser_order]. rewrite <- app_assoc. cbn [app].
      rewrite run_class by assumption. apply Hgo.
    + cbn [render_aitem app aitem_tok tok_parser_order]. rewrite run_comma. apply Hgo.
    + destruct (run_alt o bs ts (render_acomp its ++ tl) pv cu Hb Hi) as (pv1 & cu1 & ->). apply Hgo.
Qed.

(* ---- the whole glob ---- *)
Definition arender_after (ps : list apiece) : list N := flat_map (fun p => 47%N :: render_apiece p) ps.

Lemma render_aglob_cons p r : render_aglob (p :: r) = render_apiece p ++ arender_after r.
Proof.
  revert p; induction r as [|q r IH]; intro p.
  - cbn. now rewrite app_nil_r.
  - change (render_aglob (p :: q :: r)) with (render_apiece p ++ 47%N :: render_aglob (q :: r)).
    rewrite IH. reflexivity.
Qed.

Lemma arender_after_starts ps : starts_no_star (arender_after ps).
Proof. destruct ps; cbn; discriminate. Qed.

Lemma apiece_ok_comp its :
  apiece_ok_with branch_ok (APComp its) = true ->
  forallb (aitem_ok_with branch_ok) its = true /\ no_adjacent_astar its = true.
Proof. cbn. intro H. apply andb_true_iff in H as [H _]. now apply andb_true_iff in H. Qed.

Lemma parser_order_app a b : parser_order (a ++ b) = parser_order a ++ parser_order b.
Proof. apply map_app. Qed.

Lemma run_aafter_n o n : forall ps ts pv cu,
  length ps <= n -> backslash_escape o = true ->
  forallb (apiece_ok_with branch_ok) ps = true -> no_adjacent_dstar_a ps = true ->
  exists pv' cu', parse_all o (st ts (arender_after ps) pv cu)
                  = parse_all o (st (ts ++ parser_order (aafter_piece ps)) [] pv' cu').
Proof.
  induction n as [|n IH]; intros ps ts pv cu Hlen Hb Hok Hadj.
  { destruct ps; [|cbn in Hlen; lia]. cbn. rewrite app_nil_r. eauto. }
  destruct ps as [|p r]; [cbn; rewrite app_nil_r; eauto|].
  cbn [length] in Hlen. cbn [forallb] in Hok. apply andb_true_iff in Hok as [Hp Hok].
  destruct p as [its|].
  - apply apiece_ok_comp in Hp as [Hits Hadjs]. assert (Hadj' : no_adjacent_dstar_a r = true) by exact Hadj.
    cbn [arender_after flat_map render_apiece aafter_piece]. fold (arender_after r). rewrite <- app_comm_cons.
    rewrite run_plain by now right.
    destruct (run_acomp o its (ts ++ [TLit 47]) (arender_after r) cu (Some 47%N) Hb Hits Hadjs (arender_after_starts r))
      as (pv1 & cu1 & ->).
    destruct (IH r ((ts ++ [TLit 47]) ++ parser_order (acomp_toks its)) pv1 cu1 ltac:(lia) Hb Hok Hadj') as (pv2 & cu2 & ->).
    cbn [parser_order map tok_parser_order]. fold (parser_order (acomp_toks its ++ aafter_piece r)).
    rewrite parser_order_app, <- !app_assoc. cbn [app]. eauto.
  - destruct r as [|[its|] r'].
    + cbn [arender_after flat_map render_apiece aafter_piece app]. rewrite run_dstar_end. eauto.
    + cbn [forallb] in Hok. apply andb_true_iff in Hok as [Hp2 Hok']. apply apiece_ok_comp in Hp2 as [Hits Hadjs].
      assert (Hadj' : no_adjacent_dstar_a r' = true) by exact Hadj. cbn [length] in Hlen.
      cbn [arender_after flat_map render_apiece aafter_piece app]. fold (arender_after r').
      rewrite run_dstar_mid.
      destruct (run_acomp o its (ts ++ [TRecZeroOrMore]) (arender_after r') (Some 42%N) (Some 47%N) Hb Hits Hadjs
                         (arender_after_starts r')) as (pv1 & cu1 & ->).
      destruct (IH r' ((ts ++ [TRecZeroOrMore]) ++ parser_order (acomp_toks its)) pv1 cu1 ltac:(lia) Hb Hok' Hadj') as (pv2 & cu2 & ->).
      cbn [parser_order map tok_parser_order]. fold (parser_order (acomp_toks its ++ aafter_piece r')).
      rewrite parser_order_app, <- !app_assoc. cbn [app]. eauto.
    + discriminate.
Qed.

Theorem build_render_alt_proof o ps :
  backslash_escape o = true -> aglob_ok ps = true ->
  build o (render_aglob ps) = Some (Ok (parser_order (aglob_tokens ps))).
Proof.
  intros Hb Hok. unfold aglob_ok, aglob_ok_with in Hok. apply andb_true_iff in Hok as [Hok Hne].
  apply andb_true_iff in Hok as [Hps Hadj].
  destruct ps as [|p r]; [discriminate|]. clear Hne. rewrite build_parse_all, render_aglob_cons.
  cbn [forallb] in Hps. apply andb_true_iff in Hps as [Hp Hr].
  assert (Hfin : forall ts pv cu, match parse_all o (st ts [] pv cu) with
                                  | None => None | Some (Err e) => Some (Err e)
                                  | Some (Ok p0) => match stack p0 with [] => Some (Err UnopenedAlternates)
                                                                | [ts0] => Some (Ok ts0) | _ => Some (Err UnclosedAlternates) end
                                  end = Some (Ok ts)).
  { intros. rewrite parse_all_end by reflexivity. reflexivity. }
  destruct p as [its|].
  - apply apiece_ok_comp in Hp as [Hits Hadjs]. assert (Hadj' : no_adjacent_dstar_a r = true) by exact Hadj.
    cbn [render_apiece aglob_tokens].
    destruct (run_acomp o its [] (arender_after r) None None Hb Hits Hadjs (arender_after_starts r)) as (pv1 & cu1 & ->).
    destruct (run_aafter_n o (length r) r ([] ++ parser_order (acomp_toks its)) pv1 cu1 (le_n _) Hb Hr Hadj') as (pv2 & cu2 & ->).
    cbn [app]. rewrite <- parser_order_app. apply Hfin.
  - destruct r as [|[its|] r'].
    + cbn [render_apiece arender_after flat_map app aglob_tokens]. rewrite run_dstar_lone. apply Hfin.
    + cbn [forallb] in Hr. apply andb_true_iff in Hr as [Hp2 Hr']. apply apiece_ok_comp in Hp2 as [Hits Hadjs].
      assert (Hadj' : no_adjacent_dstar_a r' = true) by exact Hadj.
      cbn [render_apiece arender_after flat_map app aglob_tokens]. fold (arender_after r').
      rewrite run_dstar_lead.
      destruct (run_acomp o its [TRecPrefix] (arender_after r') (Some 42%N) (Some 47%N) Hb Hits Hadjs (arender_after_starts r'))
        as (pv1 & cu1 & ->).
      destruct (run_aafter_n o (length r') r' ([TRecPrefix] ++ parser_order (acomp_toks its)) pv1 cu1 (le_n _) Hb Hr' Hadj')
        as (pv2 & cu2 & ->).
      cbn [app parser_order map tok_parser_order]. fold (parser_order (acomp_toks its ++ aafter_piece r')).
      rewrite parser_order_app. apply Hfin.
    + discriminate.
Qed.

(* ---- the alternate-free syntax is the sub-syntax without AComma/AAlt: same text, same tokens, same verdict ---- *)
Lemma inj_render_comp its : render_acomp (map AIt its) = render_comp its.
Proof. induction its as [|i r IH]; [reflexivity|]. cbn [map render_acomp flat_map render_aitem]. fold (render_acomp (map AIt r)). rewrite IH. reflexivity. Qed.

Lemma inj_render_piece p : render_apiece (piece_inj p) = render_piece p.
Proof. destruct p; [apply inj_render_comp|reflexivity]. Qed.

Lemma inj_render ps : render_aglob (map piece_inj ps) = render_glob ps.
Proof.
  induction ps as [|p r IH]; [reflexivity|]. destruct r as [|q r'].
  - cbn [map render_aglob render_glob]. apply inj_render_piece.
  - change (render_aglob (map piece_inj (p :: q :: r'))) with
      (render_apiece (piece_inj p) ++ 47%N :: render_aglob (map piece_inj (q :: r'))).
    rewrite IH, inj_render_piece. reflexivity.
Qed.

Lemma inj_comp_toks its : acomp_toks (map AIt its) = comp_toks its.
Proof. unfold acomp_toks, comp_toks. rewrite map_map. reflexivity. Qed.

Lemma inj_after n : forall ps, length ps <= n -> aafter_piece (map piece_inj ps) = after_piece ps.
Proof.
  induction n as [|n IH]; intros ps Hl; [destruct ps; [reflexivity|cbn in Hl; lia]|].
  destruct ps as [|[its|] r]; [reflexivity| |]; cbn [length] in Hl.
  - cbn [map piece_inj aafter_piece after_piece]. rewrite inj_comp_toks, IH by lia. reflexivity.
  - destruct r as [|[its|] r']; [reflexivity| |reflexivity]. cbn [length] in Hl.
    cbn [map piece_inj aafter_piece after_piece]. rewrite inj_comp_toks, IH by lia. reflexivity.
Qed.

Lemma inj_tokens ps : aglob_tokens (map piece_inj ps) = glob_tokens ps.
Proof.
  destruct ps as [|[its|] r]; [reflexivity| |].
  - cbn [map piece_inj aglob_tokens glob_tokens]. now rewrite inj_comp_toks, (inj_after (length r)).
  - destruct r as [|[its|] r']; [reflexivity| |reflexivity].
    cbn [map piece_inj aglob_tokens glob_tokens]. now rewrite inj_comp_toks, (inj_after (length r')).
Qed.

Lemma forallb_map_c {A B} (f : A -> B) (g : B -> bool) l : forallb g (map f l) = forallb (fun x => g (f x)) l.
Proof. induction l as [|x r IH]; [reflexivity|]. cbn [map forallb]. now rewrite IH. Qed.
Lemma forallb_ext_c {A} (f g : A -> bool) l : (forall x, f x = g x) -> forallb f l = forallb g l.
Proof. intro H. induction l as [|x r IH]; [reflexivity|]. cbn [forallb]. now rewrite H, IH. Qed.

Lemma inj_ok_comp its :
  forallb (aitem_ok_with branch_ok) (map AIt its) = forallb item_ok its /\
  no_adjacent_astar (map AIt its) = no_adjacent_star its.
Proof.
  split.
  - rewrite forallb_map_c. reflexivity.
  - induction its as [|i r IH]; [reflexivity|]. destruct i; cbn [map no_adjacent_astar no_adjacent_star]; try exact IH.
    destruct r as [|[] r']; cbn [map] in *; try exact IH; reflexivity.
Qed.

Lemma inj_ok ps : aglob_ok (map piece_inj ps) = glob_ok ps.
Proof.
  unfold aglob_ok, aglob_ok_with, glob_ok. f_equal; [f_equal|destruct ps; reflexivity].
  - rewrite forallb_map_c. apply forallb_ext_c. intros [its|]; [|reflexivity].
    cbn [piece_inj apiece_ok_with piece_ok]. destruct (inj_ok_comp its) as [-> ->]. destruct its; reflexivity.
  - induction ps as [|p r IH]; [reflexivity|]. destruct p; cbn [map piece_inj no_adjacent_dstar_a no_adjacent_dstar_p]; try exact IH.
    destruct r as [|[] r']; cbn [map piece_inj] in *; try exact IH; reflexivity.
Qed.

Lemma parser_order_alt_free ps : parser_order (glob_tokens ps) = glob_tokens ps.
Proof.
  assert (Hc : forall its, parser_order (comp_toks its) = comp_toks its).
  { intro its. unfold parser_order, comp_toks. rewrite map_map. apply map_ext. intros []; reflexivity. }
  assert (Ha : forall n ps, length ps <= n -> parser_order (after_piece ps) = after_piece ps).
  { induction n as [|n IH]; intros qs Hl; [destruct qs; [reflexivity|cbn in Hl; lia]|].
    destruct qs as [|[its|] r]; [reflexivity| |]; cbn [length] in Hl.
    - cbn [after_piece]. change (parser_order (TLit 47 :: ?x)) with (TLit 47 :: parser_order x).
      cbn [parser_order map tok_parser_order]. fold (parser_order (comp_toks its ++ after_piece r)).
      rewrite parser_order_app, Hc, IH by lia. reflexivity.
    - destruct r as [|[its|] r']; [reflexivity| |reflexivity]. cbn [length] in Hl. cbn [after_piece].
      cbn [parser_order map tok_parser_order]. fold (parser_order (comp_toks its ++ after_piece r')).
      rewrite parser_order_app, Hc, IH by lia. reflexivity. }
  destruct ps as [|[its|] r]; [reflexivity| |].
  - cbn [glob_tokens]. rewrite parser_order_app, Hc, (Ha (length r)) by lia. reflexivity.
  - destruct r as [|[its|] r']; [reflexivity| |reflexivity]. cbn [glob_tokens].
    cbn [parser_order map tok_parser_order]. fold (parser_order (comp_toks its ++ after_piece r')).
    rewrite parser_order_app, Hc, (Ha (length r')) by lia. reflexivity.
Qed.

Theorem alt_syntax_conservative_proof ps :
  render_aglob (map piece_inj ps) = render_glob ps /\
  parser_order (aglob_tokens (map piece_inj ps)) = glob_tokens ps /\
  aglob_ok (map piece_inj ps) = glob_ok ps.
Proof. rewrite inj_tokens, parser_order_alt_free. auto using inj_render, inj_ok. Qed.
