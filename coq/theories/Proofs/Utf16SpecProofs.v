(* Proofs/Utf16SpecProofs.v — the streaming UTF-16 decoder of Model/Decode.v computes Spec/Utf16Spec.v *)
From RG Require Import Base.Bytes Model.Decode Spec.Utf16Spec Proofs.DecodeProofs.

Fixpoint units_run (st : u16_state) (us : list N) : bytes * u16_state :=
  match us with
  | [] => ([], st)
  | u :: r => let (o, st1) := u16_unit st u in
              let (o2, st2) := units_run st1 r in (o ++ o2, st2)
  end.

Definition is_some' {A} (o : option A) : bool := match o with Some _ => true | None => false end.

Definition out_bytes (be : bool) (st : u16_state) (s : bytes) : bytes :=
  let (o, st') := u16_feed be st s in o ++ u16_finish st'.
Definition out_units (st : u16_state) (us : list N) (odd : bool) : bytes :=
  let (o, st') := units_run st us in o ++ (if odd || is_some' (u_high st') then replacement else []).

Lemma unit_nobyte st u : u_byte (snd (u16_unit st u)) = None.
Proof.
  unfold u16_unit. destruct (u_start st && (u =? 65279)%N); [reflexivity|].
  destruct (u_high st); [destruct (is_low u); [reflexivity|destruct (is_high u); reflexivity]|].
  destruct (is_high u); [reflexivity|destruct (is_low u); reflexivity].
Qed.

Lemma feed_two be st b0 b1 r : u_byte st = None ->
  u16_feed be st (b0 :: b1 :: r) =
  let (o, st1) := u16_unit st (if be then b0 * 256 + b1 else b1 * 256 + b0)%N in
  let (o2, st2) := u16_feed be st1 r in (o ++ o2, st2).
Proof.
  intro H. destruct st as [s0 by0 hi]. cbn in H. subst by0. cbn [u16_feed]. unfold u16_step at 1. cbn [u_byte u_start u_high].
  unfold u16_step at 1. cbn [u_byte u_start u_high].
  destruct (u16_unit {| u_start := s0; u_byte := None; u_high := hi |} (if be then (b0 * 256 + b1)%N else (b1 * 256 + b0)%N)) as [o st1].
  destruct (u16_feed be st1 r) as [o2 st2]. reflexivity.
Qed.

Lemma out_units_cons st u r odd :
  out_units st (u :: r) odd = fst (u16_unit st u) ++ out_units (snd (u16_unit st u)) r odd.
Proof.
  unfold out_units. cbn [units_run]. destruct (u16_unit st u) as [o st1]. cbn [fst snd].
  destruct (units_run st1 r) as [o2 st2]. now rewrite app_assoc.
Qed.

Lemma bytes_units be : forall s st, u_byte st = None ->
  out_bytes be st s = out_units st (fst (code_units be s)) (snd (code_units be s)) /\
  forall x, out_bytes be st (x :: s) = out_units st (fst (code_units be (x :: s))) (snd (code_units be (x :: s))).
Proof.
  induction s as [|y s IH]; intros st Hst.
  - split.
    + unfold out_bytes, out_units. cbn. unfold u16_finish. rewrite Hst. destruct (u_high st); reflexivity.
    + intro x. unfold out_bytes, out_units. cbn. unfold u16_step. rewrite Hst. cbn. unfold u16_finish. cbn.
      destruct (u_high st); reflexivity.
  - split; [apply (proj2 (IH st Hst))|]. intro x.
    unfold out_bytes. rewrite feed_two by exact Hst.
    cbn [code_units]. destruct (code_units be s) as [us odd] eqn:Ec. cbn [fst snd].
    rewrite out_units_cons.
    destruct (u16_unit st (if be then (x * 256 + y)%N else (y * 256 + x)%N)) as [o st1] eqn:Eu. cbn [fst snd].
    assert (H1 : u_byte st1 = None) by (pose proof (unit_nobyte st (if be then (x * 256 + y)%N else (y * 256 + x)%N)) as X; rewrite Eu in X; exact X).
    destruct (IH st1 H1) as [IH1 _]. unfold out_bytes in IH1. try rewrite Ec in IH1. cbn [fst snd] in IH1.
    destruct (u16_feed be st1 s) as [o2 st2]. rewrite <- app_assoc. f_equal. exact IH1.
Qed.

Definition st_clean : u16_state := mk_u16 false None None.
Definition st_high (h : N) : u16_state := mk_u16 false None (Some h).

Lemma enc_cons cp r : utf8_of_scalars (cp :: r) = utf8_encode cp ++ utf8_of_scalars r.
Proof. reflexivity. Qed.

Lemma enc_fffd : utf8_encode fffd = replacement.
Proof. vm_compute. reflexivity. Qed.

Lemma run_scalars odd : forall us,
  out_units st_clean us odd = utf8_of_scalars (scalars us odd) /\
  forall h, is_high h = true -> out_units (st_high h) us odd = utf8_of_scalars (scalars (h :: us) odd).
Proof.
  unfold st_clean, st_high.
  induction us as [|u r [IHA IHB]].
  - split.
    + unfold out_units. cbn. destruct odd; reflexivity.
    + intros h Hh. unfold out_units. cbn [units_run u_high is_some' app]. rewrite Bool.orb_true_r.
      cbn [scalars]. rewrite Hh. reflexivity.
  - split.
    + rewrite out_units_cons. unfold u16_unit. cbn [u_start u_high andb].
      destruct (is_high u) eqn:Eh.
      * cbn [fst snd app]. rewrite (IHB u Eh). reflexivity.
      * destruct (is_low u) eqn:El; cbn [fst snd]; rewrite IHA; cbn [scalars]; rewrite Eh, El, enc_cons, ?enc_fffd; reflexivity.
    + intros h Hh. rewrite out_units_cons. unfold u16_unit. cbn [u_start u_high andb].
      destruct (is_low u) eqn:El.
      * cbn [fst snd]. rewrite IHA. cbn [scalars]. rewrite Hh, El, enc_cons. reflexivity.
      * destruct (is_high u) eqn:Eh; cbn [fst snd].
        -- rewrite (IHB u Eh). cbn [scalars]. rewrite Hh, El, Eh, enc_cons, enc_fffd. cbn [scalars]. reflexivity.
        -- rewrite IHA. cbn [scalars]. rewrite Hh, El, Eh, !enc_cons, enc_fffd, <- app_assoc. reflexivity.
Qed.

Lemma run_start odd us :
  out_units u16_init us odd = utf8_of_scalars (scalars (strip_bom_unit us) odd).
Proof.
  destruct us as [|u r].
  - unfold out_units. cbn. destruct odd; reflexivity.
  - rewrite out_units_cons. cbn [strip_bom_unit]. unfold u16_unit, u16_init. cbn [u_start u_high andb].
    destruct (u =? 65279)%N eqn:E.
    + cbn [fst snd app]. apply (run_scalars odd r).
    + change (match @None N with Some h => _ | None => ?x end) with x.
      pose proof (proj1 (run_scalars odd (u :: r))) as H. rewrite out_units_cons in H.
      unfold u16_unit, st_clean in H. cbn [u_start u_high andb] in H. exact H.
Qed.

(* the streaming decoder = the declarative specification, for every input ... *)
Lemma utf16_decoder_eq_spec_proof be s : utf16_to_utf8 be s = utf16_spec be s.
Proof.
  change (utf16_to_utf8 be s) with (out_bytes be u16_init s).
  rewrite (proj1 (bytes_units be s u16_init eq_refl)). unfold utf16_spec, utf16_scalars.
  destruct (code_units be s) as [us odd]. cbn [fst snd]. apply run_start.
Qed.

(* ... and every fragmentation *)
Lemma utf16_stream_eq_spec_proof be chunks : u16_stream be u16_init chunks = utf16_spec be (concat chunks).
Proof. rewrite utf16_chunk_independent_proof. apply utf16_decoder_eq_spec_proof. Qed.

(* ---------- what the searcher is given for UTF-16 input ---------- *)
Lemma peeked_utf16 (m : encoding_mode) (s : bytes) (a b : N) :
  m <> EncDisabled -> length s >= 3 -> starts2 a b s = true ->
  (a = 255%N /\ b = 254%N) \/ (a = 254%N /\ b = 255%N) ->
  peeked_stream (decode_settings_of (enc_config_of m)) s = skipn 2 s.
Proof.
  intros Hm Hl Hs Hab. unfold peeked_stream, possible_bom.
  assert (Hstrip : ds_strip_bom (decode_settings_of (enc_config_of m)) = true) by (destruct m; [reflexivity|reflexivity|contradiction]).
  rewrite Hstrip. cbn [negb]. unfold bom_as_slice. cbn [orb].
  destruct s as [|x [|y [|z r]]]; cbn in Hl; try lia. cbn [firstn length Nat.leb skipn].
  cbn in Hs. apply andb_true_iff in Hs as [Hx Hy]. apply N.eqb_eq in Hx, Hy. subst x y.
  destruct Hab as [[-> ->]|[-> ->]]; reflexivity.
Qed.

Lemma searched_utf16_marked_proof m s :
  m <> EncDisabled -> length s >= 3 ->
  (starts2 255 254 s = true -> searched_bytes m s = Some (utf16_spec false (skipn 2 s))) /\
  (starts2 254 255 s = true -> searched_bytes m s = Some (utf16_spec true (skipn 2 s))).
Proof.
  intros Hm Hl. destruct (utf16_mark_overrides_label_proof m s Hm Hl) as [Hle Hbe].
  split; intro H; unfold searched_bytes.
  - rewrite (Hle H), (peeked_utf16 m s 255 254 Hm Hl H) by tauto. cbn [decode_with]. f_equal. apply utf16_decoder_eq_spec_proof.
  - rewrite (Hbe H), (peeked_utf16 m s 254 255 Hm Hl H) by tauto. cbn [decode_with]. f_equal. apply utf16_decoder_eq_spec_proof.
Qed.

Lemma searched_utf16_label_proof (be : bool) (s : bytes) :
  for_bom s = None ->
  searched_bytes (EncSome (if be then Utf16be else Utf16le)) s = Some (utf16_spec be s).
Proof.
  intro F. unfold searched_bytes. rewrite selection_table_proof, (for_bom_none_encoding _ F).
  unfold peeked_stream, possible_bom.
  cbn [decode_settings_of enc_config_of ds_strip_bom ec_bom_sniffing negb label_of].
  rewrite (for_bom_none_slice _ F), firstn_skipn.
  destruct be; cbn [decode_with]; f_equal; apply utf16_decoder_eq_spec_proof.
Qed.
